package proxy

// C18 conformance: every scenario TLC generated from spec/Shutdown.tla (a configuration of
// listeners, work items accepted before shutdown starts, the moment shutdown starts, the fate
// of each item in the design) is played against the real listeners started through
// proxy.ListenAndServe{HTTP,TCP,GRPC,HTTPSTCPSNI} (so the package's `servers` registry is the
// real one), with real in-flight HTTP requests, TCP / SNI tunnels and gRPC streams, and the
// real proxy.Shutdown(W).
//
// 1 tick = 150 ms, W = 4 ticks, slack = 2 s.  The time bound IS the property: "short" work
// lasts 1 tick (4x below W), "long" work 40 ticks (10x above), "inf" never ends; returning
// faster than required is never a failure.  Everything else is ordered by causality: an item is
// in flight once the client has received the first bytes of its answer; shutdown is called only
// after every item of the scenario is in flight.

import (
	"bufio"
	"bytes"
	"context"
	"crypto/ecdsa"
	"crypto/elliptic"
	"crypto/rand"
	"crypto/tls"
	"crypto/x509"
	"crypto/x509/pkix"
	"encoding/json"
	"fmt"
	"io"
	"math/big"
	"net"
	"net/http"
	"net/url"
	"os"
	"sort"
	"strings"
	"sync"
	"sync/atomic"
	"testing"
	"time"

	"github.com/fabiolb/fabio/config"
	"github.com/fabiolb/fabio/internal/verifx"
	"github.com/fabiolb/fabio/metrics"
	"github.com/fabiolb/fabio/proxy/tcp"
	"github.com/fabiolb/fabio/route"

	grpc_proxy "github.com/mwitkow/grpc-proxy/proxy"
	"google.golang.org/grpc"
	"google.golang.org/grpc/credentials/insecure"
	tpb "google.golang.org/grpc/interop/grpc_testing"
)

const (
	c18Tick    = 150 * time.Millisecond
	c18Slack   = 2 * time.Second
	c18ProbeAt = 100 * time.Millisecond
	c18SNIHost = "tunnel.c18.test"
)

type c18Item struct {
	Srv string `json:"srv"`
	Dur string `json:"dur"`
	At  int    `json:"at"`
	St  string `json:"st"` // fate in the design: "done" (completed normally) | "cut" | "refused" (probe)
}

type c18Scenario struct {
	Kinds     []string  `json:"kinds"`
	Tstart    int       `json:"tstart"`
	Tret      int       `json:"tret"`
	W         int       `json:"w"`
	Items     []c18Item `json:"items"`
	Failed    []string  `json:"failed,omitempty"`     // listeners whose Accept fails for good at run time, before the shutdown
	Removed   []string  `json:"removed,omitempty"`    // listeners closed at run time (proxy.CloseProxy) before the shutdown
	Signals   int       `json:"signals,omitempty"`    // further shutdown requests while the shutdown is under way
	Late      []string  `json:"late,omitempty"`       // servers that are handed their listener only after shutdown has begun
	WaitTicks int       `json:"wait_ticks,omitempty"` // what is handed to Shutdown (default: w)
	Selftest  string    `json:"selftest,omitempty"`
	Idx       int       `json:"idx,omitempty"`
}

func c18Dur(class string, tick time.Duration) time.Duration {
	switch class {
	case "short":
		return 1 * tick
	case "long":
		return 40 * tick
	case "zero":
		return 0
	case "mute":
		return -2 // never; the client half-closes and the upstream stays silent
	case "reset":
		return -5 // never; the client's connection is reset and the upstream keeps its side open
	case "edge":
		return -3 // until shortly before the end of the wait (an absolute moment, told when Shutdown is called)
	}
	return -1 // never
}

const (
	c18EdgeBefore = 75 * time.Millisecond  // "edge" work ends this long before the wait is over
	c18EdgeJudge  = 25 * time.Millisecond  // a cut the client saw later than (wait - this) gives no verdict
	c18TickEdge   = 500 * time.Millisecond // scenarios with edge work run on a slower clock: W = 2 s
)

// ---------------------------------------------------------------- shared upstreams

// the work protocol of the TCP upstreams: the client sends "<id> <dur-ns>\n"; the upstream
// answers "start\n", works for the duration, answers "done-<id>\n" and closes.
type c18Up struct {
	mu      sync.Mutex
	ended   map[string]time.Time     // id -> when the server side of the item ended (finished or failed)
	stop    chan struct{}            // closed at the end of a scenario: open work is abandoned
	muted   map[string]chan struct{} // id -> closed when the upstream has seen the request and the client's EOF
	edgeAt  time.Time                // when "edge" work ends
	edgeSet chan struct{}            // closed once edgeAt is known
}

func (u *c18Up) setEdge(t time.Time) {
	u.mu.Lock()
	u.edgeAt = t
	close(u.edgeSet)
	u.mu.Unlock()
}

func (u *c18Up) mutedCh(id string) chan struct{} {
	u.mu.Lock()
	defer u.mu.Unlock()
	if u.muted == nil {
		u.muted = map[string]chan struct{}{}
	}
	ch := u.muted[id]
	if ch == nil {
		ch = make(chan struct{})
		u.muted[id] = ch
	}
	return ch
}

func (u *c18Up) newScenario() {
	u.mu.Lock()
	u.ended = map[string]time.Time{}
	u.stop = make(chan struct{})
	u.muted = map[string]chan struct{}{}
	u.edgeSet = make(chan struct{})
	u.mu.Unlock()
}

func (u *c18Up) end(id string) {
	u.mu.Lock()
	if _, ok := u.ended[id]; !ok && u.ended != nil {
		u.ended[id] = time.Now()
	}
	u.mu.Unlock()
}

func (u *c18Up) endedAt(id string) (time.Time, bool) {
	u.mu.Lock()
	defer u.mu.Unlock()
	t, ok := u.ended[id]
	return t, ok
}

func (u *c18Up) stopCh() chan struct{} {
	u.mu.Lock()
	defer u.mu.Unlock()
	return u.stop
}

// work blocks for d (d < 0: until the scenario is over); false = abandoned.
func (u *c18Up) work(d time.Duration, gone <-chan struct{}) bool {
	var t <-chan time.Time
	if d >= 0 {
		t = time.After(d)
	}
	if d == -3 {
		u.mu.Lock()
		set := u.edgeSet
		u.mu.Unlock()
		select {
		case <-set:
		case <-u.stopCh():
			return false
		case <-gone:
			return false
		}
		u.mu.Lock()
		t = time.After(time.Until(u.edgeAt))
		u.mu.Unlock()
	}
	select {
	case <-t:
		return true
	case <-u.stopCh():
		return false
	case <-gone:
		return false
	}
}

func (u *c18Up) serveLine(c net.Conn) {
	defer c.Close()
	br := bufio.NewReader(c)
	line, err := br.ReadString('\n')
	if err != nil {
		return
	}
	var id string
	var ns int64
	if _, err := fmt.Sscanf(line, "%s %d", &id, &ns); err != nil {
		return
	}
	defer u.end(id)
	if ns == -5 {
		// the upstream has the request and simply keeps its side of the tunnel open
		ch := u.mutedCh(id)
		u.mu.Lock()
		select {
		case <-ch:
		default:
			close(ch)
		}
		u.mu.Unlock()
		<-u.stopCh()
		return
	}
	if ns == -2 {
		// a silent upstream: it reads the client's EOF, answers nothing and keeps its side open
		io.Copy(io.Discard, br)
		ch := u.mutedCh(id)
		u.mu.Lock()
		select {
		case <-ch:
		default:
			close(ch)
		}
		u.mu.Unlock()
		<-u.stopCh()
		return
	}
	if _, err := io.WriteString(c, "start\n"); err != nil {
		return
	}
	gone := make(chan struct{})
	go func() { // the peer closing the tunnel ends the work as well
		io.Copy(io.Discard, br)
		close(gone)
	}()
	if !u.work(time.Duration(ns), gone) {
		return
	}
	io.WriteString(c, "done-"+id+"\n")
}

func (u *c18Up) listen(tlsCfg *tls.Config) (net.Listener, error) {
	ln, err := net.Listen("tcp", "127.0.0.1:0")
	if err != nil {
		return nil, err
	}
	if tlsCfg != nil {
		ln = tls.NewListener(ln, tlsCfg)
	}
	go func() {
		for {
			c, err := ln.Accept()
			if err != nil {
				return
			}
			go u.serveLine(c)
		}
	}()
	return ln, nil
}

// HTTP handler behind the http / https listeners (same protocol, as a chunked response)
func (u *c18Up) ServeHTTP(w http.ResponseWriter, r *http.Request) {
	id := r.URL.Query().Get("id")
	var ns int64
	fmt.Sscan(r.URL.Query().Get("ns"), &ns)
	defer u.end(id)
	w.Header().Set("Content-Type", "text/plain")
	w.WriteHeader(200)
	if _, err := io.WriteString(w, "start\n"); err != nil {
		return
	}
	w.(http.Flusher).Flush()
	if !u.work(time.Duration(ns), r.Context().Done()) {
		panic(http.ErrAbortHandler) // abandoned work must not look like a complete response
	}
	io.WriteString(w, "done-"+id+"\n")
}

// gRPC backend behind the grpc listener
type c18Grpc struct {
	tpb.UnimplementedTestServiceServer
	up *c18Up
}

func (g *c18Grpc) FullDuplexCall(s grpc.BidiStreamingServer[tpb.StreamingOutputCallRequest, tpb.StreamingOutputCallResponse]) error {
	in, err := s.Recv()
	if err != nil {
		return err
	}
	var id string
	var ns int64
	if _, err := fmt.Sscanf(string(in.GetPayload().GetBody()), "%s %d", &id, &ns); err != nil {
		return err
	}
	defer g.up.end(id)
	if err := s.Send(&tpb.StreamingOutputCallResponse{Payload: &tpb.Payload{Body: []byte("start")}}); err != nil {
		return err
	}
	if !g.up.work(time.Duration(ns), s.Context().Done()) {
		return fmt.Errorf("abandoned")
	}
	return s.Send(&tpb.StreamingOutputCallResponse{Payload: &tpb.Payload{Body: []byte("done-" + id)}})
}

func c18Cert() (*tls.Config, error) {
	key, err := ecdsa.GenerateKey(elliptic.P256(), rand.Reader)
	if err != nil {
		return nil, err
	}
	tmpl := &x509.Certificate{SerialNumber: big.NewInt(18), Subject: pkix.Name{CommonName: "c18"},
		NotBefore: time.Now().Add(-time.Hour), NotAfter: time.Now().Add(24 * time.Hour),
		KeyUsage: x509.KeyUsageDigitalSignature, ExtKeyUsage: []x509.ExtKeyUsage{x509.ExtKeyUsageServerAuth},
		DNSNames: []string{"localhost", c18SNIHost}, IPAddresses: []net.IP{net.ParseIP("127.0.0.1")}}
	der, err := x509.CreateCertificate(rand.Reader, tmpl, tmpl, &key.PublicKey, key)
	if err != nil {
		return nil, err
	}
	return &tls.Config{Certificates: []tls.Certificate{{Certificate: [][]byte{der}, PrivateKey: key}}}, nil
}

// ---------------------------------------------------------------- the world of one test run

// c18FirstMessage is what a client of the flavour sends first: the TLS ClientHello, the HTTP/2 connection
// preface, the head of an HTTP request (without the blank line that ends it), a line of the tunnel protocol
// (without its end).
func c18FirstMessage(flavour, id string) []byte {
	switch flavour {
	case "https", "tls":
		return c18ClientHello("localhost")
	case "sni":
		return c18ClientHello(c18SNIHost)
	case "grpc":
		return []byte("PRI * HTTP/2.0\r\n\r\nSM\r\n\r\n")
	case "http":
		return []byte("GET /work?id=" + id + "&ns=0 HTTP/1.1\r\nHost: c18\r\nUser-Agent: c18-stall\r\n")
	}
	return []byte(id + " 0 and no end of line")
}

// c18ClientHello returns the bytes of a real TLS ClientHello record.
func c18ClientHello(serverName string) []byte {
	c1, c2 := net.Pipe()
	defer c1.Close()
	defer c2.Close()
	go tls.Client(c1, &tls.Config{InsecureSkipVerify: true, ServerName: serverName}).Handshake()
	buf := make([]byte, 16384)
	c2.SetReadDeadline(time.Now().Add(2 * time.Second))
	n, _ := c2.Read(buf)
	return buf[:n]
}

type c18World struct {
	tick    time.Duration
	up      *c18Up
	tlsCfg  *tls.Config
	plainUp net.Listener
	tlsUp   net.Listener
	grpcUp  *grpc.Server
	grpcAdr string
}

func c18NewWorld() (*c18World, error) {
	w := &c18World{up: &c18Up{}}
	w.up.newScenario()
	var err error
	if w.tlsCfg, err = c18Cert(); err != nil {
		return nil, err
	}
	if w.plainUp, err = w.up.listen(nil); err != nil {
		return nil, err
	}
	if w.tlsUp, err = w.up.listen(w.tlsCfg); err != nil {
		return nil, err
	}
	gl, err := net.Listen("tcp", "127.0.0.1:0")
	if err != nil {
		return nil, err
	}
	w.grpcAdr = gl.Addr().String()
	w.grpcUp = grpc.NewServer()
	tpb.RegisterTestServiceServer(w.grpcUp, &c18Grpc{up: w.up})
	go w.grpcUp.Serve(gl)
	return w, nil
}

func (w *c18World) close() {
	w.plainUp.Close()
	w.tlsUp.Close()
	w.grpcUp.Stop()
}

// c18TwinOK reports whether a second loopback address can be bound on this machine.
func c18TwinOK() bool {
	ln, err := net.Listen("tcp", "127.0.0.2:0")
	if err != nil {
		return false
	}
	ln.Close()
	return true
}

// c18TwinAddr returns addr's port on 127.0.0.2 if it is free there.
func c18TwinAddr(addr string) (string, bool) {
	_, port, _ := net.SplitHostPort(addr)
	ln, err := net.Listen("tcp", "127.0.0.2:"+port)
	if err != nil {
		return "", false
	}
	ln.Close()
	return "127.0.0.2:" + port, true
}

// c18Registry runs fn with the package's registry lock held.  The lock is fabio's own: should the code under
// test have left it locked, the harness must not hang on it -- it gives up (false) and remembers.
var c18RegistryDead int32

func c18Registry(fn func()) bool {
	if atomic.LoadInt32(&c18RegistryDead) != 0 {
		return false
	}
	deadline := time.Now().Add(3 * time.Second)
	for !mu.TryLock() {
		if time.Now().After(deadline) {
			atomic.StoreInt32(&c18RegistryDead, 1)
			return false
		}
		time.Sleep(time.Millisecond)
	}
	fn()
	mu.Unlock()
	return true
}

// c18CloseAll is proxy.Close() as the process exit would do it, without hanging on a stuck server or lock.
func c18CloseAll() {
	done := make(chan struct{})
	go func() {
		if atomic.LoadInt32(&c18RegistryDead) == 0 {
			Close()
		}
		close(done)
	}()
	select {
	case <-done:
	case <-time.After(3 * time.Second):
		atomic.StoreInt32(&c18RegistryDead, 1)
	}
}

// c18HoldsListener reports whether this process has a socket in state LISTEN on addr (Linux: /proc).
func c18HoldsListener(addr string) bool {
	host, port, err := net.SplitHostPort(addr)
	if err != nil {
		return false
	}
	ip := net.ParseIP(host).To4()
	var pn int
	fmt.Sscan(port, &pn)
	if ip == nil || pn == 0 {
		return false
	}
	want := fmt.Sprintf("%02X%02X%02X%02X:%04X", ip[3], ip[2], ip[1], ip[0], pn)
	data, err := os.ReadFile("/proc/self/net/tcp")
	if err != nil {
		return true // cannot tell: trust the connection attempt
	}
	inodes := map[string]bool{}
	for _, line := range strings.Split(string(data), "\n") {
		f := strings.Fields(line)
		if len(f) > 9 && f[1] == want && f[3] == "0A" {
			inodes[f[9]] = true
		}
	}
	if len(inodes) == 0 {
		return false
	}
	fds, err := os.ReadDir("/proc/self/fd")
	if err != nil {
		return true
	}
	for _, fd := range fds {
		if l, err := os.Readlink("/proc/self/fd/" + fd.Name()); err == nil && strings.HasPrefix(l, "socket:[") && inodes[strings.TrimSuffix(strings.TrimPrefix(l, "socket:["), "]")] {
			return true
		}
	}
	return false
}

func c18FreeAddr() (string, error) {
	ln, err := net.Listen("tcp", "127.0.0.1:0")
	if err != nil {
		return "", err
	}
	defer ln.Close()
	return ln.Addr().String(), nil
}

func c18Target(addr string) func(string) *route.Target {
	t := &route.Target{URL: &url.URL{Scheme: "tcp", Host: addr}}
	return func(string) *route.Target { return t }
}

// a kind written "k~2" is a second listener of kind k on 127.0.0.2, on the port of another listener
func c18Base(kind string) string { return strings.TrimSuffix(kind, "~2") }
func c18Twin(kind string) bool   { return strings.HasSuffix(kind, "~2") }

type c18Server struct {
	kind   string
	addr   string
	srv    Server
	served chan error // result of ListenAndServe*
}

// close closes the server as the process exit would; a Close that hangs (it should not) is left behind.
func (s *c18Server) close() {
	if s.srv == nil {
		return
	}
	done := make(chan struct{})
	go func() { s.srv.Close(); close(done) }()
	select {
	case <-done:
	case <-time.After(2 * time.Second):
	}
}

// grpcOpts are the server options main.newGrpcProxy builds (package proxy cannot import main).
func (w *c18World) grpcOpts() []grpc.ServerOption {
	mp := metrics.DiscardProvider{}
	cfg := &config.Config{}
	cfg.Proxy.Strategy, cfg.Proxy.Matcher = "rr", "prefix"
	cfg.Proxy.GRPCMaxRxMsgSize, cfg.Proxy.GRPCMaxTxMsgSize = 4<<20, 4<<20
	cfg.Proxy.GRPCGShutdownTimeout = 200 * time.Millisecond
	cfg.GlobCacheSize = 16
	sh := &GrpcStatsHandler{Connect: mp.NewCounter("c"), Request: mp.NewHistogram("r"), NoRoute: mp.NewCounter("n"), Status: mp.NewHistogram("s", "code")}
	pi := GrpcProxyInterceptor{Config: cfg, StatsHandler: sh, GlobCache: route.NewGlobCache(cfg.GlobCacheSize)}
	return []grpc.ServerOption{
		grpc.CustomCodec(grpc_proxy.Codec()),
		grpc.UnknownServiceHandler(grpc_proxy.TransparentHandler(GetGRPCDirector(nil, cfg))),
		grpc.StreamInterceptor(pi.Stream),
		grpc.StatsHandler(sh),
		grpc.MaxRecvMsgSize(cfg.Proxy.GRPCMaxRxMsgSize),
		grpc.MaxSendMsgSize(cfg.Proxy.GRPCMaxTxMsgSize),
	}
}

// stage takes proxy.serve apart: the server is made and put into the registry of servers -- serve's first
// step -- and the second step, handing the server its listener, is returned to be taken later.  That is the
// state a signal finds during start-up.
func (w *c18World) stage(name string) (*c18Server, func(), error) {
	kind := c18Base(name)
	addr, err := c18FreeAddr()
	if err != nil {
		return nil, nil, err
	}
	l := config.Listen{Addr: addr, Proto: kind}
	var tlsCfg *tls.Config
	if kind == "https" || kind == "tcp+tls" {
		tlsCfg = w.tlsCfg
	}
	ln, err := ListenTCP(l, tlsCfg)
	if err != nil {
		return nil, nil, err
	}
	var srv Server
	switch kind {
	case "http", "https":
		srv = &http.Server{Addr: addr, Handler: w.up, TLSConfig: tlsCfg}
	case "tcp", "tcp+tls":
		srv = &tcp.Server{Addr: addr, Handler: &tcp.Proxy{DialTimeout: 5 * time.Second, Lookup: c18Target(w.plainUp.Addr().String())}}
	case "tcp+sni":
		srv = &tcp.Server{Addr: addr, Handler: &tcp.SNIProxy{DialTimeout: 5 * time.Second, Lookup: c18Target(w.tlsUp.Addr().String())}}
	case "grpc":
		srv = &gRPCServer{server: grpc.NewServer(w.grpcOpts()...)}
	default:
		ln.Close()
		return nil, nil, fmt.Errorf("kind %s cannot be started in two steps", name)
	}
	s := &c18Server{kind: name, addr: addr, srv: srv, served: make(chan error, 1)}
	if !c18Registry(func() { servers[ln.Addr().String()] = srv }) {
		ln.Close()
		return nil, nil, fmt.Errorf("the registry of servers is locked")
	}
	return s, func() { go func() { s.served <- srv.Serve(ln) }() }, nil
}

// c18FaultListener is a listener whose Accept can be made to fail for good (as it does when the process runs
// out of file descriptors and the like -- with an error that is not temporary).
type c18FaultListener struct {
	net.Listener
	failed int32
}

func (l *c18FaultListener) Accept() (net.Conn, error) {
	c, err := l.Listener.Accept()
	if atomic.LoadInt32(&l.failed) != 0 {
		if err == nil {
			c.Close()
		}
		return nil, fmt.Errorf("accept: injected failure of the listener")
	}
	return c, err
}

func (l *c18FaultListener) fail() {
	atomic.StoreInt32(&l.failed, 1)
	if c, err := net.DialTimeout("tcp", l.Addr().String(), time.Second); err == nil { // wake Accept up
		c.Close()
	}
}

// stageFail starts a server through proxy.serve -- the function every ListenAndServe* ends in -- on a listener
// that can be made to fail, and returns the switch.
func (w *c18World) stageFail(name string) (*c18Server, func(), error) {
	kind := c18Base(name)
	addr, err := c18FreeAddr()
	if err != nil {
		return nil, nil, err
	}
	l := config.Listen{Addr: addr, Proto: kind}
	var tlsCfg *tls.Config
	if kind == "https" || kind == "tcp+tls" {
		tlsCfg = w.tlsCfg
	}
	ln, err := ListenTCP(l, tlsCfg)
	if err != nil {
		return nil, nil, err
	}
	var srv Server
	switch kind {
	case "http", "https":
		srv = &http.Server{Addr: addr, Handler: w.up, TLSConfig: tlsCfg}
	case "tcp", "tcp+tls":
		srv = &tcp.Server{Addr: addr, Handler: &tcp.Proxy{DialTimeout: 5 * time.Second, Lookup: c18Target(w.plainUp.Addr().String())}}
	case "tcp+sni":
		srv = &tcp.Server{Addr: addr, Handler: &tcp.SNIProxy{DialTimeout: 5 * time.Second, Lookup: c18Target(w.tlsUp.Addr().String())}}
	case "grpc":
		srv = &gRPCServer{server: grpc.NewServer(w.grpcOpts()...)}
	default:
		ln.Close()
		return nil, nil, fmt.Errorf("kind %s cannot be given a failing listener", name)
	}
	fl := &c18FaultListener{Listener: ln}
	s := &c18Server{kind: name, addr: addr, srv: srv, served: make(chan error, 1)}
	go func() { s.served <- serve(fl, srv) }()
	deadline := time.Now().Add(5 * time.Second)
	for {
		var reg Server
		if !c18Registry(func() { reg = servers[addr] }) {
			return nil, nil, fmt.Errorf("the registry of servers is locked")
		}
		if reg != nil {
			break
		}
		if time.Now().After(deadline) {
			return nil, nil, fmt.Errorf("%s on %s never came up", name, addr)
		}
		time.Sleep(time.Millisecond)
	}
	return s, fl.fail, nil
}

// start brings one listener of the kind up through the package's own entry point.
func (w *c18World) start(name, fixedAddr string) (*c18Server, error) {
	var lastErr error
	kind := c18Base(name)
	for try := 0; try < 5; try++ {
		addr := fixedAddr
		if addr == "" {
			var err error
			if addr, err = c18FreeAddr(); err != nil {
				return nil, err
			}
		} else if try > 0 {
			break
		}
		l := config.Listen{Addr: addr, Proto: kind}
		s := &c18Server{kind: name, addr: addr, served: make(chan error, 1)}
		go func() {
			switch kind {
			case "http":
				s.served <- ListenAndServeHTTP(l, w.up, nil)
			case "https":
				s.served <- ListenAndServeHTTP(l, w.up, w.tlsCfg)
			case "tcp":
				s.served <- ListenAndServeTCP(l, &tcp.Proxy{DialTimeout: 5 * time.Second, Lookup: c18Target(w.plainUp.Addr().String())}, nil)
			case "tcp-dyn":
				// what main's refresh loop starts for a port of a proto=tcp-dynamic listener with a cert source
				s.served <- ListenAndServeTCP(l, &tcp.DynamicProxy{DialTimeout: 5 * time.Second, Lookup: c18Target(w.plainUp.Addr().String())}, w.tlsCfg)
			case "tcp+tls":
				s.served <- ListenAndServeTCP(l, &tcp.Proxy{DialTimeout: 5 * time.Second, Lookup: c18Target(w.plainUp.Addr().String())}, w.tlsCfg)
			case "tcp+sni":
				s.served <- ListenAndServeTCP(l, &tcp.SNIProxy{DialTimeout: 5 * time.Second, Lookup: c18Target(w.tlsUp.Addr().String())}, nil)
			case "https+tcp+sni":
				s.served <- ListenAndServeHTTPSTCPSNI(l, w.up, &tcp.SNIProxy{DialTimeout: 5 * time.Second, Lookup: c18Target(w.tlsUp.Addr().String())},
					w.tlsCfg, func(_ context.Context, host string) bool { return host == c18SNIHost })
			case "grpc":
				opts := w.grpcOpts()
				s.served <- ListenAndServeGRPC(l, opts, nil)
			default:
				s.served <- fmt.Errorf("unknown kind %q", kind)
			}
		}()
		// readiness: the server is in the registry under its address (it is put there after the listener
		// is open) -- or, should the registry know it under another name, its port accepts connections
		deadline := time.Now().Add(5 * time.Second)
		failed := false
		for n := 0; time.Now().Before(deadline) && !failed; n++ {
			if !c18Registry(func() { s.srv = servers[addr] }) {
				return nil, fmt.Errorf("the registry of servers is locked")
			}
			if s.srv != nil {
				return s, nil
			}
			select {
			case err := <-s.served:
				lastErr = fmt.Errorf("%s on %s: %v", name, addr, err)
				failed = true
				continue
			default:
			}
			if n > 300 && n%50 == 0 {
				if c, err := net.DialTimeout("tcp", addr, 200*time.Millisecond); err == nil {
					c.Close()
					return s, nil // listening, but not to be found in the registry
				}
			}
			time.Sleep(time.Millisecond)
		}
		if lastErr == nil {
			lastErr = fmt.Errorf("%s on %s never came up", name, addr)
		}
	}
	return nil, lastErr
}

// ---------------------------------------------------------------- work items (client side)

type c18Run struct {
	item        c18Item
	id          string
	flavour     string        // protocol actually spoken
	established chan struct{} // closed when the first bytes of the answer arrived
	finished    chan struct{} // closed when the client is through
	complete    bool          // the full answer arrived and the exchange ended cleanly
	endAt       time.Time     // when the client was through
	err         error
	cancel      func()
}

func (r *c18Run) fail(err error) { r.err = err }

// readWork consumes "start\n" (=> established) and then expects "done-<id>\n" and EOF.
func c18ReadWork(r *c18Run, rd io.Reader) {
	br := bufio.NewReader(rd)
	line, err := br.ReadString('\n')
	if err != nil || line != "start\n" {
		r.fail(fmt.Errorf("no start: %q %v", line, err))
		return
	}
	close(r.established)
	rest, err := io.ReadAll(br)
	if err != nil {
		r.fail(fmt.Errorf("after start: %q %v", rest, err))
		return
	}
	if string(rest) != "done-"+r.id+"\n" {
		r.fail(fmt.Errorf("answer ended early: %q", rest))
		return
	}
	r.complete = true
}

func (w *c18World) launch(s *c18Server, it c18Item, id, flavour string, timeout time.Duration) *c18Run {
	r := &c18Run{item: it, id: id, flavour: flavour, established: make(chan struct{}), finished: make(chan struct{})}
	ns := int64(c18Dur(it.Dur, w.tick))
	ctx, cancel := context.WithCancel(context.Background())
	if timeout > 0 {
		ctx, cancel = context.WithTimeout(context.Background(), timeout)
	}
	r.cancel = cancel
	clientTLS := &tls.Config{InsecureSkipVerify: true, ServerName: "localhost"}
	go func() {
		defer close(r.finished)
		defer func() { r.endAt = time.Now() }()
		defer cancel()
		if strings.HasPrefix(it.Dur, "stall") {
			// a connection that never gets as far as a request: the client connects and sends nothing
			// (stall0), part of its first protocol message (stall1), or that message and nothing after it
			// (stall2)
			var d net.Dialer
			c, err := d.DialContext(ctx, "tcp", s.addr)
			if err != nil {
				r.fail(err)
				return
			}
			defer c.Close()
			go func() { <-ctx.Done(); c.Close() }()
			if first := c18FirstMessage(flavour, id); it.Dur == "stall1" {
				c.Write(first[:len(first)/2])
			} else if it.Dur == "stall2" {
				c.Write(first)
			}
			time.Sleep(30 * time.Millisecond) // pacing: let the listener pick the connection up
			close(r.established)
			io.Copy(io.Discard, c)
			r.fail(fmt.Errorf("connection closed"))
			return
		}
		switch flavour {
		case "http", "https":
			tr := &http.Transport{DisableKeepAlives: true, TLSClientConfig: clientTLS}
			defer tr.CloseIdleConnections()
			req, _ := http.NewRequestWithContext(ctx, "GET", fmt.Sprintf("%s://%s/work?id=%s&ns=%d", flavour, s.addr, id, ns), nil)
			resp, err := tr.RoundTrip(req)
			if err != nil {
				r.fail(err)
				return
			}
			defer resp.Body.Close()
			if resp.StatusCode != 200 {
				r.fail(fmt.Errorf("status %d", resp.StatusCode))
				return
			}
			c18ReadWork(r, resp.Body)
		case "tcp", "sni", "tls":
			var d net.Dialer
			c, err := d.DialContext(ctx, "tcp", s.addr)
			if err != nil {
				r.fail(err)
				return
			}
			defer c.Close()
			go func() { <-ctx.Done(); c.Close() }()
			var rw io.ReadWriter = c
			if flavour == "sni" || flavour == "tls" {
				sn := c18SNIHost
				if flavour == "tls" {
					sn = "localhost"
				}
				tc := tls.Client(c, &tls.Config{InsecureSkipVerify: true, ServerName: sn})
				if err := tc.HandshakeContext(ctx); err != nil {
					r.fail(err)
					return
				}
				rw = tc
			}
			if _, err := fmt.Fprintf(rw, "%s %d\n", id, ns); err != nil {
				r.fail(err)
				return
			}
			if it.Dur == "reset" {
				// the upstream has the request and keeps the tunnel open; the client's connection breaks
				select {
				case <-w.up.mutedCh(id):
				case <-ctx.Done():
					r.fail(ctx.Err())
					return
				}
				c.(*net.TCPConn).SetLinger(0)
				c.Close()                         // RST
				time.Sleep(50 * time.Millisecond) // pacing: let the proxy see the reset
				close(r.established)
				<-ctx.Done()
				r.fail(fmt.Errorf("connection reset by the client"))
				return
			}
			if it.Dur == "mute" {
				// half-close: the client has nothing more to say; the upstream never answers
				if tc, ok := rw.(*tls.Conn); ok {
					tc.CloseWrite()
				}
				c.(*net.TCPConn).CloseWrite()
				select {
				case <-w.up.mutedCh(id): // the EOF went through the tunnel: this is the state that matters
					close(r.established)
				case <-ctx.Done():
					r.fail(ctx.Err())
					return
				}
				io.Copy(io.Discard, c)
				r.fail(fmt.Errorf("tunnel closed"))
				return
			}
			c18ReadWork(r, rw)
		case "grpc":
			cc, err := grpc.NewClient("passthrough:///"+s.addr, grpc.WithTransportCredentials(insecure.NewCredentials()))
			if err != nil {
				r.fail(err)
				return
			}
			defer cc.Close()
			st, err := tpb.NewTestServiceClient(cc).FullDuplexCall(ctx)
			if err != nil {
				r.fail(err)
				return
			}
			if err := st.Send(&tpb.StreamingOutputCallRequest{Payload: &tpb.Payload{Body: []byte(fmt.Sprintf("%s %d", id, ns))}}); err != nil {
				r.fail(err)
				return
			}
			m, err := st.Recv()
			if err != nil || string(m.GetPayload().GetBody()) != "start" {
				r.fail(fmt.Errorf("no start: %v", err))
				return
			}
			close(r.established)
			st.CloseSend()
			m, err = st.Recv()
			if err != nil || string(m.GetPayload().GetBody()) != "done-"+id {
				r.fail(fmt.Errorf("after start: %v", err))
				return
			}
			if _, err = st.Recv(); err != io.EOF {
				r.fail(fmt.Errorf("final status: %v", err))
				return
			}
			r.complete = true
		}
	}()
	return r
}

// flavour picks the protocol an item speaks on a server of the given kind.
func c18Flavour(name string, nth int, seed int64) string {
	kind := c18Base(name)
	switch kind {
	case "http", "https", "tcp", "grpc":
		return kind
	case "tcp+sni":
		return "sni"
	case "tcp+tls", "tcp-dyn":
		return "tls"
	case "https+tcp+sni":
		if (int64(nth)+seed)%2 == 0 {
			return "sni"
		}
		return "https"
	}
	return kind
}

// ---------------------------------------------------------------- one scenario

type c18Finding struct {
	clause string
	feat   map[string]any
	msg    string
}

type c18Result struct {
	findings  []c18Finding
	notes     []string
	setup     string // non-empty: the scenario could not be staged (no verdict)
	shutdown  time.Duration
	returned  bool
	asserted  int // short items whose completion was asserted
	skipped   int // short items not asserted because the machine was too slow to keep them short
	probes    int
	leaks     int
	wallTotal time.Duration
}

func (w *c18World) play(sc *c18Scenario, seed int64) (res c18Result) {
	t00 := time.Now()
	defer func() { res.wallTotal = time.Since(t00) }()
	find := func(clause string, feat map[string]any, format string, a ...any) {
		feat["clause"] = clause
		res.findings = append(res.findings, c18Finding{clause, feat, fmt.Sprintf(format, a...)})
	}
	w.up.newScenario()
	leftover := 0
	if !c18Registry(func() { leftover = len(servers) }) {
		res.setup = "the registry of servers is locked"
		return
	}
	if leftover != 0 {
		c18CloseAll()
	}
	srvs := map[string]*c18Server{}
	var kinds []string
	for _, k := range sc.Kinds {
		kinds = append(kinds, k)
	}
	sort.Strings(kinds)
	defer func() {
		// whatever happened: nothing of this scenario may stay behind
		close(w.up.stopCh())
		for _, s := range srvs {
			s.close()
		}
		c18CloseAll()
		for _, s := range srvs {
			select {
			case <-s.served:
			case <-time.After(5 * time.Second):
				res.leaks++
			}
		}
	}()
	// listeners "k~2" share their port with another listener of the scenario, on 127.0.0.2
	fixed := map[string]string{}
	var plain, twins []string
	for _, k := range kinds {
		if c18Twin(k) {
			twins = append(twins, k)
		} else {
			plain = append(plain, k)
		}
	}
	if len(twins) > len(plain) {
		res.setup = "scenario has more ~2 listeners than listeners to share a port with"
		return
	}
	for i, k := range twins {
		for try := 0; try < 20 && fixed[k] == ""; try++ {
			a, err := c18FreeAddr()
			if err != nil {
				res.setup = err.Error()
				return
			}
			if t, ok := c18TwinAddr(a); ok {
				fixed[plain[i]], fixed[k] = a, t
			}
		}
		if fixed[k] == "" {
			res.setup = "no port free on both 127.0.0.1 and 127.0.0.2"
			return
		}
	}
	isLate := map[string]bool{}
	for _, k := range sc.Late {
		isLate[k] = true
	}
	var lateSteps []func()
	isFailing, failSwitch := map[string]bool{}, map[string]func(){}
	for _, k := range sc.Failed {
		isFailing[k] = true
	}
	for _, k := range append(plain, twins...) {
		var s *c18Server
		var err error
		if isFailing[k] {
			var sw func()
			if s, sw, err = w.stageFail(k); err == nil {
				failSwitch[k] = sw
			}
		} else if isLate[k] {
			var step func()
			if s, step, err = w.stage(k); err == nil {
				lateSteps = append(lateSteps, step)
			}
		} else {
			s, err = w.start(k, fixed[k])
		}
		if err != nil {
			res.setup = err.Error()
			return
		}
		srvs[k] = s
	}

	// ---- work before shutdown, in the order of the scenario's clock
	tick := c18Tick
	for _, it := range sc.Items {
		if it.Dur == "edge" {
			tick = c18TickEdge // work that ends just within the wait needs a wait long enough to aim at
		}
	}
	w.tick = tick
	wait := time.Duration(sc.W) * tick
	if sc.WaitTicks > 0 {
		wait = time.Duration(sc.WaitTicks) * tick
	}
	bound := time.Duration(sc.W)*tick + c18Slack
	var runs []*c18Run
	defer func() {
		for _, r := range runs {
			r.cancel()
		}
		for _, r := range runs {
			select {
			case <-r.finished:
			case <-time.After(5 * time.Second):
				res.leaks++
			}
		}
	}()
	nth := map[string]int{}
	t0 := time.Now()
	var late []c18Item
	for clk := 0; clk <= sc.Tstart; clk++ {
		if d := time.Until(t0.Add(time.Duration(clk) * tick)); d > 0 {
			time.Sleep(d) // pacing of the scenario, not a verdict
		}
		var batch []*c18Run
		for i, it := range sc.Items {
			if it.At != clk {
				continue
			}
			nth[it.Srv]++
			fl := c18Flavour(it.Srv, nth[it.Srv], seed)
			if it.Dur == "mute" || it.Dur == "reset" {
				if fl == "https" {
					fl = "sni"
				}
				if fl != "tcp" && fl != "sni" && fl != "tls" {
					res.setup = fmt.Sprintf("mute work on %s, which carries no tunnels", it.Srv)
					return
				}
			}
			r := w.launch(srvs[it.Srv], it, fmt.Sprintf("i%d-%d", sc.Idx, i), fl, 0)
			runs = append(runs, r)
			batch = append(batch, r)
		}
		for _, r := range batch {
			select {
			case <-r.established:
			case <-r.finished:
				res.setup = fmt.Sprintf("item %s on %s did not get in flight: %v", r.id, r.item.Srv, r.err)
				return
			case <-time.After(10 * time.Second):
				res.setup = fmt.Sprintf("item %s on %s did not get in flight within 10s", r.id, r.item.Srv)
				return
			}
		}
	}
	for _, it := range sc.Items {
		if it.At > sc.Tstart {
			late = append(late, it)
		}
	}

	// ---- listeners that fail at run time: Accept returns an error, Serve returns (fabio's main treats that as
	// fatal and shuts down -- which is what follows)
	for _, k := range sc.Failed {
		if sw := failSwitch[k]; sw != nil {
			sw()
			select {
			case err := <-srvs[k].served:
				srvs[k].served <- err
			case <-time.After(3 * time.Second):
				res.notes = append(res.notes, fmt.Sprintf("Serve of %s did not return after its listener failed", k))
			}
		}
	}

	// ---- listeners that are closed at run time, as main's tcp-dynamic loop does when the route of a port goes
	removedKind := map[string]bool{}
	for _, k := range sc.Removed {
		removedKind[k] = true
		if srvs[k] == nil {
			continue
		}
		cdone := make(chan error, 1)
		go func(addr string) { cdone <- CloseProxy(addr) }(srvs[k].addr)
		select {
		case <-cdone:
		case <-time.After(3 * time.Second):
			res.notes = append(res.notes, fmt.Sprintf("CloseProxy(%s) did not return within 3s", k))
		}
	}

	// ---- shutdown
	done := make(chan struct{})
	tStart := time.Now()
	w.up.setEdge(tStart.Add(wait - c18EdgeBefore))
	go func() {
		Shutdown(wait)
		close(done)
	}()
	for n := 0; n < sc.Signals; n++ {
		// a further request to shut down while the first is under way changes nothing
		go func(n int) {
			select {
			case <-time.After(time.Duration(n+1) * wait / 4):
				Shutdown(wait)
			case <-done: // too late: the shutdown is over (and the registry belongs to the next scenario)
			}
		}(n)
	}
	if len(lateSteps) > 0 {
		// start-up goes on: the servers that were only registered are handed their listeners now
		time.Sleep(50 * time.Millisecond)
		for _, step := range lateSteps {
			step()
		}
	}

	// ---- connection attempts after shutdown has started: every listener, plus what the scenario says
	type probe struct {
		run    *c18Run
		expect string
	}
	var probes []probe
	time.Sleep(time.Until(tStart.Add(c18ProbeAt)))
	for _, k := range kinds {
		nth[k]++
		it := c18Item{Srv: k, Dur: "zero", At: sc.Tstart + 1, St: "refused"}
		probes = append(probes, probe{w.launch(srvs[k], it, fmt.Sprintf("p%d-%s", sc.Idx, k), c18Flavour(k, nth[k], seed), 1500*time.Millisecond), "refused"})
	}
	for i, it := range late {
		nth[it.Srv]++
		it2 := it
		it2.Dur = "zero"
		probes = append(probes, probe{w.launch(srvs[it.Srv], it2, fmt.Sprintf("l%d-%d", sc.Idx, i), c18Flavour(it.Srv, nth[it.Srv], seed), 1500*time.Millisecond), it.St})
	}

	// ---- half way through the wait every listening socket must be gone: a TCP connection is refused, not
	// merely left unserved (every listener of fabio closes its socket first when it is told to shut down; being
	// accepted and dropped later is tolerated only in the first moments, above)
	type tcpProbe struct {
		kind string
		at   time.Duration
		ok   bool
	}
	tcpProbes := make(chan tcpProbe, 2*len(kinds))
	nTCP := 0
	for _, at := range []time.Duration{wait / 2, wait * 9 / 10} {
		for _, k := range kinds {
			nTCP++
			go func(k string, at time.Duration) {
				select {
				case <-time.After(time.Until(tStart.Add(at))):
				case <-done: // Shutdown is back: the process is gone
					tcpProbes <- tcpProbe{k, at, false}
					return
				}
				c, err := net.DialTimeout("tcp", srvs[k].addr, 500*time.Millisecond)
				if err == nil {
					c.Close()
				}
				// On a busy machine a port that was closed is soon bound by somebody else: only a listening
				// socket of THIS process on the address counts.
				tcpProbes <- tcpProbe{k, at, err == nil && c18HoldsListener(srvs[k].addr)}
			}(k, at)
		}
	}

	// ---- the bound
	select {
	case <-done:
		res.returned = true
		res.shutdown = time.Since(tStart)
	case <-time.After(time.Until(tStart.Add(bound))):
	}
	for i := 0; i < nTCP; i++ {
		p := <-tcpProbes
		res.probes++
		if p.ok {
			find("accept-after-start", map[string]any{"kind": p.kind, "how": "tcp-accept"},
				"%s listener still accepted a TCP connection %v after Shutdown(%v) was called: its socket is not closed", p.kind, p.at, wait)
		}
	}
	if !res.returned {
		// late or blocked?  Give it as long again, then find out which server holds it.
		open := map[string]bool{}
		for _, it := range sc.Items {
			if it.At <= sc.Tstart && it.Dur != "short" {
				open[it.Srv] = true
			}
		}
		var openKinds []string
		for k := range open {
			openKinds = append(openKinds, k)
		}
		sort.Strings(openKinds)
		blockedBy := "nobody (returned late)"
		select {
		case <-done:
			res.shutdown = time.Since(tStart)
		case <-time.After(bound):
			blockedBy = "unknown"
			for _, k := range kinds {
				srvs[k].close()
				select {
				case <-done:
					blockedBy = k
				case <-time.After(500 * time.Millisecond):
					continue
				}
				break
			}
			res.shutdown = time.Since(tStart)
			if blockedBy == "unknown" {
				close(w.up.stopCh())
				w.up.mu.Lock()
				w.up.stop = make(chan struct{})
				w.up.mu.Unlock()
				select {
				case <-done:
					blockedBy = "open work (returned only when it was abandoned)"
				case <-time.After(5 * time.Second):
					blockedBy = "unknown (never returned, even after every server was closed and all work abandoned)"
				}
				res.shutdown = time.Since(tStart)
			}
		}
		find("bounded-return", map[string]any{"blocked_by": blockedBy, "open_work_on": strings.Join(openKinds, ",")},
			"Shutdown(%v) had not returned after %v (wait + %v slack); returned after %v; held by: %s; open work on: %s",
			wait, bound, c18Slack, res.shutdown.Round(time.Millisecond), blockedBy, strings.Join(openKinds, ","))
	}

	// ---- Shutdown has returned: fabio's main returns and the process exits.  Whatever a listener is
	// still doing ends here.
	if res.returned {
		for _, s := range srvs {
			s.close()
		}
	}

	// ---- probes: refused, or closed without being served
	for _, p := range probes {
		<-p.run.finished
		res.probes++
		served := false
		select {
		case <-p.run.established:
			served = true
		default:
		}
		switch {
		case p.expect == "refused" && served:
			find("accept-after-start", map[string]any{"kind": p.run.item.Srv, "flavour": p.run.flavour},
				"%s listener (%s) served a connection made %v after Shutdown was called", p.run.item.Srv, p.run.flavour, c18ProbeAt)
		case p.expect != "refused" && !served:
			find("scenario-mismatch", map[string]any{"kind": p.run.item.Srv},
				"scenario expects work accepted after shutdown start on %s to be %s, the listener refused it (%v)", p.run.item.Srv, p.expect, p.run.err)
		}
	}

	// ---- work in flight that ended within the wait must have completed normally
	half := tStart.Add(time.Duration(sc.W) * tick / 2)
	for _, r := range runs {
		if removedKind[r.item.Srv] {
			continue // the listener was closed at run time, with everything on it
		}
		if r.item.Dur == "edge" {
			// work that ends c18EdgeBefore before the wait is over finishes within the wait: it must
			// complete.  A verdict needs the client to have seen the exchange end early enough that the
			// cut cannot have been the deadline itself.
			select {
			case <-r.finished:
			case <-time.After(10 * time.Second):
				find("edge-cut", map[string]any{"kind": r.item.Srv, "flavour": r.flavour, "how": "hung"},
					"%s item on %s due %v before the end of the wait neither completed nor failed within 10s", r.flavour, r.item.Srv, c18EdgeBefore)
				continue
			}
			switch {
			case r.complete:
				res.asserted++
			case r.endAt.Before(tStart.Add(wait - c18EdgeJudge)):
				res.asserted++
				find("edge-cut", map[string]any{"kind": r.item.Srv, "flavour": r.flavour, "how": "cut"},
					"%s item on %s was in flight when shutdown started and due %v after it (wait %v); it was cut %v after the start: %v",
					r.flavour, r.item.Srv, wait-c18EdgeBefore, wait, r.endAt.Sub(tStart).Round(time.Millisecond), r.err)
			default:
				res.skipped++ // ended at the deadline itself: the answer may just have been too slow
			}
			continue
		}
		if r.item.Dur != "short" {
			// The statement is silent about work that outlasts the wait (and the design leaves open
			// what becomes of work that ends exactly at the deadline).
			continue
		}
		if r.item.St != "done" {
			find("scenario-mismatch", map[string]any{"kind": r.item.Srv}, "scenario expects short work on %s to be %s", r.item.Srv, r.item.St)
			continue
		}
		select {
		case <-r.finished:
		case <-time.After(10 * time.Second):
			find("short-cut", map[string]any{"kind": r.item.Srv, "flavour": r.flavour, "how": "hung"},
				"short %s item on %s neither completed nor failed within 10s", r.flavour, r.item.Srv)
			continue
		}
		end, ok := w.up.endedAt(r.id)
		for i := 0; !ok && i < 200; i++ { // the server side records its end right after its last write
			time.Sleep(5 * time.Millisecond)
			end, ok = w.up.endedAt(r.id)
		}
		if !ok || end.After(half) {
			res.skipped++ // too slow a machine to call this item short; no verdict on it
			continue
		}
		res.asserted++
		if !r.complete {
			find("short-cut", map[string]any{"kind": r.item.Srv, "flavour": r.flavour, "how": "cut"},
				"%s item on %s was in flight when shutdown started and ended %v after it (wait %v), but did not complete normally: %v",
				r.flavour, r.item.Srv, end.Sub(tStart).Round(time.Millisecond), wait, r.err)
		}
	}
	return
}

// ---------------------------------------------------------------- test entry

func TestVerifC18(t *testing.T) {
	seed := verifx.Seed()
	saved := route.GetTable()
	defer route.SetTable(saved)
	w, err := c18NewWorld()
	if err != nil {
		t.Fatal(err)
	}
	defer w.close()
	tbl, err := route.NewTable(bytes.NewBufferString("route add c18 /grpc.testing.TestService/ grpc://" + w.grpcAdr + " opts \"proto=grpc\""))
	if err != nil {
		t.Fatal(err)
	}
	route.SetTable(tbl)

	scs, err := verifx.ReadCases[c18Scenario]("")
	if err != nil {
		t.Fatal(err)
	}
	var played, items, asserted, skipped, probes, setups, leaks, nontrivial int64
	var selfTotal, selfRejected, twinSkipped, twinPlayed, notPlayed int64
	twinOK := c18TwinOK()
	var maxShutdown time.Duration
	var samples []string
	seen := map[uint64]bool{}
	for i := range scs {
		sc := &scs[i]
		if sc.Idx == 0 {
			sc.Idx = i + 1
		}
		if atomic.LoadInt32(&c18RegistryDead) != 0 && sc.Selftest == "" {
			notPlayed++ // fabio left its registry locked (reported where it happened): nothing can be staged any more
			continue
		}
		hasTwin := false
		for _, k := range sc.Kinds {
			hasTwin = hasTwin || c18Twin(k)
		}
		if hasTwin && !twinOK {
			twinSkipped++ // 127.0.0.2 cannot be bound here: nothing to say about listeners that share a port
			continue
		}
		if hasTwin {
			twinPlayed++
		}
		res := w.play(sc, seed)
		if res.setup != "" && sc.Selftest == "" {
			// one more try: staging can fail for reasons that have nothing to do with fabio (port taken)
			res = w.play(sc, seed)
		}
		if sc.Selftest != "" {
			selfTotal++
			if len(res.findings) > 0 {
				selfRejected++
			}
			verifx.Emit(map[string]any{"kind": "selftest", "what": sc.Selftest, "findings": len(res.findings), "setup": res.setup})
			continue
		}
		played++
		leaks += int64(res.leaks)
		if res.setup != "" {
			setups++
			verifx.Emit(map[string]any{"kind": "setup", "idx": sc.Idx, "msg": res.setup})
			continue
		}
		items += int64(len(sc.Items))
		asserted += int64(res.asserted)
		skipped += int64(res.skipped)
		probes += int64(res.probes)
		if res.returned && res.shutdown > maxShutdown {
			maxShutdown = res.shutdown
		}
		raw, _ := json.Marshal(map[string]any{"k": sc.Kinds, "i": sc.Items, "t": sc.Tstart})
		if h := verifx.Hash(raw); !seen[h] {
			seen[h] = true
			if len(sc.Items) >= 2 {
				nontrivial++
			}
		}
		if len(samples) < 4 && len(sc.Items) >= 2 && i%3 == 0 {
			samples = append(samples, string(raw))
		}
		for _, f := range res.findings {
			verifx.Fail(sc, f.feat, "%s", f.msg)
		}
		verifx.Emit(map[string]any{"kind": "scenario", "idx": sc.Idx, "kinds": sc.Kinds, "items": len(sc.Items),
			"shutdown_ms": res.shutdown.Milliseconds(), "returned": res.returned, "asserted": res.asserted,
			"skipped": res.skipped, "wall_ms": res.wallTotal.Milliseconds()})
	}
	left := 0
	c18Registry(func() { left = len(servers) })
	verifx.Summary(map[string]any{"scenarios": played, "items": items, "asserted": asserted, "skipped": skipped,
		"probes": probes, "setup_failures": setups, "leaks": leaks, "distinct_nontrivial": nontrivial,
		"max_shutdown_ms": maxShutdown.Milliseconds(), "selftests": selfTotal, "selftests_rejected": selfRejected,
		"registry_left": left, "samples": samples, "twin_scenarios": twinPlayed, "twin_skipped": twinSkipped, "registry_dead": atomic.LoadInt32(&c18RegistryDead) != 0,
		"not_played": notPlayed})
	_ = atomic.LoadInt64
}
