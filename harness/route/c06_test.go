package route

// C06 conformance (built with -race):
//  - TestVerifC06Trace: a few goroutines perform real lookups (round-robin picks, redirect
//    lookups with their own path, glob-cache gets); invocations and responses are recorded with a
//    logical clock and validated by TLC against spec/DataPlane_Trace (linearizability with the
//    atomic effects of DataPlane as silent steps, final cursor/cache state bound by a Snap event).
//  - TestVerifC06Stress: 16 goroutines, judged by exact counts: after exactly k*U round-robin
//    lookups every target was picked k*n_i times; the glob cache never exceeds its size and never
//    fails a lookup; every redirect Location is the request's own; a swapper replaces the table.

import (
	"runtime"
	"runtime/debug"
	"fmt"
	"net/http"
	"net/url"
	"os"
	"path/filepath"
	"sort"
	"strings"
	"sync"
	"sync/atomic"
	"testing"

	"github.com/fabiolb/fabio/internal/verifx"
)

func c06Req(host, path string) *http.Request {
	return &http.Request{Host: host, URL: &url.URL{Path: path}, Header: http.Header{}}
}

func c06CacheKeys(c *GlobCache) []string {
	keys := []string{}
	c.m.Range(func(k, _ any) bool { keys = append(keys, k.(string)); return true })
	sort.Strings(keys)
	return keys
}

const c06Table = `route add rrA rr.com/ http://a:80/
route add rrB rr.com/ http://b:80/
route add rrC rr.com/ http://c:80/
route add rd rd.com/ https://to.com/$path opts "redirect=301"
route add rd2 rd.com/ https://to2.com/$path opts "redirect=302"
route add rdb rd2.com/ https://to3.com$path opts "redirect=301"
route add rdc rd3.com/ https://$host$path opts "redirect=308"
route add rdd rd4.com/ http://$host/new$path?x=1 opts "redirect=307 strip=/g"`

// access rules shared by all requests of a route: three allow blocks / three deny blocks
const c06AccessRoutes = `
route add acl acl.com/ http://acl:80/ opts "allow=ip:10.0.0.0/8,ip:192.168.0.0/16,ip:172.16.0.0/12"
route add dcl dcl.com/ http://dcl:80/ opts "deny=ip:10.0.0.0/8,ip:192.168.0.0/16,ip:172.16.0.0/12"`

// address classes of the specification: "in-k" lies in block k, "out" in none
var c06Addrs = map[string]string{"in-1": "10.1.2.3", "in-2": "192.168.7.7", "in-3": "172.20.1.1", "out": "8.8.8.8"}

func c06Access(t *Target, class string, deny bool) string {
	req := &http.Request{RemoteAddr: c06Addrs[class] + ":4711", Header: http.Header{}, URL: &url.URL{Path: "/"}}
	denied := t.AccessDeniedHTTP(req)
	// for the deny-list route the roles are swapped: addresses inside a block are rejected
	if deny {
		denied = !denied
	}
	if denied {
		return "denied"
	}
	return "admitted"
}

// the documented forms of a redirect target that mention the request
var c06RedirectHosts = []string{"rd.com", "rd2.com", "rd3.com"}

// c06Guard turns a panic of a request goroutine into a failure record: a lookup that panics is a failed
// lookup ("the host-pattern cache never fails a lookup"), and net/http would turn it into an aborted request.
func c06Guard() {
	if p := recover(); p != nil {
		cls := fmt.Sprint(p)
		if len(cls) > 60 {
			cls = cls[:60]
		}
		verifx.Fail(map[string]any{"panic": fmt.Sprint(p)}, map[string]any{"sub": "stress", "clause": "lookup-panic", "panic": cls},
			"a lookup running concurrently with other lookups panicked: %v\n%s", p, debug.Stack())
	}
}

func TestVerifC06Trace(t *testing.T) {
	tbl, err := newTableFromText(c06Table + c06AccessRoutes)
	if err != nil {
		t.Fatal(err)
	}
	acl, dcl := tbl["acl.com"][0].Targets[0], tbl["dcl.com"][0].Targets[0]
	classes := []string{"in-1", "out", "in-2", "in-3"}
	rr := tbl["rr.com"][0]
	var ring []string
	for _, x := range rr.wTargets {
		ring = append(ring, x.Service)
	}
	gc := NewGlobCache(2)
	lgc := NewGlobCache(16)
	tr := &verifx.Trace{}
	tr.Add(map[string]any{"ev": "Setup", "ring": ring, "cachesize": 2})
	procs := 6
	ops := verifx.EnvInt("VERIF_OPS", 36)
	pats := []string{"*.p1.com", "*.p2.com", "*.p3.com", "p4.*"}
	var wg sync.WaitGroup
	start := make(chan struct{})
	for g := 0; g < procs; g++ {
		wg.Add(1)
		go func(g int) {
			defer wg.Done()
			defer c06Guard()
			<-start
			for i := 0; i < ops; i++ {
				switch (i + g) % 4 {
				case 3:
					class := classes[(i/4+g)%len(classes)]
					tr.Add(map[string]any{"ev": "Inv", "g": g, "op": "access", "arg": class})
					res := c06Access(acl, class, false)
					if (i/4)%2 == 1 {
						res = c06Access(dcl, class, true)
					}
					tr.Add(map[string]any{"ev": "Ret", "g": g, "res": res})
				case 0:
					tr.Add(map[string]any{"ev": "Inv", "g": g, "op": "pick", "arg": ""})
					tg := tbl.Lookup(c06Req("rr.com", "/x"), "", rrPicker, prefixMatcher, lgc, false)
					res := "nil"
					if tg != nil {
						res = tg.Service
					}
					tr.Add(map[string]any{"ev": "Ret", "g": g, "res": res})
				case 1:
					path := fmt.Sprintf("/g%d/%d", g, i)
					tr.Add(map[string]any{"ev": "Inv", "g": g, "op": "redirect", "arg": path})
					tg := tbl.Lookup(c06Req(c06RedirectHosts[(i/3+g)%len(c06RedirectHosts)], path), "", rrPicker, prefixMatcher, lgc, false)
					res := "nil"
					if tg != nil && tg.RedirectURL != nil {
						res = tg.RedirectURL.Path
					}
					tr.Add(map[string]any{"ev": "Ret", "g": g, "res": res})
				case 2:
					p := pats[(i*7+g)%len(pats)]
					tr.Add(map[string]any{"ev": "Inv", "g": g, "op": "glob", "arg": p})
					gl, err := gc.Get(p)
					res := "ok"
					if err != nil || gl == nil || !gl.Match(strings.Replace(p, "*", "zz", 1)) {
						res = fmt.Sprintf("failed: %v", err)
					}
					tr.Add(map[string]any{"ev": "Ret", "g": g, "res": res})
				}
			}
		}(g)
	}
	close(start)
	wg.Wait()
	tr.Add(map[string]any{"ev": "Snap", "cursor": vCursorGet(rr), "cache": c06CacheKeys(gc)})
	path := filepath.Join(os.Getenv("VERIF_TMP"), "c06.trace.ndjson")
	if err := tr.WriteNDJSON(path); err != nil {
		t.Fatal(err)
	}
	verifx.Summary(map[string]any{"events": tr.Len(), "trace": path, "ops": procs * ops})
}

func TestVerifC06Stress(t *testing.T) {
	const G = 16
	k := verifx.EnvInt("VERIF_CYCLES", 2)
	// (a) weighted round robin: exact shares after whole cycles
	wt, err := newTableFromText("route add wA w.com/ http://a:80/ weight 0.5\nroute add wB w.com/ http://b:80/ weight 0.3\nroute add wC w.com/ http://c:80/\nroute add wD w.com/ http://d:80/")
	if err != nil {
		t.Fatal(err)
	}
	wr := wt["w.com"][0]
	U := len(wr.wTargets)
	slots := map[string]int{}
	for _, x := range wr.wTargets {
		slots[x.Service]++
	}
	total := k * U
	var counts sync.Map
	var next int64
	var wg sync.WaitGroup
	gcw := NewGlobCache(8)
	for g := 0; g < G; g++ {
		wg.Add(1)
		go func() {
			defer wg.Done()
			defer c06Guard()
			local := map[string]int{}
			for atomic.AddInt64(&next, 1) <= int64(total) {
				tg := wt.Lookup(c06Req("w.com", "/"), "", rrPicker, prefixMatcher, gcw, false)
				if tg == nil {
					local["nil"]++
				} else {
					local[tg.Service]++
				}
			}
			for s, n := range local {
				v, _ := counts.LoadOrStore(s, new(int64))
				atomic.AddInt64(v.(*int64), int64(n))
			}
		}()
	}
	wg.Wait()
	got := map[string]int{}
	counts.Range(func(s, v any) bool { got[s.(string)] = int(*v.(*int64)); return true })
	for s, n := range slots {
		if got[s] != k*n {
			verifx.Fail(map[string]any{"cycles": k, "ring": U}, map[string]any{"sub": "stress", "clause": "rr-share"},
				"after exactly %d x %d concurrent round-robin lookups target %s was picked %d times, its exact share is %d (all: %v, slots %v)", k, U, s, got[s], k*n, got, slots)
			break
		}
	}
	if got["nil"] != 0 {
		verifx.Fail(nil, map[string]any{"sub": "stress", "clause": "rr-nil"}, "%d round-robin lookups returned no target", got["nil"])
	}

	// (b) glob hosts beyond the cache size + (c) redirects, with a concurrent table swapper
	var lines []string
	for i := 0; i < 40; i++ {
		lines = append(lines, fmt.Sprintf("route add g%d *.h%d.com/ http://t%d:80/", i, i, i))
	}
	lines = append(lines, `route add rd rd.com/ https://to.com/$path opts "redirect=301"`,
		`route add rdb rd2.com/ https://to.com$path opts "redirect=301"`, `route add rdc rd3.com/ https://to.com/new$path opts "redirect=301"`)
	text := strings.Join(lines, "\n")
	// the swapper alternates between two tables whose host patterns are spelled differently and route to
	// different services: a lookup is answered by the table it loaded, whatever a cache remembers of another one
	textB := strings.NewReplacer("route add g", "route add b", " *.h", " x*.h").Replace(text)
	nmk := 0
	mk := func() Table {
		nmk++
		tx := text
		if nmk%2 == 0 {
			tx = textB
		}
		tb, err := newTableFromText(tx)
		if err != nil {
			panic(err)
		}
		return tb
	}
	old := GetTable()
	defer SetTable(old)
	SetTable(mk())
	gc := NewGlobCache(8)
	stop := make(chan struct{})
	var swaps int64
	var swg sync.WaitGroup
	swg.Add(1)
	go func() {
		defer swg.Done()
		for {
			select {
			case <-stop:
				return
			default:
				SetTable(mk())
				atomic.AddInt64(&swaps, 1)
				// let a table live for a while: state a lookup on the previous table leaves behind must not
				// reach the lookups on this one
				for k := 0; k < 300; k++ {
					runtime.Gosched()
				}
			}
		}
	}()
	iters := verifx.EnvInt("VERIF_ITERS", 400)
	var lookups int64
	for g := 0; g < G; g++ {
		wg.Add(1)
		go func(g int) {
			defer wg.Done()
			defer c06Guard()
			for i := 0; i < iters; i++ {
				h := ((i/6)*13 + g*7) % 40 // the same host several times in a row, all goroutines on few hosts at a time
				if i%2 == 1 {
					h = (i / 16) % 40
				}
				tb := GetTable()
				letter := "g"
				if _, isA := tb["*.h0.com"]; !isA {
					letter = "b"
				}
				xg := g
				if i%2 == 1 {
					xg = 0 // every goroutine asks for the same host
				}
				tg := tb.Lookup(c06Req(fmt.Sprintf("x%d.h%d.com", xg, h), "/p"), "", rrPicker, prefixMatcher, gc, false)
				atomic.AddInt64(&lookups, 1)
				if tg == nil || tg.Service != fmt.Sprintf("%s%d", letter, h) {
					verifx.Fail(map[string]any{"g": g, "i": i}, map[string]any{"sub": "stress", "clause": "glob-lookup"},
						"lookup of x%d.h%d.com returned %v, want service g%d", g, h, tg, h)
				}
				path := fmt.Sprintf("/req-%d-%d", g, i)
				form := (i + g) % 3
				tg = GetTable().Lookup(c06Req([]string{"rd.com", "rd2.com", "rd3.com"}[form], path), "", rrPicker, prefixMatcher, gc, false)
				atomic.AddInt64(&lookups, 1)
				loc := ""
				if tg != nil && tg.RedirectURL != nil {
					loc = tg.RedirectURL.String()
				}
				own := "https://to.com" + []string{"", "", "/new"}[form] + path
				if loc != own {
					verifx.Fail(map[string]any{"g": g, "i": i}, map[string]any{"sub": "stress", "clause": "redirect-own", "form": form},
						"request %s received Location %q, its own is %q", path, loc, own)
				}
			}
		}(g)
	}
	wg.Wait()
	close(stop)
	swg.Wait()
	keys := c06CacheKeys(gc)
	if len(keys) > 8 || gc.n > len(gc.l) || gc.h >= len(gc.l) || gc.h < 0 {
		verifx.Fail(map[string]any{"keys": len(keys)}, map[string]any{"sub": "stress", "clause": "cache-size"},
			"host-pattern cache of size 8 holds %d patterns (n=%d h=%d)", len(keys), gc.n, gc.h)
	}
	// (d) access decisions over rule lists shared by all requests, (e) the random picker
	at, err := newTableFromText("route add r1 rnd.com/ http://r1:80/\nroute add r2 rnd.com/ http://r2:80/ weight 0.2\nroute add r3 rnd.com/ http://r3:80/" + c06AccessRoutes)
	if err != nil {
		t.Fatal(err)
	}
	aclT, dclT := at["acl.com"][0].Targets[0], at["dcl.com"][0].Targets[0]
	classes := []string{"in-1", "in-2", "in-3", "out"}
	var decisions int64
	for g := 0; g < G; g++ {
		wg.Add(1)
		go func(g int) {
			defer wg.Done()
			defer c06Guard()
			class := classes[g%len(classes)]
			want := "admitted"
			if class == "out" {
				want = "denied"
			}
			gcr := NewGlobCache(8)
			for i := 0; i < iters*4; i++ {
				if got := c06Access(aclT, class, false); got != want {
					verifx.Fail(map[string]any{"g": g, "i": i}, map[string]any{"sub": "stress", "clause": "access-own", "list": "allow"},
						"a request from %s (%s) was %s by the allow list while other requests were being decided; its own decision is %s", c06Addrs[class], class, got, want)
				}
				if got := c06Access(dclT, class, true); got != want {
					verifx.Fail(map[string]any{"g": g, "i": i}, map[string]any{"sub": "stress", "clause": "access-own", "list": "deny"},
						"a request from %s (%s): deny list decided %s, its own decision is %s", c06Addrs[class], class, got, want)
				}
				atomic.AddInt64(&decisions, 2)
				if p, stack := verifx.Safely(func() {
					tg := at.Lookup(c06Req("rnd.com", "/"), "", Picker["rnd"], prefixMatcher, gcr, false)
					if tg == nil || !strings.HasPrefix(tg.Service, "r") {
						verifx.Fail(map[string]any{"g": g, "i": i}, map[string]any{"sub": "stress", "clause": "rnd-member"}, "random pick returned %v", tg)
					}
				}); p != nil {
					verifx.Fail(map[string]any{"g": g, "i": i}, map[string]any{"sub": "stress", "clause": "rnd-panic"}, "random picker panicked under concurrent lookups: %v\n%s", p, stack)
				}
			}
		}(g)
	}
	wg.Wait()
	// (g) traced requests (a request carrying the trace key makes Lookup log its decisions): the only shared effect
	// of a lookup is the turn of the ring that SERVES it - a traced request for a host-specific route must not
	// take turns of the rings of less specific routes which match as well
	tt, err := newTableFromText("route add s1 s.com/ http://s1:80/\nroute add s2 s.com/ http://s2:80/\n" +
		"route add f1 / http://f1:80/\nroute add f2 / http://f2:80/\nroute add f3 / http://f3:80/")
	if err != nil {
		t.Fatal(err)
	}
	var fcount [3]int64
	var scount [2]int64
	const perG = 300 // multiple of 2 and 3
	for g := 0; g < G; g++ {
		wg.Add(1)
		go func(g int) {
			defer wg.Done()
			defer c06Guard()
			gct := NewGlobCache(8)
			for i := 0; i < perG; i++ {
				// a traced request served by the host-specific route ...
				if tg := tt.Lookup(c06Req("s.com", "/"), fmt.Sprintf("trace-%d-%d", g, i), rrPicker, prefixMatcher, gct, false); tg != nil && len(tg.Service) == 2 && tg.Service[0] == 's' {
					atomic.AddInt64(&scount[tg.Service[1]-'1'], 1)
				} else {
					verifx.Fail(map[string]any{"g": g}, map[string]any{"sub": "stress", "clause": "traced-lookup"}, "traced request for s.com/ answered by %v", tg)
				}
				// ... and an untraced one served by the fallback route
				if tg := tt.Lookup(c06Req("other.com", "/"), "", rrPicker, prefixMatcher, gct, false); tg != nil && len(tg.Service) == 2 && tg.Service[0] == 'f' {
					atomic.AddInt64(&fcount[tg.Service[1]-'1'], 1)
				} else {
					verifx.Fail(map[string]any{"g": g}, map[string]any{"sub": "stress", "clause": "traced-lookup"}, "request for other.com/ answered by %v", tg)
				}
			}
		}(g)
	}
	wg.Wait()
	for k, n := range fcount {
		if n != int64(G*perG/3) {
			verifx.Fail(map[string]any{"counts": fcount}, map[string]any{"sub": "stress", "clause": "traced-share"},
				"fallback route: target f%d served %d of %d lookups (shares %v) while traced requests for a host-specific route ran; its share is a third", k+1, n, G*perG, fcount)
			break
		}
	}
	for k, n := range scount {
		if n != int64(G*perG/2) {
			verifx.Fail(map[string]any{"counts": scount}, map[string]any{"sub": "stress", "clause": "traced-share"},
				"host-specific route: target s%d served %d of %d traced lookups (shares %v); its share is a half", k+1, n, G*perG, scount)
			break
		}
	}
	// (f) every matcher (proxy.matcher = prefix | iprefix | glob): the route a request's path selects depends on
	// that path alone, whatever paths other requests are being matched against at the same moment
	var ml []string
	for i := 0; i < G; i++ {
		ml = append(ml, fmt.Sprintf("route add m%d mm.com/Orders%d/ http://m%d:80/", i, i, i))
		ml = append(ml, fmt.Sprintf("route add q%d gg.com/q%d/* http://q%d:80/", i, i, i))
	}
	mt, err := newTableFromText(strings.Join(ml, "\n"))
	if err != nil {
		t.Fatal(err)
	}
	var matched int64
	for g := 0; g < G; g++ {
		wg.Add(1)
		go func(g int) {
			defer wg.Done()
			defer c06Guard()
			gcm := NewGlobCache(8)
			for i := 0; i < iters; i++ {
				for _, c := range []struct{ m, host, path, want string }{
					{"prefix", "mm.com", fmt.Sprintf("/Orders%d/%d", g, i), fmt.Sprintf("m%d", g)},
					{"iprefix", "mm.com", fmt.Sprintf("/oRDers%d/%d", g, i), fmt.Sprintf("m%d", g)},
					{"glob", "gg.com", fmt.Sprintf("/q%d/%d", g, i), fmt.Sprintf("q%d", g)},
				} {
					tg := mt.Lookup(c06Req(c.host, c.path), "", rrPicker, Matcher[c.m], gcm, false)
					atomic.AddInt64(&matched, 1)
					if tg == nil || tg.Service != c.want {
						verifx.Fail(map[string]any{"g": g, "i": i}, map[string]any{"sub": "stress", "clause": "matcher-own", "matcher": c.m},
							"matcher %s: the request for %s%s was routed to %v while other requests were being matched; its own route is %s", c.m, c.host, c.path, tg, c.want)
					}
				}
			}
		}(g)
	}
	wg.Wait()
	verifx.Summary(map[string]any{"matched": atomic.LoadInt64(&matched), "decisions": atomic.LoadInt64(&decisions), "rr_lookups": total, "ring": U, "lookups": atomic.LoadInt64(&lookups), "swaps": atomic.LoadInt64(&swaps), "cache_keys": len(keys)})
}
