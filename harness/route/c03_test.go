package route

// C03 conformance: every (table, request host, TLS) transition TLC examined in Match_MC carries
// the route the specification (Match!Winners, a declarative choice) prescribes for every request
// path x matcher x glob on/off.  The table is built by the real NewTable from `route add`
// commands whose service name encodes the route id; the real Table.Lookup (real GlobCache, real
// matchers) and Table.LookupHost must return exactly the prescribed route, or none.

import (
	crypto_tls "crypto/tls"
	"encoding/json"
	"fmt"
	"net/http"
	"net/url"
	"sort"
	"strconv"
	"strings"
	"sync"
	"sync/atomic"
	"testing"

	"github.com/fabiolb/fabio/internal/verifx"
)

// ---- input

type c03Host struct {
	Name []string `json:"name"`
	Port []string `json:"port"`
}

func (h c03Host) String() string {
	s := strings.Join(h.Name, "")
	if len(h.Port) > 0 {
		s += ":" + strings.Join(h.Port, "")
	}
	return s
}

type c03Combo struct {
	M string `json:"m"`
	G int    `json:"g"`
}

type c03Universe struct {
	Pats   []c03Host  `json:"pats"`
	Paths  [][]string `json:"paths"`
	Hosts  []c03Host  `json:"hosts"`
	RPaths [][]string `json:"rpaths"`
	Combos []c03Combo `json:"combos"`
	NPath  int        `json:"npath"`
}

// one compact generator line (indices into the universe)
type c03Line struct {
	Universe *c03Universe `json:"universe,omitempty"`
	T        []int        `json:"t"`
	D        []int        `json:"d"` // routes added and deleted again before the lookup
	O        []string     `json:"o"` // observers that read the table before the lookup
	H        int          `json:"h"`
	TLS      int          `json:"tls"`
	W        [][]int      `json:"w"`
	Sni      int          `json:"sni"`
	X        *c03Explicit `json:"x,omitempty"`
}

type c03Route struct {
	ID   int    `json:"id"`
	Host string `json:"host"`
	Path string `json:"path"`
}

// one explicit lookup (replay files, failure records)
type c03Explicit struct {
	Kind    string     `json:"kind"` // lookup | sni
	Routes  []c03Route `json:"routes"`
	Host    string     `json:"host"`
	TLS     bool       `json:"tls"`
	Path    string     `json:"path"`
	Matcher string     `json:"matcher"`
	Glob    bool       `json:"glob"`
	Want    int        `json:"want"`
	Cache   int        `json:"cache"`
	Order   int        `json:"order"`
	Dead    []c03Route `json:"dead,omitempty"`    // added, then deleted by `route del`
	Builder string     `json:"builder,omitempty"` // "" / "text": NewTable, "custom": NewTableCustom
	Obs     []string   `json:"obs,omitempty"`     // observers that read the table before the lookup
}

// ---- the real code under test

// c03Commands is the command history that leaves `routes` in the table: every route (also the
// dead ones) is added, in an order chosen by `order`, then every dead route is deleted again
// with one of the three forms of `route del`.
func c03Commands(routes, dead []c03Route, order int) []RouteDef {
	rs := append(append([]c03Route(nil), routes...), dead...)
	// the table must not depend on the order of the commands: rotate / reverse by `order`
	if n := len(rs); n > 1 {
		k := order % n
		rs = append(rs[k:], rs[:k]...)
		if (order/n)%2 == 1 {
			for i, j := 0, n-1; i < j; i, j = i+1, j-1 {
				rs[i], rs[j] = rs[j], rs[i]
			}
		}
	}
	var defs []RouteDef
	dst := func(r c03Route) string { return fmt.Sprintf("http://127.0.0.1:%d/", 10000+r.ID) }
	for _, r := range rs {
		defs = append(defs, RouteDef{Cmd: RouteAddCmd, Service: fmt.Sprintf("r%d", r.ID), Src: r.Host + r.Path, Dst: dst(r)})
	}
	for _, r := range dead {
		d := RouteDef{Cmd: RouteDelCmd, Service: fmt.Sprintf("r%d", r.ID)}
		switch (r.ID + order) % 3 {
		case 1:
			d.Src = r.Host + r.Path
		case 2:
			d.Src, d.Dst = r.Host+r.Path, dst(r)
		}
		defs = append(defs, d)
	}
	return defs
}

func c03TableText(routes, dead []c03Route, order int) string {
	var b strings.Builder
	for _, d := range c03Commands(routes, dead, order) {
		switch d.Cmd {
		case RouteAddCmd:
			fmt.Fprintf(&b, "route add %s %s %s\n", d.Service, d.Src, d.Dst)
		case RouteDelCmd:
			b.WriteString(strings.TrimRight(fmt.Sprintf("route del %s %s %s", d.Service, d.Src, d.Dst), " ") + "\n")
		}
	}
	return b.String()
}

// c03Build builds the table through the text parser (NewTable) or from the command list of the
// custom back end (NewTableCustom).
func c03Build(routes, dead []c03Route, order int, builder string) (tbl Table, err error) {
	p, stack := verifx.Safely(func() {
		if builder == "custom" {
			defs := c03Commands(routes, dead, order)
			tbl, err = NewTableCustom(&defs)
		} else {
			tbl, err = newTableFromText(c03TableText(routes, dead, order))
		}
	})
	if p != nil {
		return nil, fmt.Errorf("panic: %v\n%s", p, stack)
	}
	return tbl, err
}

// c03Observe lets the observers of this package read the table (the admin API observers are
// applied by harness/admin/api/c03_test.go).  Reading must not change any answer.
func c03Observe(tbl Table, obs []string) {
	for _, o := range obs {
		switch o {
		case "String":
			_ = tbl.String()
		case "Dump":
			_ = tbl.Dump()
		}
	}
}

func c03ID(t *Target) int {
	if t == nil {
		return 0
	}
	n, err := strconv.Atoi(strings.TrimPrefix(t.Service, "r"))
	if err != nil {
		return -99
	}
	return n
}

func c03Request(host string, tls bool, path string) *http.Request {
	req := &http.Request{Method: "GET", Host: host, URL: &url.URL{Path: path}, Header: http.Header{}, RequestURI: path}
	if tls {
		req.TLS = &crypto_tls.ConnectionState{}
	}
	return req
}

func c03HasUpper(s string) bool { return s != strings.ToLower(s) }

func c03PortClass(host string) string {
	i := strings.LastIndex(host, ":")
	if i < 0 {
		return "none"
	}
	switch host[i+1:] {
	case "80", "443":
		return "default"
	}
	return "other"
}

// c03PatternClass names the syntactic class of a route's host pattern.
func c03PatternClass(h string) string {
	switch {
	case h == "":
		return "none"
	case strings.HasPrefix(h, "[:"):
		return "ipv6"
	case strings.Contains(h, "{"):
		return "brace"
	case strings.Contains(h, "?"):
		return "qmark"
	case strings.Contains(h, "["):
		return "class"
	case strings.Contains(h, "*"):
		return "star"
	}
	return "plain"
}

func c03FindRoute(rs []c03Route, id int) *c03Route {
	for i := range rs {
		if rs[i].ID == id {
			return &rs[i]
		}
	}
	return nil
}

// c03Features classifies a disagreement (matched against KNOWN_FINDINGS.txt).
func c03Features(x *c03Explicit, got int) map[string]any {
	f := map[string]any{"kind": x.Kind, "matcher": x.Matcher, "glob": map[bool]string{true: "on", false: "off"}[x.Glob],
		"host_upper": c03HasUpper(x.Host), "port": c03PortClass(x.Host), "req_ipv6": strings.HasPrefix(x.Host, "[")}
	if w := c03FindRoute(x.Routes, x.Want); w != nil {
		f["want_pattern"] = c03PatternClass(w.Host)
	}
	f["builder"] = map[bool]string{true: "custom", false: "text"}[x.Builder == "custom"]
	f["deleted_routes"] = len(x.Dead)
	f["observers"] = strings.Join(x.Obs, ",")
	switch {
	case x.Want > 0 && got == 0:
		f["clause"] = "no-route"
	case x.Want == 0 && got != 0:
		f["clause"] = "spurious-route"
	default:
		f["clause"] = "wrong-route"
		w, g := c03FindRoute(x.Routes, x.Want), c03FindRoute(x.Routes, got)
		switch {
		case w == nil || g == nil:
			f["differs"] = "unknown-route"
		case strings.ToLower(w.Host) != strings.ToLower(g.Host):
			f["differs"] = "host"
			if strings.ToLower(g.Host) == "*"+strings.ToLower(w.Host) {
				f["detail"] = "star-glued-to-exact"
			} else {
				f["detail"] = "other"
			}
		default:
			f["differs"] = "path"
			lw, lg := strings.ToLower(w.Path), strings.ToLower(g.Path)
			rawRelated := strings.HasPrefix(w.Path, g.Path) || strings.HasPrefix(g.Path, w.Path)
			if (strings.HasPrefix(lw, lg) || strings.HasPrefix(lg, lw)) && !rawRelated {
				f["detail"] = "paths-differ-in-case"
			} else {
				f["detail"] = "other"
			}
		}
	}
	return f
}

type c03Env struct {
	caches map[int]*GlobCache
}

func (e *c03Env) cache(n int) *GlobCache {
	if e.caches == nil {
		e.caches = map[int]*GlobCache{}
	}
	if c, ok := e.caches[n]; ok {
		return c
	}
	c := NewGlobCache(n)
	e.caches[n] = c
	return c
}

// c03Do performs one lookup against the real code and returns the id of the route served (0 = none).
func c03Do(e *c03Env, tbl Table, x *c03Explicit) (got int, panicked any, stack string) {
	panicked, stack = verifx.Safely(func() {
		switch x.Kind {
		case "sni":
			got = c03ID(tbl.LookupHost(x.Host, rrPicker))
		default:
			m, ok := Matcher[x.Matcher]
			if !ok {
				panic("no such matcher: " + x.Matcher)
			}
			got = c03ID(tbl.Lookup(c03Request(x.Host, x.TLS, x.Path), "", rrPicker, m, e.cache(x.Cache), !x.Glob))
		}
	})
	return
}

func c03Describe(x *c03Explicit, got int) string {
	var rs []string
	for _, r := range x.Routes {
		rs = append(rs, fmt.Sprintf("r%d=%s%s", r.ID, r.Host, r.Path))
	}
	for _, r := range x.Dead {
		rs = append(rs, fmt.Sprintf("(added and deleted again: r%d=%s%s)", r.ID, r.Host, r.Path))
	}
	if x.Builder == "custom" {
		rs = append(rs, "built by NewTableCustom")
	}
	if len(x.Obs) > 0 {
		rs = append(rs, "read by "+strings.Join(x.Obs, ",")+" before the lookup")
	}
	name := func(id int) string {
		if id == 0 {
			return "no route"
		}
		if r := c03FindRoute(x.Routes, id); r != nil {
			return fmt.Sprintf("r%d (%s%s)", id, r.Host, r.Path)
		}
		return fmt.Sprintf("r%d", id)
	}
	what := fmt.Sprintf("Lookup host=%q tls=%v path=%q matcher=%s glob=%v", x.Host, x.TLS, x.Path, x.Matcher, x.Glob)
	if x.Kind == "sni" {
		what = fmt.Sprintf("LookupHost(%q)", x.Host)
	}
	return fmt.Sprintf("table {%s}: %s served by %s, the specification prescribes %s", strings.Join(rs, ", "), what, name(got), name(x.Want))
}

type c03Stats struct {
	lines, lookups, sni, illposed, nontrivial, routed, unrouted, histories, batches, concLookups int64
}

func c03RunExplicit(e *c03Env, x *c03Explicit, st *c03Stats) {
	tbl, err := c03Build(x.Routes, x.Dead, x.Order, x.Builder)
	if err != nil {
		verifx.Fail(map[string]any{"x": x}, map[string]any{"kind": x.Kind, "clause": "table-rejected"}, "well-formed table rejected: %v\n%s", err, c03TableText(x.Routes, x.Dead, x.Order))
		return
	}
	c03Observe(tbl, x.Obs)
	c03Check(e, tbl, x, st)
}

func c03Check(e *c03Env, tbl Table, x *c03Explicit, st *c03Stats) {
	got, p, stack := c03Do(e, tbl, x)
	if x.Kind == "sni" {
		atomic.AddInt64(&st.sni, 1)
	} else {
		atomic.AddInt64(&st.lookups, 1)
	}
	if p != nil {
		f := map[string]any{"kind": x.Kind, "clause": "panic", "matcher": x.Matcher}
		verifx.Fail(map[string]any{"x": x}, f, "panic: %v in %s\n%s", p, c03Describe(x, 0), stack)
		return
	}
	if x.Want > 0 {
		atomic.AddInt64(&st.routed, 1)
	} else {
		atomic.AddInt64(&st.unrouted, 1)
	}
	if got != x.Want {
		xx := *x
		verifx.Fail(map[string]any{"x": &xx}, c03Features(x, got), "%s", c03Describe(x, got))
	}
}

func c03RunLine(e *c03Env, u *c03Universe, l *c03Line, n int64, seed int64, st *c03Stats) error {
	if u == nil {
		return fmt.Errorf("case line before any universe line")
	}
	var routes []c03Route
	for _, id := range l.T {
		pi, qi := (id-1)/u.NPath, (id-1)%u.NPath
		if id < 1 || pi >= len(u.Pats) || qi >= len(u.Paths) {
			return fmt.Errorf("route index %d outside the universe", id)
		}
		routes = append(routes, c03Route{ID: id, Host: u.Pats[pi].String(), Path: strings.Join(u.Paths[qi], "")})
	}
	if l.H < 1 || l.H > len(u.Hosts) || len(l.W) != len(u.RPaths) {
		return fmt.Errorf("malformed case line")
	}
	var dead []c03Route
	for _, id := range l.D {
		pi, qi := (id-1)/u.NPath, (id-1)%u.NPath
		if id < 1 || pi >= len(u.Pats) || qi >= len(u.Paths) {
			return fmt.Errorf("route index %d outside the universe", id)
		}
		dead = append(dead, c03Route{ID: id, Host: u.Pats[pi].String(), Path: strings.Join(u.Paths[qi], "")})
	}
	host := u.Hosts[l.H-1].String()
	order := int((n + seed) % 6)
	cacheSizes := []int{1000, 1, 2, 3}
	cache := cacheSizes[int((n/7+seed)%int64(len(cacheSizes)))]
	// a table with a history (deleted routes) is built both ways; plain tables alternate
	builders := []string{"text"}
	if len(dead) > 0 {
		builders = []string{"custom"}
		if (n+seed)%3 == 0 {
			builders = []string{"text", "custom"}
		}
	} else if (n+seed)%5 == 0 {
		builders = []string{"custom"}
	}
	outcomes := map[int]bool{}
	for _, builder := range builders {
		tbl, err := c03Build(routes, dead, order, builder)
		if err != nil {
			verifx.Fail(map[string]any{"line": l}, map[string]any{"kind": "lookup", "clause": "table-rejected", "builder": builder}, "well-formed table rejected: %v\n%s", err, c03TableText(routes, dead, order))
			return nil
		}
		c03Observe(tbl, l.O)
		for q, row := range l.W {
			if len(row) != len(u.Combos) {
				return fmt.Errorf("malformed result row")
			}
			for k, want := range row {
				if want < 0 {
					atomic.AddInt64(&st.illposed, 1)
					continue
				}
				outcomes[want] = true
				x := &c03Explicit{Kind: "lookup", Routes: routes, Dead: dead, Builder: builder, Obs: l.O, Host: host, TLS: l.TLS == 1, Path: strings.Join(u.RPaths[q], ""),
					Matcher: u.Combos[k].M, Glob: u.Combos[k].G == 1, Want: want, Cache: cache, Order: order}
				c03Check(e, tbl, x, st)
			}
		}
		if l.Sni > 0 {
			x := &c03Explicit{Kind: "sni", Routes: routes, Dead: dead, Builder: builder, Host: host, Want: l.Sni, Order: order}
			c03Check(e, tbl, x, st)
		}
	}
	if len(dead) > 0 {
		atomic.AddInt64(&st.histories, 1)
	}
	if len(routes) >= 2 && len(outcomes) >= 2 {
		atomic.AddInt64(&st.nontrivial, 1)
	}
	return nil
}

// c03Sample renders one generated transition for the evidence file.
func c03Sample(u *c03Universe, l *c03Line) string {
	var rs []string
	for _, id := range l.T {
		pi, qi := (id-1)/u.NPath, (id-1)%u.NPath
		if id < 1 || pi >= len(u.Pats) || qi >= len(u.Paths) {
			return "?"
		}
		rs = append(rs, fmt.Sprintf("r%d=%s%s", id, u.Pats[pi].String(), strings.Join(u.Paths[qi], "")))
	}
	if l.H < 1 || l.H > len(u.Hosts) {
		return "?"
	}
	var exp []string
	for q, row := range l.W {
		if q < len(u.RPaths) {
			exp = append(exp, fmt.Sprintf("%s->%v", strings.Join(u.RPaths[q], ""), row))
		}
	}
	return fmt.Sprintf("table {%s} host %s tls=%d expected route per path x [prefix/on prefix/off iprefix/on iprefix/off glob/on glob/off] (0 none, -1 not posed): %s",
		strings.Join(rs, ", "), u.Hosts[l.H-1].String(), l.TLS, strings.Join(exp, " "))
}

// c03RunBatch: several requests in flight at the same time on ONE table with ONE glob cache (as in
// the running proxy).  The specification is stateless: the route a request is served by depends on
// the table and on the request alone, whatever other lookups are in progress.  The lines of the
// batch are (request host, TLS) transitions of the same table.
func c03RunBatch(u *c03Universe, lines []*c03Line, n int64, st *c03Stats) error {
	if u == nil || len(lines) == 0 {
		return nil
	}
	conv := func(ids []int) ([]c03Route, error) {
		var rs []c03Route
		for _, id := range ids {
			pi, qi := (id-1)/u.NPath, (id-1)%u.NPath
			if id < 1 || pi >= len(u.Pats) || qi >= len(u.Paths) {
				return nil, fmt.Errorf("route index %d outside the universe", id)
			}
			rs = append(rs, c03Route{ID: id, Host: u.Pats[pi].String(), Path: strings.Join(u.Paths[qi], "")})
		}
		return rs, nil
	}
	routes, err := conv(lines[0].T)
	if err != nil {
		return err
	}
	dead, err := conv(lines[0].D)
	if err != nil {
		return err
	}
	order := int(n % 6)
	tbl, err := c03Build(routes, dead, order, "text")
	if err != nil {
		return nil // reported by the sequential pass
	}
	e := &c03Env{}
	e.cache(1000) // shared by all goroutines of the batch
	atomic.AddInt64(&st.batches, 1)
	var wg sync.WaitGroup
	var stop int32
	const goroutines, rounds = 6, 1
	for g := 0; g < goroutines; g++ {
		wg.Add(1)
		go func(g int) {
			defer wg.Done()
			for r := 0; r < rounds*len(lines) && atomic.LoadInt32(&stop) == 0; r++ {
				l := lines[(g*5+r)%len(lines)]
				if l.H < 1 || l.H > len(u.Hosts) || len(l.W) != len(u.RPaths) {
					continue
				}
				host := u.Hosts[l.H-1].String()
				for q, row := range l.W {
					for k, want := range row {
						if want < 0 || k >= len(u.Combos) {
							continue
						}
						x := &c03Explicit{Kind: "lookup", Routes: routes, Dead: dead, Builder: "text", Host: host, TLS: l.TLS == 1,
							Path: strings.Join(u.RPaths[q], ""), Matcher: u.Combos[k].M, Glob: u.Combos[k].G == 1, Want: want, Cache: 1000, Order: order}
						got, p, stack := c03Do(e, tbl, x)
						atomic.AddInt64(&st.concLookups, 1)
						if p != nil || got != want {
							atomic.StoreInt32(&stop, 1)
							f := c03Features(x, got)
							f["concurrent"] = true
							if p != nil {
								f["clause"] = "panic"
								verifx.Fail(map[string]any{"x": x}, f, "with %d goroutines looking up in the same table: panic: %v in %s\n%s", goroutines, p, c03Describe(x, 0), stack)
							} else {
								verifx.Fail(map[string]any{"x": x}, f, "with %d goroutines looking up in the same table (the same lookup alone is served correctly): %s", goroutines, c03Describe(x, got))
							}
							return
						}
					}
				}
			}
		}(g)
	}
	wg.Wait()
	return nil
}

func TestVerifC03(t *testing.T) {
	seed := verifx.Seed()
	type job struct {
		u     *c03Universe
		l     *c03Line
		n     int64
		batch []*c03Line
	}
	jobs := make(chan job, 1024)
	batchEvery := int64(verifx.EnvInt("VERIF_BATCH_EVERY", 1))
	var st c03Stats
	var wg sync.WaitGroup
	var errMu sync.Mutex
	var firstErr error
	workers := verifx.EnvInt("VERIF_WORKERS", 8)
	for w := 0; w < workers; w++ {
		wg.Add(1)
		go func() {
			defer wg.Done()
			e := &c03Env{} // GlobCache is not safe for concurrent use (C06): one per worker
			for j := range jobs {
				var err error
				if j.batch != nil {
					err = c03RunBatch(j.u, j.batch, j.n, &st)
				} else if j.l.X != nil {
					if j.l.X.Kind == "grpc" {
						continue // judged by harness/proxy/c03_grpc_test.go
					}
					c03RunExplicit(e, j.l.X, &st)
				} else {
					err = c03RunLine(e, j.u, j.l, j.n, seed, &st)
				}
				if err != nil {
					errMu.Lock()
					if firstErr == nil {
						firstErr = err
					}
					errMu.Unlock()
				}
			}
		}()
	}
	var cur *c03Universe
	var n int64
	seen := map[uint64]bool{}
	var samples []string
	// consecutive lines of the same table form a batch for the concurrent pass
	var batch []*c03Line
	var batchU *c03Universe
	var nbatch int64
	flush := func() {
		if len(batch) >= 8 {
			nbatch++
			if (nbatch+seed)%batchEvery == 0 {
				jobs <- job{u: batchU, n: nbatch, batch: batch}
			}
		}
		batch = nil
	}
	sameTable := func(a, b *c03Line) bool { return fmt.Sprint(a.T, a.D) == fmt.Sprint(b.T, b.D) }
	err := verifx.EachCase("", func(raw []byte) error {
		var l c03Line
		if err := json.Unmarshal(raw, &l); err != nil {
			return fmt.Errorf("bad line: %v", err)
		}
		if l.Universe != nil {
			flush()
			cur = l.Universe
			return nil
		}
		h := verifx.Hash(raw)
		if seen[h] {
			return nil // the same (table, host, TLS) generated twice (simulation)
		}
		seen[h] = true
		n++
		if l.X == nil && cur != nil && len(samples) < 4 && len(l.T) >= 2 && n%4001 == 17 {
			samples = append(samples, c03Sample(cur, &l))
		}
		jobs <- job{u: cur, l: &l, n: n}
		if l.X == nil && len(l.T) >= 1 {
			if len(batch) > 0 && (!sameTable(batch[0], &l) || batchU != cur) {
				flush()
			}
			batch, batchU = append(batch, &l), cur
		}
		return nil
	})
	flush()
	close(jobs)
	wg.Wait()
	if err == nil {
		err = firstErr
	}
	if err != nil {
		verifx.Emit(map[string]any{"kind": "error", "msg": err.Error()})
		t.Fatal(err)
	}
	sort.Strings(samples)
	verifx.Summary(map[string]any{"lines": n, "lookups": st.lookups, "sni": st.sni, "illposed": st.illposed,
		"distinct_nontrivial": st.nontrivial, "routed": st.routed, "unrouted": st.unrouted, "histories": st.histories, "samples": samples,
		"concurrent_tables": st.batches, "concurrent_lookups": st.concLookups})
}
