package route

// C05 conformance: every transition TLC examined in RouteLang (script + prescribed table) is
// replayed through the real parser and table builder; the projected table must equal the
// prescribed one, and the text rendering must re-parse to the prescribed round-trip table.

import (
	"encoding/json"
	"fmt"
	"runtime"
	"strings"
	"sync"
	"sync/atomic"
	"testing"

	"github.com/fabiolb/fabio/internal/verifx"
)

type c05Case struct {
	Script []vCmd `json:"script"`
	Table  vTable `json:"table"`
	Twins  bool   `json:"twins"`
	RT     vTable `json:"rt"`
	// replay only: which spelling / path failed
	Spelling string `json:"spelling,omitempty"`
	Path     string `json:"path,omitempty"`
}

var c05Spellings = map[string]*vSpelling{
	"plain":     nil,
	"spaces":    {sep: []string{"  ", "\t", " \t ", " "}},
	"backslash": {tag: map[string]string{"t2": `t\2`, "t1": `a\b\\c`}},
	"unicode":   {tag: map[string]string{"t1": "größe", "t2": "日本 語"}, sep: []string{" ", "   "}},
	"punct":     {tag: map[string]string{"t1": "k=v;x", "t2": "'q'"}},
	"duptags":   {dup: true},
	// redirect routes whose destination mentions the request right after the host (documented form host$path)
	"redirdst": {optAll: true, opt: map[string]string{"": "redirect=301", "strip=/x": "redirect=302 strip=/x"},
		dst: map[string]string{"http://u1:80/": "http://u1.test$path", "http://u2:80/": "https://u2.test$path", "http://u1:80/?v=2": "http://u1.test/$path", "http://x@u1:80/": "http://$host$path"}},
	// access rules fabio cannot process (fail closed): the options of the target are still those of the command
	"badacl": {optAll: true, opt: map[string]string{"": "allow=ip:10.0.0.0/33", "strip=/x": "strip=/x allow=ip:1.2.3.4 deny=ip:5.6.7.8"}},
	// the custom backend's JSON may carry "tags": [] - an empty list is no tag selection
	"emptytags": {emptyTags: true},
	"opteq":     {opt: map[string]string{"strip=/x": "strip=/v=1 prepend=/p=q= host=dst flag"}, sep: []string{" ", "\t"}},
}

func c05Features(c *c05Case, class, spelling, path string) map[string]any {
	upper := false
	last := ""
	for _, cmd := range c.Script {
		if cmd.Op != "add" && cmd.Src != strings.ToLower(cmd.Src) {
			upper = true
		}
		last = cmd.Op
	}
	return map[string]any{"diff": class, "last_op": last, "upper_host_in_del_or_weight": upper, "spelling": spelling, "path": path}
}

func c05RunOne(c *c05Case, spName string, usePath string) (class, msg string) {
	sp := c05Spellings[spName]
	var tbl Table
	var err error
	p, stack := verifx.Safely(func() {
		if usePath == "defs" {
			var defs []RouteDef
			for _, cmd := range c.Script {
				defs = append(defs, cmdDef(cmd, sp))
			}
			tbl, err = NewTableCustom(&defs)
		} else {
			tbl, err = newTableFromText(scriptText(c.Script, sp, len(c.Script)))
		}
	})
	if p != nil {
		return "panic", fmt.Sprintf("panic: %v\n%s", p, stack)
	}
	if err != nil {
		return "error:" + err.Error(), fmt.Sprintf("well-formed script rejected: %v\n%s", err, scriptText(c.Script, sp, len(c.Script)))
	}
	got, bad := project(tbl)
	if len(bad) > 0 {
		return "structure", strings.Join(bad, "; ")
	}
	if cl, m := diffTable(got, c.Table, sp, true); cl != "" {
		return cl, m + "\nscript:\n" + scriptText(c.Script, sp, len(c.Script))
	}
	if c.Twins {
		return "", ""
	}
	// round trip through the text rendering
	text := tbl.String()
	var t2 Table
	p, stack = verifx.Safely(func() { t2, err = newTableFromText(text) })
	if p != nil {
		return "roundtrip-panic", fmt.Sprintf("panic re-parsing rendering: %v\n%s", p, stack)
	}
	if err != nil {
		return "roundtrip-reject", fmt.Sprintf("rendering rejected by the parser: %v\n%s", err, text)
	}
	got2, bad := project(t2)
	if len(bad) > 0 {
		return "roundtrip-structure", strings.Join(bad, "; ")
	}
	// The rendering omits targets without traffic share.  Whether a dynamic target next to fixed
	// weights that add up to exactly 100% has share 0 or 1e-16 is float noise, so a target whose
	// share is zero within the tolerance is no difference in either direction (it is unobservable
	// by lookups); the specification's round-trip table holds the positive-share targets only.
	noise := map[string]bool{} // targets of the original table whose share is zero within the tolerance
	for k, ts := range got {
		for _, x := range ts {
			if x.Weight <= wTol {
				noise[k+"|"+x.Svc+"|"+x.Dst+"|"+strings.Join(x.Tags, ",")] = true
			}
		}
	}
	for k, ts := range got2 {
		var keep []pTarget
		for _, x := range ts {
			if x.Weight > wTol && !noise[k+"|"+x.Svc+"|"+x.Dst+"|"+strings.Join(x.Tags, ",")] {
				keep = append(keep, x)
			}
		}
		if len(keep) == 0 {
			delete(got2, k)
		} else {
			got2[k] = keep
		}
	}
	if cl, m := diffTable(got2, c.RT, sp, false); cl != "" {
		return "roundtrip-" + cl, m + "\nrendering:\n" + text
	}
	return "", ""
}

func TestVerifC05(t *testing.T) {
	seed := verifx.Seed()
	variantEvery := int64(verifx.EnvInt("VERIF_VARIANT_EVERY", 5))
	type job struct {
		raw []byte
		n   int64
	}
	jobs := make(chan job, 1024)
	var ran, variants, rts, nontrivial int64
	var seen sync.Map
	var wg sync.WaitGroup
	var sampleMu sync.Mutex
	var samples []string
	spNames := []string{"spaces", "backslash", "unicode", "punct", "opteq", "duptags", "redirdst", "badacl"}
	for w := 0; w < runtime.NumCPU(); w++ {
		wg.Add(1)
		go func() {
			defer wg.Done()
			for j := range jobs {
				var c c05Case
				if err := json.Unmarshal(j.raw, &c); err != nil {
					verifx.Emit(map[string]any{"kind": "error", "msg": "bad case: " + err.Error()})
					continue
				}
				if _, dup := seen.LoadOrStore(verifx.Hash(j.raw), true); !dup && len(c.Script) >= 2 && len(c.Table) > 0 {
					atomic.AddInt64(&nontrivial, 1)
				}
				type variant struct{ sp, path string }
				vs := []variant{{"plain", "text"}}
				if c.Spelling != "" { // replay of one recorded failure
					vs = []variant{{c.Spelling, c.Path}}
				} else if (j.n+seed)%variantEvery == 0 {
					vs = append(vs, variant{"plain", "defs"}, variant{spNames[int((j.n/variantEvery+seed)%int64(len(spNames)))], "text"})
					if (j.n/variantEvery+seed)%3 == 0 {
						vs = append(vs, variant{"emptytags", "defs"})
					}
				}
				for _, v := range vs {
					if _, ok := c05Spellings[v.sp]; !ok {
						continue
					}
					class, msg := c05RunOne(&c, v.sp, v.path)
					atomic.AddInt64(&ran, 1)
					if v.sp != "plain" || v.path != "text" {
						atomic.AddInt64(&variants, 1)
					}
					if !c.Twins {
						atomic.AddInt64(&rts, 1)
					}
					if class != "" {
						cc := c
						cc.Spelling, cc.Path = v.sp, v.path
						verifx.Fail(cc, c05Features(&c, class, v.sp, v.path), "%s", msg)
					}
				}
				if j.n%50021 == 7 {
					sampleMu.Lock()
					if len(samples) < 4 {
						samples = append(samples, scriptText(c.Script, nil, 0))
					}
					sampleMu.Unlock()
				}
			}
		}()
	}
	var n int64
	err := verifx.EachCase("", func(raw []byte) error {
		n++
		jobs <- job{append([]byte(nil), raw...), n}
		return nil
	})
	close(jobs)
	wg.Wait()
	if err != nil {
		t.Fatal(err)
	}
	verifx.Summary(map[string]any{"cases": n, "ran": ran, "variants": variants, "roundtrips": rts, "distinct_nontrivial": nontrivial, "samples": samples})
}
