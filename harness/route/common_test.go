package route

// Shared helpers of the /verif conformance tests for package route (mounted by overlay).

import (
	"bytes"
	"fmt"
	"math"
	"reflect"
	"sync/atomic"
	"unsafe"
	"sort"
	"strconv"
	"strings"
)

// ---- abstract commands as printed by RouteLang_MC!CmdJson

type vCmd struct {
	Op   string   `json:"op"`
	Svc  string   `json:"svc"`
	Src  string   `json:"src"`
	Dst  string   `json:"dst"`
	Wn   int64    `json:"wn"`
	Wd   int64    `json:"wd"`
	Tags []string `json:"tags"`
	Opts string   `json:"opts"`
}

type vTarget struct {
	Svc  string   `json:"svc"`
	Dst  string   `json:"dst"`
	Fwn  int64    `json:"fwn"`
	Fwd  int64    `json:"fwd"`
	Tags []string `json:"tags"`
	Opts string   `json:"opts"`
	Ewn  int64    `json:"ewn"`
	Ewd  int64    `json:"ewd"`
}

type vTable map[string][]vTarget

func ratio(n, d int64) float64 {
	if d == 0 {
		return math.NaN()
	}
	return float64(n) / float64(d)
}

func fmtWeight(n, d int64) string {
	return strconv.FormatFloat(ratio(n, d), 'g', -1, 64)
}

// vSpelling maps abstract tokens to concrete spellings (identity by default).  It lets one
// generated case be replayed with grammar-legal but unusual tokens.
type vSpelling struct {
	tag map[string]string
	opt map[string]string // whole option strings
	sep []string          // separators between words of a command
	dst map[string]string // destinations
	optAll bool           // opt also maps the empty option string (every add gets options)
	emptyTags bool        // definitions carry an empty non-nil tag list ("tags": []) instead of none
	dup bool              // `route add` spells its tag list with the first tag repeated at the end (legal; Consul does not de-duplicate service tags)
}

// addTags is the tag list of a `route add` command in this spelling.
func (sp *vSpelling) addTags(ts []string) []string {
	out := sp.tags(ts)
	if sp != nil && sp.dup && len(out) > 0 {
		out = append(out, out[0])
	}
	return out
}

func tagSet(ts []string) map[string]bool {
	m := map[string]bool{}
	for _, t := range ts {
		m[t] = true
	}
	return m
}

// eqTagSets compares two tag lists as sets.
func eqTagSets(a, b []string) bool {
	x, y := tagSet(a), tagSet(b)
	if len(x) != len(y) {
		return false
	}
	for k := range x {
		if !y[k] {
			return false
		}
	}
	return true
}

func (sp *vSpelling) dstOf(d string) string {
	if sp != nil && sp.dst != nil {
		if v, ok := sp.dst[d]; ok {
			return v
		}
	}
	return d
}

func (sp *vSpelling) optOf(o string) string {
	if o == "" && (sp == nil || !sp.optAll) {
		return ""
	}
	if sp != nil && sp.opt != nil {
		if v, ok := sp.opt[o]; ok {
			return v
		}
	}
	return o
}

// optsMap splits an option string the documented way: fields "k=v", the key ends at the FIRST '='.
func optsMap(o string) map[string]string {
	m := map[string]string{}
	for _, f := range strings.Fields(o) {
		if i := strings.IndexByte(f, '='); i >= 0 {
			m[f[:i]] = f[i+1:]
		} else {
			m[f] = ""
		}
	}
	return m
}

func (sp *vSpelling) tagOf(t string) string {
	if sp != nil && sp.tag != nil {
		if v, ok := sp.tag[t]; ok {
			return v
		}
	}
	return t
}

func (sp *vSpelling) tags(ts []string) []string {
	var out []string
	for _, t := range ts {
		out = append(out, sp.tagOf(t))
	}
	return out
}

// cmdText renders an abstract command in the documented grammar.
func cmdText(c vCmd, sp *vSpelling, k int) string {
	sep := func() string {
		if sp == nil || len(sp.sep) == 0 {
			return " "
		}
		k++
		return sp.sep[k%len(sp.sep)]
	}
	var b strings.Builder
	w := func(s string) {
		if b.Len() > 0 {
			b.WriteString(sep())
		}
		b.WriteString(s)
	}
	tags := func() {
		if len(c.Tags) > 0 {
			w("tags")
			if c.Op == "add" {
				w(`"` + strings.Join(sp.addTags(c.Tags), ",") + `"`)
			} else {
				w(`"` + strings.Join(sp.tags(c.Tags), ",") + `"`)
			}
		}
	}
	switch c.Op {
	case "add":
		w("route")
		w("add")
		w(c.Svc)
		w(c.Src)
		w(sp.dstOf(c.Dst))
		if c.Wn != 0 {
			w("weight")
			w(fmtWeight(c.Wn, c.Wd))
		}
		tags()
		if o := sp.optOf(c.Opts); o != "" {
			w("opts")
			w(`"` + o + `"`)
		}
	case "del":
		w("route")
		w("del")
		if c.Svc != "" {
			w(c.Svc)
		}
		if c.Src != "" {
			w(c.Src)
		}
		if c.Dst != "" {
			w(sp.dstOf(c.Dst))
		}
		tags()
	case "weight":
		w("route")
		w("weight")
		if c.Svc != "" {
			w(c.Svc)
		}
		w(c.Src)
		w("weight")
		w(fmtWeight(c.Wn, c.Wd))
		tags()
	}
	return b.String()
}

func scriptText(cs []vCmd, sp *vSpelling, seed int) string {
	var lines []string
	for i, c := range cs {
		lines = append(lines, cmdText(c, sp, seed+i))
		if sp != nil && len(sp.sep) > 0 && (seed+i)%3 == 0 {
			lines = append(lines, "", "# a comment", "  // another")
		}
	}
	return strings.Join(lines, "\n")
}

func cmdDef(c vCmd, sp *vSpelling) RouteDef {
	d := RouteDef{Service: c.Svc, Src: c.Src, Dst: sp.dstOf(c.Dst), Tags: sp.tags(c.Tags)}
	if sp != nil && sp.emptyTags && len(c.Tags) == 0 {
		d.Tags = []string{} // "tags": [] in the custom backend's JSON
	}
	switch c.Op {
	case "add":
		d.Cmd = RouteAddCmd
		d.Tags = sp.addTags(c.Tags)
	case "del":
		d.Cmd = RouteDelCmd
	case "weight":
		d.Cmd = RouteWeightCmd
	}
	if c.Wn != 0 {
		d.Weight = ratio(c.Wn, c.Wd)
	}
	if o := sp.optOf(c.Opts); o != "" && c.Op == "add" {
		d.Opts = optsMap(o)
	}
	return d
}

// ---- projection of a real table

type pTarget struct {
	OptsMap                 map[string]string
	Strip, Prepend, HostOpt string
	Svc                     string
	Dst                     string
	Fixed                   float64
	Tags                    []string
	Opts                    string
	Weight                  float64
}

func optsString(m map[string]string) string {
	var ks []string
	for k := range m {
		ks = append(ks, k)
	}
	sort.Strings(ks)
	var vs []string
	for _, k := range ks {
		vs = append(vs, k+"="+m[k])
	}
	return strings.Join(vs, " ")
}

// project returns key -> ordered targets, plus structural complaints (empty host / route).
func project(t Table) (map[string][]pTarget, []string) {
	out := map[string][]pTarget{}
	var bad []string
	for host, routes := range t {
		if len(routes) == 0 {
			bad = append(bad, fmt.Sprintf("host %q has no routes", host))
		}
		for _, r := range routes {
			key := host + r.Path
			if r.Host != host {
				bad = append(bad, fmt.Sprintf("route %q filed under host %q", r.Host+r.Path, host))
			}
			if len(r.Targets) == 0 {
				bad = append(bad, fmt.Sprintf("route %q has no targets", key))
			}
			if _, dup := out[key]; dup {
				bad = append(bad, fmt.Sprintf("route %q appears twice", key))
			}
			var ts []pTarget
			for _, tg := range r.Targets {
				fw := tg.FixedWeight
				if fw < 0 {
					fw = 0
				}
				ts = append(ts, pTarget{Svc: tg.Service, Dst: tg.URL.String(), Fixed: fw, Tags: tg.Tags,
					Opts: optsString(tg.Opts), Weight: tg.Weight, OptsMap: tg.Opts, Strip: tg.StripPath, Prepend: tg.PrependPath, HostOpt: tg.Host})
			}
			out[key] = ts
		}
	}
	return out, bad
}

const wTol = 1e-9

func eqTags(a, b []string) bool {
	if len(a) != len(b) {
		return false
	}
	for i := range a {
		if a[i] != b[i] {
			return false
		}
	}
	return true
}

// diffTable compares the projection of a real table with the table the spec prescribes.
// It returns "" when equal, otherwise a class word and a human readable description.
func diffTable(got map[string][]pTarget, want vTable, sp *vSpelling, effective bool) (class, msg string) {
	for k := range want {
		if _, ok := got[k]; !ok {
			return "missing-route", fmt.Sprintf("route %q missing", k)
		}
	}
	for k := range got {
		if _, ok := want[k]; !ok {
			return "extra-route", fmt.Sprintf("unexpected route %q", k)
		}
	}
	for k, wts := range want {
		gts := got[k]
		if len(gts) != len(wts) {
			return "target-count", fmt.Sprintf("route %q: %d targets, want %d (%+v)", k, len(gts), len(wts), gts)
		}
		for i := range wts {
			g, w := gts[i], wts[i]
			if g.Svc != w.Svc || g.Dst != sp.dstOf(w.Dst) {
				return "target-identity", fmt.Sprintf("route %q target %d is %s %s, want %s %s", k, i, g.Svc, g.Dst, w.Svc, sp.dstOf(w.Dst))
			}
			if sp != nil && sp.dup {
				// repeated tags: whether the table keeps the repetition is not stated; as sets they must agree
				if !eqTagSets(g.Tags, sp.tags(w.Tags)) {
					return "target-tags", fmt.Sprintf("route %q target %d tags %q, want the set %q", k, i, g.Tags, sp.tags(w.Tags))
				}
			} else if !eqTags(g.Tags, sp.tags(w.Tags)) {
				return "target-tags", fmt.Sprintf("route %q target %d tags %q, want %q", k, i, g.Tags, sp.tags(w.Tags))
			}
			wantOpts := optsMap(sp.optOf(w.Opts))
			if len(wantOpts) != len(g.OptsMap) {
				return "target-opts", fmt.Sprintf("route %q target %d opts %q, want %q", k, i, g.Opts, sp.optOf(w.Opts))
			}
			for ok, ov := range wantOpts {
				if gv, has := g.OptsMap[ok]; !has || gv != ov {
					return "target-opts", fmt.Sprintf("route %q target %d opts %q, want %q", k, i, g.Opts, sp.optOf(w.Opts))
				}
			}
			if g.Strip != wantOpts["strip"] || g.Prepend != wantOpts["prepend"] || g.HostOpt != wantOpts["host"] {
				return "target-opt-fields", fmt.Sprintf("route %q target %d strip=%q prepend=%q host=%q, want opts %q", k, i, g.Strip, g.Prepend, g.HostOpt, sp.optOf(w.Opts))
			}
			if math.Abs(g.Fixed-ratio(w.Fwn, w.Fwd)) > wTol {
				return "fixed-weight", fmt.Sprintf("route %q target %d fixed weight %v, want %d/%d", k, i, g.Fixed, w.Fwn, w.Fwd)
			}
			if effective && !(math.Abs(g.Weight-ratio(w.Ewn, w.Ewd)) <= wTol) {
				return "effective-weight", fmt.Sprintf("route %q target %d weight %v, want %d/%d", k, i, g.Weight, w.Ewn, w.Ewd)
			}
		}
	}
	return "", ""
}

func newTableFromText(s string) (Table, error) {
	return NewTable(bytes.NewBufferString(s))
}

// vCursorField finds the round-robin counter of a route (field "total") whatever unsigned integer type it has.
func vCursorField(r *Route) (p unsafe.Pointer, bits int) {
	f := reflect.ValueOf(r).Elem().FieldByName("total")
	if !f.IsValid() || !f.CanAddr() {
		return nil, 0
	}
	switch f.Kind() {
	case reflect.Uint64:
		return unsafe.Pointer(f.UnsafeAddr()), 64
	case reflect.Uint32:
		return unsafe.Pointer(f.UnsafeAddr()), 32
	}
	return nil, 0
}

// vCursorGet reads the counter (0 when it cannot be found).
func vCursorGet(r *Route) uint64 {
	switch p, bits := vCursorField(r); bits {
	case 64:
		return atomic.LoadUint64((*uint64)(p))
	case 32:
		return uint64(atomic.LoadUint32((*uint32)(p)))
	}
	return 0
}

// vCursorSet positions the counter at v; false when the field is missing or cannot hold v.
func vCursorSet(r *Route, v uint64) bool {
	switch p, bits := vCursorField(r); bits {
	case 64:
		atomic.StoreUint64((*uint64)(p), v)
		return true
	case 32:
		if v>>32 != 0 {
			return false
		}
		atomic.StoreUint32((*uint32)(p), uint32(v))
		return true
	}
	return false
}
