package route

// C02 conformance in package route:
//  - TestVerifC02Hostile: every hostile command script enumerated by TLC (spec/RouteHostile_MC)
//    through NewTable and NewTableCustom, then lookups and rendering of an accepted table; the
//    only outcomes the specification knows are "accepted" and "rejected".
//  - TestVerifC02Swap: a writer alternates two complete tables while readers perform lookups;
//    invocations/responses are recorded with a logical clock for validation against
//    spec/TableSwap_Trace (built with -race).

import (
	"encoding/json"
	"fmt"
	"net/http"
	"net/url"
	"os"
	"path/filepath"
	"strconv"
	"strings"
	"sync"
	"sync/atomic"
	"testing"

	"github.com/fabiolb/fabio/config"
	"github.com/fabiolb/fabio/internal/verifx"
	"github.com/fabiolb/fabio/metrics"
)

type c02Cmd struct {
	Op   string `json:"op"`
	Svc  string `json:"svc"`
	Src  string `json:"src"`
	Dst  string `json:"dst"`
	W    string `json:"w"`
	Tags string `json:"tags"`
	Opts string `json:"opts"`
}
type c02Script struct {
	Script []c02Cmd `json:"script"`
}

var c02Long = strings.Repeat("x", 64<<10)

func c02Tok(s string) string {
	switch s {
	case "@long":
		return c02Long
	case "@digits400":
		return "1" + strings.Repeat("0", 399)
	}
	return s
}

func c02Text(c c02Cmd) string {
	var b strings.Builder
	b.WriteString("route " + c.Op)
	for _, s := range []string{c.Svc, c.Src, c.Dst} {
		if s != "" {
			b.WriteString(" " + c02Tok(s))
		}
	}
	if c.Op == "del" {
		if c.Tags != "" {
			b.WriteString(` tags "` + c02Tok(c.Tags) + `"`)
		}
		return b.String()
	}
	if c.W != "" || c.Op == "weight" {
		b.WriteString(" weight " + c02Tok(c.W))
	}
	if c.Tags != "" {
		b.WriteString(` tags "` + c02Tok(c.Tags) + `"`)
	}
	if c.Opts != "" {
		b.WriteString(` opts "` + c02Tok(c.Opts) + `"`)
	}
	return b.String()
}

func c02Def(c c02Cmd) RouteDef {
	d := RouteDef{Cmd: Cmd("route " + c.Op), Service: c02Tok(c.Svc), Src: c02Tok(c.Src), Dst: c02Tok(c.Dst)}
	if c.W != "" {
		// a JSON document can carry every finite float; non-finite ones are not expressible there
		if f, err := strconv.ParseFloat(c02Tok(c.W), 64); err == nil && f == f && f-f == 0 {
			d.Weight = f
		}
	}
	if c.Tags != "" {
		d.Tags = parseTags(c02Tok(c.Tags))
	}
	if c.Opts != "" {
		d.Opts = parseOpts(c02Tok(c.Opts))
	}
	return d
}

// c02Use exercises an accepted table the way the proxies do.
func c02Use(t Table) {
	gc := NewGlobCache(4)
	for host, routes := range t {
		for _, r := range routes {
			for _, m := range []string{"prefix", "iprefix", "glob"} {
				for _, p := range []string{"rr", "rnd"} {
					for i := 0; i < 3; i++ {
						req := &http.Request{Host: host, URL: &url.URL{Path: r.Path + "/x"}, Header: http.Header{}}
						t.Lookup(req, "", Picker[p], Matcher[m], gc, false)
						t.Lookup(req, "", Picker[p], Matcher[m], gc, true)
					}
				}
			}
			t.LookupHost(host, Picker["rr"])
		}
	}
	_ = t.String()
	_ = t.Dump()
}

// c02Metrics wires a metrics backend the way main does (config.Load -> metrics.Initialize ->
// route.SetMetricsProvider): every target of every table built registers its timer with it.
func c02Metrics(t *testing.T) {
	m := os.Getenv("VERIF_METRICS")
	if m == "" {
		return
	}
	cfg, err := config.Load([]string{"fabio", "-metrics.target", m, "-metrics.statsd.addr", "127.0.0.1:8125",
		"-metrics.graphite.addr", "127.0.0.1:2003", "-metrics.dogstatsd.addr", "127.0.0.1:8125", "-metrics.interval", "1h"}, nil)
	if err != nil {
		t.Fatalf("config.Load: %v", err)
	}
	p, err := metrics.Initialize(&cfg.Metrics)
	if err != nil {
		t.Fatalf("metrics.Initialize(%s): %v", m, err)
	}
	SetMetricsProvider(p)
}

func TestVerifC02Hostile(t *testing.T) {
	c02Metrics(t)
	var n, accepted, rejected int
	var samples []any
	err := verifx.EachCase("", func(raw []byte) error {
		var sc c02Script
		if err := json.Unmarshal(raw, &sc); err != nil {
			return err
		}
		n++
		var lines []string
		var defs []RouteDef
		for _, c := range sc.Script {
			lines = append(lines, c02Text(c))
			defs = append(defs, c02Def(c))
		}
		// a plain last command: when the text is accepted nothing of it may have been dropped silently
		const sentinel = "route add sentinel sentinel.test/ http://sentinel:80/"
		lines = append(lines, sentinel)
		defs = append(defs, RouteDef{Cmd: RouteAddCmd, Service: "sentinel", Src: "sentinel.test/", Dst: "http://sentinel:80/"})
		text := strings.Join(lines, "\n")
		for _, path := range []string{"text", "defs"} {
			var tbl Table
			var err error
			p, stack := verifx.Safely(func() {
				if path == "text" {
					tbl, err = newTableFromText(text)
				} else {
					tbl, err = NewTableCustom(&defs)
				}
				if err == nil {
					c02Use(tbl)
				}
			})
			if p == nil && err == nil && tbl.route("sentinel.test", "/") == nil {
				short := text
				if len(short) > 300 {
					short = short[:300] + "..."
				}
				verifx.Fail(sc, map[string]any{"sub": "hostile", "path": path, "clause": "accepted-but-truncated"},
					"configuration text accepted without error but its last command is missing from the table (%s path):\n%s", path, short)
				continue
			}
			if p != nil {
				short := text
				if len(short) > 300 {
					short = short[:300] + "..."
				}
				cls := fmt.Sprint(p)
				if len(cls) > 60 {
					cls = cls[:60]
				}
				verifx.Fail(sc, map[string]any{"sub": "hostile", "path": path, "panic": cls}, "panic on configuration text (%s path): %v\n%s\n%s", path, p, short, stack)
				continue
			}
			if err != nil {
				rejected++
			} else {
				accepted++
			}
		}
		if n%2503 == 11 && len(samples) < 4 {
			s := text
			if len(s) > 200 {
				s = s[:200] + "..."
			}
			samples = append(samples, s)
		}
		return nil
	})
	if err != nil {
		t.Fatal(err)
	}
	verifx.Summary(map[string]any{"scripts": n, "accepted": accepted, "rejected": rejected, "samples": samples})
}

// A has glob hosts, B has only plain ones; every probe has a route in both
const c02TableA = "route add A1 /foo http://a1:80/\nroute add A2 / http://a2:80/\nroute add A3 h.com/ http://a3:80/\nroute add A4 *.g.com/ http://a4:80/\nroute add A5 *.com:8443/x http://a5:80/"
const c02TableB = "route add B1 /foo/bar http://b1:80/\nroute add B2 / http://b2:80/\nroute add B3 h.com/x http://b3:80/\nroute add B4 x.g.com/ http://b4:80/\nroute add B5 y.com:8443/x http://b5:80/"

// c02Big appends 70 hosts with nested paths, added shortest first (the order the sort has to repair), to a swap
// table: a table is complete - sorted included - when it is installed.  Probes 6 and 7 ask for the deepest path
// of two of these hosts.
func c02Big(v, text string) string {
	var b strings.Builder
	b.WriteString(text)
	for i := 0; i < 70; i++ {
		deep := v + "9"
		if i == 7 {
			deep = v + "6"
		} else if i == 63 {
			deep = v + "7"
		}
		fmt.Fprintf(&b, "\nroute add %s0 big%d.test/ http://%s-r%d:80/", v, i, strings.ToLower(v), i)
		fmt.Fprintf(&b, "\nroute add %s0 big%d.test/x http://%s-x%d:80/", v, i, strings.ToLower(v), i)
		fmt.Fprintf(&b, "\nroute add %s big%d.test/x/y http://%s-y%d:80/", deep, i, strings.ToLower(v), i)
	}
	return b.String()
}

// TestVerifC02BigInstall: a published table is COMPLETE.  A writer installs large tables (215 routes, 70 hosts with
// nested paths given shortest first) alternately; every reader loads the register once and asks the loaded
// table for the deepest paths: the answer must be the one the finished table of that version gives.
func TestVerifC02BigInstall(t *testing.T) {
	installs := verifx.EnvInt("VERIF_WRITES", 30)
	old := GetTable()
	defer SetTable(old)
	texts := map[string]string{"A": c02Big("A", c02TableA), "B": c02Big("B", c02TableB)}
	first, err := newTableFromText(texts["A"])
	if err != nil {
		t.Fatal(err)
	}
	SetTable(first)
	var stop int32
	var wg sync.WaitGroup
	var lookups int64
	for g := 0; g < 8; g++ {
		wg.Add(1)
		go func(g int) {
			defer wg.Done()
			gc := NewGlobCache(8)
			for atomic.LoadInt32(&stop) == 0 {
				tb := GetTable()
				v := "A"
				if _, isA := tb["h.com"]; isA {
					if tb["h.com"][0].Targets[0].Service[:1] == "B" {
						v = "B"
					}
				}
				for _, p := range []struct{ host, want string }{{"big7.test", "6"}, {"big63.test", "7"}, {fmt.Sprintf("big%d.test", 10+g), "9"}} {
					req := &http.Request{Host: p.host, URL: &url.URL{Path: "/x/y/z"}, Header: http.Header{}}
					tg := tb.Lookup(req, "", Picker["rr"], Matcher["prefix"], gc, false)
					atomic.AddInt64(&lookups, 1)
					if tg == nil || tg.Service != v+p.want {
						verifx.Fail(map[string]any{"host": p.host}, map[string]any{"sub": "swap", "clause": "published-table-incomplete"},
							"a lookup on the table it had just loaded (version %s, 215 routes) for %s/x/y/z was answered by %v; the finished table answers %s%s (most specific path)", v, p.host, tg, v, p.want)
					}
				}
			}
		}(g)
	}
	for i := 0; i < installs; i++ {
		v := "B"
		if i%2 == 1 {
			v = "A"
		}
		p, stack := verifx.Safely(func() {
			tb, err := newTableFromText(texts[v])
			if err != nil {
				panic(err)
			}
			SetTable(tb)
		})
		if p != nil {
			verifx.Fail(map[string]any{"v": v}, map[string]any{"sub": "swap", "clause": "build-panic"}, "building a table of 215 routes panicked: %v\n%s", p, stack)
		}
	}
	atomic.StoreInt32(&stop, 1)
	wg.Wait()
	verifx.Summary(map[string]any{"installs": installs, "lookups": atomic.LoadInt64(&lookups)})
}

func TestVerifC02Swap(t *testing.T) {
	writes := verifx.EnvInt("VERIF_WRITES", 60)
	reads := verifx.EnvInt("VERIF_READS", 50)
	readers := 8
	tr := &verifx.Trace{}
	install := func(v string) {
		text := c02TableA
		if v == "B" {
			text = c02TableB
		}
		tr.Add(map[string]any{"ev": "WInv", "v": v})
		tb, err := newTableFromText(text)
		if err != nil {
			panic(err)
		}
		SetTable(tb)
		tr.Add(map[string]any{"ev": "WRet"})
	}
	old := GetTable()
	defer SetTable(old)
	install("A")
	probes := []struct{ host, path string }{{"other.com", "/foo/bar/x"}, {"other.com:80", "/zzz"}, {"H.com", "/x/y"}, {"x.g.com", "/"}, {"y.com:8443", "/x/1"}}
	var wg sync.WaitGroup
	start := make(chan struct{})
	for g := 0; g < readers; g++ {
		wg.Add(1)
		go func(g int) {
			defer wg.Done()
			gc := NewGlobCache(8)
			<-start
			for i := 0; i < reads; i++ {
				tr.Add(map[string]any{"ev": "RInv", "g": g})
				tb := GetTable()
				res := make([]string, len(probes))
				for k, p := range probes {
					req := &http.Request{Host: p.host, URL: &url.URL{Path: p.path}, Header: http.Header{}}
					tg := tb.Lookup(req, "", Picker["rr"], Matcher["prefix"], gc, false)
					if tg == nil {
						res[k] = "none"
					} else {
						res[k] = tg.Service[:1]
						if want := fmt.Sprint(k + 1); tg.Service[1:] != want {
							res[k] = "wrong:" + tg.Service // the probe must hit its own route of the version
						}
					}
				}
				tr.Add(map[string]any{"ev": "RRet", "g": g, "res": res})
			}
		}(g)
	}
	// builders: tables are built from text by several activities at once (update loop, backends validating
	// generated commands, custom backend); each build must hand back the table of its own text
	builds := verifx.EnvInt("VERIF_BUILDS", 40)
	for b := 0; b < 3; b++ {
		wg.Add(1)
		go func(b int) {
			defer wg.Done()
			gc := NewGlobCache(8)
			<-start
			for i := 0; i < builds; i++ {
				v, text := "A", c02TableA
				if (i+b)%2 == 0 {
					v, text = "B", c02TableB
				}
				// comments and blank lines as the KV store and the backends produce them
				text = "# " + v + "\n\n" + strings.ReplaceAll(text, "\n", "\n\n// x\n") + "\n"
				tr.Add(map[string]any{"ev": "BInv", "g": 100 + b, "v": v})
				tb, err := newTableFromText(text)
				res := v
				if err != nil {
					res = "error: " + err.Error()
				} else {
					for k, p := range probes {
						req := &http.Request{Host: p.host, URL: &url.URL{Path: p.path}, Header: http.Header{}}
						tg := tb.Lookup(req, "", Picker["rr"], Matcher["prefix"], gc, false)
						if tg == nil || tg.Service != v+fmt.Sprint(k+1) {
							res = fmt.Sprintf("mixed: probe %d answered by %v", k, tg)
							break
						}
					}
					n := 0
					for _, rs := range tb {
						for _, r := range rs {
							n += len(r.Targets)
						}
					}
					if res == v && n != 5 {
						res = fmt.Sprintf("mixed: %d targets instead of 5", n)
					}
				}
				if res != v {
					verifx.Fail(map[string]any{"text": text}, map[string]any{"sub": "swap", "clause": "build-not-isolated"},
						"a table built from the text of version %s while other builds, installs and lookups were running is not that text's table: %s", v, res)
				}
				tr.Add(map[string]any{"ev": "BRet", "g": 100 + b, "res": res})
			}
		}(b)
	}
	wg.Add(1)
	go func() {
		defer wg.Done()
		<-start
		for i := 0; i < writes; i++ {
			if i%2 == 0 {
				install("B")
			} else {
				install("A")
			}
		}
	}()
	close(start)
	wg.Wait()
	path := filepath.Join(os.Getenv("VERIF_TMP"), "c02.swap.ndjson")
	if err := tr.WriteNDJSON(path); err != nil {
		t.Fatal(err)
	}
	verifx.Summary(map[string]any{"events": tr.Len(), "trace": path, "readers": readers, "writes": writes + 1, "lookups": readers * reads})
}
