package route

// C12 conformance, decision level: every case TLC enumerated from spec/Access.tla (rule
// configuration x peer x X-Forwarded-For chain x scheme x credentials, with the bounds the
// specification fixes) is put to the real code: the route is built by the real NewTable from
// `route add ... opts "allow=.. deny=.. auth=.."`, found by the real Table.Lookup, and judged
// by the real Target.AccessDeniedHTTP / AccessDeniedTCP / Authorized.

import (
	"io"
	"log"
	"bytes"
	"encoding/json"
	"fmt"
	"net"
	"net/http"
	"net/http/httptest"
	"os"
	"strings"
	"sync"
	"sync/atomic"
	"testing"

	"github.com/fabiolb/fabio/auth"
	"github.com/fabiolb/fabio/config"
	"github.com/fabiolb/fabio/internal/verifx"
)

// c12Conn is a net.Conn of which only RemoteAddr is used (AccessDeniedTCP reads nothing else).
type c12Conn struct {
	net.Conn
	remote net.Addr
}

func (c c12Conn) RemoteAddr() net.Addr { return c.remote }

func c12TCPAddr(s string, port int) *net.TCPAddr {
	zone := ""
	if i := strings.IndexByte(s, '%'); i >= 0 {
		s, zone = s[:i], s[i+1:]
	}
	return &net.TCPAddr{IP: net.ParseIP(s), Port: port, Zone: zone}
}

type c12Targets struct {
	mu sync.Mutex
	m  map[string]*Target
}

// target builds (once per configuration) the route through the real parser and table builder.
func (ts *c12Targets) target(cc *verifx.C12Conc, c *verifx.C12Case) (*Target, string, error) {
	key := cc.Name + "|" + c.CfgKey()
	ts.mu.Lock()
	defer ts.mu.Unlock()
	if t, ok := ts.m[key]; ok {
		return t, "", nil
	}
	dst := "http://127.0.0.1:9/"
	src := "/c12"
	if c.Proto == "tcp" {
		dst, src = "tcp://127.0.0.1:9", ":4242"
	}
	cmd := "route add c12svc " + src + " " + dst
	if o := cc.CaseOpts(c, true); o != "" {
		cmd += ` opts "` + o + `"`
	}
	var tbl Table
	var err error
	if p, stack := verifx.Safely(func() { tbl, err = NewTable(bytes.NewBufferString(cmd)) }); p != nil {
		return nil, cmd, fmt.Errorf("NewTable panicked: %v\n%s", p, stack)
	}
	if err != nil {
		return nil, cmd, fmt.Errorf("NewTable: %v", err)
	}
	var t *Target
	if c.Proto == "tcp" {
		t = tbl.LookupHost(":4242", rrPicker)
	} else {
		req := httptest.NewRequest("GET", "http://c12.test/c12/x", nil)
		t = tbl.Lookup(req, "", rrPicker, prefixMatcher, NewGlobCache(8), true)
	}
	if t == nil {
		return nil, cmd, fmt.Errorf("route not found in the table built from %q", cmd)
	}
	ts.m[key] = t
	return t, cmd, nil
}

func TestVerifC12Route(t *testing.T) {
	log.SetOutput(io.Discard) // fabio logs every rule comparison; the verdicts do not depend on it

	concs := []*verifx.C12Conc{verifx.C12Lab, verifx.C12Edge}
	for _, cc := range append(concs, verifx.C12Loop) {
		if err := cc.CheckConc(); err != nil {
			verifx.Emit(map[string]any{"kind": "oracle", "msg": err.Error()})
			verifx.Summary(map[string]any{"cases": 0})
			return
		}
	}
	htp, err := verifx.C12WriteHtpasswd(os.Getenv("VERIF_TMP"))
	if err != nil {
		t.Fatal(err)
	}
	schemes, err := auth.LoadAuthSchemes(map[string]config.AuthScheme{
		"basic1": {Name: "basic1", Type: "basic", Basic: config.BasicAuth{File: htp, Realm: verifx.C12Realm}}})
	if err != nil {
		t.Fatal(err)
	}
	targets := &c12Targets{m: map[string]*Target{}}
	noReferee := os.Getenv("VERIF_C12_NOREFEREE") == "1"
	var ran, accessEv, authEv, nontrivial, oracle, rejectedRoutes int64
	var sampleMu sync.Mutex
	var samples []string

	runOne := func(c *verifx.C12Case, n int64) {
		ccs := concs
		if c.Conc != "" {
			if cc := verifx.C12ConcByName(c.Conc); cc != nil {
				ccs = []*verifx.C12Conc{cc}
			}
		}
		for _, cc := range ccs {
			may, must, err := cc.Referee(c)
			if noReferee {
				may, must, err = c.May, c.Must, nil // binding self-test: the corrupted bound reaches the comparison
			}
			if err != nil || may != c.May || must != c.Must {
				atomic.AddInt64(&oracle, 1)
				verifx.Emit(map[string]any{"kind": "oracle", "msg": fmt.Sprintf("referee (net/netip, %s) says may=%v must=%v err=%v, specification says may=%v must=%v for %+v", cc.Name, may, must, err, c.May, c.Must, *c)})
				continue
			}
			tgt, cmd, err := targets.target(cc, c)
			if err != nil && !verifx.C12OtherValid[c.Other] {
				atomic.AddInt64(&rejectedRoutes, 1) // a target with a malformed other option may be refused as a whole
				continue
			}
			if err != nil {
				cc2 := *c
				cc2.Conc = cc.Name
				verifx.Fail(cc2, c.Features("route-build", "route-rejected", "rules:"+c.CfgClass()), "%v", err)
				continue
			}
			_ = cmd
			port := 40000 + int(n%20000)
			_ = port
			peer := func(strip bool) string {
				if strip {
					return verifx.C12StripZone(cc.Addr[c.Peer])
				}
				return cc.Addr[c.Peer]
			}
			if c.Proto == "tcp" {
				decide := func(_ string, strip, _ bool) (denied bool, p any, stack string) {
					p, stack = verifx.Safely(func() {
						denied = tgt.AccessDeniedTCP(c12Conn{remote: c12TCPAddr(peer(strip), port)})
					})
					atomic.AddInt64(&accessEv, 1)
					return
				}
				c12Judge(c, cc, "route-tcp", "", decide)
				continue
			}
			styles := []string{verifx.C12XffStyles[int(n%2)]}
			if n := len(c.Chain()); n >= 2 {
				styles = append(styles, "lines")
				if n > 7 {
					styles = append(styles, "mixed")
				}
			}
			if c.XffStyle != "" {
				styles = []string{c.XffStyle}
			}
			for _, style := range styles {
				decide := func(style string, strip, noFill bool) (denied bool, p any, stack string) {
					req := httptest.NewRequest("GET", "http://c12.test/c12/x", nil)
					req.RemoteAddr = verifx.C12HostPort(peer(strip), port)
					chain := c.Chain()
					if noFill {
						chain = c.Xff
					}
					cc.SetXFF(req.Header, chain, style, strip)
					p, stack = verifx.Safely(func() { denied = tgt.AccessDeniedHTTP(req) })
					atomic.AddInt64(&accessEv, 1)
					return
				}
				c12Judge(c, cc, "route-http", style, decide)
			}
			// authentication
			req := httptest.NewRequest("GET", "http://c12.test/c12/x", nil)
			req.RemoteAddr = verifx.C12HostPort(cc.Addr[c.Peer], port)
			verifx.C12SetCreds(req, c.Creds, int(n%4))
			rec := httptest.NewRecorder()
			var ok bool
			p, stack := verifx.Safely(func() { ok = tgt.Authorized(req, rec, schemes) })
			atomic.AddInt64(&authEv, 1)
			cc2 := *c
			cc2.Conc, cc2.N = cc.Name, n
			switch {
			case p != nil:
				verifx.Fail(cc2, c.Features("route-auth", "panic", "scheme:"+c.Scheme), "Authorized panicked: %v\n%s", p, stack)
			case ok && !c.Auth:
				verifx.Fail(cc2, c.Features("route-auth", "authorized-must-not", "scheme:"+c.Scheme+"/creds:"+c.Creds),
					"scheme %q credentials %q (%q): authorised, the specification says unauthorised", c.Scheme, c.Creds, req.Header.Get("Authorization"))
			case !ok && c.Auth:
				verifx.Fail(cc2, c.Features("route-auth", "unauthorized-must", "scheme:"+c.Scheme+"/creds:"+c.Creds),
					"scheme %q credentials %q (%q): rejected, the specification says authorised", c.Scheme, c.Creds, req.Header.Get("Authorization"))
			}
		}
		atomic.AddInt64(&ran, 1)
		if len(c.Allow)+len(c.Deny) > 0 && (len(c.Chain()) > 0 || c.Proto == "tcp") {
			atomic.AddInt64(&nontrivial, 1)
		}
		if n%4999 == 11 {
			sampleMu.Lock()
			if len(samples) < 4 {
				samples = append(samples, fmt.Sprintf("opts %q peer %s xff %s -> may=%v must=%v", verifx.C12Lab.CaseOpts(c, true),
					verifx.C12Lab.Addr[c.Peer], c.ChainText(verifx.C12Lab), c.May, c.Must))
			}
			sampleMu.Unlock()
		}
	}

	type job struct {
		raw []byte
		n   int64
	}
	jobs := make(chan job, 1024)
	var wg sync.WaitGroup
	for w := 0; w < 8; w++ {
		wg.Add(1)
		go func() {
			defer wg.Done()
			for j := range jobs {
				var c verifx.C12Case
				if err := json.Unmarshal(j.raw, &c); err != nil {
					verifx.Emit(map[string]any{"kind": "oracle", "msg": "bad case: " + err.Error()})
					continue
				}
				runOne(&c, c.Num())
			}
		}()
	}
	var n int64
	err = verifx.EachCase("", func(raw []byte) error {
		n++
		jobs <- job{append([]byte(nil), raw...), n}
		return nil
	})
	close(jobs)
	wg.Wait()
	if err != nil {
		t.Fatal(err)
	}
	verifx.Summary(map[string]any{"cases": n, "ran": ran, "access_evaluations": accessEv, "auth_evaluations": authEv,
		"distinct_nontrivial": nontrivial, "oracle_disagreements": oracle, "routes_refused_for_malformed_other_option": rejectedRoutes, "samples": samples})
}

func c12Judge(c *verifx.C12Case, cc *verifx.C12Conc, sub, style string, decide func(style string, strip, noFill bool) (bool, any, string)) {
	denied, p, stack := decide(style, false, false)
	cc2 := *c
	cc2.Conc, cc2.XffStyle = cc.Name, style
	desc := fmt.Sprintf("opts %q, peer %s, X-Forwarded-For %s (%s)", cc.CaseOpts(c, false), cc.Addr[c.Peer], c.ChainText(cc), style)
	switch {
	case p != nil:
		verifx.Fail(cc2, c.Features(sub, "panic", "rules:"+c.CfgClass()), "%s: panic: %v\n%s", desc, p, stack)
	case !denied && !c.May:
		cause := c.Cause(style, func(st string, strip, noFill bool) (bool, bool) {
			d, p, _ := decide(st, strip, noFill)
			return d, p == nil
		})
		verifx.Fail(cc2, c.Features(sub, "admitted-must-deny", cause),
			"%s: ADMITTED, but the well-formed part of the rules does not admit it [cause: %s]", desc, cause)
	case denied && c.Must:
		verifx.Fail(cc2, c.Features(sub, "denied-must-admit", "rules:"+c.CfgClass()),
			"%s: DENIED, but the rules admit it", desc)
	}
}

var _ = http.StatusOK
