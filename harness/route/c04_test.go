package route

// C04 conformance: every weight vector TLC generated from Weights_MC (targets added with
// `route add ... weight`, optionally re-weighted by `route weight` commands over services and
// tags) is built by the real NewTable; every Target.Weight must equal the exact rational the
// specification prescribes, the weighted ring must give every target its share (exactly, or
// within one slot of the 10 000 ring; at least one slot iff the weight is positive), one full
// cycle of real round-robin picks must follow the ring under the cursor and hit every target
// exactly as often as it occupies the ring, and the random picker (its random source replaced
// by a counter that draws every ring index once) must return ring members only.

import (
	"encoding/json"
	"fmt"
	"math"
	"net/http"
	"net/url"
	"sort"
	"strconv"
	"strings"
	"sync"
	"sync/atomic"
	"testing"

	"github.com/fabiolb/fabio/internal/verifx"
)

type c04Target struct {
	Svc  string   `json:"svc"`
	Tags []string `json:"tags"`
	K    int64    `json:"k"`
}

type c04Cmd struct {
	Svc string   `json:"svc"`
	Sel []string `json:"sel"`
	W   int64    `json:"w"`
}

type c04Rat struct {
	N int64 `json:"n"`
	D int64 `json:"d"`
}

type c04Case struct {
	Unit int64       `json:"unit"`
	Adds []c04Target `json:"adds"`
	Cmds []c04Cmd    `json:"cmds"`
	Fk   []int64     `json:"fk"`
	Ew   []c04Rat    `json:"ew"`
	Lo   []int       `json:"lo"`
	Hi   []int       `json:"hi"`
	// replay only
	Src    string `json:"src,omitempty"`
	Warmup int    `json:"warmup,omitempty"`
}

func c04Weight(k, unit int64) string {
	return strconv.FormatFloat(float64(k)/float64(unit), 'f', -1, 64)
}

func c04Tags(ts []string) string {
	s := append([]string(nil), ts...)
	sort.Strings(s)
	return strings.Join(s, ",")
}

func c04Script(c *c04Case) string {
	var b strings.Builder
	for i, a := range c.Adds {
		fmt.Fprintf(&b, "route add %s %s http://10.0.0.%d:%d/", a.Svc, c.Src, i+1, 8000+i)
		if a.K != 0 {
			fmt.Fprintf(&b, " weight %s", c04Weight(a.K, c.Unit))
		}
		if len(a.Tags) > 0 {
			fmt.Fprintf(&b, " tags \"%s\"", c04Tags(a.Tags))
		}
		b.WriteString("\n")
	}
	for _, w := range c.Cmds {
		b.WriteString("route weight ")
		if w.Svc != "" {
			b.WriteString(w.Svc + " ")
		}
		fmt.Fprintf(&b, "%s weight %s", c.Src, c04Weight(w.W, c.Unit))
		if len(w.Sel) > 0 {
			fmt.Fprintf(&b, " tags \"%s\"", c04Tags(w.Sel))
		}
		b.WriteString("\n")
	}
	return b.String()
}

func c04Request(host, path string) *http.Request {
	return &http.Request{Method: "GET", Host: host, URL: &url.URL{Path: path}, Header: http.Header{}, RequestURI: path}
}

// randIntn is a package variable of fabio; the random picker test replaces it, one case at a time
var c04RndMu sync.Mutex

type c04Stats struct {
	cases, weights, cycles, picks, rndPicks, nontrivial, viaCmd int64
}

func c04Run(c *c04Case, doPicks bool, cache *GlobCache, st *c04Stats) {
	via := "add"
	if len(c.Cmds) > 0 {
		via = "weight-cmd"
	}
	fail := func(clause, picker, format string, a ...any) {
		cc := *c
		verifx.Fail(cc, map[string]any{"clause": clause, "via": via, "picker": picker, "targets": len(c.Adds)},
			"%s\nscript:\n%s", fmt.Sprintf(format, a...), c04Script(c))
	}
	n := len(c.Adds)
	if n == 0 || len(c.Fk) != n || len(c.Ew) != n || len(c.Lo) != n || len(c.Hi) != n || c.Unit <= 0 {
		verifx.Emit(map[string]any{"kind": "error", "msg": "malformed case"})
		return
	}
	var tbl Table
	var err error
	if p, stack := verifx.Safely(func() { tbl, err = newTableFromText(c04Script(c)) }); p != nil {
		fail("panic", "", "panic building the table: %v\n%s", p, stack)
		return
	}
	if err != nil {
		fail("table-rejected", "", "well-formed script rejected: %v", err)
		return
	}
	host, path := hostpath(c.Src)
	host = strings.ToLower(host)
	var r *Route
	for _, x := range tbl[host] {
		if x.Path == path {
			r = x
		}
	}
	if r == nil || len(r.Targets) != n {
		fail("structure", "", "route %s missing or has the wrong number of targets", c.Src)
		return
	}
	// ---- effective weights
	sum := 0.0
	for i, t := range r.Targets {
		atomic.AddInt64(&st.weights, 1)
		wantF := float64(c.Fk[i]) / float64(c.Unit)
		gotF := t.FixedWeight
		if gotF < 0 {
			gotF = 0
		}
		if !(math.Abs(gotF-wantF) <= wTol) {
			fail("fixed-weight", "", "target %d fixed weight %v, the specification prescribes %d/%d", i, t.FixedWeight, c.Fk[i], c.Unit)
			return
		}
		want := float64(c.Ew[i].N) / float64(c.Ew[i].D)
		if !(math.Abs(t.Weight-want) <= wTol) {
			fail("effective-weight", "", "target %d weight %v, the specification prescribes %d/%d = %v", i, t.Weight, c.Ew[i].N, c.Ew[i].D, want)
			return
		}
		if !(t.Weight >= 0) {
			fail("negative-weight", "", "target %d weight %v", i, t.Weight)
			return
		}
		sum += t.Weight
	}
	if !(math.Abs(sum-1) <= wTol) {
		fail("sum", "", "weights sum to %v", sum)
		return
	}
	// ---- the ring
	ring := r.wTargets
	u := len(ring)
	if u == 0 {
		fail("ring-empty", "", "empty ring")
		return
	}
	idx := map[*Target]int{}
	for i, t := range r.Targets {
		idx[t] = i
	}
	occ := make([]int, n)
	for j, t := range ring {
		i, ok := idx[t]
		if t == nil || !ok {
			fail("ring-empty-slot", "", "ring slot %d of %d holds no target of the route", j, u)
			return
		}
		occ[i]++
	}
	for i := range occ {
		w := c.Ew[i]
		atomic.AddInt64(&st.cycles, 1)
		switch {
		case w.N == 0 && occ[i] != 0:
			fail("zero-weight-on-ring", "", "target %d has weight 0 but %d of %d ring slots", i, occ[i], u)
			return
		case w.N > 0 && occ[i] == 0:
			fail("starved", "", "target %d has weight %d/%d but no ring slot (ring of %d)", i, w.N, w.D, u)
			return
		}
		exact := int64(occ[i])*w.D == int64(u)*w.N
		if !exact && !(c.Lo[i] <= occ[i] && occ[i] <= c.Hi[i]) {
			fail("ring-share", "", "target %d (weight %d/%d) occupies %d of %d ring slots; the specification allows the exact share or %d..%d slots of 10000",
				i, w.N, w.D, occ[i], u, c.Lo[i], c.Hi[i])
			return
		}
	}
	if !doPicks {
		return
	}
	// ---- round robin: one full cycle from an arbitrary cursor position
	pickVia := func(pick picker, public bool) *Target {
		if public {
			return tbl.Lookup(c04Request(strings.TrimSuffix(c.Src, path), path+"/sub"), "", pick, prefixMatcher, cache, false)
		}
		return tbl.lookup(host, path+"/sub", "", pick, prefixMatcher)
	}
	for j := 0; j < c.Warmup%u; j++ {
		pickVia(rrPicker, false)
	}
	got := make([]int, n)
	for j := 0; j < u; j++ {
		cur := r.total
		t := pickVia(rrPicker, j%97 == 3)
		atomic.AddInt64(&st.picks, 1)
		i, ok := idx[t]
		if !ok {
			fail("rr-nonmember", "rr", "round-robin pick %d returned %v, not a target of the route", j, t)
			return
		}
		if n > 1 {
			if r.total != cur+1 {
				fail("rr-cursor", "rr", "round-robin pick %d moved the cursor from %d to %d", j, cur, r.total)
				return
			}
			if t != ring[cur%uint64(u)] {
				fail("rr-order", "rr", "round-robin pick %d with cursor %d returned target %d, the ring holds target %d there", j, cur, i, idx[ring[cur%uint64(u)]])
				return
			}
		}
		got[i]++
	}
	for i := range got {
		if got[i] != occ[i] {
			fail("rr-count", "rr", "one full round-robin cycle of %d picks sent target %d %d requests, it occupies %d ring slots (weight %d/%d)", u, i, got[i], occ[i], c.Ew[i].N, c.Ew[i].D)
			return
		}
	}
	// ---- random picker with a counter as random source: every ring index drawn once
	{
		c04RndMu.Lock()
		saved := randIntn
		var asked []int
		ctr := 0
		randIntn = func(m int) int {
			if m != u && len(asked) < 4 {
				asked = append(asked, m)
			}
			if m <= 0 {
				return 0
			}
			v := ctr % m
			ctr++
			return v
		}
		gotR := make([]int, n)
		bad := ""
		p, stack := verifx.Safely(func() {
			for j := 0; j < u; j++ {
				t := pickVia(rndPicker, j%97 == 5)
				i, ok := idx[t]
				if !ok {
					bad = fmt.Sprintf("random pick %d returned %v, not a target of the route", j, t)
					return
				}
				gotR[i]++
			}
		})
		randIntn = saved
		c04RndMu.Unlock()
		atomic.AddInt64(&st.rndPicks, int64(u))
		switch {
		case p != nil:
			fail("panic", "rnd", "panic in random pick: %v\n%s", p, stack)
			return
		case bad != "":
			fail("rnd-nonmember", "rnd", "%s", bad)
			return
		case n > 1 && len(asked) > 0:
			fail("rnd-range", "rnd", "the random picker drew from a range of %v, the ring has %d slots", asked, u)
			return
		}
		for i := range gotR {
			if gotR[i] != occ[i] {
				fail("rnd-count", "rnd", "drawing every ring index once returned target %d %d times, it occupies %d ring slots (weight %d/%d)", i, gotR[i], occ[i], c.Ew[i].N, c.Ew[i].D)
				return
			}
		}
	}
}

func TestVerifC04(t *testing.T) {
	seed := verifx.Seed()
	pickEvery := int64(verifx.EnvInt("VERIF_PICK_EVERY", 1))
	workers := verifx.EnvInt("VERIF_WORKERS", 8)
	type job struct {
		c *c04Case
		n int64
	}
	jobs := make(chan job, 1024)
	var st c04Stats
	var wg sync.WaitGroup
	seen := map[uint64]bool{}
	var samples []string
	srcs := []string{"/p", "h.io/p", "H.io/", "/"}
	for w := 0; w < workers; w++ {
		wg.Add(1)
		go func() {
			defer wg.Done()
			cache := NewGlobCache(100)
			for j := range jobs {
				c04Run(j.c, len(j.c.Adds) <= 3 && len(j.c.Cmds) == 0 || (j.n+seed)%pickEvery == 0, cache, &st)
			}
		}()
	}
	var n int64
	err := verifx.EachCase("", func(raw []byte) error {
		var c c04Case
		if err := json.Unmarshal(raw, &c); err != nil {
			return fmt.Errorf("bad case: %v", err)
		}
		h := verifx.Hash(raw)
		if seen[h] {
			return nil
		}
		seen[h] = true
		n++
		fixed := false
		for _, k := range c.Fk {
			fixed = fixed || k > 0
		}
		if len(c.Adds) >= 2 && fixed {
			st.nontrivial++
		}
		if len(c.Cmds) > 0 {
			st.viaCmd++
		}
		if c.Src == "" { // not a replay: choose the spelling and the cursor position by seed
			c.Src = srcs[int((n+seed)%int64(len(srcs)))]
			c.Warmup = int((n*7919 + seed*104729) % 10007)
		}
		if len(samples) < 4 && n%1999 == 11 {
			samples = append(samples, strings.ReplaceAll(strings.TrimSpace(c04Script(&c)), "\n", " ; "))
		}
		jobs <- job{&c, n}
		return nil
	})
	close(jobs)
	wg.Wait()
	if err != nil {
		verifx.Emit(map[string]any{"kind": "error", "msg": err.Error()})
		t.Fatal(err)
	}
	verifx.Summary(map[string]any{"cases": n, "weights": st.weights, "cycles": st.cycles, "picks": st.picks, "rnd_picks": st.rndPicks,
		"distinct_nontrivial": st.nontrivial, "via_weight_cmd": st.viaCmd, "samples": samples})
}
