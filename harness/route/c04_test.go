package route

// C04 conformance: every weight vector TLC generated from Weights_MC (targets added with
// `route add ... weight`, optionally re-weighted by `route weight` commands over services and
// tags, including weight 0 / negative as the last command) is built by the real NewTable;
// every Target.Weight must equal the exact rational the specification prescribes for the LAST
// configuration, the weighted ring must give every target its share (exactly, or within one
// slot of the 10 000 ring; at least one slot iff the weight is positive), full cycles of real
// round-robin lookups must hit every target exactly as often as it occupies the ring, and the
// random picker (its random source replaced by a counter that draws every ring index once)
// must return ring members only.  TestVerifC04Multi interleaves round-robin lookups over
// several routes of one table (same path on different hosts, ':port' routes) following the
// schedules TLC generated from WeightsRR_MC: every route's own cycle must stay exact.
//
// The harness goes through the exported API (NewTable, Table.Lookup, Table.LookupHost,
// Picker[...], Matcher[...], Route.Targets); the only unexported identifiers it touches are
// the ring (c04Ring) and the random source (randIntn), each in one place.

import (
	"encoding/json"
	"fmt"
	"math"
	"net/http"
	"net/url"
	"reflect"
	"sort"
	"strconv"
	"strings"
	"sync"
	"sync/atomic"
	"testing"
	"unsafe"

	"github.com/fabiolb/fabio/internal/verifx"
)

// c04Ring is the single place that reads the weighted ring of a route.
func c04Ring(r *Route) []*Target { return r.wTargets }

// c04Cursor finds the round-robin counter of a route by reflection (a uint64 field named
// "total").  It is used by an OPTIONAL probe only: when the field does not exist (any more) the
// probe is skipped and counted as skipped, the rest of the check is unaffected.
func c04Cursor(r *Route) *uint64 {
	f := reflect.ValueOf(r).Elem().FieldByName("total")
	if !f.IsValid() || f.Kind() != reflect.Uint64 || !f.CanAddr() {
		return nil
	}
	return (*uint64)(unsafe.Pointer(f.UnsafeAddr()))
}

// counts a long-lived route reaches: just below 2^32 (5 days at 10k requests/s), 2^32+2^31, 2^63
var c04Counts = []struct {
	name string
	at   uint64
}{{"2^32", 1 << 32}, {"2^32+2^31", 1<<32 + 1<<31}, {"2^63", 1 << 63}}

type c04Target struct {
	Svc  string   `json:"svc"`
	Tags []string `json:"tags"`
	K    int64    `json:"k"`
}

type c04Cmd struct {
	Op  string   `json:"op"` // "weight" (default), "add" (Sel = tags, W = fixed weight of the new target), "del", "readd" (an instance of the route announced again: Id = its URL)
	Svc string   `json:"svc"`
	Sel []string `json:"sel"`
	W   int64    `json:"w"`
	Id  int      `json:"id"`
}

// c04Alt: the prescribed split under the "last announced weight wins" reading of a re-announcement
type c04Alt struct {
	Fk []int64  `json:"fk"`
	Ew []c04Rat `json:"ew"`
	Lo []int    `json:"lo"`
	Hi []int    `json:"hi"`
}

type c04Rat struct {
	N int64 `json:"n"`
	D int64 `json:"d"`
}

type c04Case struct {
	Unit int64       `json:"unit"`
	Adds []c04Target `json:"adds"`
	Cmds []c04Cmd    `json:"cmds"`
	Fk   []int64     `json:"fk"`
	Ew   []c04Rat    `json:"ew"`
	Lo   []int       `json:"lo"`
	Hi   []int       `json:"hi"`
	Alt  *c04Alt     `json:"alt,omitempty"`
	// replay only
	Src    string `json:"src,omitempty"`
	Warmup int    `json:"warmup,omitempty"`
}

// a multi-route case (replay format of TestVerifC04Multi)
type c04Multi struct {
	Sched  []int     `json:"sched"`
	Routes []c04Case `json:"routes"` // each with its Src
	Warmup int       `json:"warmup"`
}

func c04Weight(k, unit int64) string {
	return strconv.FormatFloat(float64(k)/float64(unit), 'f', -1, 64)
}

func c04Tags(ts []string) string {
	s := append([]string(nil), ts...)
	sort.Strings(s)
	return strings.Join(s, ",")
}

// c04Script renders the commands of one route; base makes the target URLs of different routes distinct.
func c04Script(c *c04Case, base int) string {
	var b strings.Builder
	scheme := "http"
	if strings.HasPrefix(c.Src, ":") {
		scheme = "tcp"
	}
	for i, a := range c.Adds {
		fmt.Fprintf(&b, "route add %s %s %s://10.0.%d.%d:%d/", a.Svc, c.Src, scheme, base, i+1, 8000+i)
		if a.K != 0 {
			fmt.Fprintf(&b, " weight %s", c04Weight(a.K, c.Unit))
		}
		if len(a.Tags) > 0 {
			fmt.Fprintf(&b, " tags \"%s\"", c04Tags(a.Tags))
		}
		b.WriteString("\n")
	}
	added := len(c.Adds)
	for _, w := range c.Cmds {
		switch w.Op {
		case "add":
			fmt.Fprintf(&b, "route add %s %s %s://10.0.%d.%d:%d/", w.Svc, c.Src, scheme, base, added+1, 8000+added)
			added++
			if w.W != 0 {
				fmt.Fprintf(&b, " weight %s", c04Weight(w.W, c.Unit))
			}
			if len(w.Sel) > 0 {
				fmt.Fprintf(&b, " tags \"%s\"", c04Tags(w.Sel))
			}
		case "readd": // the same service, URL and tags as an earlier line, the weight as announced now
			fmt.Fprintf(&b, "route add %s %s %s://10.0.%d.%d:%d/", w.Svc, c.Src, scheme, base, w.Id, 8000+w.Id-1)
			if w.W != 0 {
				fmt.Fprintf(&b, " weight %s", c04Weight(w.W, c.Unit))
			}
			if len(w.Sel) > 0 {
				fmt.Fprintf(&b, " tags \"%s\"", c04Tags(w.Sel))
			}
		case "del":
			b.WriteString("route del")
			if w.Svc != "" {
				b.WriteString(" " + w.Svc)
			}
			if len(w.Sel) > 0 {
				fmt.Fprintf(&b, " tags \"%s\"", c04Tags(w.Sel)) // (not scoped to the route: single-route tables only)
			} else {
				b.WriteString(" " + c.Src)
			}
		default:
			b.WriteString("route weight ")
			if w.Svc != "" {
				b.WriteString(w.Svc + " ")
			}
			fmt.Fprintf(&b, "%s weight %s", c.Src, c04Weight(w.W, c.Unit))
			if len(w.Sel) > 0 {
				fmt.Fprintf(&b, " tags \"%s\"", c04Tags(w.Sel))
			}
		}
		b.WriteString("\n")
	}
	return b.String()
}

// c04Split splits a source into the table key and the route path (documented: host/path or :port).
func c04Split(src string) (host, path string) {
	if strings.HasPrefix(src, ":") {
		return src, ""
	}
	i := strings.Index(src, "/")
	if i < 0 {
		return strings.ToLower(src), "/"
	}
	return strings.ToLower(src[:i]), src[i:]
}

func c04Request(host, path string) *http.Request {
	return &http.Request{Method: "GET", Host: host, URL: &url.URL{Path: path}, Header: http.Header{}, RequestURI: path}
}

// randIntn is a package variable of fabio; the random picker test replaces it, one case at a time
var c04RndMu sync.Mutex

type c04Stats struct {
	cases, weights, cycles, picks, rndPicks, nontrivial, viaCmd, resets, multi, multiPicks int64
	bigProbes, bigSkipped, histories, readds, lastWins                                    int64
}

type c04Failer func(clause, picker, format string, a ...any)

// c04Route is a verified route of a real table: its ring occupancy per target and a lookup function.
type c04Route struct {
	r    *Route
	idx  map[*Target]int
	occ  []int
	u    int
	pick func(p picker, public bool) *Target
}

// c04Static checks weights and ring of the route built for c and returns the handle for picking.
func c04Static(tbl Table, c *c04Case, cache *GlobCache, st *c04Stats, fail c04Failer) *c04Route {
	host, path := c04Split(c.Src)
	var r *Route
	for _, x := range tbl[host] {
		if x.Path == path {
			r = x
		}
	}
	// an instance announced again with another weight: the specification prescribes the split for
	// both admissible sets of targets (a further entry: Fk; the last weight replaces the old one:
	// Alt.Fk) - the route is held to the one whose targets it has
	if a := c.Alt; r != nil && a != nil && c04ReAdd(c) && len(r.Targets) != len(c.Fk) && len(r.Targets) == len(a.Fk) &&
		len(a.Ew) == len(a.Fk) && len(a.Lo) == len(a.Fk) && len(a.Hi) == len(a.Fk) {
		c.Alt = &c04Alt{Fk: c.Fk, Ew: c.Ew, Lo: c.Lo, Hi: c.Hi} // (kept: a replay chooses again)
		c.Fk, c.Ew, c.Lo, c.Hi = a.Fk, a.Ew, a.Lo, a.Hi
		atomic.AddInt64(&st.lastWins, 1)
	}
	n := len(c.Fk)
	if r == nil || len(r.Targets) != n {
		fail("structure", "", "route %s missing or has the wrong number of targets", c.Src)
		return nil
	}
	// ---- effective weights
	sum := 0.0
	for i, t := range r.Targets {
		atomic.AddInt64(&st.weights, 1)
		wantF := float64(c.Fk[i]) / float64(c.Unit)
		gotF := t.FixedWeight
		if gotF < 0 {
			gotF = 0
		}
		if !(math.Abs(gotF-wantF) <= wTol) {
			fail("fixed-weight", "", "route %s target %d fixed weight %v, the specification prescribes %d/%d", c.Src, i, t.FixedWeight, c.Fk[i], c.Unit)
			return nil
		}
		want := float64(c.Ew[i].N) / float64(c.Ew[i].D)
		if !(math.Abs(t.Weight-want) <= wTol) {
			fail("effective-weight", "", "route %s target %d weight %v, the specification prescribes %d/%d = %v", c.Src, i, t.Weight, c.Ew[i].N, c.Ew[i].D, want)
			return nil
		}
		if !(t.Weight >= 0) {
			fail("negative-weight", "", "route %s target %d weight %v", c.Src, i, t.Weight)
			return nil
		}
		sum += t.Weight
	}
	if !(math.Abs(sum-1) <= wTol) {
		fail("sum", "", "route %s weights sum to %v", c.Src, sum)
		return nil
	}
	// ---- the ring
	ring := c04Ring(r)
	u := len(ring)
	if u == 0 {
		fail("ring-empty", "", "route %s has an empty ring", c.Src)
		return nil
	}
	idx := map[*Target]int{}
	for i, t := range r.Targets {
		idx[t] = i
	}
	occ := make([]int, n)
	for j, t := range ring {
		i, ok := idx[t]
		if t == nil || !ok {
			fail("ring-empty-slot", "", "route %s ring slot %d of %d holds no target of the route", c.Src, j, u)
			return nil
		}
		occ[i]++
	}
	for i := range occ {
		w := c.Ew[i]
		atomic.AddInt64(&st.cycles, 1)
		switch {
		case w.N == 0 && occ[i] != 0:
			fail("zero-weight-on-ring", "", "route %s target %d has weight 0 but %d of %d ring slots", c.Src, i, occ[i], u)
			return nil
		case w.N > 0 && occ[i] == 0:
			fail("starved", "", "route %s target %d has weight %d/%d but no ring slot (ring of %d)", c.Src, i, w.N, w.D, u)
			return nil
		}
		exact := int64(occ[i])*w.D == int64(u)*w.N
		if !exact && !(c.Lo[i] <= occ[i] && occ[i] <= c.Hi[i]) {
			fail("ring-share", "", "route %s target %d (weight %d/%d) occupies %d of %d ring slots; the specification allows the exact share or %d..%d slots of 10000",
				c.Src, i, w.N, w.D, occ[i], u, c.Lo[i], c.Hi[i])
			return nil
		}
	}
	reqHost := strings.TrimSuffix(c.Src, path)
	tcp := strings.HasPrefix(c.Src, ":")
	rootPath := path == "/" || path == ""
	prefix := Matcher["prefix"]
	return &c04Route{r: r, idx: idx, occ: occ, u: u, pick: func(p picker, public bool) *Target {
		if tcp || (rootPath && !public) {
			return tbl.LookupHost(reqHost, p) // what the TCP / SNI proxies call
		}
		return tbl.Lookup(c04Request(reqHost, path+"/sub"), "", p, prefix, cache, false) // what the HTTP proxy calls
	}}
}

// c04Cycles checks a recorded sequence of round-robin picks of ONE route (target indices):
// the first full cycle, a later window and the period.
func c04Cycles(rt *c04Route, seq []int, window int, c *c04Case, clause string, fail c04Failer) bool {
	u, n := rt.u, len(rt.occ)
	if len(seq) < 2*u {
		return true
	}
	for _, start := range []int{0, window % u} {
		got := make([]int, n)
		for _, i := range seq[start : start+u] {
			got[i]++
		}
		for i := range got {
			if got[i] != rt.occ[i] {
				fail(clause, "rr", "route %s: %d consecutive round-robin lookups (from its lookup %d on) sent target %d %d requests, it occupies %d of the %d ring slots (weight %d/%d)",
					c.Src, u, start, i, got[i], rt.occ[i], u, c.Ew[i].N, c.Ew[i].D)
				return false
			}
		}
	}
	for j := 0; j+u < len(seq); j++ {
		if seq[j] != seq[j+u] {
			fail(clause, "rr", "route %s: round-robin lookup %d went to target %d, lookup %d (one ring length of %d later) to target %d", c.Src, j, seq[j], j+u, u, seq[j+u])
			return false
		}
	}
	return true
}

func c04Valid(c *c04Case) bool {
	n := len(c.Fk) // the targets the route has after the whole history
	return n > 0 && len(c.Adds) > 0 && len(c.Ew) == n && len(c.Lo) == n && len(c.Hi) == n && c.Unit > 0
}

// c04History: does the script contain add / del commands after the first adds?
func c04History(c *c04Case) bool {
	for _, w := range c.Cmds {
		if w.Op == "add" || w.Op == "del" {
			return true
		}
	}
	return false
}

// c04ReAdd: is an instance of the route announced again in the script?
func c04ReAdd(c *c04Case) bool {
	for _, w := range c.Cmds {
		if w.Op == "readd" {
			return true
		}
	}
	return false
}

func c04Run(c *c04Case, doPicks bool, cache *GlobCache, st *c04Stats) {
	via := "add"
	if len(c.Cmds) > 0 {
		via = "weight-cmd"
		if last := c.Cmds[len(c.Cmds)-1]; last.W <= 0 && last.Op != "add" && last.Op != "del" {
			via = "weight-cmd-reset-last"
		}
		if c04History(c) {
			via = "history"
		}
		if c04ReAdd(c) {
			via = "history-reannounced"
		}
	}
	fail := func(clause, pk, format string, a ...any) {
		cc := *c
		verifx.Fail(cc, map[string]any{"clause": clause, "via": via, "picker": pk, "targets": len(c.Fk)},
			"%s\nscript:\n%s", fmt.Sprintf(format, a...), c04Script(c, 0))
	}
	if !c04Valid(c) {
		verifx.Emit(map[string]any{"kind": "error", "msg": "malformed case"})
		return
	}
	var tbl Table
	var err error
	if p, stack := verifx.Safely(func() { tbl, err = newTableFromText(c04Script(c, 0)) }); p != nil {
		fail("panic", "", "panic building the table: %v\n%s", p, stack)
		return
	}
	if err != nil {
		fail("table-rejected", "", "well-formed script rejected: %v", err)
		return
	}
	rt := c04Static(tbl, c, cache, st, fail)
	if rt == nil || !doPicks {
		return
	}
	n, u := len(c.Fk), rt.u
	rr, rnd := Picker["rr"], Picker["rnd"]
	// ---- round robin: two full cycles from an arbitrary cursor position
	for j := 0; j < c.Warmup%u; j++ {
		rt.pick(rr, false)
	}
	seq := make([]int, 0, 2*u)
	for j := 0; j < 2*u; j++ {
		t := rt.pick(rr, j%97 == 3)
		atomic.AddInt64(&st.picks, 1)
		i, ok := rt.idx[t]
		if !ok {
			fail("rr-nonmember", "rr", "round-robin lookup %d returned %v, not a target of the route", j, t)
			return
		}
		seq = append(seq, i)
	}
	if !c04Cycles(rt, seq, c.Warmup/3+1, c, "rr-count", fail) {
		return
	}
	// ---- optional probe: a route that has already served very many lookups.  The cursor is a
	// natural number (WeightsRR!PeriodicAtAnyCount): after ANY number of lookups the next full
	// cycles are exact.  The counter is positioned a little below the count so that the count
	// is crossed inside the first cycle; three ring lengths are observed.
	if n > 1 && c.Warmup%3 == 0 {
		at := c04Counts[(c.Warmup/3)%len(c04Counts)]
		if _, bits := vCursorField(rt.r); bits == 32 {
			at = c04Counts[0] // a 32-bit counter can only be positioned below 2^32
		}
		if !vCursorSet(rt.r, at.at-uint64(1+c.Warmup%u)) {
			atomic.AddInt64(&st.bigSkipped, 1)
		} else {
			big := make([]int, 0, 3*u)
			var pp any
			var pstack string
			bad := ""
			pp, pstack = verifx.Safely(func() {
				for j := 0; j < 3*u; j++ {
					t := rt.pick(rr, false)
					i, ok := rt.idx[t]
					if !ok {
						bad = fmt.Sprintf("round-robin lookup %d after %s lookups returned %v, not a target of the route", j, at.name, t)
						return
					}
					big = append(big, i)
				}
			})
			atomic.AddInt64(&st.bigProbes, 1)
			atomic.AddInt64(&st.picks, int64(len(big)))
			switch {
			case pp != nil:
				fail("panic", "rr", "panic in round-robin lookup around %s lookups: %v\n%s", at.name, pp, pstack)
				return
			case bad != "":
				fail("rr-nonmember", "rr", "%s", bad)
				return
			}
			failBig := func(clause, pk, format string, a ...any) {
				fail("rr-large-count", pk, "around the %s-th lookup of the route (counter positioned %d lookups before it): %s", at.name, 1+c.Warmup%u, fmt.Sprintf(format, a...))
			}
			if !c04Cycles(rt, big, c.Warmup/5+1, c, "rr-large-count", failBig) {
				return
			}
		}
	}
	// ---- random picker with a counter as random source: every ring index drawn once
	c04RndMu.Lock()
	saved := randIntn
	var asked []int
	ctr := 0
	randIntn = func(m int) int {
		if m != u && len(asked) < 4 {
			asked = append(asked, m)
		}
		if m <= 0 {
			return 0
		}
		v := ctr % m
		ctr++
		return v
	}
	gotR := make([]int, n)
	bad := ""
	p, stack := verifx.Safely(func() {
		for j := 0; j < u; j++ {
			t := rt.pick(rnd, j%97 == 5)
			i, ok := rt.idx[t]
			if !ok {
				bad = fmt.Sprintf("random pick %d returned %v, not a target of the route", j, t)
				return
			}
			gotR[i]++
		}
	})
	randIntn = saved
	c04RndMu.Unlock()
	atomic.AddInt64(&st.rndPicks, int64(u))
	switch {
	case p != nil:
		fail("panic", "rnd", "panic in random pick: %v\n%s", p, stack)
		return
	case bad != "":
		fail("rnd-nonmember", "rnd", "%s", bad)
		return
	case n > 1 && len(asked) > 0:
		fail("rnd-range", "rnd", "the random picker drew from a range of %v, the ring has %d slots", asked, u)
		return
	}
	for i := range gotR {
		if gotR[i] != rt.occ[i] {
			fail("rnd-count", "rnd", "drawing every ring index once returned target %d %d times, it occupies %d ring slots (weight %d/%d)", i, gotR[i], rt.occ[i], c.Ew[i].N, c.Ew[i].D)
			return
		}
	}
}

func TestVerifC04(t *testing.T) {
	seed := verifx.Seed()
	pickEvery := int64(verifx.EnvInt("VERIF_PICK_EVERY", 1))
	workers := verifx.EnvInt("VERIF_WORKERS", 8)
	type job struct {
		c *c04Case
		n int64
	}
	jobs := make(chan job, 1024)
	var st c04Stats
	var wg sync.WaitGroup
	seen := map[uint64]bool{}
	var samples []string
	srcs := []string{"/", "h.io/", "H.io/", ":1234", "h.io/p"}
	for w := 0; w < workers; w++ {
		wg.Add(1)
		go func() {
			defer wg.Done()
			cache := NewGlobCache(100)
			for j := range jobs {
				c := j.c
				always := len(c.Fk) <= 3 && len(c.Cmds) == 0
				every := pickEvery
				if c04ReAdd(c) && every > 8 {
					every = 8 // re-announced instances: a denser slice of the pick cycles
				}
				c04Run(c, always || (j.n+seed)%every == 0, cache, &st)
			}
		}()
	}
	var n int64
	err := verifx.EachCase("", func(raw []byte) error {
		var c c04Case
		if err := json.Unmarshal(raw, &c); err != nil {
			return fmt.Errorf("bad case: %v", err)
		}
		h := verifx.Hash(raw)
		if seen[h] {
			return nil
		}
		seen[h] = true
		n++
		fixed := false
		for _, k := range c.Fk {
			fixed = fixed || k > 0
		}
		if len(c.Fk) >= 2 && fixed {
			st.nontrivial++
		}
		if len(c.Cmds) > 0 {
			st.viaCmd++
			if last := c.Cmds[len(c.Cmds)-1]; last.W <= 0 && last.Op != "add" && last.Op != "del" {
				st.resets++
			}
			if c04History(&c) {
				st.histories++
			}
			if c04ReAdd(&c) {
				st.readds++
			}
		}
		if c.Src == "" { // not a replay: choose the spelling and the cursor position by seed
			c.Src = srcs[int((n+seed)%int64(len(srcs)))]
			c.Warmup = int((n*7919 + seed*104729) % 10007)
		}
		if len(samples) < 4 && n%1999 == 11 {
			samples = append(samples, strings.ReplaceAll(strings.TrimSpace(c04Script(&c, 0)), "\n", " ; "))
		}
		jobs <- job{&c, n}
		return nil
	})
	close(jobs)
	wg.Wait()
	if err != nil {
		verifx.Emit(map[string]any{"kind": "error", "msg": err.Error()})
		t.Fatal(err)
	}
	verifx.Summary(map[string]any{"cases": n, "weights": st.weights, "cycles": st.cycles, "picks": st.picks, "rnd_picks": st.rndPicks,
		"distinct_nontrivial": st.nontrivial, "via_weight_cmd": st.viaCmd, "reset_last": st.resets, "histories": st.histories, "reannounced": st.readds, "last_wins": st.lastWins, "samples": samples,
		"large_count_probes": st.bigProbes, "large_count_skipped": st.bigSkipped})
}

// ---- several routes, interleaved lookups

var c04SrcSets = map[string][]string{
	"same-path-different-hosts": {"a.io/", "b.io/", "/"},
	"same-subpath":              {"a.io/p", "B.io/p", "c.io:8080/p"},
	"tcp-ports":                 {":3306", ":5432", ":1234"},
}

func c04RunMulti(m *c04Multi, kind string, cache *GlobCache, st *c04Stats) {
	fail := func(clause, pk, format string, a ...any) {
		var script strings.Builder
		for i := range m.Routes {
			script.WriteString(c04Script(&m.Routes[i], i+1))
		}
		verifx.Fail(map[string]any{"multi": m, "kind": kind}, map[string]any{"clause": clause, "via": "multi-route", "picker": pk, "sources": kind, "pattern": len(m.Sched)},
			"%s\nlookup schedule (repeated): %v\nscript:\n%s", fmt.Sprintf(format, a...), m.Sched, script.String())
	}
	var text strings.Builder
	for i := range m.Routes {
		if !c04Valid(&m.Routes[i]) {
			verifx.Emit(map[string]any{"kind": "error", "msg": "malformed multi case"})
			return
		}
		text.WriteString(c04Script(&m.Routes[i], i+1))
	}
	var tbl Table
	var err error
	if p, stack := verifx.Safely(func() { tbl, err = newTableFromText(text.String()) }); p != nil {
		fail("panic", "", "panic building the table: %v\n%s", p, stack)
		return
	}
	if err != nil {
		fail("table-rejected", "", "well-formed script rejected: %v", err)
		return
	}
	rts := make([]*c04Route, len(m.Routes))
	for i := range m.Routes {
		if rts[i] = c04Static(tbl, &m.Routes[i], cache, st, fail); rts[i] == nil {
			return
		}
	}
	used := map[int]bool{}
	for _, r := range m.Sched {
		if r < 1 || r > len(rts) {
			verifx.Emit(map[string]any{"kind": "error", "msg": "schedule names a route that does not exist"})
			return
		}
		used[r-1] = true
	}
	rr := Picker["rr"]
	seqs := make([][]int, len(rts))
	need := func() bool {
		for i := range rts {
			if used[i] && len(seqs[i]) < 2*rts[i].u {
				return true
			}
		}
		return false
	}
	for i := range rts { // cursors at different positions
		for j := 0; j < (m.Warmup*(i+1))%rts[i].u; j++ {
			rts[i].pick(rr, false)
		}
	}
	for step := 0; need() && step < 400000; step++ {
		i := m.Sched[step%len(m.Sched)] - 1
		t := rts[i].pick(rr, step%89 == 7)
		atomic.AddInt64(&st.multiPicks, 1)
		k, ok := rts[i].idx[t]
		if !ok {
			fail("rr-interleaved-nonmember", "rr", "lookup %d on route %s returned %v, not a target of that route", step, m.Routes[i].Src, t)
			return
		}
		if len(seqs[i]) < 2*rts[i].u {
			seqs[i] = append(seqs[i], k)
		}
	}
	for i := range rts {
		if used[i] && !c04Cycles(rts[i], seqs[i], m.Warmup/3+1, &m.Routes[i], "rr-interleaved-count", fail) {
			return
		}
	}
}

type c04Sched struct {
	Sched  []int     `json:"sched"`
	Routes int       `json:"routes"`
	Multi  *c04Multi `json:"multi,omitempty"` // replay
	Kind   string    `json:"kind,omitempty"`
}

// TestVerifC04Multi: VERIF_IN = vector cases (the pool of routes), VERIF_SCHED = lookup schedules.
func TestVerifC04Multi(t *testing.T) {
	seed := verifx.Seed()
	workers := verifx.EnvInt("VERIF_WORKERS", 8)
	poolMax := verifx.EnvInt("VERIF_POOL", 400)
	var pool []c04Case
	var replays []c04Sched
	err := verifx.EachCase("", func(raw []byte) error {
		var probe c04Sched
		if json.Unmarshal(raw, &probe) == nil && probe.Multi != nil {
			replays = append(replays, probe)
			return nil
		}
		var c c04Case
		if err := json.Unmarshal(raw, &c); err != nil {
			return fmt.Errorf("bad case: %v", err)
		}
		// the pool: small vectors (rings of 1..4 and of ~10 000 slots), all kinds of scripts
		scoped := true
		for _, w := range c.Cmds {
			if w.Op == "del" && len(w.Sel) > 0 {
				scoped = false // `route del ... tags` is not scoped to one route
			}
		}
		if c04Valid(&c) && len(c.Fk) <= 3 && scoped {
			pool = append(pool, c)
		}
		return nil
	})
	if len(pool) > poolMax { // an even sample over the whole input
		var sample []c04Case
		for i := 0; i < poolMax; i++ {
			sample = append(sample, pool[i*len(pool)/poolMax])
		}
		pool = sample
	}
	if err != nil {
		verifx.Emit(map[string]any{"kind": "error", "msg": err.Error()})
		t.Fatal(err)
	}
	var scheds []c04Sched
	if len(replays) == 0 {
		scheds, err = verifx.ReadCases[c04Sched]("VERIF_SCHED")
		if err != nil {
			verifx.Emit(map[string]any{"kind": "error", "msg": err.Error()})
			t.Fatal(err)
		}
		if len(pool) < 3 {
			verifx.Emit(map[string]any{"kind": "error", "msg": "no pool of weight vectors"})
			t.Fatal("no pool")
		}
	}
	kinds := []string{"same-path-different-hosts", "tcp-ports", "same-subpath"}
	type job struct {
		m    *c04Multi
		kind string
	}
	jobs := make(chan job, 256)
	var st c04Stats
	var wg sync.WaitGroup
	for w := 0; w < workers; w++ {
		wg.Add(1)
		go func() {
			defer wg.Done()
			cache := NewGlobCache(100)
			for j := range jobs {
				c04RunMulti(j.m, j.kind, cache, &st)
				atomic.AddInt64(&st.multi, 1)
			}
		}()
	}
	var samples []string
	seenS := map[string]bool{}
	for _, rp := range replays {
		jobs <- job{rp.Multi, rp.Kind}
	}
	for n, s := range scheds {
		key := fmt.Sprint(s.Sched)
		if seenS[key] || len(s.Sched) == 0 || s.Routes < 1 || s.Routes > 3 {
			continue
		}
		seenS[key] = true
		kind := kinds[(n+int(seed))%len(kinds)]
		m := &c04Multi{Sched: s.Sched, Warmup: (n*7919 + int(seed)*104729) % 10007}
		for r := 0; r < s.Routes; r++ {
			c := pool[(n*3+r*131+int(seed)*17)%len(pool)]
			c.Src = c04SrcSets[kind][r]
			m.Routes = append(m.Routes, c)
		}
		if len(samples) < 3 && n%97 == 13 {
			var srcs []string
			for i := range m.Routes {
				srcs = append(srcs, fmt.Sprintf("%s(%d targets)", m.Routes[i].Src, len(m.Routes[i].Fk)))
			}
			samples = append(samples, fmt.Sprintf("routes %v, lookups interleaved as %v repeated", srcs, s.Sched))
		}
		jobs <- job{m, kind}
	}
	close(jobs)
	wg.Wait()
	verifx.Summary(map[string]any{"tables": st.multi, "picks": st.multiPicks, "weights": st.weights, "cycles": st.cycles, "pool": len(pool), "samples": samples})
}
