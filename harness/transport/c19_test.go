package transport_test

// C19 conformance, part 1 (spec/Transport.tla): every complete history of SetConfig /
// NewTransport / AddTargetTransport that TLC enumerated is replayed through the real
// transport.SetConfig, transport.NewTransport (default and skip-verify) and route.NewTable
// (the per-route transport of a target with a host override).  Every transport built after a
// SetConfig must carry the five configured values:
//   ResponseHeaderTimeout, IdleConnTimeout, MaxIdleConnsPerHost   fields of http.Transport
//   keep-alive      TCP_KEEPIDLE of a connection dialled by the transport's dial function
//   dial timeout    a dial against a listener whose accept queue is full must give up
//                   within the configured timeout (+1.5 s slack; faster never fails)
// External test package: route imports transport.

import (
	"bytes"
	"context"
	"crypto/tls"
	"encoding/json"
	"fmt"
	"net"
	"net/http"
	"runtime"
	"sync"
	"syscall"
	"testing"
	"time"

	"github.com/fabiolb/fabio/config"
	"github.com/fabiolb/fabio/internal/verifx"
	"github.com/fabiolb/fabio/route"
	"github.com/fabiolb/fabio/transport"
)

type c19Cfg struct {
	Name    string `json:"name"`
	Dial    int    `json:"dial"`
	Rht     int    `json:"rht"`
	Ka      int    `json:"ka"`
	Idle    int    `json:"idle"`
	MaxIdle int    `json:"maxidle"`
}

type c19Op struct {
	Op    string `json:"op"`
	Kind  string `json:"kind"`
	C     c19Cfg `json:"c"`
	Kaobs int    `json:"kaobs"` // what a dialled connection must show: -1 probes off, else idle seconds
}

type c19History struct {
	Hist []c19Op `json:"hist"`
}

func c19Config(c c19Cfg) *config.Config {
	ms := func(n int) time.Duration { return time.Duration(n) * time.Millisecond }
	cfg := &config.Config{}
	cfg.Proxy.DialTimeout = ms(c.Dial)
	cfg.Proxy.ResponseHeaderTimeout = ms(c.Rht)
	cfg.Proxy.KeepAliveTimeout = ms(c.Ka)
	cfg.Proxy.IdleConnTimeout = ms(c.Idle)
	cfg.Proxy.MaxConn = c.MaxIdle
	return cfg
}

// c19Build performs one "new" operation against the real code.
func c19Build(kind string, n int) (*http.Transport, error) {
	switch kind {
	case "default":
		return transport.NewTransport(nil), nil
	case "insecure":
		return transport.NewTransport(&tls.Config{InsecureSkipVerify: true}), nil
	case "hostoverride":
		cmd := `route add svc / https://127.0.0.1:1/ opts "host=x.test"`
		if n%2 == 1 {
			cmd = `route add svc / http://127.0.0.1:1/ opts "host=x.test proto=https"`
		}
		tbl, err := route.NewTable(bytes.NewBufferString(cmd))
		if err != nil {
			return nil, err
		}
		for _, routes := range tbl {
			for _, r := range routes {
				for _, t := range r.Targets {
					if t.Transport == nil {
						return nil, fmt.Errorf("target %s with a host override has no transport of its own", t.URL)
					}
					if t.Transport.TLSClientConfig == nil || t.Transport.TLSClientConfig.ServerName != "x.test" {
						return nil, fmt.Errorf("per-route transport does not carry the overridden server name")
					}
					return t.Transport, nil
				}
			}
		}
		return nil, fmt.Errorf("route table has no target")
	}
	return nil, fmt.Errorf("unknown kind %q", kind)
}

func c19DialFn(tr *http.Transport) func(ctx context.Context, network, addr string) (net.Conn, error) {
	if tr.DialContext != nil {
		return tr.DialContext
	}
	if tr.Dial != nil {
		return func(_ context.Context, network, addr string) (net.Conn, error) { return tr.Dial(network, addr) }
	}
	return nil
}

// c19KeepIdle dials addr with the transport's dial function and returns TCP_KEEPIDLE in
// seconds (-1: keep-alive off, -2: not observable).
func c19KeepIdle(tr *http.Transport, addr string) (int, error) {
	if runtime.GOOS != "linux" {
		return -2, nil
	}
	dial := c19DialFn(tr)
	if dial == nil {
		return -2, fmt.Errorf("transport has no dial function of its own")
	}
	c, err := dial(context.Background(), "tcp", addr)
	if err != nil {
		return -2, err
	}
	defer c.Close()
	tc, ok := c.(*net.TCPConn)
	if !ok {
		return -2, nil
	}
	rc, err := tc.SyscallConn()
	if err != nil {
		return -2, err
	}
	res := -2
	rc.Control(func(fd uintptr) {
		on, err := syscall.GetsockoptInt(int(fd), syscall.SOL_SOCKET, syscall.SO_KEEPALIVE)
		if err != nil {
			return
		}
		if on == 0 {
			res = -1
			return
		}
		const tcpKeepIdle = 4 // linux
		v, err := syscall.GetsockoptInt(int(fd), syscall.IPPROTO_TCP, tcpKeepIdle)
		if err == nil {
			res = v
		}
	})
	return res, nil
}

// c19Saturated returns the address of a listening socket whose accept queue is full, so that
// further connection attempts hang in SYN retransmission ("" if that cannot be arranged here).
func c19Saturated() (addr string, release func()) {
	if runtime.GOOS != "linux" {
		return "", func() {}
	}
	fd, err := syscall.Socket(syscall.AF_INET, syscall.SOCK_STREAM, 0)
	if err != nil {
		return "", func() {}
	}
	closeFd := func() { syscall.Close(fd) }
	if err := syscall.Bind(fd, &syscall.SockaddrInet4{Addr: [4]byte{127, 0, 0, 1}}); err != nil {
		closeFd()
		return "", func() {}
	}
	if err := syscall.Listen(fd, 0); err != nil {
		closeFd()
		return "", func() {}
	}
	sa, err := syscall.Getsockname(fd)
	if err != nil {
		closeFd()
		return "", func() {}
	}
	addr = fmt.Sprintf("127.0.0.1:%d", sa.(*syscall.SockaddrInet4).Port)
	var keep []net.Conn
	release = func() {
		for _, c := range keep {
			c.Close()
		}
		closeFd()
	}
	// fill the queue; it is full when a plain dial with a short timeout times out twice
	timeouts := 0
	for i := 0; i < 16 && timeouts < 2; i++ {
		c, err := net.DialTimeout("tcp", addr, 250*time.Millisecond)
		if err == nil {
			keep = append(keep, c)
			timeouts = 0
			continue
		}
		if ne, ok := err.(net.Error); ok && ne.Timeout() {
			timeouts++
			continue
		}
		release()
		return "", func() {}
	}
	if timeouts < 2 {
		release()
		return "", func() {}
	}
	return addr, release
}

const c19Slack = 1500 * time.Millisecond

type c19DialJob struct {
	tr   *http.Transport
	want c19Cfg
	kind string
	h    c19History
}

func TestVerifC19Fields(t *testing.T) {
	hs, err := verifx.ReadCases[c19History]("")
	if err != nil {
		t.Fatal(err)
	}
	defer transport.SetConfig(&config.Config{})

	// a listener for the keep-alive observation
	ln, err := net.Listen("tcp", "127.0.0.1:0")
	if err != nil {
		t.Fatal(err)
	}
	defer ln.Close()
	go func() {
		for {
			c, err := ln.Accept()
			if err != nil {
				return
			}
			c.Close()
		}
	}()

	var builds, compared, nontrivial, kaSeen, undocumented int64
	var samples []string
	var dialJobs []c19DialJob
	dialSeen := map[string]bool{}
	for hi, h := range hs {
		transport.SetConfig(&config.Config{}) // every history starts from an unconfigured package
		sets := 0
		for i, op := range h.Hist {
			switch op.Op {
			case "set":
				transport.SetConfig(c19Config(op.C))
				sets++
			case "new":
				builds++
				var tr *http.Transport
				var berr error
				p, stack := verifx.Safely(func() { tr, berr = c19Build(op.Kind, hi+i) })
				if p != nil {
					berr = fmt.Errorf("panic: %v\n%s", p, stack)
				}
				if berr != nil {
					verifx.Fail(h, map[string]any{"sub": "fields", "kind": op.Kind, "clause": "build"}, "history %s: step %d: %v", c19HistString(h), i+1, berr)
					continue
				}
				if op.C.Name == "zero" {
					continue // nothing was configured yet: the statement does not say what such a transport carries
				}
				compared++
				want := op.C
				ms := func(d time.Duration) int { return int(d / time.Millisecond) }
				ka, kerr := c19KeepIdle(tr, ln.Addr().String())
				if ka != -2 {
					kaSeen++
				}
				type fld struct {
					name      string
					got, want int
					zero      int
				}
				fs := []fld{
					{"ResponseHeaderTimeout", ms(tr.ResponseHeaderTimeout), want.Rht, 0},
					{"IdleConnTimeout", ms(tr.IdleConnTimeout), want.Idle, 0},
					{"MaxIdleConnsPerHost", tr.MaxIdleConnsPerHost, want.MaxIdle, 0},
				}
				if ka != -2 {
					fs = append(fs, fld{"keep-alive(s; -1=off)", ka, op.Kaobs, 15})
				} else if kerr != nil {
					verifx.Fail(h, map[string]any{"sub": "fields", "kind": op.Kind, "clause": "dial"}, "history %s: step %d: the transport cannot dial a listening local address: %v", c19HistString(h), i+1, kerr)
				}
				// no other limit may be introduced that defeats the configured ones
				var other []string
				if tr.MaxIdleConns != 0 {
					other = append(other, fmt.Sprintf("MaxIdleConns=%d (a cap over ALL hosts defeats proxy.maxconn idle connections per host)", tr.MaxIdleConns))
				}
				if tr.MaxConnsPerHost != 0 {
					other = append(other, fmt.Sprintf("MaxConnsPerHost=%d (requests queue inside the transport, bounded by neither dial nor response-header timeout)", tr.MaxConnsPerHost))
				}
				if tr.DisableKeepAlives {
					other = append(other, "DisableKeepAlives=true (defeats proxy.maxconn / proxy.idleconntimeout)")
				}
				if len(other) > 0 {
					verifx.Fail(h, map[string]any{"sub": "fields", "kind": op.Kind, "clause": "other-limit", "fields": fmt.Sprint(len(other))},
						"history %s: the %s transport built at step %d carries %v", c19HistString(h), op.Kind, i+1, other)
				}
				if tr.TLSHandshakeTimeout != 0 || tr.ExpectContinueTimeout != 0 || tr.MaxResponseHeaderBytes != 0 {
					undocumented++ // the documentation is silent about these: noted, not judged
				}
				var wrong []string
				allZero := true
				for _, f := range fs {
					if f.got != f.want {
						wrong = append(wrong, fmt.Sprintf("%s=%d (configured %d)", f.name, f.got, f.want))
						if f.got != f.zero {
							allZero = false
						}
					}
				}
				if len(wrong) > 0 {
					feat := map[string]any{"sub": "fields", "kind": op.Kind}
					if allZero && len(wrong) == len(fs) {
						feat["clause"] = "all-unset"
					} else {
						feat["clause"] = "wrong-values"
						feat["fields"] = fmt.Sprint(len(wrong))
					}
					verifx.Fail(h, feat, "history %s: the %s transport built at step %d carries %v; configured last: %+v", c19HistString(h), op.Kind, i+1, wrong, want)
				}
				key := op.Kind + "/" + want.Name + "/" + fmt.Sprint(sets > 1)
				if !dialSeen[key] && want.Dial > 0 { // proxy.dialtimeout 0 = none: nothing to time
					dialSeen[key] = true
					dialJobs = append(dialJobs, c19DialJob{tr: tr, want: want, kind: op.Kind, h: h})
				}
			}
		}
		if sets >= 1 && len(h.Hist) >= 3 {
			nontrivial++
		}
		if hi%151 == 7 && len(samples) < 3 {
			b, _ := json.Marshal(h)
			samples = append(samples, string(b))
		}
	}

	// dial timeout: one transport per (kind, configuration, reconfigured or not).  A verdict
	// counts only when the process was not stalled while it was measured, and a transport is
	// reported when it failed in two such rounds.
	dialEvaluated, dialUnstable := false, false
	addr, release := c19Saturated()
	if addr != "" {
		dialEvaluated = true
		type verdict struct{ clause, msg string }
		strikes := map[int]int{}
		last := map[int]verdict{}
		pending := make([]int, len(dialJobs))
		for i := range pending {
			pending[i] = i
		}
		valid := 0
		for round := 0; round < 6 && len(pending) > 0 && valid < 2; round++ {
			sw := verifx.WatchStalls()
			res := make([]verdict, len(dialJobs))
			var wg sync.WaitGroup
			for _, i := range pending {
				wg.Add(1)
				go func(i int) {
					defer wg.Done()
					j := dialJobs[i]
					dial := c19DialFn(j.tr)
					if dial == nil {
						return
					}
					bound := time.Duration(j.want.Dial)*time.Millisecond + c19Slack
					type ret struct {
						err error
						el  time.Duration
					}
					done := make(chan ret, 1)
					t0 := time.Now()
					go func() {
						c, err := dial(context.Background(), "tcp", addr)
						el := time.Since(t0)
						if c != nil {
							c.Close()
						}
						done <- ret{err, el}
					}()
					select {
					case r := <-done:
						ne, isNet := r.err.(net.Error)
						switch {
						case r.err == nil:
							// the queue had room after all: nothing observed
						case r.el > bound:
							res[i] = verdict{"late", fmt.Sprintf("%s transport: dial against a full accept queue gave up after %v, configured dial timeout %d ms", j.kind, r.el, j.want.Dial)}
						case !isNet || !ne.Timeout():
							verifx.Emit(map[string]any{"kind": "note", "msg": "dial failed without timing out: " + r.err.Error()})
						}
					case <-time.After(bound + 2*time.Second):
						res[i] = verdict{"no-timeout", fmt.Sprintf("%s transport: dial against a full accept queue still pending after %v, configured dial timeout %d ms", j.kind, bound+2*time.Second, j.want.Dial)}
					}
				}(i)
			}
			wg.Wait()
			if gap := sw.Stop(); gap > 200*time.Millisecond {
				verifx.Emit(map[string]any{"kind": "note", "msg": fmt.Sprintf("dial round %d void: the process stalled for %v", round, gap)})
				continue
			}
			valid++
			var next []int
			for _, i := range pending {
				if res[i].clause != "" {
					strikes[i]++
					last[i] = res[i]
					next = append(next, i)
				}
			}
			pending = next
		}
		if len(pending) > 0 && valid < 2 {
			dialUnstable = true
		}
		for i, n := range strikes {
			if n >= 2 {
				j := dialJobs[i]
				verifx.Fail(j.h, map[string]any{"sub": "dial", "kind": j.kind, "clause": last[i].clause}, "%s", last[i].msg)
			}
		}
	}
	release()
	verifx.Summary(map[string]any{"cases": len(hs), "builds": builds, "compared": compared, "distinct_nontrivial": nontrivial,
		"keepalive_observed": kaSeen, "undocumented_limits": undocumented, "dial_evaluated": dialEvaluated, "dial_unstable": dialUnstable, "dial_transports": len(dialJobs), "samples": samples})
}

func c19HistString(h c19History) string {
	s := ""
	for i, op := range h.Hist {
		if i > 0 {
			s += " "
		}
		if op.Op == "set" {
			s += "SetConfig(" + op.C.Name + ")"
		} else {
			s += "New(" + op.Kind + ")"
		}
	}
	return s
}
