package uuid

// C20 conformance (uuid part): ToString against the layout the specification defines (UUIDStr in
// AccessLog.tla) and against encoding/hex: 8-4-4-4-12 lower case hex digits of the first 16 bytes.

import (
	"encoding/hex"
	"encoding/json"
	"regexp"
	"sync"
	"sync/atomic"
	"testing"

	"github.com/fabiolb/fabio/internal/verifx"
)

type c20uCase struct {
	UUID []struct {
		B []int  `json:"b"`
		S string `json:"s"`
	} `json:"uuid,omitempty"`
	Kind  string `json:"kind,omitempty"` // replay: "uuid"
	Bytes []int  `json:"bytes,omitempty"`
}

func c20uStd(u [24]byte) string {
	h := hex.EncodeToString(u[:16])
	return h[0:8] + "-" + h[8:12] + "-" + h[12:16] + "-" + h[16:20] + "-" + h[20:32]
}

func c20uCheck(u [24]byte, spec string) {
	var got string
	p, _ := verifx.Safely(func() { got = ToString(u) })
	want := c20uStd(u)
	if spec != "" && spec != want {
		verifx.Emit(map[string]any{"kind": "oracle", "msg": "UUIDStr: spec " + spec + ", encoding/hex " + want})
	}
	if p != nil || got != want {
		bs := make([]int, 24)
		for i, b := range u {
			bs[i] = int(b)
		}
		pos := -1
		for i := 0; i < len(got) && i < len(want); i++ {
			if got[i] != want[i] {
				pos = i
				break
			}
		}
		verifx.Fail(c20uCase{Kind: "uuid", Bytes: bs}, map[string]any{"sub": "uuid", "clause": "uuid-layout", "pos": pos},
			"uuid.ToString(% x) = %q (panic %v), encoding/hex layout %q", u[:16], got, p, want)
	}
}

func TestVerifC20UUID(t *testing.T) {
	var nspec, ran int
	if err := verifx.EachCase("", func(raw []byte) error {
		var c c20uCase
		if json.Unmarshal(raw, &c) != nil {
			return nil
		}
		for _, x := range c.UUID {
			var u [24]byte
			for i, b := range x.B {
				if i < 24 {
					u[i] = byte(b)
				}
			}
			c20uCheck(u, x.S)
			nspec++
			ran++
		}
		if c.Kind == "uuid" {
			var u [24]byte
			for i, b := range c.Bytes {
				if i < 24 {
					u[i] = byte(b)
				}
			}
			c20uCheck(u, "")
			ran++
		}
		return nil
	}); err != nil {
		t.Fatal(err)
	}
	r := verifx.Rand()
	n := verifx.EnvInt("VERIF_C20_UUID", 100000)
	for i := 0; i < n; i++ {
		var u [24]byte
		r.Read(u[:])
		switch i % 7 {
		case 0: // one interesting byte, the rest zero: position sensitivity
			var z [24]byte
			z[i/7%16] = byte(r.Intn(256))
			u = z
		case 1:
			for k := range u {
				u[k] = byte([]int{0x00, 0x0f, 0xf0, 0xff, 0x9a, 0xa9}[r.Intn(6)])
			}
		}
		c20uCheck(u, "")
		ran++
	}
	// concurrent calls (UuidConc.tla, Correct): every call returns the rendering of ITS argument.
	// Each goroutine formats arguments made of its own byte so that foreign digits are visible.
	nconc := verifx.EnvInt("VERIF_C20_UUID_CONC", 200000)
	const workers = 16
	var wg sync.WaitGroup
	var cran, cbad int64
	for w := 0; w < workers; w++ {
		wg.Add(1)
		go func(w int) {
			defer wg.Done()
			var u [24]byte
			for i := 0; i < nconc/workers; i++ {
				for k := range u {
					u[k] = byte(w*16 + w) // 0x00, 0x11, ... 0xff
				}
				u[i%16] = byte(i)
				var got string
				p, _ := verifx.Safely(func() { got = ToString(u) })
				atomic.AddInt64(&cran, 1)
				if want := c20uStd(u); p != nil || got != want {
					if atomic.AddInt64(&cbad, 1) <= 3 {
						verifx.Fail(c20uCase{Kind: "concurrent"}, map[string]any{"sub": "uuid", "clause": "concurrent-call", "pos": -1},
							"uuid.ToString(% x) called from %d goroutines at once returned %q (panic %v), its argument renders as %q", u[:16], workers, got, p, want)
					}
				}
			}
		}(w)
	}
	wg.Wait()
	ran += int(cran)
	// the generator in use produces strings of the same layout
	re := regexp.MustCompile(`^[0-9a-f]{8}-[0-9a-f]{4}-[0-9a-f]{4}-[0-9a-f]{4}-[0-9a-f]{12}$`)
	for i := 0; i < 1000; i++ {
		var s string
		p, _ := verifx.Safely(func() { s = NewUUID() })
		if p != nil || !re.MatchString(s) {
			verifx.Fail(c20uCase{Kind: "newuuid"}, map[string]any{"sub": "uuid", "clause": "newuuid-layout", "pos": -1}, "uuid.NewUUID() = %q (panic %v)", s, p)
			break
		}
		ran++
	}
	verifx.Summary(map[string]any{"spec_cases": nspec, "ran": ran, "concurrent": cran, "concurrent_bad": cbad})
}
