package metrics

// X05: the route metric name.  Every case TLC enumerates from spec/MetricsNames_MC.tla (route parts,
// template, the name the documentation prescribes) is replayed through the real parseNames /
// TargetName pair (the template is installed the way init() installs the default one).

import (
	"bytes"
	"encoding/json"
	"regexp"
	"strconv"
	"strings"
	"sync"
	"testing"
	"time"

	"github.com/fabiolb/fabio/internal/verifx"
)

type x05Seg struct {
	Lit   []string `json:"lit"`
	Fn    string   `json:"fn"`
	Field string   `json:"field"`
}

type x05NameCase struct {
	Svc    []string `json:"svc"`
	Host   []string `json:"host"`
	Path   []string `json:"path"`
	Scheme []string `json:"scheme"`
	UHost  []string `json:"uhost"`
	UPort  []string `json:"uport"`
	UPath  []string `json:"upath"`
	Tpl    []x05Seg `json:"tpl"`
	Out    []string `json:"out"`
}

func TestVerifX05Names(t *testing.T) {
	saved := names
	defer func() { names = saved }()
	j := func(s []string) string { return strings.Join(s, "") }
	n, distinct := 0, map[uint64]bool{}
	var samples []any
	err := verifx.EachCase("VERIF_IN", func(raw []byte) error {
		var c x05NameCase
		if err := json.Unmarshal(raw, &c); err != nil {
			return err
		}
		n++
		var tb strings.Builder
		shape := ""
		for _, g := range c.Tpl {
			switch {
			case g.Field == "":
				tb.WriteString(j(g.Lit))
				shape += "L"
			case g.Fn == "":
				tb.WriteString("{{." + g.Field + "}}")
				shape += "F"
			default:
				tb.WriteString("{{" + g.Fn + " ." + g.Field + "}}")
				shape += "C"
			}
		}
		target := j(c.Scheme) + "://" + j(c.UHost)
		if len(c.UPort) > 0 {
			target += ":" + j(c.UPort)
		}
		target += j(c.UPath)
		feat := map[string]any{"sub": "names", "shape": shape}
		tpl, err := parseNames(tb.String())
		if err != nil {
			feat["clause"] = "template-rejected"
			verifx.Fail(c, feat, "parseNames(%q): %v", tb.String(), err)
			return nil
		}
		names = tpl
		var got string
		p, _ := verifx.Safely(func() { got, err = TargetName(j(c.Svc), j(c.Host), j(c.Path), target) })
		names = saved
		want := j(c.Out)
		distinct[verifx.Hash([]byte(tb.String()+"|"+want))] = true
		switch {
		case p != nil:
			feat["clause"] = "panic"
			verifx.Fail(c, feat, "TargetName panicked: %v", p)
		case err != nil:
			feat["clause"] = "error"
			verifx.Fail(c, feat, "template %q, route %s %s%s %s: %v", tb.String(), j(c.Svc), j(c.Host), j(c.Path), target, err)
		case got != want:
			feat["clause"] = "name"
			verifx.Fail(c, feat, "template %q, route %s %s%s %s: rendered %q, the documentation prescribes %q", tb.String(), j(c.Svc), j(c.Host), j(c.Path), target, got, want)
		}
		if len(samples) < 3 && n%977 == 1 {
			samples = append(samples, map[string]any{"template": tb.String(), "service": j(c.Svc), "host": j(c.Host), "path": j(c.Path), "target": target, "name": want})
		}
		return nil
	})
	if err != nil {
		t.Fatal(err)
	}
	verifx.Summary(map[string]any{"cases": n, "distinct": len(distinct), "samples": samples})
}

// TestVerifX05FlushProbe measures the named deviation FlushLossy of spec/Metrics_Trace.tla: 8 goroutines add
// to one counter of the real statsd provider while the provider is flushed (its own WriteTo, what the
// SendLoop does every metrics.interval); what the flushes report in total must be what was added.
func TestVerifX05FlushProbe(t *testing.T) {
	p, err := NewStatsdProvider("x05.", "127.0.0.1:9", time.Hour)
	if err != nil {
		t.Fatal(err)
	}
	c := p.NewCounter("probe")
	const workers, each = 8, 20000
	re := regexp.MustCompile(`(?m)^x05\.probe:([0-9.]+)\|c`)
	var flushed float64
	sum := func() {
		var b bytes.Buffer
		p.S.WriteTo(&b)
		for _, m := range re.FindAllStringSubmatch(b.String(), -1) {
			f, _ := strconv.ParseFloat(m[1], 64)
			flushed += f
		}
	}
	var wg sync.WaitGroup
	stop := make(chan struct{})
	done := make(chan struct{})
	go func() {
		defer close(done)
		for {
			select {
			case <-stop:
				return
			default:
				sum()
			}
		}
	}()
	for w := 0; w < workers; w++ {
		wg.Add(1)
		go func() {
			defer wg.Done()
			for i := 0; i < each; i++ {
				c.Add(1)
			}
		}()
	}
	wg.Wait()
	close(stop)
	<-done
	sum()
	verifx.Summary(map[string]any{"added": workers * each, "flushed": int64(flushed), "lost": int64(workers*each) - int64(flushed)})
}
