package config

// C15 conformance: every completed Load that TLC enumerated in ConfigSources (which sources
// give which abstract value, how the environment names are spelled, which junk entries the
// environment block carries, state of the properties file => winner, value, cfg|error) is
// concretised for EVERY option registered in the current config/load.go and run through the
// real config.Load.  The configuration returned must be reflect.DeepEqual to the one obtained
// from the prescribed winner value given alone on the command line.
//
// config.Load is not safe for concurrent use (loadCiphers rewrites a package level map), so
// the work is sharded over worker PROCESSES: the test binary re-executes itself.

import (
	"bufio"
	"encoding/base64"
	"encoding/json"
	"fmt"
	"go/ast"
	"go/parser"
	"go/token"
	"math/rand"
	"net/http/httptest"
	"os"
	"os/exec"
	"path/filepath"
	"reflect"
	"runtime"
	"runtime/debug"
	"sort"
	"strconv"
	"strings"
	"testing"
	"unicode"

	"github.com/fabiolb/fabio/internal/verifx"
)

// ---------------------------------------------------------------- option list (go/ast)

type c15Opt struct {
	Name string
	Kind string // Bool Int Uint Float64 Duration String StringSlice FloatSlice
	V    map[string]string
	Ctx  []string // command line context that makes the values meaningful
	Deg  bool     // v1 is a degenerate value (see c15_history_test.go)
}

type c15Vals struct {
	v1, v2, bad string
	ctx         []string
}

// well-formed values for options whose value is validated or interpreted; "bad" is a
// type-correct value that validation is expected to refuse (only used if the reference run
// really refuses it - otherwise it is just a third value).
var c15Table = map[string]c15Vals{
	"proxy.strategy":                    {v1: "rr", v2: "rnd", bad: "foo"},
	"proxy.matcher":                     {v1: "glob", v2: "iprefix", bad: "foo"},
	"proxy.noroutestatus":               {v1: "503", v2: "999", bad: "99"},
	"proxy.addr":                        {v1: ":5555", v2: ":6666;proto=tcp;rt=3s", bad: ":1;proto=bogus"},
	"proxy.cs":                          {v1: "cs=a;type=file;cert=/x/cert.pem", v2: "cs=a;type=path;cert=/y;refresh=5s", bad: "cs=a;type=nope;cert=/x", ctx: []string{"-proxy.addr=:1234;cs=a"}},
	"proxy.auth":                        {v1: "name=a;type=basic;file=/f", v2: "name=b;type=basic;file=/g;realm=r;refresh=5s", bad: "name=a;type=zz"},
	"proxy.gzip.contenttype":            {v1: "^text/.*$", v2: "^application/json$", bad: "("},
	"proxy.localip":                     {v1: "1.2.3.4", v2: "5.6.7.8", bad: "{{"},
	"ui.addr":                           {v1: ":7777", v2: "1.2.3.4:8888;rt=2s", bad: ":1,:2"},
	"ui.access":                         {v1: "ro", v2: "rw", bad: "xx"},
	"registry.consul.register.addr":     {v1: "1.2.3.4:80", v2: ":99", bad: "{{"},
	"registry.consul.addr":              {v1: "https://consul.example:8501", v2: "other:8500"},
	"registry.consul.allowStale":        {v1: "true", v2: "false", ctx: []string{"-registry.consul.requireConsistent=false"}},
	"registry.consul.requireConsistent": {v1: "true", v2: "false"},
	"registry.consul.checksRequired":    {v1: "one", v2: "all"},
	"registry.backend":                  {v1: "file", v2: "static"},
	"registry.custom.scheme":            {v1: "http", v2: "https"},
	"bgp.peers":                         {v1: "address=1.2.3.4;asn=65001", v2: "address=5.6.7.8;asn=65002;multihop=true;port=1179", bad: "address=1.2.3.4;asn=x"},
	"log.level":                         {v1: "DEBUG", v2: "WARN"},
	"log.access.format":                 {v1: "combined", v2: "$remote_addr $request_uri"},
	"log.access.target":                 {v1: "stdout", v2: ""},
	"log.routes.format":                 {v1: "all", v2: "detail"},
	"metrics.target":                    {v1: "stdout", v2: "statsd"},
	"profile.mode":                      {v1: "cpu", v2: "mem"},
	"tracing.CollectorType":             {v1: "kafka", v2: "http"},
	"glob.cache.size":                   {v1: "7", v2: "42"},
	"runtime.gomaxprocs":                {v1: "2", v2: "3"},
}

var c15ByKind = map[string]c15Vals{
	"Bool":        {v1: "true", v2: "false"},
	"Int":         {v1: "7", v2: "42"},
	"Uint":        {v1: "7", v2: "42"},
	"Float64":     {v1: "0.25", v2: "0.5"},
	"Duration":    {v1: "7s", v2: "1m30s"},
	"String":      {v1: "v1 x=y:z", v2: "v2,a;b"},
	"StringSlice": {v1: "a,b", v2: "c"},
	"FloatSlice":  {v1: "0.1,0.2", v2: "3"},
}

// c15Options lists every f.<Kind>Var(&target, "name", ...) registration of config/load.go of
// the tree under test (the test runs in the package directory).
func c15Options() ([]c15Opt, error) {
	fset := token.NewFileSet()
	file, err := parser.ParseFile(fset, "load.go", nil, 0)
	if err != nil {
		return nil, err
	}
	var opts []c15Opt
	var bad []string
	seen := map[string]bool{}
	ast.Inspect(file, func(n ast.Node) bool {
		call, ok := n.(*ast.CallExpr)
		if !ok {
			return true
		}
		sel, ok := call.Fun.(*ast.SelectorExpr)
		if !ok || !strings.HasSuffix(sel.Sel.Name, "Var") || len(call.Args) < 3 {
			return true
		}
		if id, ok := sel.X.(*ast.Ident); !ok || id.Name != "f" {
			return true
		}
		if _, ok := call.Args[0].(*ast.UnaryExpr); !ok {
			return true
		}
		lit, ok := call.Args[1].(*ast.BasicLit)
		if !ok || lit.Kind != token.STRING {
			return true
		}
		name, err := strconv.Unquote(lit.Value)
		if err != nil || seen[name] {
			return true
		}
		seen[name] = true
		kind := strings.TrimSuffix(sel.Sel.Name, "Var")
		vals, ok := c15ByKind[kind]
		if !ok {
			bad = append(bad, name+":"+kind)
			return true
		}
		if t, ok := c15Table[name]; ok {
			vals = t
		}
		o := c15Opt{Name: name, Kind: kind, V: map[string]string{"v1": vals.v1, "v2": vals.v2}, Ctx: vals.ctx}
		if vals.bad != "" {
			o.V["bad"] = vals.bad
		}
		opts = append(opts, o)
		return true
	})
	if len(bad) > 0 {
		return nil, fmt.Errorf("options of a kind the harness has no values for: %v", bad)
	}
	if len(opts) < 20 {
		return nil, fmt.Errorf("only %d option registrations found in load.go", len(opts))
	}
	return opts, nil
}

// ---------------------------------------------------------------- cases

type c15Case struct {
	Cmd      string   `json:"cmd"`
	Fenv     string   `json:"fenv"`
	Env      string   `json:"env"`
	File     string   `json:"file"`
	FenvCase string   `json:"fenvcase"`
	EnvCase  string   `json:"envcase"`
	Junk     []string `json:"junk"`
	Fstate   string   `json:"fstate"`
	Fetch    string   `json:"fetch"` // path | complete | truncated | reset | notfound | servererror
	NSide    string   `json:"nside"` // neighbour option: before | after | -
	NSrc     string   `json:"nsrc"`  // fenv | env | file | -
	NForm    string   `json:"nform"` // ok | ill | -
	Via      string   `json:"via"`
	Winner   string   `json:"winner"`
	Value    string   `json:"value"`
	Result   string   `json:"result"`
	// replay only
	Kind   string `json:"kind,omitempty"` // "" (TLC case) | "robust"
	Opt    string `json:"opt,omitempty"`
	Deg    string `json:"deg,omitempty"` // the degenerate value that stood for v1
	DegSet bool   `json:"deg_set,omitempty"`
	// the generator's list of degenerate values (one record)
	Degenerate []string `json:"degenerate,omitempty"`
	Idx        int      `json:"idx"`
	Args       []string `json:"args,omitempty"`
	EnvB64     []string `json:"environ_b64,omitempty"`
	FileB64    string   `json:"file_b64,omitempty"`
	EnvText    []string `json:"environ_text,omitempty"`
	Note       string   `json:"note,omitempty"`
}

const c15None = "-"

func c15EnvName(o *c15Opt, pfx, spelling string) string {
	base := pfx + strings.Replace(o.Name, ".", "_", -1)
	switch spelling {
	case "upper":
		return strings.ToUpper(base)
	case "lower":
		return strings.ToLower(base)
	case "alt":
		rs := []rune(base)
		k := 0
		for i, r := range rs {
			if unicode.IsLetter(r) {
				if k%2 == 0 {
					rs[i] = unicode.ToLower(r)
				} else {
					rs[i] = unicode.ToUpper(r)
				}
				k++
			}
		}
		return string(rs)
	}
	return base // "asis": the documented form FABIO_<name with _ for .>
}

type c15Entry struct {
	class string
	text  string
}

func c15JunkEntries(class string, real []string) []c15Entry {
	switch class {
	case "noeq":
		return []c15Entry{{class, "VERIF_NO_EQUALS_SIGN"}}
	case "empty":
		return []c15Entry{{class, ""}}
	case "emptyname":
		return []c15Entry{{class, "=x"}}
	case "unrelated":
		return []c15Entry{{class, "VERIF_FOO=1"}, {class, "verif_foo=2"}, {class, "PATH=/usr/bin:/bin"}, {class, "A=B=C"}}
	case "duprelated":
		if len(real) == 0 {
			return []c15Entry{{class, "VERIF_BAR=1"}, {class, "VERIF_BAR=1"}}
		}
		var out []c15Entry
		for _, e := range real {
			out = append(out, c15Entry{class, e})
		}
		return out
	case "nonutf8":
		return []c15Entry{{class, "VERIF_\xff\xfe=\xff\xfe\x80"}, {class, "VERIF_BIN=\xc3\x28\xa0\xa1"}}
	}
	return nil
}

var c15JunkFiles = []string{
	"\xff\xfe\x00binary\x00\x01\x02",
	"verif.a = ${verif.a}\n",
	"verif.a = ${unclosed\n",
	"verif.key\\",
	"\\u12 = x\n",
	"= novalue\n:::\n!!!\n\\\n",
	"verif.a = ${verif.undefined.key}\n",
	"verif.long = " + strings.Repeat("x", 100000) + "\n",
	"\x00\x00\x00\x00",
	"verif.a = \\uZZZZ\n",
}

type c15Outcome struct {
	cfg   *Config
	err   error
	panic any
	stack string
}

func c15Load(args, environ []string) (o c15Outcome) {
	o.panic, o.stack = verifx.Safely(func() { o.cfg, o.err = Load(args, environ) })
	return o
}

// c15Concrete builds (args, environ, file content) of a TLC case for one option.
func c15Concrete(c *c15Case, o *c15Opt, idx int, path string) (args []string, environ []c15Entry, file string, hasFile bool) {
	args = append([]string{"fabio"}, o.Ctx...)
	if c.Cmd != c15None {
		args = append(args, "-"+o.Name+"="+o.V[c.Cmd])
	}
	var real []string
	if c.Fenv != c15None {
		real = append(real, c15EnvName(o, "FABIO_", c.FenvCase)+"="+o.V[c.Fenv])
	}
	if c.Env != c15None {
		real = append(real, c15EnvName(o, "", c.EnvCase)+"="+o.V[c.Env])
	}
	var junk []c15Entry
	for _, j := range c.Junk {
		junk = append(junk, c15JunkEntries(j, real)...)
	}
	// junk before and after the real entries, the plain variable before or after the prefixed one
	if idx%2 == 1 && len(real) == 2 {
		real[0], real[1] = real[1], real[0]
	}
	cut := 0
	if len(junk) > 0 {
		cut = (idx % (len(junk) + 1))
	}
	environ = append(environ, junk[:cut]...)
	for _, e := range real {
		environ = append(environ, c15Entry{"real", e})
	}
	environ = append(environ, junk[cut:]...)
	switch c.Fstate {
	case "ok":
		hasFile = true
		file = "# generated by the C15 harness\nverif.unrelated.key = 1\n"
		if c.File != c15None {
			file += o.Name + " = " + o.V[c.File] + "\n"
		}
		file += "verif.other = x\n"
	case "junk":
		hasFile = true
		file = c15JunkFiles[idx%len(c15JunkFiles)]
	}
	if hasFile {
		args = append(args, "-cfg", path)
	}
	return
}

func c15EnvStrings(es []c15Entry) []string {
	out := make([]string, len(es))
	for i, e := range es {
		out[i] = e.text
	}
	return out
}

func c15B64(ss []string) []string {
	out := make([]string, len(ss))
	for i, s := range ss {
		out[i] = base64.StdEncoding.EncodeToString([]byte(s))
	}
	return out
}

func c15Quote(ss []string) []string {
	out := make([]string, len(ss))
	for i, s := range ss {
		out[i] = strconv.QuoteToASCII(s)
	}
	return out
}

// c15Blame finds the classes of environment entries that make Load panic when given alone.
func c15Blame(args []string, es []c15Entry) string {
	set := map[string]bool{}
	for _, e := range es {
		if e.class == "real" {
			continue
		}
		if out := c15Load([]string{"fabio"}, []string{e.text}); out.panic != nil {
			if !strings.Contains(e.text, "=") {
				set["without-equals-sign"] = true
			} else {
				set[e.class] = true
			}
		}
	}
	if len(set) == 0 {
		return "combination"
	}
	var ks []string
	for k := range set {
		ks = append(ks, k)
	}
	sort.Strings(ks)
	return strings.Join(ks, "+")
}

type c15Worker struct {
	opts    []c15Opt
	path    string
	loads   int64
	ran     int64
	skipped int64
	nnbr    int64
	nfetch  int64
	srv     *httptest.Server
	srvBody string
	srvCut  int
	ndeg    int64
	flaky   int64
	nontriv int64
	unobs   []string
	badAcc  []string
	samples []string
}

type c15Ref struct {
	out   map[string]c15Outcome // "default","v1","v2","bad"
	isBad map[string]bool
	obs   bool
}

func (w *c15Worker) reference(o *c15Opt) *c15Ref {
	r := &c15Ref{out: map[string]c15Outcome{}, isBad: map[string]bool{}}
	base := append([]string{"fabio"}, o.Ctx...)
	stable := func(args []string) c15Outcome {
		out := c15Load(args, nil)
		w.loads++
		for try := 0; try < 2 && out.err != nil; try++ { // a transient interface-query error must not become the reference
			out = c15Load(args, nil)
			w.loads++
		}
		return out
	}
	r.out["default"] = stable(base)
	for k, v := range o.V {
		r.out[k] = stable(append(append([]string{}, base...), "-"+o.Name+"="+v))
		r.isBad[k] = r.out[k].err != nil
	}
	r.obs = !reflect.DeepEqual(r.out["v1"].cfg, r.out["v2"].cfg)
	return r
}

func c15NSources(c *c15Case) int {
	n := 0
	for _, s := range []string{c.Cmd, c.Fenv, c.Env, c.File} {
		if s != c15None && s != "" {
			n++
		}
	}
	return n
}

func c15Feat(clause string, c *c15Case, o *c15Opt, extra map[string]any) map[string]any {
	n := c15NSources(c)
	f := map[string]any{"sub": "sources", "clause": clause, "kind": o.Kind, "winner": c.Winner, "nsources": n,
		"junk": len(c.Junk) > 0, "fstate": c.Fstate}
	if o.Deg {
		f["value"] = "degenerate"
	}
	for k, v := range extra {
		f[k] = v
	}
	return f
}

// runCase replays one TLC case for one option; returns false if the case does not apply.
func (w *c15Worker) runCase(c *c15Case, o *c15Opt, ref *c15Ref, idx int) bool {
	uses := map[string]bool{}
	for _, s := range []string{c.Cmd, c.Fenv, c.Env, c.File} {
		if s != c15None {
			uses[s] = true
		}
	}
	if uses["bad"] {
		if _, has := o.V["bad"]; !has || !ref.isBad["bad"] {
			return false // the model instance of this option has Bad = {}
		}
	}
	if !o.Deg && (ref.isBad["v1"] || ref.isBad["v2"]) {
		return false // table value refused by this tree: nothing to compare against (reported in the summary)
	}
	if c.Via == "readfile" {
		return false // the refusing branch of a junk file; judged together with the accepting branch
	}
	args, env, file, hasFile := c15Concrete(c, o, idx, w.path)
	if hasFile {
		if err := os.WriteFile(w.path, []byte(file), 0o644); err != nil {
			panic(err)
		}
	}
	environ := c15EnvStrings(env)
	got := c15Load(args, environ)
	w.loads++
	w.ran++
	// config.Load asks the operating system for the network interfaces (go-sockaddr templates);
	// under load that query fails now and then.  A genuine disagreement is deterministic, so a
	// disagreeing outcome is only judged if it shows again (DESIGN section 4, rule 2).
	for try := 0; try < 2 && !c15Agrees(c, ref, got); try++ {
		again := c15Load(args, environ)
		w.loads++
		if c15Agrees(c, ref, again) {
			w.flaky++
			got = again
		}
	}
	rec := *c
	rec.Opt, rec.Idx, rec.Args, rec.EnvB64, rec.EnvText = o.Name, idx, args, c15B64(environ), c15Quote(environ)
	if o.Deg {
		rec.Deg, rec.DegSet = o.V["v1"], true
	}
	if hasFile {
		rec.FileB64 = base64.StdEncoding.EncodeToString([]byte(file))
	}
	desc := fmt.Sprintf("option %s: args=%q environ=%s file=%q", o.Name, args, c15Quote(environ), c15Trunc(file))
	if got.panic != nil {
		blame := "n/a"
		src := "file"
		if len(c.Junk) > 0 {
			blame = c15Blame(args, env)
			src = "environ"
		}
		if o.Deg {
			src, blame = c.Winner, "degenerate-value"
		}
		verifx.Fail(rec, map[string]any{"sub": "sources", "clause": "load-panic", "source": src, "entry": blame},
			"config.Load panicked: %v\n%s\n%s", got.panic, desc, c15Stack(got.stack))
		return true
	}
	if (got.cfg == nil) == (got.err == nil) {
		verifx.Fail(rec, c15Feat("neither-cfg-nor-error", c, o, nil), "Load returned cfg=%v err=%v\n%s", got.cfg != nil, got.err, desc)
		return true
	}
	if c.Fstate == "junk" && got.err != nil {
		return true // the properties reader refused the file: the allowed error branch
	}
	want := ref.out[c.Value]
	switch c.Result {
	case "error":
		if got.err == nil {
			verifx.Fail(rec, c15Feat("bad-value-accepted", c, o, nil),
				"value %q of %s is refused on the command line (%v) but accepted when it wins from %s\n%s",
				o.V["bad"], o.Name, want.err, c.Winner, desc)
		}
	case "cfg":
		if want.err != nil { // the winner value alone is refused too (only the default in a context can be): same outcome required
			if got.err == nil {
				verifx.Fail(rec, c15Feat("wrong-value", c, o, map[string]any{"follows": "other"}),
					"%s: the value of %s alone is refused (%v) but this combination is accepted\n%s", o.Name, c.Winner, want.err, desc)
			}
			return true
		}
		if got.err != nil {
			verifx.Fail(rec, c15Feat("unexpected-error", c, o, nil),
				"Load failed with %q; the winner %s=%q alone is accepted\n%s", got.err, c.Winner, o.V[c.Value], desc)
			return true
		}
		if !reflect.DeepEqual(got.cfg, want.cfg) {
			// which source did the code follow instead?
			follows := "other"
			for _, s := range [][2]string{{"cmd", c.Cmd}, {"fenv", c.Fenv}, {"env", c.Env}, {"file", c.File}, {"default", "default"}} {
				if s[1] != c15None && s[0] != c.Winner && reflect.DeepEqual(got.cfg, ref.out[s[1]].cfg) {
					follows = s[0]
					break
				}
			}
			verifx.Fail(rec, c15Feat("wrong-value", c, o, map[string]any{"follows": follows}),
				"%s must take the value of %s (%q); the configuration differs from the one that value gives alone (it equals the one from %s)\n%s\n%s",
				o.Name, c.Winner, o.V[c.Value], follows, desc, c15Diff(got.cfg, want.cfg))
			return true
		}
		if ref.obs && len(uses) >= 2 {
			w.nontriv++
		}
	default:
		verifx.Emit(map[string]any{"kind": "error", "msg": "case with unknown result " + c.Result})
	}
	return true
}

// c15Agrees reports whether an outcome is the one the case prescribes (see runCase for the clauses).
func c15Agrees(c *c15Case, ref *c15Ref, got c15Outcome) bool {
	if got.panic != nil || (got.cfg == nil) == (got.err == nil) {
		return false
	}
	if c.Fstate == "junk" && got.err != nil {
		return true
	}
	want := ref.out[c.Value]
	if c.Result == "error" || want.err != nil {
		return got.err != nil
	}
	return got.err == nil && reflect.DeepEqual(got.cfg, want.cfg)
}

func c15Stack(s string) string {
	lines := strings.Split(s, "\n")
	var keep []string
	for i, l := range lines {
		if strings.Contains(l, "fabio/config.") && !strings.Contains(l, "c15") && !strings.Contains(l, "verifx") {
			keep = append(keep, strings.TrimSpace(l))
			if i+1 < len(lines) {
				keep = append(keep, "    "+strings.TrimSpace(lines[i+1]))
			}
		}
		if len(keep) >= 8 {
			break
		}
	}
	return strings.Join(keep, "\n")
}

func c15Trunc(s string) string {
	if len(s) > 200 {
		return s[:200] + "..."
	}
	return s
}

// c15Diff names the top-level fields in which two configurations differ.
func c15Diff(a, b *Config) string {
	if a == nil || b == nil {
		return fmt.Sprintf("got nil=%v want nil=%v", a == nil, b == nil)
	}
	var out []string
	var walk func(path string, x, y reflect.Value)
	walk = func(path string, x, y reflect.Value) {
		if len(out) > 6 {
			return
		}
		if x.Kind() == reflect.Struct {
			for i := 0; i < x.NumField(); i++ {
				walk(path+"."+x.Type().Field(i).Name, x.Field(i), y.Field(i))
			}
			return
		}
		if !x.CanInterface() {
			return
		}
		if !reflect.DeepEqual(x.Interface(), y.Interface()) {
			out = append(out, fmt.Sprintf("%s: got %v, want %v", strings.TrimPrefix(path, "."), c15Trunc(fmt.Sprint(x.Interface())), c15Trunc(fmt.Sprint(y.Interface()))))
		}
	}
	walk("", reflect.ValueOf(*a), reflect.ValueOf(*b))
	return strings.Join(out, "; ")
}

// ---------------------------------------------------------------- robustness sweep

func (w *c15Worker) robust(r *rand.Rand, n int) (ran int) {
	pick := func(ss []string) string { return ss[r.Intn(len(ss))] }
	illTyped := []string{"abc", "", "1e999", "-", "9999999999999999999999", "tru", "5 parsecs", "\x00", "a\nb", "0x", "NaN", "1,,2", strings.Repeat("9", 400)}
	classes := []string{"noeq", "empty", "emptyname", "unrelated", "duprelated", "nonutf8"}
	for i := 0; i < n; i++ {
		var env []c15Entry
		var file strings.Builder
		m := r.Intn(7)
		for j := 0; j < m; j++ {
			o := &w.opts[r.Intn(len(w.opts))]
			switch r.Intn(6) {
			case 0, 1:
				env = append(env, c15JunkEntries(pick(classes), nil)...)
			case 2:
				env = append(env, c15Entry{"real", c15EnvName(o, pick([]string{"FABIO_", ""}), pick([]string{"upper", "lower", "alt", "asis"})) + "=" + o.V[pick([]string{"v1", "v2"})]})
			case 3:
				env = append(env, c15Entry{"illtyped", c15EnvName(o, pick([]string{"FABIO_", ""}), "upper") + "=" + pick(illTyped)})
			case 4:
				env = append(env, c15Entry{"oddname", pick([]string{"FABIO_", "FABIO_=x", "==", "FABIO__=1", "fabio_=", "=", "FABIO_" + strings.Repeat("A", 3000) + "=1", "FABIO_PROXY_ADDR", "proxy_addr", "CFG=/nonexistent", "V=true", "VERSION=x"})})
			case 5:
				fmt.Fprintf(&file, "%s = %s\n", o.Name, pick(append(illTyped, o.V["v1"], o.V["v2"])))
			}
		}
		args := []string{"fabio"}
		content := ""
		switch r.Intn(4) {
		case 0:
			content = file.String() + pick(c15JunkFiles)
		case 1:
			content = pick(c15JunkFiles) + "\n" + file.String()
		case 2:
			content = file.String()
		}
		if content != "" {
			os.WriteFile(w.path, []byte(content), 0o644)
			args = append(args, "-cfg", w.path)
		} else if r.Intn(10) == 0 {
			args = append(args, "-cfg", w.path+".does-not-exist")
		}
		environ := c15EnvStrings(env)
		got := c15Load(args, environ)
		w.loads++
		ran++
		rec := c15Case{Kind: "robust", Args: args, EnvB64: c15B64(environ), EnvText: c15Quote(environ),
			FileB64: base64.StdEncoding.EncodeToString([]byte(content))}
		if got.panic != nil {
			src, blame := "file", "n/a"
			if again := c15Load([]string{"fabio"}, environ); again.panic != nil {
				src, blame = "environ", c15Blame(args, env)
			}
			verifx.Fail(rec, map[string]any{"sub": "sources", "clause": "load-panic", "source": src, "entry": blame},
				"config.Load panicked: %v\nargs=%q environ=%s file=%q\n%s", got.panic, args, c15Quote(environ), c15Trunc(content), c15Stack(got.stack))
			continue
		}
		if (got.cfg == nil) == (got.err == nil) {
			verifx.Fail(rec, map[string]any{"sub": "sources", "clause": "neither-cfg-nor-error", "source": "robust"},
				"Load returned cfg=%v err=%v for args=%q environ=%s", got.cfg != nil, got.err, args, c15Quote(environ))
		}
	}
	return ran
}

func c15ReplayRobust(c *c15Case) {
	dec := func(s string) string { b, _ := base64.StdEncoding.DecodeString(s); return string(b) }
	var environ []string
	for _, e := range c.EnvB64 {
		environ = append(environ, dec(e))
	}
	args := append([]string{}, c.Args...)
	for i, a := range args {
		if a == "-cfg" && i+1 < len(args) && c.FileB64 != "" {
			p := filepath.Join(os.Getenv("VERIF_TMP"), "c15-replay.properties")
			os.WriteFile(p, []byte(dec(c.FileB64)), 0o644)
			args[i+1] = p
		}
	}
	got := c15Load(args, environ)
	if got.panic != nil {
		verifx.Fail(*c, map[string]any{"sub": "sources", "clause": "load-panic", "source": "replay", "entry": "n/a"},
			"config.Load panicked: %v\nargs=%q environ=%s\n%s", got.panic, args, c15Quote(environ), c15Stack(got.stack))
	} else if (got.cfg == nil) == (got.err == nil) {
		verifx.Fail(*c, map[string]any{"sub": "sources", "clause": "neither-cfg-nor-error", "source": "replay"}, "Load returned cfg=%v err=%v", got.cfg != nil, got.err)
	}
}

// ---------------------------------------------------------------- worker / parent

func c15RunShard(t *testing.T, shard, shards int) {
	opts, err := c15Options()
	if err != nil {
		t.Fatal(err)
	}
	only := map[string]bool{}
	for _, n := range strings.Split(os.Getenv("VERIF_C15_ONLY"), ",") {
		if n != "" {
			only[n] = true
		}
	}
	all, err := verifx.ReadCases[c15Case]("VERIF_IN")
	if err != nil {
		t.Fatal(err)
	}
	var cases []c15Case
	var words []string
	for _, c := range all {
		if c.Degenerate != nil {
			words = c.Degenerate
			sort.Strings(words)
		} else {
			cases = append(cases, c)
		}
	}
	few := verifx.EnvInt("VERIF_C15_DEG_FEW", 2)
	seed := verifx.Seed()
	w := &c15Worker{opts: opts, path: filepath.Join(os.Getenv("VERIF_TMP"), fmt.Sprintf("c15-%d.properties", shard))}
	extraEvery := int64(verifx.EnvInt("VERIF_C15_EXTRA_EVERY", 1))
	deepEvery := int64(verifx.EnvInt("VERIF_C15_DEEP_EVERY", 1))
	nbrEvery := int64(verifx.EnvInt("VERIF_C15_NBR_EVERY", 1))
	debug.SetGCPercent(400)
	nopts := 0
	for oi := range opts {
		o := &opts[oi]
		if oi%shards != shard || (len(only) > 0 && !only[o.Name]) {
			continue
		}
		mine := false
		for i := range cases {
			if cases[i].Kind == "" && (cases[i].Opt == "" || cases[i].Opt == o.Name) {
				mine = true
			}
		}
		if !mine {
			continue
		}
		nopts++
		for i := range cases { // replay of a degenerate-value failure: v1 stands for that value
			if cases[i].Opt == o.Name && cases[i].DegSet {
				o.Deg = true
				o.V = map[string]string{"v1": cases[i].Deg, "v2": o.V["v2"]}
			}
		}
		ref := w.reference(o)
		for k, out := range ref.out {
			if out.panic != nil {
				verifx.Fail(c15Case{Opt: o.Name, Note: "reference " + k}, map[string]any{"sub": "sources", "clause": "load-panic", "source": "cmdline", "entry": "n/a"},
					"config.Load panicked for -%s=%q: %v\n%s", o.Name, o.V[k], out.panic, c15Stack(out.stack))
			}
		}
		if !o.Deg && (ref.isBad["v1"] || ref.isBad["v2"]) {
			verifx.Emit(map[string]any{"kind": "note", "msg": fmt.Sprintf("option %s: table value refused on the command line (v1: %v, v2: %v); option not compared",
				o.Name, ref.out["v1"].err, ref.out["v2"].err), "opt": o.Name, "class": "table"})
			w.unobs = append(w.unobs, o.Name+"(refused)")
			continue
		}
		if !ref.obs {
			w.unobs = append(w.unobs, o.Name)
		}
		if _, has := o.V["bad"]; has && !ref.isBad["bad"] {
			w.badAcc = append(w.badAcc, o.Name)
		}
		for i := range cases {
			c := &cases[i]
			if c.Kind != "" || (c.Opt != "" && c.Opt != o.Name) {
				continue
			}
			// the junk / junk-file part of the universe is replayed for a rotating share of the options
			if c.Opt == "" && (len(c.Junk) > 0 || c.Fstate == "junk") && (int64(i)+int64(oi)+seed)%extraEvery != 0 {
				w.skipped++
				continue
			}
			idx := i + oi
			if c.Opt != "" {
				idx = c.Idx
			}
			if c.Fetch != "" && c.Fetch != "path" {
				if !w.runFetch(c, o, ref, idx) {
					w.skipped++
				}
				continue
			}
			if c.NSrc != "" && c.NSrc != c15None {
				if c.Opt == "" && (int64(i)+int64(oi)+seed)%nbrEvery != 0 { // a rotating share in the quick tier
					w.skipped++
					continue
				}
				if !w.runNeighbour(c, o, oi, ref, idx) {
					w.skipped++
				}
				continue
			}
			// combinations of three and four sources are replayed for a rotating share of the options in the quick tier
			if c.Opt == "" && deepEvery > 1 && c15NSources(c) >= 3 && (int64(i)+int64(oi)+seed)%deepEvery != 0 {
				w.skipped++
				continue
			}
			if !w.runCase(c, o, ref, idx) {
				w.skipped++
			}
			if i%997 == 5 && len(w.samples) < 3 && oi%shards == shard && c.Via == "validate" && c.Fstate != "junk" {
				args, env, file, _ := c15Concrete(c, o, i+oi, "fabio.properties")
				w.samples = append(w.samples, fmt.Sprintf("%q env=%s file=%q => %s from %s", args, c15Quote(c15EnvStrings(env)), c15Trunc(file), c.Result, c.Winner))
			}
		}
	}
	for oi := range opts {
		if oi%shards == shard && len(only) == 0 && len(words) > 0 {
			w.degenerate(&opts[oi], oi, cases, words, seed, few)
		}
	}
	for i := range cases {
		if cases[i].Kind == "robust" && shard == 0 {
			c15ReplayRobust(&cases[i])
			w.ran++
		}
	}
	nrob := 0
	if n := verifx.EnvInt("VERIF_C15_ROBUST", 0); n > 0 {
		nrob = w.robust(rand.New(rand.NewSource(seed*1000+int64(shard))), n/shards+1)
	}
	verifx.Summary(map[string]any{"options": nopts, "all_options": len(opts), "cases": len(cases), "ran": w.ran, "loads": w.loads, "skipped": w.skipped, "flaky": w.flaky, "degenerate_replays": w.ndeg, "neighbour_replays": w.nnbr, "fetch_replays": w.nfetch,
		"distinct_nontrivial": w.nontriv, "unobservable": w.unobs, "bad_accepted": w.badAcc, "robust": nrob, "samples": w.samples})
}

func TestVerifC15(t *testing.T) {
	switch os.Getenv("VERIF_C15_MODE") {
	case "single":
		c15RunSingle(t)
		return
	case "history":
		c15RunHistory(t)
		return
	}
	if s := os.Getenv("VERIF_SHARD"); s != "" {
		shard, _ := strconv.Atoi(s)
		c15RunShard(t, shard, verifx.EnvInt("VERIF_SHARDS", 1))
		return
	}
	shards := verifx.EnvInt("VERIF_C15_PROCS", 0)
	if shards <= 0 {
		shards = runtime.NumCPU() / 2
	}
	if shards > 8 {
		shards = 8
	}
	if shards < 1 {
		shards = 1
	}
	tmp := os.Getenv("VERIF_TMP")
	type res struct {
		err error
		out []byte
	}
	done := make(chan res, shards+1)
	names := []string{}
	for k := 0; k < shards; k++ {
		names = append(names, strconv.Itoa(k))
	}
	if os.Getenv("VERIF_C15_HIST") != "" {
		names = append(names, "history")
		go func() {
			cmd := exec.Command(os.Args[0], "-test.run=^TestVerifC15$", "-test.timeout=1500s")
			cmd.Env = append(os.Environ(), "VERIF_C15_MODE=history", "VERIF_OUT="+filepath.Join(tmp, "c15-shard-history.ndjson"))
			out, err := cmd.CombinedOutput()
			done <- res{err, out}
		}()
	}
	for k := 0; k < shards; k++ {
		go func(k int) {
			cmd := exec.Command(os.Args[0], "-test.run=^TestVerifC15$", "-test.timeout=1500s")
			cmd.Env = append(os.Environ(), fmt.Sprintf("VERIF_SHARD=%d", k), fmt.Sprintf("VERIF_SHARDS=%d", shards),
				"VERIF_OUT="+filepath.Join(tmp, fmt.Sprintf("c15-shard-%d.ndjson", k)))
			out, err := cmd.CombinedOutput()
			done <- res{err, out}
		}(k)
	}
	ok := true
	for range names {
		r := <-done
		if r.err != nil {
			ok = false
			verifx.Emit(map[string]any{"kind": "error", "msg": fmt.Sprintf("worker failed: %v\n%s", r.err, c15Trunc(string(r.out)))})
		}
	}
	total := map[string]any{}
	ints := map[string]int64{}
	lists := map[string][]any{}
	summaries := 0
	for _, k := range names {
		f, err := os.Open(filepath.Join(tmp, fmt.Sprintf("c15-shard-%s.ndjson", k)))
		if err != nil {
			ok = false
			continue
		}
		sc := bufio.NewScanner(f)
		sc.Buffer(make([]byte, 1<<20), 1<<28)
		for sc.Scan() {
			var rec map[string]any
			if json.Unmarshal(sc.Bytes(), &rec) != nil {
				continue
			}
			if rec["kind"] != "summary" {
				verifx.Emit(rec)
				continue
			}
			summaries++
			for key, v := range rec {
				switch x := v.(type) {
				case float64:
					if key == "cases" || key == "all_options" {
						ints[key] = int64(x)
					} else {
						ints[key] += int64(x)
					}
				case []any:
					lists[key] = append(lists[key], x...)
				}
			}
		}
		f.Close()
	}
	if !ok || summaries != len(names) {
		t.Fatalf("%d of %d workers completed", summaries, len(names))
	}
	for k, v := range ints {
		total[k] = v
	}
	for k, v := range lists {
		if k == "samples" && len(v) > 4 {
			v = v[:4]
		}
		total[k] = v
	}
	total["failed"] = ints["fails"]
	total["procs"] = shards
	verifx.Summary(total)
}
