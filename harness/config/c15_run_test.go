package config_test

// C15, last clause: "a configuration that is accepted can be run".  Boundary values of the
// options that size or select run-time components are loaded through the real config.Load
// (rotating over the sources); every configuration Load ACCEPTS is used the way main.go uses
// it - glob cache, picker, matcher, route lookups for several hosts - under recover.
// (External test package: route imports transport imports config.)

import (
	"bytes"
	"fmt"
	"net/http"
	"net/url"
	"os"
	"path/filepath"
	"sort"
	"strings"
	"testing"

	"github.com/fabiolb/fabio/config"
	"github.com/fabiolb/fabio/internal/verifx"
	"github.com/fabiolb/fabio/route"
)

type c15RunCase struct {
	Kind   string            `json:"kind"` // "run"
	Assign map[string]string `json:"assign"`
	Source string            `json:"source"` // cmd | fenv | env | file
}

var c15RunDims = []struct {
	name string
	vals []string
}{
	{"glob.cache.size", []string{"", "-1", "0", "1", "2"}},
	{"proxy.strategy", []string{"", "rr"}},
	{"proxy.matcher", []string{"", "glob", "iprefix"}},
	{"glob.matching.disabled", []string{"", "true"}},
	{"proxy.maxconn", []string{"", "0", "-1"}},
}

// single-option boundary values beyond the product above
var c15RunSingles = map[string][]string{
	"proxy.noroutestatus":             {"100", "999"},
	"runtime.gogc":                    {"-1", "0"},
	"runtime.gomaxprocs":              {"-1", "0"},
	"registry.consul.serviceMonitors": {"-5", "0"},
	"proxy.header.sts.maxage":         {"-1", "0", "2147483647"},
	"proxy.grpcmaxrxmsgsize":          {"0", "-1"},
	"metrics.prometheus.buckets":      {"", "1"},
	"bgp.listenport":                  {"-1", "0"},
	"proxy.shutdownwait":              {"0s", "-1s"},
	"proxy.flushinterval":             {"0s", "-1s"},
	"registry.consul.service.status":  {"", ","},
	// enumerated options: every value in odd letter case - refused, or understood by what runs
	"proxy.strategy": {"foo", "", "RR", "Rr", "rR", "RND", "Rnd", "rnD"},
	"proxy.matcher":  {"foo", "", "PREFIX", "Prefix", "GLOB", "Glob", "gLOB", "IPREFIX", "iPrefix", "IPrefix"},
	"ui.access":      {"RO", "Ro", "RW", "rW"},
}

func c15RunLoad(c *c15RunCase, path string) (cfg *config.Config, err error, p any, stack string) {
	args := []string{"fabio"}
	var environ []string
	var file strings.Builder
	names := make([]string, 0, len(c.Assign))
	for n := range c.Assign {
		names = append(names, n)
	}
	sort.Strings(names)
	for _, n := range names {
		v := c.Assign[n]
		switch c.Source {
		case "fenv":
			environ = append(environ, "FABIO_"+strings.ToUpper(strings.Replace(n, ".", "_", -1))+"="+v)
		case "env":
			environ = append(environ, strings.Replace(n, ".", "_", -1)+"="+v)
		case "file":
			fmt.Fprintf(&file, "%s = %s\n", n, v)
		default:
			args = append(args, "-"+n+"="+v)
		}
	}
	if c.Source == "file" {
		os.WriteFile(path, []byte(file.String()), 0o644)
		args = append(args, "-cfg", path)
	}
	p, stack = verifx.Safely(func() { cfg, err = config.Load(args, environ) })
	return
}

const c15RunRoutes = `route add svc-a *.example.com/ http://127.0.0.1:11/
route add svc-b a.example.org/x http://127.0.0.1:12/
route add svc-c *.a.example.net/foo http://127.0.0.1:13/
route add svc-c *.a.example.net/foo http://127.0.0.1:14/
route add svc-d /bar http://127.0.0.1:15/
route add svc-e *:8080/ http://127.0.0.1:16/
`

// c15Use does with an accepted configuration what main.newHTTPProxy and its Lookup do.
func c15Use(cfg *config.Config) (stage string, p any, stack string) {
	stage = "build"
	var gc *route.GlobCache
	var tbl route.Table
	p, stack = verifx.Safely(func() { gc = route.NewGlobCache(cfg.GlobCacheSize) })
	if p != nil {
		return
	}
	p, stack = verifx.Safely(func() {
		t, err := route.NewTable(bytes.NewBufferString(c15RunRoutes))
		if err != nil {
			panic("harness routes rejected: " + err.Error())
		}
		tbl = t
	})
	if p != nil {
		return
	}
	stage = "lookup"
	pick := route.Picker[cfg.Proxy.Strategy]
	match := route.Matcher[cfg.Proxy.Matcher]
	p, stack = verifx.Safely(func() {
		for round := 0; round < 3; round++ {
			for _, hp := range [][2]string{{"x.example.com", "/"}, {"y.example.com", "/q"}, {"a.example.org", "/x/y"}, {"b.a.example.net", "/foo"},
				{"c.a.example.net", "/FOO"}, {"nohost.invalid", "/bar"}, {"z.example.com:8080", "/"}, {"", "/none"}, {"X.EXAMPLE.COM", "/"}} {
				req := &http.Request{Host: hp[0], Header: http.Header{}, Method: "GET"}
				req.URL = &url.URL{Path: hp[1]}
				tbl.Lookup(req, "", pick, match, gc, cfg.GlobMatchingDisabled)
				tbl.LookupHost(hp[0], pick)
			}
		}
	})
	return
}

func c15RunFeat(clause, stage string, c *c15RunCase, culprit string) map[string]any {
	return map[string]any{"sub": "run", "clause": clause, "stage": stage, "culprit": culprit}
}

func TestVerifC15Run(t *testing.T) {
	path := filepath.Join(os.Getenv("VERIF_TMP"), "c15-run.properties")
	var cases []c15RunCase
	if os.Getenv("VERIF_IN") != "" {
		all, err := verifx.ReadCases[c15RunCase]("VERIF_IN")
		if err != nil {
			t.Fatal(err)
		}
		for _, c := range all {
			if c.Kind == "run" {
				cases = append(cases, c)
			}
		}
	}
	replay := len(cases) > 0
	sources := []string{"cmd", "fenv", "env", "file"}
	if !replay {
		// singles first (they also attribute the panics of the product)
		for _, d := range c15RunDims {
			for _, v := range d.vals {
				if v != "" {
					for _, s := range sources {
						cases = append(cases, c15RunCase{"run", map[string]string{d.name: v}, s})
					}
				}
			}
		}
		names := make([]string, 0, len(c15RunSingles))
		for n := range c15RunSingles {
			names = append(names, n)
		}
		sort.Strings(names)
		for i, n := range names {
			for j, v := range c15RunSingles[n] {
				cases = append(cases, c15RunCase{"run", map[string]string{n: v}, sources[(i+j)%4]})
			}
		}
		nsingle := len(cases)
		var rec func(k int, cur map[string]string)
		rec = func(k int, cur map[string]string) {
			if k == len(c15RunDims) {
				if len(cur) < 2 {
					return
				}
				m := map[string]string{}
				for a, b := range cur {
					m[a] = b
				}
				cases = append(cases, c15RunCase{"run", m, sources[(len(cases)+int(verifx.Seed()))%4]})
				return
			}
			for _, v := range c15RunDims[k].vals {
				if v == "" {
					rec(k+1, cur)
				} else {
					cur[c15RunDims[k].name] = v
					rec(k+1, cur)
					delete(cur, c15RunDims[k].name)
				}
			}
		}
		rec(0, map[string]string{})
		_ = nsingle
	}
	culprits := map[string]bool{} // "name=value" whose single setting panics
	var accepted, rejected, ran int
	var samples []string
	for i := range cases {
		c := &cases[i]
		ran++
		cfg, err, p, stack := c15RunLoad(c, path)
		if p != nil {
			verifx.Fail(*c, c15RunFeat("load-panic", "load", c, "n/a"), "config.Load panicked for %v from %s: %v\n%s", c.Assign, c.Source, p, stack)
			continue
		}
		if err != nil || cfg == nil {
			rejected++
			continue
		}
		accepted++
		stage, p, stack := c15Use(cfg)
		if p == nil {
			if len(samples) < 3 && len(c.Assign) >= 3 {
				samples = append(samples, fmt.Sprintf("run %v via %s: accepted, built and looked up without panic", c.Assign, c.Source))
			}
			continue
		}
		var hit []string
		for n, v := range c.Assign {
			if len(c.Assign) == 1 {
				culprits[n+"="+v] = true
			}
			if culprits[n+"="+v] {
				hit = append(hit, n+"="+v)
			}
		}
		sort.Strings(hit)
		culprit := strings.Join(hit, ",")
		if culprit == "" {
			culprit = "combination"
		}
		verifx.Fail(*c, c15RunFeat("accepted-config-panics", stage, c, culprit),
			"config.Load accepted %v (from %s) but using the configuration panics during %s: %v\n%s", c.Assign, c.Source, stage, p, c15RunStack(stack))
	}
	verifx.Summary(map[string]any{"ran": ran, "accepted": accepted, "rejected": rejected, "samples": samples})
}

func c15RunStack(s string) string {
	var keep []string
	lines := strings.Split(s, "\n")
	for i, l := range lines {
		if strings.Contains(l, "fabio/route.") || strings.Contains(l, "fabio/config.") {
			keep = append(keep, strings.TrimSpace(l))
			if i+1 < len(lines) {
				keep = append(keep, "    "+strings.TrimSpace(lines[i+1]))
			}
		}
		if len(keep) >= 8 {
			break
		}
	}
	return strings.Join(keep, "\n")
}
