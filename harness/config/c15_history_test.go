package config

// C15, two further parts of the universe:
//
//   - degenerate values: every string TLC enumerates over separators, blanks and one letter /
//     digit (",", ";", "=", " ", ...) is given to the list-, struct-valued and parsed options in
//     the place of the abstract value v1 and goes through the single-source and two-source
//     cases of the model: cfg or error, never a panic, and the same outcome from every source;
//   - histories: ONE process performs the sequences of Loads TLC enumerates (HistSpec).  Every
//     result must equal the reference of its effective value, the references of the defaults
//     and of the list-valued options come from FRESH processes, and every result handed out
//     earlier must still be what it was (snapshot) after the later Loads.

import (
	"encoding/json"
	"fmt"
	"net"
	"net/http"
	"net/http/httptest"
	"os"
	"os/exec"
	"path/filepath"
	"reflect"
	"strconv"
	"strings"
	"testing"

	"github.com/fabiolb/fabio/internal/verifx"
)

// ---------------------------------------------------------------- degenerate values

// c15Admits reports whether the option's TYPE admits the string on the command line (an
// ill-typed command line value makes the flag package exit the process: out of scope).
func c15Admits(kind, v string) bool {
	switch kind {
	case "String", "StringSlice":
		return true
	case "FloatSlice":
		for _, x := range strings.Split(v, ",") {
			x = strings.TrimSpace(x)
			if x == "" {
				continue
			}
			if _, err := strconv.ParseFloat(x, 64); err != nil {
				return false
			}
		}
		return true
	}
	return false
}

// c15InFile reports whether the value can be written as `name = value` in a properties file
// and read back as itself (the format trims blanks around the value).
func c15InFile(v string) bool {
	return v == strings.TrimSpace(v) && !strings.ContainsAny(v, "\\#!\n")
}

// c15Parsed: options whose value fabio parses or validates (they get every degenerate value;
// free-text options get a rotating few).
func c15Parsed(o *c15Opt) bool {
	if o.Kind == "StringSlice" || o.Kind == "FloatSlice" {
		return true
	}
	switch o.Name {
	case "proxy.addr", "ui.addr", "proxy.cs", "proxy.auth", "bgp.peers":
		return true
	}
	if verifx.Thorough() {
		t, ok := c15Table[o.Name]
		return ok && (t.bad != "" || strings.ContainsAny(t.v1, ";="))
	}
	return false
}

// c15DegCase: the single-source and two-source cases of the model without junk, canonical
// spelling, in which the abstract value v1 occurs.
func c15DegCase(c *c15Case) bool {
	if c.Kind != "" || c.Opt != "" || (c.NSrc != "" && c.NSrc != c15None) || (c.Fetch != "" && c.Fetch != "path") || len(c.Junk) > 0 || c.Fstate == "junk" || c.Via != "validate" || c.FenvCase != "upper" || c.EnvCase != "upper" {
		return false
	}
	if c.File == c15None && c.Fstate != "absent" {
		return false
	}
	n, v1 := 0, false
	for _, s := range []string{c.Cmd, c.Fenv, c.Env, c.File} {
		if s == "bad" {
			return false
		}
		if s != c15None {
			n++
		}
		if s == "v1" {
			v1 = true
		}
	}
	return v1 && n <= 2
}

func (w *c15Worker) degenerate(o *c15Opt, oi int, cases []c15Case, words []string, seed int64, few int) {
	if len(words) == 0 || !c15Admits(o.Kind, "") {
		return
	}
	parsed := c15Parsed(o)
	k := 0
	for wi, d := range words {
		if !c15Admits(o.Kind, d) {
			continue
		}
		k++
		if !parsed && (int64(wi)+int64(oi)+seed)%int64(len(words)) >= int64(few) {
			continue
		}
		od := *o
		od.Deg = true
		od.V = map[string]string{"v1": d, "v2": o.V["v2"]}
		ref := w.reference(&od)
		if p := ref.out["v1"].panic; p != nil {
			verifx.Fail(c15Case{Opt: o.Name, Deg: d, DegSet: true, Note: "degenerate value alone on the command line", Cmd: "v1", Fenv: c15None, Env: c15None, File: c15None,
				FenvCase: "upper", EnvCase: "upper", Fstate: "absent", Via: "validate", Winner: "cmd", Value: "v1", Result: "cfg"},
				map[string]any{"sub": "sources", "clause": "load-panic", "source": "cmdline", "entry": "degenerate-value"},
				"config.Load panicked for -%s=%q: %v\n%s", o.Name, d, p, c15Stack(ref.out["v1"].stack))
			w.ndeg++
			continue
		}
		for i := range cases {
			c := &cases[i]
			if !c15DegCase(c) || (c.File == "v1" && !c15InFile(d)) {
				continue
			}
			w.runCase(c, &od, ref, i+oi)
			w.ndeg++
		}
	}
}

// ---------------------------------------------------------------- snapshots

// c15Snapshot is a deep, comparable picture of a configuration.
func c15Snapshot(cfg *Config, err error) string {
	if cfg == nil {
		return fmt.Sprintf("<nil> err=%v", err != nil)
	}
	b, jerr := json.Marshal(cfg)
	if jerr != nil {
		return "unmarshalable: " + jerr.Error()
	}
	re := ""
	if cfg.Proxy.GZIPContentTypes != nil {
		re = cfg.Proxy.GZIPContentTypes.String()
	}
	return string(b) + "|gzip=" + re
}

// c15Fresh runs ONE Load in a fresh process and returns its snapshot.
func c15Fresh(args []string) (string, error) {
	out := filepath.Join(os.Getenv("VERIF_TMP"), fmt.Sprintf("c15-fresh-%d.snap", os.Getpid()))
	a, _ := json.Marshal(args)
	cmd := exec.Command(os.Args[0], "-test.run=^TestVerifC15$", "-test.timeout=120s")
	cmd.Env = append(os.Environ(), "VERIF_C15_MODE=single", "VERIF_C15_ARGS="+string(a), "VERIF_C15_SNAP="+out, "VERIF_OUT="+os.DevNull)
	if b, err := cmd.CombinedOutput(); err != nil {
		return "", fmt.Errorf("fresh process failed: %v\n%s", err, c15Trunc(string(b)))
	}
	b, err := os.ReadFile(out)
	return string(b), err
}

func c15RunSingle(t *testing.T) {
	var args []string
	if err := json.Unmarshal([]byte(os.Getenv("VERIF_C15_ARGS")), &args); err != nil {
		t.Fatal(err)
	}
	o := c15Load(args, nil)
	s := c15Snapshot(o.cfg, o.err)
	if o.panic != nil {
		s = fmt.Sprintf("panic: %v", o.panic)
	}
	if err := os.WriteFile(os.Getenv("VERIF_C15_SNAP"), []byte(s), 0o644); err != nil {
		t.Fatal(err)
	}
}

// ---------------------------------------------------------------- histories

type c15HistLoad struct {
	Cmd    string `json:"cmd"`
	Fenv   string `json:"fenv"`
	Env    string `json:"env"`
	File   string `json:"file"`
	Winner string `json:"winner"`
	Value  string `json:"value"`
	Result string `json:"result"`
}

type c15Hist struct {
	Hist []c15HistLoad `json:"hist"`
	Opt  string        `json:"opt,omitempty"` // replay
}

func c15SnapDiff(a, b string) string {
	i := 0
	for i < len(a) && i < len(b) && a[i] == b[i] {
		i++
	}
	lo := i - 60
	if lo < 0 {
		lo = 0
	}
	cut := func(s string) string {
		hi := i + 60
		if hi > len(s) {
			hi = len(s)
		}
		if lo > len(s) {
			return ""
		}
		return s[lo:hi]
	}
	return fmt.Sprintf("...%s...  versus  ...%s...", cut(a), cut(b))
}

func c15RunHistory(t *testing.T) {
	opts, err := c15Options()
	if err != nil {
		t.Fatal(err)
	}
	hists, err := verifx.ReadCases[c15Hist]("VERIF_C15_HIST")
	if err != nil {
		t.Fatal(err)
	}
	seed := verifx.Seed()
	every := int64(verifx.EnvInt("VERIF_C15_HIST_EVERY", 1))
	path := filepath.Join(os.Getenv("VERIF_TMP"), "c15-history.properties")
	// the very first Load of this process: the defaults of a fresh process
	first := c15Load([]string{"fabio"}, nil)
	snap0 := c15Snapshot(first.cfg, first.err)
	fresh0, err := c15Fresh([]string{"fabio"})
	if err != nil {
		t.Fatal(err)
	}
	if fresh0 != snap0 {
		verifx.Emit(map[string]any{"kind": "error", "msg": "the defaults of two fresh processes differ: " + c15SnapDiff(snap0, fresh0)})
		return
	}
	var loads, steps, nhist, freshRefs, nopts int64
	var samples []string
	for oi := range opts {
		o := &opts[oi]
		list := o.Kind == "StringSlice" || o.Kind == "FloatSlice"
		replayOnly := false
		for _, h := range hists {
			if h.Opt != "" {
				replayOnly = true
			}
		}
		if replayOnly {
			mine := false
			for _, h := range hists {
				if h.Opt == o.Name {
					mine = true
				}
			}
			if !mine {
				continue
			}
		} else if !list && (int64(oi)+seed)%every != 0 {
			continue
		}
		nopts++
		base := append([]string{"fabio"}, o.Ctx...)
		// references: what a Load of the value alone gives; for list-valued options from a fresh process
		ref := map[string]string{}
		refErr := map[string]bool{}
		for _, k := range []string{"default", "v1", "v2"} {
			args := append([]string{}, base...)
			if k != "default" {
				args = append(args, "-"+o.Name+"="+o.V[k])
			}
			if list || (k == "default" && len(o.Ctx) == 0) {
				if k == "default" && len(o.Ctx) == 0 {
					ref[k] = snap0
				} else {
					s, err := c15Fresh(args)
					if err != nil {
						t.Fatal(err)
					}
					ref[k] = s
					freshRefs++
				}
			} else {
				out := c15Load(args, nil)
				loads++
				for try := 0; try < 2 && out.err != nil; try++ {
					out = c15Load(args, nil)
					loads++
				}
				ref[k] = c15Snapshot(out.cfg, out.err)
			}
			refErr[k] = strings.HasPrefix(ref[k], "<nil>")
		}
		for hi := range hists {
			h := &hists[hi]
			if h.Opt != "" && h.Opt != o.Name {
				continue
			}
			nhist++
			type done struct {
				cfg  *Config
				err  error
				snap string
				desc string
			}
			var earlier []done
			rec := c15Hist{Hist: h.Hist, Opt: o.Name}
			feat := func(clause string, step int) map[string]any {
				return map[string]any{"sub": "history", "clause": clause, "kind": o.Kind, "step": step}
			}
			for si, l := range h.Hist {
				if l.Value == "bad" || l.Cmd == "bad" || l.Fenv == "bad" || l.Env == "bad" || l.File == "bad" {
					break
				}
				c := c15Case{Cmd: l.Cmd, Fenv: l.Fenv, Env: l.Env, File: l.File, FenvCase: "upper", EnvCase: "upper", Fstate: "absent"}
				if l.File != c15None {
					c.Fstate = "ok"
				}
				args, env, file, hasFile := c15Concrete(&c, o, hi+si, path)
				if hasFile {
					os.WriteFile(path, []byte(file), 0o644)
				}
				environ := c15EnvStrings(env)
				out := c15Load(args, environ)
				loads++
				steps++
				desc := fmt.Sprintf("Load %d of the process history: args=%q environ=%s file=%q", si+1, args, c15Quote(environ), c15Trunc(file))
				if out.panic != nil {
					verifx.Fail(rec, feat("load-panic", si+1), "config.Load panicked: %v\n%s", out.panic, desc)
					break
				}
				snap := c15Snapshot(out.cfg, out.err)
				want := ref[l.Value]
				agrees := snap == want || (refErr[l.Value] && out.err != nil)
				for try := 0; try < 2 && !agrees && out.err != nil && !refErr[l.Value]; try++ { // transient interface-query errors
					out = c15Load(args, environ)
					loads++
					snap = c15Snapshot(out.cfg, out.err)
					agrees = snap == want
				}
				if !agrees {
					prev := "first Load of the history"
					if si > 0 {
						prev = "after " + earlier[si-1].desc
					}
					verifx.Fail(rec, feat("history-dependent-result", si+1),
						"option %s: the configuration of this Load (winner %s, value %q) differs from the one a fresh process returns for that value: %s\n%s\n%s",
						o.Name, l.Winner, o.V[l.Value], c15SnapDiff(snap, want), desc, prev)
					break
				}
				// what was handed out earlier must not have changed
				changed := false
				for ei, e := range earlier {
					if now := c15Snapshot(e.cfg, e.err); now != e.snap {
						verifx.Fail(rec, feat("earlier-result-changed", si+1),
							"option %s: the configuration returned by Load %d changed when Load %d ran: %s\n%s\n%s", o.Name, ei+1, si+1, c15SnapDiff(now, e.snap), e.desc, desc)
						changed = true
						break
					}
				}
				if changed {
					break
				}
				earlier = append(earlier, done{out.cfg, out.err, snap, desc})
			}
			if hi%97 == 3 && len(samples) < 2 {
				samples = append(samples, fmt.Sprintf("history for %s: %+v", o.Name, h.Hist))
			}
		}
		// and the defaults of the process are still those of a fresh process
		again := c15Load([]string{"fabio"}, nil)
		loads++
		if s := c15Snapshot(again.cfg, again.err); s != snap0 && again.err == nil {
			verifx.Fail(c15Hist{Opt: o.Name}, map[string]any{"sub": "history", "clause": "defaults-changed", "kind": o.Kind, "step": 0},
				"after the histories of option %s a Load without any source differs from a fresh process: %s", o.Name, c15SnapDiff(s, snap0))
		}
	}
	verifx.Summary(map[string]any{"hist_options": nopts, "histories": nhist, "hist_steps": steps, "hist_loads": loads, "fresh_refs": freshRefs + 1, "hist_samples": samples})
}

// ---------------------------------------------------------------- neighbours (two options at a time)

var c15Ill = map[string]string{"Int": "12x", "Uint": "-3x", "Bool": "maybe", "Duration": "fast", "Float64": "1.2.3"}

// c15Neighbour returns the typed option that comes right before / after o in the order in which
// Load walks over the options (flag.VisitAll: by name).
func (w *c15Worker) neighbour(o *c15Opt, side string) *c15Opt {
	var best *c15Opt
	for i := range w.opts {
		a := &w.opts[i]
		if _, typed := c15Ill[a.Kind]; !typed || a.Name == o.Name || len(a.Ctx) > 0 {
			continue
		}
		if _, validated := c15Table[a.Name]; validated {
			continue
		}
		switch side {
		case "before":
			if a.Name < o.Name && (best == nil || a.Name > best.Name) {
				best = a
			}
		case "after":
			if a.Name > o.Name && (best == nil || a.Name < best.Name) {
				best = a
			}
		}
	}
	return best
}

// runNeighbour replays a case in which a source also says something about a neighbour option.
// The outcome must be the one of the same Load with THIS option's effective value moved to the
// command line (where the walk over the environment and the file cannot touch it) and the
// neighbour said the same.
func (w *c15Worker) runNeighbour(c *c15Case, o *c15Opt, oi int, ref *c15Ref, idx int) bool {
	if ref.isBad["v1"] || ref.isBad["v2"] || c.Via != "validate" {
		return false
	}
	a := w.neighbour(o, c.NSide)
	if a == nil {
		return false
	}
	val := a.V["v1"]
	if c.NForm == "ill" {
		val = c15Ill[a.Kind]
	}
	args, env, file, hasFile := c15Concrete(c, o, idx, w.path)
	refArgs := append(append([]string{"fabio"}, o.Ctx...), "-"+o.Name+"="+o.V[c.Value])
	var refEnv []string
	refFile := ""
	switch c.NSrc {
	case "fenv", "env":
		pfx := "FABIO_"
		if c.NSrc == "env" {
			pfx = ""
		}
		e := c15EnvName(a, pfx, "upper") + "=" + val
		if c.NSide == "before" {
			env = append([]c15Entry{{"real", e}}, env...)
		} else {
			env = append(env, c15Entry{"real", e})
		}
		refEnv = []string{e}
	case "file":
		if !hasFile {
			return false
		}
		line := a.Name + " = " + val + "\n"
		if c.NSide == "before" {
			file = line + file
		} else {
			file += line
		}
		refFile = "# reference\n" + line
	}
	if hasFile {
		os.WriteFile(w.path, []byte(file), 0o644)
	}
	environ := c15EnvStrings(env)
	load := func() (c15Outcome, c15Outcome) {
		got := c15Load(args, environ)
		ra := refArgs
		if refFile != "" {
			rp := w.path + ".ref"
			os.WriteFile(rp, []byte(refFile), 0o644)
			ra = append(append([]string{}, refArgs...), "-cfg", rp)
		}
		want := c15Load(ra, refEnv)
		w.loads += 2
		return got, want
	}
	same := func(g, x c15Outcome) bool {
		if g.panic != nil || x.panic != nil {
			return false
		}
		if (g.err != nil) != (x.err != nil) {
			return false
		}
		return g.err != nil || reflect.DeepEqual(g.cfg, x.cfg)
	}
	got, want := load()
	for try := 0; try < 2 && !same(got, want); try++ { // transient interface-query errors
		got, want = load()
	}
	w.nnbr++
	w.ran++
	if same(got, want) {
		return true
	}
	rec := *c
	rec.Opt, rec.Idx, rec.Args, rec.EnvB64, rec.EnvText = o.Name, idx, args, c15B64(environ), c15Quote(environ)
	feat := map[string]any{"sub": "sources", "clause": "neighbour-interference", "kind": o.Kind, "winner": c.Winner,
		"nside": c.NSide, "nsrc": c.NSrc, "nform": c.NForm}
	if got.panic != nil || want.panic != nil {
		feat["clause"] = "load-panic"
		verifx.Fail(rec, feat, "config.Load panicked: %v %v\nargs=%q environ=%s file=%q", got.panic, want.panic, args, c15Quote(environ), c15Trunc(file))
		return true
	}
	verifx.Fail(rec, feat,
		"%s=%q from %s next to the %s value %q of %s (which Load visits %s it) from %s: the configuration differs from the one with %s on the command line and the same said about %s: %s (errors: %v / %v)\nargs=%q environ=%s file=%q",
		o.Name, o.V[c.Value], c.Winner, map[string]string{"ok": "well-formed", "ill": "ill-formed"}[c.NForm], val, a.Name, c.NSide, c.NSrc, o.Name, a.Name,
		c15Diff(got.cfg, want.cfg), got.err, want.err, args, c15Quote(environ), c15Trunc(file))
	return true
}

// ---------------------------------------------------------------- where the file comes from

// server starts (once per worker) the HTTP server the configuration file is fetched from.  The
// path selects the course of the transfer; the body and the place where a broken transfer stops
// are set per case.
func (w *c15Worker) server() *httptest.Server {
	if w.srv != nil {
		return w.srv
	}
	w.srv = httptest.NewServer(http.HandlerFunc(func(rw http.ResponseWriter, r *http.Request) {
		body, cut := w.srvBody, w.srvCut
		switch r.URL.Path {
		case "/complete":
			rw.Header().Set("Content-Type", "text/plain; charset=utf-8")
			rw.Header().Set("Content-Length", strconv.Itoa(len(body)))
			rw.Write([]byte(body))
		case "/notfound":
			http.Error(rw, body, http.StatusNotFound) // the body is there, the status says it is not the file
		case "/servererror":
			http.Error(rw, body, http.StatusInternalServerError)
		case "/truncated", "/reset":
			hj, ok := rw.(http.Hijacker)
			if !ok {
				return
			}
			conn, buf, err := hj.Hijack()
			if err != nil {
				return
			}
			fmt.Fprintf(buf, "HTTP/1.1 200 OK\r\nContent-Type: text/plain; charset=utf-8\r\nContent-Length: %d\r\n\r\n%s", len(body), body[:cut])
			buf.Flush()
			if tc, ok := conn.(*net.TCPConn); ok && r.URL.Path == "/reset" {
				tc.SetLinger(0) // RST instead of FIN
			}
			conn.Close()
		}
	}))
	return w.srv
}

// runFetch replays a case in which the file is fetched from a URL.
func (w *c15Worker) runFetch(c *c15Case, o *c15Opt, ref *c15Ref, idx int) bool {
	if ref.isBad["v1"] || ref.isBad["v2"] || !c15InFile(o.V[c.File]) {
		return false
	}
	srv := w.server()
	cc := *c
	cc.Fstate = "ok"
	args, env, file, _ := c15Concrete(&cc, o, idx, srv.URL+"/"+c.Fetch)
	// a broken transfer stops in the middle of the option's value: what arrived is a well-formed file
	line := o.Name + " = "
	at := strings.Index(file, line)
	if at < 0 {
		return false
	}
	w.srvBody, w.srvCut = file, at+len(line)+len(o.V[c.File])/2
	environ := c15EnvStrings(env)
	got := c15Load(args, environ)
	w.loads++
	agrees := func(g c15Outcome) bool {
		if g.panic != nil || (g.cfg == nil) == (g.err == nil) {
			return false
		}
		if c.Result == "error" {
			return g.err != nil
		}
		return g.err == nil && reflect.DeepEqual(g.cfg, ref.out[c.Value].cfg)
	}
	for try := 0; try < 2 && !agrees(got) && c.Result != "error"; try++ { // transient interface-query errors
		got = c15Load(args, environ)
		w.loads++
	}
	w.nfetch++
	w.ran++
	if agrees(got) {
		return true
	}
	rec := *c
	rec.Opt, rec.Idx, rec.Args, rec.EnvB64, rec.EnvText = o.Name, idx, args, c15B64(environ), c15Quote(environ)
	rec.FileB64 = ""
	feat := map[string]any{"sub": "sources", "clause": "partial-file-accepted", "kind": o.Kind, "fetch": c.Fetch, "winner": c.Winner}
	switch {
	case got.panic != nil:
		feat["clause"] = "load-panic"
		verifx.Fail(rec, feat, "config.Load panicked fetching the file (%s): %v\n%s", c.Fetch, got.panic, c15Stack(got.stack))
	case c.Result == "error":
		verifx.Fail(rec, feat, "-cfg %s: the transfer of the file is %s (%d of %d bytes arrived, cut inside %q) but config.Load returns a configuration instead of an error: %s\nargs=%q environ=%s",
			args[len(args)-1], c.Fetch, w.srvCut, len(file), line+o.V[c.File], c15Diff(got.cfg, ref.out[c.Value].cfg), args, c15Quote(environ))
	default:
		feat["clause"] = "url-differs-from-path"
		verifx.Fail(rec, feat, "-cfg %s: the complete file from a URL does not mean what the same file at a path means: err=%v %s\nargs=%q environ=%s file=%q",
			args[len(args)-1], got.err, c15Diff(got.cfg, ref.out[c.Value].cfg), args, c15Quote(environ), c15Trunc(file))
	}
	return true
}
