package api

// C03, readers of the ACTIVE table: Match_MC!Observe - between the installation of a table and a
// lookup the admin API (GET /api/routes, GET /api/routes?raw), Table.String and Table.Dump read the
// table.  Reading is no action on the table: every lookup after the observations must be served by
// the route Match's Answer prescribes, exactly as before them.  The cases are the generator lines of
// Match_MC that carry observers; the table is installed with route.SetTable, the observers are the
// real handlers, the lookups go through route.GetTable().Lookup like the HTTP proxy's.

import (
	"bytes"
	crypto_tls "crypto/tls"
	"encoding/json"
	"fmt"
	"net/http"
	"net/http/httptest"
	"net/url"
	"strconv"
	"strings"
	"testing"

	"github.com/fabiolb/fabio/internal/verifx"
	"github.com/fabiolb/fabio/route"
)

type c03aHost struct {
	Name []string `json:"name"`
	Port []string `json:"port"`
}

func (h c03aHost) String() string {
	s := strings.Join(h.Name, "")
	if len(h.Port) > 0 {
		s += ":" + strings.Join(h.Port, "")
	}
	return s
}

type c03aUniverse struct {
	Pats   []c03aHost `json:"pats"`
	Paths  [][]string `json:"paths"`
	Hosts  []c03aHost `json:"hosts"`
	RPaths [][]string `json:"rpaths"`
	Combos []struct {
		M string `json:"m"`
		G int    `json:"g"`
	} `json:"combos"`
	NPath int `json:"npath"`
}

type c03aRoute struct {
	ID   int    `json:"id"`
	Host string `json:"host"`
	Path string `json:"path"`
}

type c03aExplicit struct {
	Kind    string      `json:"kind"` // admin
	Routes  []c03aRoute `json:"routes"`
	Obs     []string    `json:"obs"`
	Host    string      `json:"host"`
	TLS     bool        `json:"tls"`
	Path    string      `json:"path"`
	Matcher string      `json:"matcher"`
	Glob    bool        `json:"glob"`
	Want    int         `json:"want"`
}

type c03aLine struct {
	Universe *c03aUniverse `json:"universe,omitempty"`
	T        []int         `json:"t"`
	D        []int         `json:"d"`
	O        []string      `json:"o"`
	H        int           `json:"h"`
	TLS      int           `json:"tls"`
	W        [][]int       `json:"w"`
	X        *c03aExplicit `json:"x,omitempty"`
}

func c03aInstall(routes []c03aRoute) (string, error) {
	var b strings.Builder
	for _, r := range routes {
		fmt.Fprintf(&b, "route add r%d %s%s http://127.0.0.1:%d/\n", r.ID, r.Host, r.Path, 10000+r.ID)
	}
	t, err := route.NewTable(bytes.NewBufferString(b.String()))
	if err != nil {
		return b.String(), err
	}
	route.SetTable(t)
	return b.String(), nil
}

// c03aObserve lets one observer read the active table through the real code.
func c03aObserve(o string) error {
	switch o {
	case "String":
		_ = route.GetTable().String()
	case "Dump":
		_ = route.GetTable().Dump()
	case "api-routes", "api-routes-raw":
		target := "/api/routes"
		if o == "api-routes-raw" {
			target += "?raw"
		}
		rec := httptest.NewRecorder()
		(&RoutesHandler{}).ServeHTTP(rec, httptest.NewRequest("GET", target, nil))
		if rec.Code != 200 {
			return fmt.Errorf("GET %s answered %d", target, rec.Code)
		}
	}
	return nil
}

func c03aLookup(x *c03aExplicit, cache *route.GlobCache) int {
	req := &http.Request{Method: "GET", Host: x.Host, URL: &url.URL{Path: x.Path}, Header: http.Header{}, RequestURI: x.Path}
	if x.TLS {
		req.TLS = &crypto_tls.ConnectionState{}
	}
	t := route.GetTable().Lookup(req, "", route.Picker["rr"], route.Matcher[x.Matcher], cache, !x.Glob)
	if t == nil {
		return 0
	}
	n, err := strconv.Atoi(strings.TrimPrefix(t.Service, "r"))
	if err != nil {
		return -99
	}
	return n
}

func TestVerifC03Admin(t *testing.T) {
	saved := route.GetTable()
	defer route.SetTable(saved)
	cache := route.NewGlobCache(1000)
	var cur *c03aUniverse
	var lines, lookups, reads, routed int64
	check := func(x *c03aExplicit, phase string) bool {
		var got int
		p, stack := verifx.Safely(func() { got = c03aLookup(x, cache) })
		lookups++
		if x.Want > 0 {
			routed++
		}
		if p == nil && got == x.Want {
			return true
		}
		feat := map[string]any{"kind": "admin", "matcher": x.Matcher, "glob": map[bool]string{true: "on", false: "off"}[x.Glob],
			"observers": strings.Join(x.Obs, ","), "phase": phase}
		var rs []string
		for _, r := range x.Routes {
			rs = append(rs, fmt.Sprintf("r%d=%s%s", r.ID, r.Host, r.Path))
		}
		switch {
		case p != nil:
			feat["clause"] = "panic"
			verifx.Fail(map[string]any{"x": x}, feat, "panic in lookup: %v\n%s", p, stack)
		default:
			switch {
			case x.Want > 0 && got == 0:
				feat["clause"] = "no-route"
			case x.Want == 0:
				feat["clause"] = "spurious-route"
			default:
				feat["clause"] = "wrong-route"
			}
			verifx.Fail(map[string]any{"x": x}, feat, "active table {%s}, %s it was read by %s: Lookup host=%q tls=%v path=%q matcher=%s glob=%v served by r%d, the specification prescribes r%d (r0 = no route)",
				strings.Join(rs, ", "), phase, strings.Join(x.Obs, ","), x.Host, x.TLS, x.Path, x.Matcher, x.Glob, got, x.Want)
		}
		return false
	}
	runCase := func(routes []c03aRoute, obs []string, mk func(fn func(x *c03aExplicit) bool) bool) error {
		text, err := c03aInstall(routes)
		if err != nil {
			return fmt.Errorf("table rejected: %v\n%s", err, text)
		}
		lines++
		// the same lookups before and after the observers have read the table
		if !mk(func(x *c03aExplicit) bool { return check(x, "before") }) {
			return nil
		}
		for _, o := range obs {
			if err := c03aObserve(o); err != nil {
				verifx.Fail(map[string]any{"routes": routes, "obs": obs}, map[string]any{"kind": "admin", "clause": "observer-failed", "observers": o}, "%v", err)
				return nil
			}
			reads++
		}
		mk(func(x *c03aExplicit) bool { return check(x, "after") })
		return nil
	}
	err := verifx.EachCase("", func(raw []byte) error {
		var l c03aLine
		if err := json.Unmarshal(raw, &l); err != nil {
			return fmt.Errorf("bad line: %v", err)
		}
		if l.Universe != nil {
			cur = l.Universe
			return nil
		}
		if l.X != nil {
			if l.X.Kind != "admin" {
				return nil
			}
			x := l.X
			return runCase(x.Routes, x.Obs, func(fn func(*c03aExplicit) bool) bool { return fn(x) })
		}
		if len(l.O) == 0 || len(l.D) > 0 {
			return nil // lines without observers are judged by the route-package harness
		}
		if cur == nil {
			return fmt.Errorf("case line before any universe line")
		}
		var routes []c03aRoute
		for _, id := range l.T {
			pi, qi := (id-1)/cur.NPath, (id-1)%cur.NPath
			if id < 1 || pi >= len(cur.Pats) || qi >= len(cur.Paths) {
				return fmt.Errorf("route index %d outside the universe", id)
			}
			routes = append(routes, c03aRoute{ID: id, Host: cur.Pats[pi].String(), Path: strings.Join(cur.Paths[qi], "")})
		}
		if l.H < 1 || l.H > len(cur.Hosts) || len(l.W) != len(cur.RPaths) {
			return fmt.Errorf("malformed case line")
		}
		host := cur.Hosts[l.H-1].String()
		return runCase(routes, l.O, func(fn func(*c03aExplicit) bool) bool {
			for q, row := range l.W {
				for k, want := range row {
					if want < 0 || k >= len(cur.Combos) {
						continue
					}
					x := &c03aExplicit{Kind: "admin", Routes: routes, Obs: l.O, Host: host, TLS: l.TLS == 1, Path: strings.Join(cur.RPaths[q], ""),
						Matcher: cur.Combos[k].M, Glob: cur.Combos[k].G == 1, Want: want}
					if !fn(x) {
						return false
					}
				}
			}
			return true
		})
	})
	if err != nil {
		verifx.Emit(map[string]any{"kind": "error", "msg": err.Error()})
		t.Fatal(err)
	}
	verifx.Summary(map[string]any{"lines": lines, "lookups": lookups, "reads": reads, "routed": routed})
}
