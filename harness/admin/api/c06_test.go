package api

// C06, observers: requests that are no lookups (admin API listing of the routes, raw listing) run
// concurrently with lookups on the ACTIVE table.  DataPlane!LinObserve: an observation has no shared
// effect.  The recorded execution (picks + observations) is validated by DataPlane_Trace against the ring
// recorded BEFORE any observer ran; the race detector watches the run.

import (
	"bytes"
	"fmt"
	"net/http"
	"net/http/httptest"
	"net/url"
	"os"
	"path/filepath"
	"strings"
	"sync"
	"testing"

	"github.com/fabiolb/fabio/internal/verifx"
	"github.com/fabiolb/fabio/route"
)

func TestVerifC06Observers(t *testing.T) {
	// targets deliberately not in sorted order, with options and tags
	text := strings.Join([]string{
		`route add svc-c obs.com/ http://10.0.0.3:80/ tags "z,a" opts "strip=/x proto=http"`,
		`route add svc-a obs.com/ http://10.0.0.9:80/`,
		`route add svc-b obs.com/ http://10.0.0.2:80/ tags "b"`,
		`route add svc-a obs.com/ http://10.0.0.1:80/`,
		`route add w2 w.com/ http://10.0.1.2:80/ weight 0.3`,
		`route add w1 w.com/ http://10.0.1.1:80/ weight 0.2`,
		`route add w3 w.com/ http://10.0.1.3:80/`,
	}, "\n")
	tbl, err := route.NewTable(bytes.NewBufferString(text))
	if err != nil {
		t.Fatal(err)
	}
	old := route.GetTable()
	route.SetTable(tbl)
	defer route.SetTable(old)
	before := tbl.String()
	pick := func(host string) string {
		req := &http.Request{Host: host, URL: &url.URL{Path: "/"}, Header: http.Header{}}
		tg := route.GetTable().Lookup(req, "", route.Picker["rr"], route.Matcher["prefix"], route.NewGlobCache(4), false)
		if tg == nil {
			return "nil"
		}
		return tg.URL.Host
	}
	// the ring of obs.com as the first whole cycle shows it, before any observer runs (4 equal targets)
	var ring []string
	for i := 0; i < 4; i++ {
		ring = append(ring, pick("obs.com"))
	}
	tr := &verifx.Trace{}
	tr.Add(map[string]any{"ev": "Setup", "ring": ring, "cachesize": 2})
	ops := verifx.EnvInt("VERIF_OPS", 36)
	wcount := map[string]int{}
	var wmu sync.Mutex
	var wg sync.WaitGroup
	start := make(chan struct{})
	for g := 0; g < 6; g++ {
		wg.Add(1)
		go func(g int) {
			defer wg.Done()
			h := &RoutesHandler{}
			<-start
			for i := 0; i < ops; i++ {
				if g < 3 {
					tr.Add(map[string]any{"ev": "Inv", "g": g, "op": "pick", "arg": ""})
					res := pick("obs.com")
					tr.Add(map[string]any{"ev": "Ret", "g": g, "res": res})
					// weighted route: judged by exact counts below
					w := pick("w.com")
					wmu.Lock()
					wcount[w]++
					wmu.Unlock()
					continue
				}
				tr.Add(map[string]any{"ev": "Inv", "g": g, "op": "observe", "arg": ""})
				res := "ok"
				p, _ := verifx.Safely(func() {
					q := "/api/routes"
					if (i+g)%3 == 0 {
						q += "?raw"
					}
					rec := httptest.NewRecorder()
					h.ServeHTTP(rec, httptest.NewRequest("GET", q, nil))
					if rec.Code != 200 || !strings.Contains(rec.Body.String(), "10.0.0.9") {
						res = fmt.Sprintf("listing incomplete (status %d)", rec.Code)
					}
					_ = route.GetTable().String()
				})
				if p != nil {
					res = fmt.Sprintf("panic: %v", p)
				}
				tr.Add(map[string]any{"ev": "Ret", "g": g, "res": res})
			}
		}(g)
	}
	close(start)
	wg.Wait()
	tr.Add(map[string]any{"ev": "Snap", "cursor": 3 * ops, "cache": []string{}})
	if after := route.GetTable().String(); after != before {
		verifx.Fail(map[string]any{"before": before, "after": after}, map[string]any{"sub": "observers", "clause": "table-changed-by-observer"},
			"the active table reads differently after admin API requests:\n%s\n-- before:\n%s", after, before)
	}
	// w.com: 3*ops lookups on a 0.2/0.3/0.5 route; ops is a multiple of the cycle when 3*ops % 10 == 0 -> exact, else within one cycle
	n := 3 * ops
	for host, share := range map[string]int{"10.0.1.1:80": 2, "10.0.1.2:80": 3, "10.0.1.3:80": 5} {
		lo, hi := (n/10)*share, (n/10)*share+share
		if wcount[host] < lo || wcount[host] > hi {
			verifx.Fail(map[string]any{"counts": wcount}, map[string]any{"sub": "observers", "clause": "share"},
				"weighted route under concurrent admin API requests: %s served %d of %d lookups, its share is %d/10 (%v)", host, wcount[host], n, share, wcount)
		}
	}
	path := filepath.Join(os.Getenv("VERIF_TMP"), "c06.observers.ndjson")
	if err := tr.WriteNDJSON(path); err != nil {
		t.Fatal(err)
	}
	verifx.Summary(map[string]any{"events": tr.Len(), "trace": path, "ops": 6 * ops})
}
