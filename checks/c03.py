"""C03 - a request is routed to the most specific matching route.

spec: Match.tla (declarative Winners/Best over normalised hosts and paths) + Match_MC.tla
      (universe of host patterns / paths / request hosts with case and port variants,
      well-definedness invariants, three-phase generator)
TLC : WellDefined + TablesAgree on every table of the bounded universe (the preference is a
      strict total order on the candidates of every well-posed table: exactly one winner);
      generator: one transition per (table, request host, TLS) carrying the prescribed route
      for every request path x {prefix, iprefix, glob} x glob on/off; seeded simulation for
      bigger tables
bind: every generated transition replayed through real route.NewTable + Table.Lookup (real
      GlobCache of sizes 1,2,3,1000, real matchers) and Table.LookupHost
      (harness/route/c03_test.go)"""
import json, os
from lib import vf

CFG = """SPECIFICATION %(spec)s
CONSTANTS
  MaxRoutes = %(n)d
  MaxGone = %(gone)d
  MaxBad = %(bad)d
  ObsSel <- %(obs)s
  MaxObs = %(nobs)d
  PatSel <- %(pats)s
  PathSel <- %(paths)s
  HostSel <- MCAllHosts
%(inv)s
CHECK_DEADLOCK FALSE
"""
INV = "INVARIANTS WellDefined TablesAgree"
INV_WD = "INVARIANTS WellDefined"      # TablesAgree is a per-route / per-host fact: checked where every route and host occurs
WORKERS = 8
FILES = ["route/common_test.go", "route/c03_test.go"]


UNI = {"full": ("MCAllPats", "MCAllPaths"), "core": ("MCCorePats", "MCCorePaths"), "mini": ("MCMiniPats", "MCMiniPaths"),
       "tiny": ("MCTinyPats", "MCTinyPaths"), "two": ("MCTwoPats", "MCTinyPaths")}


def cfg(spec, n, uni="full", inv=False, gone=0, nobs=0, bad=0):
    return CFG % dict(spec=spec, n=n, gone=gone, bad=bad, obs="MCAllObs" if nobs else "MCNoObs", nobs=nobs, pats=UNI[uni][0], paths=UNI[uni][1], inv=(inv if isinstance(inv, str) else INV) if inv else "")


def count_lines(path):
    if not os.path.exists(path):
        return 0
    with open(path, "rb") as fh:
        return sum(1 for _ in fh)


def run_harness(ctx, cases, what, timeout=900):
    r = ctx.gotest("route", FILES, "^TestVerifC03$", timeout=timeout,
                   env={"VERIF_IN": cases, "VERIF_WORKERS": WORKERS, "VERIF_BATCH_EVERY": ctx.pick(1, 4)})
    if not ctx.need_go_ok(r, what):
        return None
    if r.of_kind("error"):
        ctx.inconclusive("%s: harness could not read its input: %s" % (what, r.of_kind("error")[0].get("msg")))
        return None
    return r


def run(ctx):
    ctx.level = "model_checking"
    ctx.assumptions += [
        "universe: 22 host patterns (none, a.io, *.io, *.a.io, b.a.io, *a.io, *, a.io:80, a.io:8080, A.io, a.io:443, *.io:8080, IPv6 literals [::1] [::1]:80 [::1]:8080 [::A], glob constructs {b,c}.a.io ?.a.io [bc].a.io, wildcards with explicit ports *.a.io:80 *.a.io:443 *.a.io:8080) x 8 route paths (/, /x, /x/y, /X/y, /xy, /x*, /x/y*, /*); 21 request hosts (a.io, A.IO, b.a.io, B.a.Io, c.b.a.io, xa.io, q.net, a.io:80, a.io:443, a.io:8080, A.iO:8080, [::1], [::1]:80, [::1]:443, [::1]:8080, [::a], [::A]:80, c.a.io, d.a.io, b.a.io:8080, B.a.io:80) x 7 request paths x TLS/plain x 3 matchers x glob on/off",
        "a pattern that is literally the request host is an exact host whatever characters it contains ([::1] is a host, not a character class); otherwise, with globbing on, the pattern is read in the glob language (* ? [set] {a,b}) and is a wildcard host; among wildcard hosts the longer literal suffix after the last glob construct wins; two matching wildcard patterns with equal suffix length, or a '*' pattern with the longer suffix against a '*'-free pattern, are not ranked by the statement: such (table, request) pairs are generated as 'not posed'",
        "a table in which two different host patterns denote the same host on the connection at hand (a.io / a.io:80 / A.io), or two paths of one host that the matcher cannot tell apart (/X/y and /x/y under iprefix, /x* and /x under glob), is outside the claim (the statement does not rank them); such expectations are generated as 'not posed' and skipped",
        "nested braces, negated classes, ranges and '**' in host patterns and glob paths beyond literal + trailing '*' are outside the universe; path characters sorting below '*' (space ! \" # $ % & ' ( )) are outside the universe",
        "Table.LookupHost (TCP+SNI): only 'a route whose host is literally the server name, path /, serves it' is claimed; fallback to host-less or wildcard routes for SNI lookups is not judged",
        "the table is what a history of route commands leaves: routes that were added and deleted again (one, thorough two, per table; the three forms of `route del`) must neither serve nor shadow; such tables are built by NewTableCustom (command list of the custom back end), every third also by NewTable (text); plain tables alternate between the two builders",
        "requests in flight together: the lines of one table that the generator printed consecutively (all 42 of a random table, fragments of the exhaustive ones) are replayed by 6 goroutines at once on one table with one shared GlobCache; every answer must be the sequential one (the statement quantifies over every request; scheduling is whatever the Go runtime does, so this pass can miss an interleaving - C06 owns the exhaustive treatment)",
        "observers: a table (<=2 routes over {none, a.io} x {/, /x, /x/y}) is installed as the ACTIVE table and read by one (thorough up to four) of Table.String, Table.Dump, GET /api/routes, GET /api/routes?raw before the lookups; the answers after the reads must be those before them (Match_MC!Observe leaves the table unchanged); the web UI page and the metrics side paths are not among the observers",
        "custom registry back end (registry.backend=custom, non-default): the real poll loop fetches an accepted document (<=2 routes over {none, a.io} x {/, /x, /x/y}) and then a refused one (two valid entries, shortest path first, followed by an unknown command / an add without source / an add without destination); the table in force must stay the accepted one; HTTP errors, timeouts and undecodable JSON of the poll are C02's",
        "one target per route (the service name encodes the route), so the picker plays no role here (C04)",
    ]
    # 1. well-definedness of the declarative choice on the model
    mcs = [("mini<=2", cfg("QSpec", 2, "mini", inv=True), 300)]
    if ctx.thorough:
        mcs = [("tiny<=2 +1 deleted", cfg("QSpec", 2, "tiny", inv=True, gone=1), 600),
               ("full<=1", cfg("QSpec", 1, "full", inv=True), 600), ("core<=2", cfg("QSpec", 2, "core", inv=True), 600),
               ("full<=2", cfg("QSpec", 2, "full", inv=INV_WD), 1500), ("mini<=3", cfg("QSpec", 3, "mini", inv=INV_WD), 1500)]
    for name, text, to in mcs:
        # action coverage (same two actions in every configuration) is taken on the smaller runs
        mc = ctx.tlc("Match_MC", cfg_text=text, workers=WORKERS, timeout=to, coverage=ctx.thorough and name != "full<=2")
        ctx.log("MC %s: %d generated, %d distinct, %.0fs" % (name, mc.generated, mc.distinct, mc.wall))
        if not ctx.need_tlc_ok(mc, "Match MC " + name):
            return
        # Retire (route del) is disabled by construction where no deleted routes are allowed
        # and so is the Observe disjunct of QNext (no observers in the MC runs), which TLC reports
        # under the name of the enclosing definition
        zero = [a for a in mc.coverage0 if not (a == "Retire" and "deleted" not in name) and a != "QNext"]
        if ctx.thorough and zero:
            ctx.inconclusive("Match MC %s: actions never taken: %s" % (name, zero))
            return
        ctx.cover("mc " + name, states=mc.distinct, transitions=mc.generated)

    # 2. case generation
    cases = os.path.join(ctx.tmp, "c03.cases")
    # "tiny ... +1 deleted": every table of <=2 routes that a history with one added-and-deleted
    # route leaves (the deleted route must neither serve nor shadow)
    gens = [("core<=2", cfg("Spec", 2, "core"), 600),
            ("tiny<=2 +1 deleted", cfg("Spec", 2, "tiny", gone=1), 600)]
    if ctx.thorough:
        gens = [("full<=2", cfg("Spec", 2, "full"), 1500), ("mini<=3", cfg("Spec", 3, "mini"), 1500),
                ("tiny<=2 +2 deleted", cfg("Spec", 2, "tiny", gone=2), 900), ("mini<=1 +1 deleted", cfg("Spec", 1, "mini", gone=1), 900),
]
    for name, text, to in gens:
        g = ctx.tlc("Match_MC", cfg_text=text, workers=WORKERS, json_sink=cases, timeout=to)
        ctx.log("Gen %s: %d transitions, %d states, %.0fs" % (name, g.generated, g.distinct, g.wall))
        if not ctx.need_tlc_ok(g, "Match Gen " + name):
            return
        ctx.cover("gen " + name, states=g.distinct, transitions=g.generated)
    sims = [(3, ctx.pick(200, 1000))]
    if ctx.thorough:
        sims.append((4, 1000))
        sims.append((6, 300))
    for n, num in sims:
        before = count_lines(cases)
        sim = ctx.tlc("Match_MC", cfg_text=cfg("SimSpec", n, gone=1), simulate=num, depth=n + 5, seed=ctx.seed,
                      json_sink=cases, timeout=ctx.pick(300, 1500))
        made = count_lines(cases) - before
        ctx.log("Sim <=%d routes x %d random tables: %d (table, host, TLS) lines, %.0fs" % (n, num, made, sim.wall))
        if sim.error or sim.violated or sim.timed_out:
            ctx.need_tlc_ok(sim, "Match simulation")
            return
        if made < num:
            ctx.inconclusive("Match simulation produced only %d lines for %d tables" % (made, num))
            return
        ctx.cover("sim %d" % n, transitions=made)

    # 3. replay into the real code
    r = run_harness(ctx, cases, "C03 replay")
    if r is None:
        return
    s = r.summary
    ctx.log("replayed %d transitions = %d lookups + %d LookupHost calls (%d routed, %d unrouted, %d not posed), %d failed, %.0fs"
            % (s["lines"], s["lookups"], s["sni"], s["routed"], s["unrouted"], s["illposed"], s["fails"], r.wall))
    ctx.log("tables with a history (routes added and deleted again), built by NewTableCustom (every third also by NewTable): %d" % s["histories"])
    ctx.log("requests in flight together: %d tables replayed from 6 goroutines each, %d lookups" % (s["concurrent_tables"], s["concurrent_lookups"]))
    if s["lookups"] == 0 or s["routed"] == 0 or s["unrouted"] == 0 or s["histories"] == 0 or s["concurrent_tables"] == 0:
        ctx.inconclusive("C03: vacuous replay (%s)" % json.dumps(s)[:300])
        return
    ctx.cover(traces_validated_against_impl=s["lines"], evaluations=s["lookups"] + s["sni"],
              distinct_nontrivial=s["distinct_nontrivial"], samples=s.get("samples") or [],
              rule="one generator transition per (table, request host, TLS), each holding 7 paths x 3 matchers x glob on/off expected routes; evaluations = single Lookup/LookupHost calls compared; non-trivial = distinct transition with >=2 routes and >=2 different expected outcomes")
    ctx.take_failures(r, "c03")

    # 3b. gRPC leg (synthetic request built by GrpcProxyInterceptor.lookup): plain-connection
    #     transitions, a seed-selected slice in the quick tier
    g = ctx.gotest("proxy", ["proxy/c03_grpc_test.go"], "^TestVerifC03Grpc$",
                   env={"VERIF_IN": cases, "VERIF_GRPC_EVERY": ctx.pick(16, 4)}, timeout=900)
    if not ctx.need_go_ok(g, "C03 gRPC replay"):
        return
    if g.of_kind("error"):
        ctx.inconclusive("C03 gRPC replay: harness could not read its input: %s" % g.of_kind("error")[0].get("msg"))
        return
    gs = g.summary
    ctx.log("gRPC leg: %d transitions = %d lookups (%d routed), %d failed, %.0fs" % (gs["lines"], gs["lookups"], gs["routed"], gs["fails"], g.wall))
    if gs["routed"] == 0:
        ctx.inconclusive("C03 gRPC replay is vacuous")
        return
    ctx.cover("grpc", traces_validated_against_impl=gs["lines"], evaluations=gs["lookups"])
    ctx.take_failures(g, "c03-grpc")

    # 3c/3d. one small generator run (single worker, so that the lines of a table stay together) for the
    #     two legs that install the table as the ACTIVE one: read by an observer (Match_MC!Observe), and
    #     followed by a refused configuration document (Match_MC!RejectDoc)
    ocases = os.path.join(ctx.tmp, "c03.active")
    og = ctx.tlc("Match_MC", cfg_text=cfg("Spec", 2, "two", nobs=ctx.pick(1, 4), bad=2), workers=1, json_sink=ocases, timeout=900)
    ctx.log("Gen two<=2 read by observers / followed by a refused document: %d transitions, %d states, %.0fs" % (og.generated, og.distinct, og.wall))
    if not ctx.need_tlc_ok(og, "Match Gen active table"):
        return
    ctx.cover("gen active", states=og.distinct, transitions=og.generated)
    # 3c. readers of the active table: installed with route.SetTable, read through the real admin API handler
    a = ctx.gotest("admin/api", ["admin/api/c03_test.go"], "^TestVerifC03Admin$", env={"VERIF_IN": ocases}, timeout=900)
    if not ctx.need_go_ok(a, "C03 admin-observer replay"):
        return
    if a.of_kind("error"):
        ctx.inconclusive("C03 admin-observer replay: harness could not read its input: %s" % a.of_kind("error")[0].get("msg"))
        return
    as_ = a.summary
    ctx.log("observers: %d installed tables read %d times (GET /api/routes, ?raw, String, Dump), %d lookups before/after (%d routed), %d failed, %.0fs"
            % (as_["lines"], as_["reads"], as_["lookups"], as_["routed"], as_["fails"], a.wall))
    if as_["reads"] == 0 or as_["routed"] == 0:
        ctx.inconclusive("C03 admin-observer replay is vacuous")
        return
    ctx.cover("admin", traces_validated_against_impl=as_["lines"], evaluations=as_["lookups"])
    ctx.take_failures(a, "c03-admin")
    # 3d. behind the custom registry back end: an accepted document, then a refused one
    cu = ctx.gotest("registry/custom", ["registry/custom/c03_test.go"], "^TestVerifC03Custom$", env={"VERIF_IN": ocases}, timeout=900)
    if not ctx.need_go_ok(cu, "C03 custom back end replay"):
        return
    if cu.of_kind("error"):
        ctx.inconclusive("C03 custom back end replay: %s" % cu.of_kind("error")[0].get("msg"))
        return
    cs = cu.summary
    ctx.log("custom back end: %d polls of the real poll loop (%d refused documents), %d transitions = %d lookups (%d routed), %d failed, %.0fs"
            % (cs["polls"], cs["refused"], cs["lines"], cs["lookups"], cs["routed"], cs["fails"], cu.wall))
    if cs["refused"] == 0 or cs["routed"] == 0:
        ctx.inconclusive("C03 custom back end replay is vacuous")
        return
    ctx.cover("custom", traces_validated_against_impl=cs["lines"], evaluations=cs["lookups"])
    ctx.take_failures(cu, "c03-custom")

    # 4. binding self-test: corrupted expectations must be rejected by the harness
    uni, victim = None, None
    with open(cases) as fh:
        for line in fh:
            c = json.loads(line)
            if "universe" in c:
                uni = c
                continue
            if uni is not None and len(c["t"]) >= 2:
                flat = [w for row in c["w"] for w in row]
                if any(w > 0 for w in flat) and any(w == 0 for w in flat):
                    victim = c
                    break
    if victim is None:
        ctx.inconclusive("no usable case for the binding self-test")
        return
    a, b = json.loads(json.dumps(victim)), json.loads(json.dumps(victim))
    done_a = done_b = False
    for q, row in enumerate(victim["w"]):
        for k, w in enumerate(row):
            if w > 0 and not done_a:
                a["w"][q][k] = 0          # a routed request declared unroutable
                done_a = True
            if w == 0 and not done_b:
                b["w"][q][k] = victim["t"][0]   # an unroutable request declared routed
                done_b = True
    a["sni"] = b["sni"] = -1
    for name, corrupted, clause in (("routed->none", a, "spurious-route"), ("none->routed", b, "no-route")):
        one = os.path.join(ctx.tmp, "c03.selftest")
        vf.write_ndjson(one, [uni, corrupted])
        r2 = run_harness(ctx, one, "C03 self-test " + name)
        if r2 is None:
            return
        fails = r2.of_kind("fail")
        if not [f for f in fails if f.get("features", {}).get("clause") == clause]:
            ctx.inconclusive("binding self-test (%s): the corrupted expectation was NOT rejected as %s (%d fail records)"
                             % (name, clause, len(fails)))
            return


def replay(ctx, rp):
    case = rp["replay"]["case"]
    one = os.path.join(ctx.tmp, "c03.replay")
    vf.write_ndjson(one, [case])
    if rp["replay"].get("sub") == "c03-custom":
        ctx.inconclusive("a custom-back-end violation is re-examined by running the check again (bin/check C03): it depends on the poll history")
        return
    if rp["replay"].get("sub") == "c03-admin":
        r = ctx.gotest("admin/api", ["admin/api/c03_test.go"], "^TestVerifC03Admin$", env={"VERIF_IN": one}, timeout=600)
        if not ctx.need_go_ok(r, "C03 admin-observer replay"):
            return
    elif rp["replay"].get("sub") == "c03-grpc":
        r = ctx.gotest("proxy", ["proxy/c03_grpc_test.go"], "^TestVerifC03Grpc$", env={"VERIF_IN": one}, timeout=600)
        if not ctx.need_go_ok(r, "C03 gRPC replay"):
            return
    else:
        r = run_harness(ctx, one, "C03 replay")
        if r is None:
            return
    ctx.cover(evaluations=1)
    ctx.take_failures(r, rp["replay"].get("sub") or "c03")
