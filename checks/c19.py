"""C19 - configured upstream limits are enforced.

spec: Transport.tla (+ Transport_MC.tla: two configurations with ten distinct values, generators)
TLC : CarriesConfigured / LimitsEnforced over all histories of <=4 (quick) / <=6 (thorough)
      operations SetConfig(c1|c2) / NewTransport(default|insecure) / AddTargetTransport; the named
      deviation SelfAssign must violate them (non-vacuity); one JSON line per complete history,
      one per behaviour case (configuration x previous configuration x kind x delay class)
bind: harness/transport/c19_test.go   histories -> real SetConfig/NewTransport/route.NewTable,
                                      fields + keep-alive (TCP_KEEPIDLE) + dial timeout (full accept queue)
      harness/proxy/c19_test.go       behaviour cases -> real HTTPProxy against a slow upstream
      thorough: the fabio binary built from $VERIF_REPO with -proxy.responseheadertimeout
"""
import json, os, subprocess, time
from lib import vf

CFG = """SPECIFICATION %(spec)s
CONSTANTS
  Configs <- MCConfigs
  DelayClasses <- MCDelays
  Operator <- MCOperator
  MaxOps = %(n)d
  SelfAssign = %(bug)s
  ExtraLimit = "%(extra)s"
  LateSetConfig = %(late)s
  HandlerDeviation = "%(hdev)s"
INVARIANTS %(inv)s
CHECK_DEADLOCK FALSE
"""
LIB_INV = "TypeOK CarriesConfigured LimitsEnforced HandlersTransparent ReuseTransparent BodyNotLimited DialBounded InformationalTransparent NoOtherLimit ConcurrencyBounded IdlePerHostKept"


def cfg(spec, n, bug=False, extra="none", late=False, inv=LIB_INV, hdev="none"):
    return CFG % dict(spec=spec, n=n, bug="TRUE" if bug else "FALSE", extra=extra, late="TRUE" if late else "FALSE", inv=inv, hdev=hdev)


def fields(ctx, path, what):
    r = ctx.gotest("transport", ["transport/c19_test.go"], "^TestVerifC19Fields$", env={"VERIF_IN": path}, timeout=300)
    return r if ctx.need_go_ok(r, what) else None


def behaviour(ctx, path, what, conc=None, exe=None):
    env = {}
    if path:
        env["VERIF_IN"] = path
    if conc:
        env["VERIF_IN_CONC"] = conc
    if exe:
        env["VERIF_FABIO_BIN"] = exe
    r = ctx.gotest("proxy", ["proxy/c19_test.go"], "^TestVerifC19Behaviour$", env=env, timeout=600)
    if not ctx.need_go_ok(r, what):
        return None
    errs = r.of_kind("error")
    if errs:
        ctx.inconclusive("%s: harness error: %s" % (what, errs[0].get("msg")))
        return None
    return r


def build_fabio(ctx):
    """the fabio binary of the tree under test (main()'s wiring is only reachable through it)"""
    gobin, genv = vf.go_tool()
    exe = os.path.join(ctx.tmp, "fabio-c19")
    t0 = time.time()
    try:
        p = subprocess.run([gobin, "build", "-o", exe, "."], cwd=vf.REPO, env=genv, capture_output=True, text=True, timeout=900)
    except subprocess.TimeoutExpired:
        ctx.inconclusive("binary: go build timed out")
        return None
    if p.returncode != 0:
        ctx.inconclusive("binary: fabio does not build:\n%s" % (p.stdout + p.stderr)[-2000:])
        return None
    ctx.log("binary: built in %.0fs" % (time.time() - t0))
    return exe


def run(ctx):
    ctx.level = "model_checking"
    ctx.assumptions += [
        "two configurations with ten pairwise distinct values (dial 400/900 ms, response header 300/450 ms, keep-alive 7/11 s, idle 21/33 s, 3/7 idle connections per host)",
        "a transport built before any SetConfig is not judged (the statement is silent)",
        "time: 504 must arrive within the configured timeout + 1.5 s; the slow upstream needs 10x the timeout, the timely one a tenth; verdicts a stalled machine could cause are tried three times",
        "keep-alive is observed as TCP_KEEPIDLE of a dialled connection, the dial timeout against a listener with a full accept queue (Linux)",
    ]
    n = ctx.pick(4, 5)
    mc = ctx.tlc("Transport_MC", cfg_text=cfg("Spec", n + 1), workers=8, timeout=600, coverage=ctx.thorough)
    ctx.log("MC: %d generated, %d distinct, %.0fs" % (mc.generated, mc.distinct, mc.wall))
    if not ctx.need_tlc_ok(mc, "Transport MC"):
        return
    if ctx.thorough and mc.coverage0:
        ctx.inconclusive("Transport MC: actions never taken: %s" % mc.coverage0)
        return
    ctx.cover("mc", states=mc.distinct, transitions=mc.generated)
    # the start-up order of main()
    mm = ctx.tlc("Transport_MC", cfg_text=cfg("MainSpec", 0, inv="MainCarries MainServes"), workers=1, timeout=300)
    if not ctx.need_tlc_ok(mm, "Transport Main"):
        return
    ctx.cover("main", states=mm.distinct, transitions=mm.generated)
    # non-vacuity: every named deviation violates the property it is about
    deviations = (("SelfAssign", dict(bug=True), "Spec", "CarriesConfigured"),
                                ("ExtraLimit=maxidletotal", dict(extra="maxidletotal"), "Spec", "IdlePerHostKept"),
                                ("ExtraLimit=maxconns", dict(extra="maxconns"), "Spec", "ConcurrencyBounded"),
                                ("HandlerDeviation=gzipdelay", dict(hdev="gzipdelay"), "Spec", "HandlersTransparent"),
                                ("HandlerDeviation=expectwait", dict(hdev="expectwait"), "Spec", "HandlersTransparent"),
                                ("HandlerDeviation=retryreused", dict(hdev="retryreused"), "Spec", "ReuseTransparent"),
                                ("HandlerDeviation=bodydeadline", dict(hdev="bodydeadline"), "Spec", "BodyNotLimited"),
                                ("HandlerDeviation=wraperror", dict(hdev="wraperror"), "Spec", "HandlersTransparent"),
                                ("HandlerDeviation=redial", dict(hdev="redial"), "Spec", "DialBounded"),
                                ("HandlerDeviation=firststatus", dict(hdev="firststatus"), "Spec", "InformationalTransparent"),
                                ("LateSetConfig", dict(late=True), "MainSpec", "MainCarries"))
    if not ctx.thorough:    # quick: three of them, rotating with the seed (each costs a JVM start)
        deviations = tuple(deviations[(ctx.seed + i) % len(deviations)] for i in (0, 4, 8))
    for name, kw, spec, inv in deviations:
        r = ctx.tlc("Transport_MC", cfg_text=cfg(spec, 3, inv=inv, **kw), workers=1, timeout=300)
        if r.violated != inv:
            ctx.inconclusive("non-vacuity: the deviation %s should violate %s on the model but TLC reports %r %s"
                             % (name, inv, r.violated, (r.error or "")[:300]))
            return

    hist = os.path.join(ctx.tmp, "c19.hist")
    g = ctx.tlc("Transport_MC", cfg_text=cfg("GenSpec", n), workers=8, json_sink=hist, timeout=600)
    if not ctx.need_tlc_ok(g, "Transport Gen"):
        return
    ctx.cover("gen", states=g.distinct, transitions=g.generated)
    beh = os.path.join(ctx.tmp, "c19.beh")
    b = ctx.tlc("Transport_MC", cfg_text=cfg("BehSpec", 1), workers=1, json_sink=beh, timeout=300)
    if not ctx.need_tlc_ok(b, "Transport Beh"):
        return
    conc = os.path.join(ctx.tmp, "c19.conc")
    b2 = ctx.tlc("Transport_MC", cfg_text=cfg("Beh2Spec", 1), workers=1, json_sink=conc, timeout=300)
    if not ctx.need_tlc_ok(b2, "Transport Beh2"):
        return

    # S->C: fields
    r = fields(ctx, hist, "C19 fields")
    if r is None:
        return
    s = r.summary
    ctx.log("fields: %d histories, %d transports built, %d compared, keep-alive observed on %d, dial timeout on %d transports (%s), "
            "%d with limits the documentation is silent about; %d failed, %.0fs"
            % (s["cases"], s["builds"], s["compared"], s["keepalive_observed"], s["dial_transports"],
               "evaluated" if s["dial_evaluated"] else "NOT evaluated", s.get("undocumented_limits", 0), s["fails"], r.wall))
    ctx.take_failures(r, "fields")
    if s.get("dial_unstable"):
        ctx.inconclusive("dial timeout: the test process kept stalling while the dials were measured (%s)"
                         % [n.get("msg") for n in r.of_kind("note")][:3])
    if not s["dial_evaluated"] or not s["keepalive_observed"]:
        ctx.inconclusive("dial timeout / keep-alive could not be observed in this environment (accept queue cannot be saturated or TCP_KEEPIDLE unreadable)")
    ctx.cover(traces_validated_against_impl=s["cases"], evaluations=s["compared"], distinct_nontrivial=s["distinct_nontrivial"],
              samples=(s.get("samples") or [])[:2])

    # S->C: behaviour (single requests, concurrent requests, idle reuse) and main()'s wiring (the binary)
    exe = build_fabio(ctx)
    if exe is None:
        return
    r2 = behaviour(ctx, beh, "C19 behaviour", conc=conc, exe=exe)
    if r2 is None:
        return
    s2 = r2.summary
    ctx.log("behaviour: %d cases incl. handlers x request kinds, %d requests (%d retries; waves: %d judged with 0.5 s slack, %d with 1.5 s, %d void); concurrent/reuse: %d cases (%d runs, %d void); binary: %d requests over the 3 routes of the first table; %d failed, %.0fs"
            % (s2["cases"], s2["ran"], s2["retried"], s2["waves_tight"], s2["waves_wide"], s2["waves_void"], s2["conc_cases"], s2["conc_ran"], s2["conc_voided"], s2.get("binary_ran", 0),
               s2["fails"], r2.wall))
    ctx.take_failures(r2, "behaviour")
    if s2.get("unstable") or s2.get("conc_unstable") or s2.get("binary_unstable"):
        ctx.inconclusive("behaviour: the test process kept stalling while the requests were measured (%s)"
                         % [n.get("msg") for n in r2.of_kind("note")][:3])
    if s2.get("dial_skipped"):
        ctx.inconclusive("behaviour: the accept queue of a listener could not be saturated here: the dial timeout was not exercised through the proxy")
    if not s2.get("binary_ran"):
        ctx.inconclusive("binary: the built fabio was not exercised")
    ctx.cover(traces_validated_against_impl=s2["cases"] + s2["conc_cases"] + (1 if s2.get("binary_ran") else 0),
              evaluations=s2["ran"] + s2["conc_ran"] + s2.get("binary_ran", 0),
              distinct_nontrivial=s2["distinct_nontrivial"] + s2["conc_nontrivial"],
              samples=(s2.get("samples") or [])[:1] + (s2.get("conc_samples") or [])[:1],
              rule="one case per complete history of SetConfig/NewTransport/AddTargetTransport TLC enumerated, plus one per behaviour "
                   "case (configuration x previous configuration x kind x delay class), per concurrency case (k = 1, maxconn, maxconn+1, "
                   "10 maxconn) and per idle-reuse case (bursts A, B, A); non-trivial = histories of >=3 operations with a "
                   "SetConfig, behaviour cases with a delayed upstream, bursts of more than one request")

    # binding self-tests: a corrupted expectation must be rejected by each harness
    with open(hist) as fh:
        first = None
        for line in fh:
            c = json.loads(line)
            if c["hist"][0]["op"] == "set" and c["hist"][-1]["op"] == "new":
                first = c
                break
    with open(beh) as fh:
        bfirst = None
        for line in fh:
            c = json.loads(line)
            if c["class"] == "below" and c["kind"] == "default":
                bfirst = c
                break
    if first is None or bfirst is None:
        ctx.inconclusive("no usable case for the binding self-test")
        return
    first["hist"][-1]["c"]["idle"] += 1000
    one = os.path.join(ctx.tmp, "c19.self1")
    vf.write_ndjson(one, [first])
    t1 = fields(ctx, one, "C19 fields self-test")
    if t1 is None:
        return
    if not t1.of_kind("fail"):
        ctx.inconclusive("binding self-test: a corrupted expected idle timeout was NOT rejected by the harness")
    bfirst["out"]["status"] = 504
    two = os.path.join(ctx.tmp, "c19.self2")
    vf.write_ndjson(two, [bfirst])
    t2 = behaviour(ctx, two, "C19 behaviour self-test")
    if t2 is None:
        return
    if not t2.of_kind("fail"):
        ctx.inconclusive("binding self-test: a corrupted expected status was NOT rejected by the harness")



def replay(ctx, rp):
    sub = (rp.get("replay") or {}).get("sub")
    case = (rp.get("replay") or {}).get("case")
    feats = rp.get("features") or {}
    if feats.get("sub") == "binary":
        exe = build_fabio(ctx)
        if exe:
            r = behaviour(ctx, None, "C19 replay", exe=exe)
            if r is not None:
                ctx.cover(evaluations=1)
                ctx.take_failures(r, "behaviour")
        return
    if feats.get("sub") in ("concurrent", "reuse"):
        one = os.path.join(ctx.tmp, "c19.replay")
        vf.write_ndjson(one, [case])
        r = behaviour(ctx, None, "C19 replay", conc=one)
        if r is not None:
            ctx.cover(evaluations=1)
            ctx.take_failures(r, "behaviour")
        return
    one = os.path.join(ctx.tmp, "c19.replay")
    vf.write_ndjson(one, [case])
    r = fields(ctx, one, "C19 replay") if sub == "fields" else behaviour(ctx, one, "C19 replay")
    if r is None:
        return
    ctx.cover(evaluations=1)
    ctx.take_failures(r, sub)
