"""C19 - configured upstream limits are enforced.

spec: Transport.tla (+ Transport_MC.tla: two configurations with ten distinct values, generators)
TLC : CarriesConfigured / LimitsEnforced over all histories of <=4 (quick) / <=6 (thorough)
      operations SetConfig(c1|c2) / NewTransport(default|insecure) / AddTargetTransport; the named
      deviation SelfAssign must violate them (non-vacuity); one JSON line per complete history,
      one per behaviour case (configuration x previous configuration x kind x delay class)
bind: harness/transport/c19_test.go   histories -> real SetConfig/NewTransport/route.NewTable,
                                      fields + keep-alive (TCP_KEEPIDLE) + dial timeout (full accept queue)
      harness/proxy/c19_test.go       behaviour cases -> real HTTPProxy against a slow upstream
      thorough: the fabio binary built from $VERIF_REPO with -proxy.responseheadertimeout
"""
import json, os, socket, subprocess, threading, time, http.server, urllib.request, urllib.error
from lib import vf

CFG = """SPECIFICATION %(spec)s
CONSTANTS
  Configs <- MCConfigs
  DelayClasses <- MCDelays
  MaxOps = %(n)d
  SelfAssign = %(bug)s
INVARIANTS TypeOK CarriesConfigured LimitsEnforced
CHECK_DEADLOCK FALSE
"""


def cfg(spec, n, bug=False):
    return CFG % dict(spec=spec, n=n, bug="TRUE" if bug else "FALSE")


def fields(ctx, path, what):
    r = ctx.gotest("transport", ["transport/c19_test.go"], "^TestVerifC19Fields$", env={"VERIF_IN": path}, timeout=300)
    return r if ctx.need_go_ok(r, what) else None


def behaviour(ctx, path, what):
    r = ctx.gotest("proxy", ["proxy/c19_test.go"], "^TestVerifC19Behaviour$", env={"VERIF_IN": path}, timeout=300)
    return r if ctx.need_go_ok(r, what) else None


def run(ctx):
    ctx.level = "model_checking"
    ctx.assumptions += [
        "two configurations with ten pairwise distinct values (dial 400/900 ms, response header 300/450 ms, keep-alive 7/11 s, idle 21/33 s, 3/7 idle connections per host)",
        "a transport built before any SetConfig is not judged (the statement is silent)",
        "time: 504 must arrive within the configured timeout + 1.5 s; the slow upstream needs 10x the timeout, the timely one a tenth; verdicts a stalled machine could cause are tried three times",
        "keep-alive is observed as TCP_KEEPIDLE of a dialled connection, the dial timeout against a listener with a full accept queue (Linux)",
    ]
    n = ctx.pick(4, 6)
    mc = ctx.tlc("Transport_MC", cfg_text=cfg("Spec", n + 1), workers=8, timeout=600, coverage=ctx.thorough)
    ctx.log("MC: %d generated, %d distinct, %.0fs" % (mc.generated, mc.distinct, mc.wall))
    if not ctx.need_tlc_ok(mc, "Transport MC"):
        return
    if ctx.thorough and mc.coverage0:
        ctx.inconclusive("Transport MC: actions never taken: %s" % mc.coverage0)
        return
    ctx.cover("mc", states=mc.distinct, transitions=mc.generated)
    bug = ctx.tlc("Transport_MC", cfg_text=cfg("Spec", 3, bug=True), workers=2, timeout=300)
    if bug.violated not in ("CarriesConfigured", "LimitsEnforced"):
        ctx.inconclusive("non-vacuity: the deviation SelfAssign should violate CarriesConfigured on the model but TLC reports %r %s"
                         % (bug.violated, (bug.error or "")[:300]))
        return

    hist = os.path.join(ctx.tmp, "c19.hist")
    g = ctx.tlc("Transport_MC", cfg_text=cfg("GenSpec", n), workers=8, json_sink=hist, timeout=600)
    if not ctx.need_tlc_ok(g, "Transport Gen"):
        return
    ctx.cover("gen", states=g.distinct, transitions=g.generated)
    beh = os.path.join(ctx.tmp, "c19.beh")
    b = ctx.tlc("Transport_MC", cfg_text=cfg("BehSpec", 1), workers=1, json_sink=beh, timeout=300)
    if not ctx.need_tlc_ok(b, "Transport Beh"):
        return

    # S->C: fields
    r = fields(ctx, hist, "C19 fields")
    if r is None:
        return
    s = r.summary
    ctx.log("fields: %d histories, %d transports built, %d compared, keep-alive observed on %d, dial timeout on %d transports (%s); %d failed, %.0fs"
            % (s["cases"], s["builds"], s["compared"], s["keepalive_observed"], s["dial_transports"],
               "evaluated" if s["dial_evaluated"] else "NOT evaluated", s["fails"], r.wall))
    ctx.take_failures(r, "fields")
    if s.get("dial_unstable"):
        ctx.inconclusive("dial timeout: the test process kept stalling while the dials were measured (%s)"
                         % [n.get("msg") for n in r.of_kind("note")][:3])
    if not s["dial_evaluated"] or not s["keepalive_observed"]:
        ctx.inconclusive("dial timeout / keep-alive could not be observed in this environment (accept queue cannot be saturated or TCP_KEEPIDLE unreadable)")
    ctx.cover(traces_validated_against_impl=s["cases"], evaluations=s["compared"], distinct_nontrivial=s["distinct_nontrivial"],
              samples=(s.get("samples") or [])[:2])

    # S->C: behaviour
    r2 = behaviour(ctx, beh, "C19 behaviour")
    if r2 is None:
        return
    s2 = r2.summary
    ctx.log("behaviour: %d cases, %d requests (%d retries); %d failed, %.0fs" % (s2["cases"], s2["ran"], s2["retried"], s2["fails"], r2.wall))
    ctx.take_failures(r2, "behaviour")
    if s2.get("unstable"):
        ctx.inconclusive("behaviour: the test process kept stalling while the requests were measured (%s)"
                         % [n.get("msg") for n in r2.of_kind("note")][:3])
    ctx.cover(traces_validated_against_impl=s2["cases"], evaluations=s2["ran"], distinct_nontrivial=s2["distinct_nontrivial"],
              samples=(s2.get("samples") or [])[:2],
              rule="one case per complete history of SetConfig/NewTransport/AddTargetTransport TLC enumerated, plus one per behaviour "
                   "case (configuration x previous configuration x kind x delay class); non-trivial = histories of >=3 operations with a "
                   "SetConfig, behaviour cases with a delayed upstream")

    # binding self-tests: a corrupted expectation must be rejected by each harness
    with open(hist) as fh:
        first = None
        for line in fh:
            c = json.loads(line)
            if c["hist"][0]["op"] == "set" and c["hist"][-1]["op"] == "new":
                first = c
                break
    with open(beh) as fh:
        bfirst = None
        for line in fh:
            c = json.loads(line)
            if c["class"] == "below" and c["kind"] == "default":
                bfirst = c
                break
    if first is None or bfirst is None:
        ctx.inconclusive("no usable case for the binding self-test")
        return
    first["hist"][-1]["c"]["idle"] += 1000
    one = os.path.join(ctx.tmp, "c19.self1")
    vf.write_ndjson(one, [first])
    t1 = fields(ctx, one, "C19 fields self-test")
    if t1 is None:
        return
    if not t1.of_kind("fail"):
        ctx.inconclusive("binding self-test: a corrupted expected idle timeout was NOT rejected by the harness")
    bfirst["out"]["status"] = 504
    two = os.path.join(ctx.tmp, "c19.self2")
    vf.write_ndjson(two, [bfirst])
    t2 = behaviour(ctx, two, "C19 behaviour self-test")
    if t2 is None:
        return
    if not t2.of_kind("fail"):
        ctx.inconclusive("binding self-test: a corrupted expected status was NOT rejected by the harness")

    if ctx.thorough:
        binary(ctx)


# --------------------------------------------------------------------------- the real binary
def free_port():
    s = socket.socket()
    s.bind(("127.0.0.1", 0))
    p = s.getsockname()[1]
    s.close()
    return p


class Slow(http.server.BaseHTTPRequestHandler):
    protocol_version = "HTTP/1.1"

    def do_GET(self):
        d = 0
        if "d=" in self.path:
            try:
                d = int(self.path.split("d=")[1].split("&")[0])
            except ValueError:
                d = 0
        time.sleep(d / 1000.0)
        try:
            self.send_response(200)
            self.send_header("Content-Length", "2")
            self.end_headers()
            self.wfile.write(b"ok")
        except Exception:
            pass

    def log_message(self, *a):
        pass


def get(url, timeout):
    t0 = time.time()
    try:
        with urllib.request.urlopen(url, timeout=timeout) as resp:
            resp.read()
            return resp.status, time.time() - t0, None
    except urllib.error.HTTPError as e:
        return e.code, time.time() - t0, None
    except Exception as e:
        return None, time.time() - t0, e


def binary(ctx):
    """main's wiring: fabio built from the tree, -proxy.responseheadertimeout 300ms, static registry."""
    gobin, genv = vf.go_tool()
    exe = os.path.join(ctx.tmp, "fabio-c19")
    t0 = time.time()
    try:
        p = subprocess.run([gobin, "build", "-o", exe, "."], cwd=vf.REPO, env=genv, capture_output=True, text=True, timeout=600)
    except subprocess.TimeoutExpired:
        ctx.inconclusive("binary: go build timed out")
        return
    if p.returncode != 0:
        ctx.inconclusive("binary: fabio does not build:\n%s" % (p.stdout + p.stderr)[-2000:])
        return
    ctx.log("binary: built in %.0fs" % (time.time() - t0))
    up = http.server.ThreadingHTTPServer(("127.0.0.1", 0), Slow)
    up.daemon_threads = True
    threading.Thread(target=up.serve_forever, daemon=True).start()
    uport = up.server_address[1]
    T = 0.3
    proc = None
    log = os.path.join(ctx.tmp, "fabio-c19.log")
    try:
        for attempt in range(3):
            pport, aport = free_port(), free_port()
            args = [exe, "-proxy.addr", "127.0.0.1:%d" % pport, "-ui.addr", "127.0.0.1:%d" % aport,
                    "-registry.backend", "static",
                    "-registry.static.routes", "route add svc / http://127.0.0.1:%d/" % uport,
                    "-proxy.responseheadertimeout", "300ms", "-proxy.dialtimeout", "2s",
                    "-metrics.target", "", "-log.level", "WARN"]
            proc = subprocess.Popen(args, stdout=open(log, "w"), stderr=subprocess.STDOUT, cwd=ctx.tmp)
            ready = False
            deadline = time.time() + 30
            while time.time() < deadline and proc.poll() is None:
                st, _, _ = get("http://127.0.0.1:%d/?d=0" % pport, 2)
                if st == 200:
                    ready = True
                    break
                time.sleep(0.1)
            if ready:
                break
            proc.kill()
            proc.wait()
            proc = None
        if proc is None:
            ctx.inconclusive("binary: fabio did not start serving the static route:\n%s" % open(log).read()[-1500:])
            return
        url = "http://127.0.0.1:%d/" % pport
        n = 0
        for d, want in ((0, 200), (30, 200), (3000, 504), (30, 200), (3000, 504)):
            verdict = None
            strikes = 0
            for _ in range(3):
                st, el, err = get(url + "?d=%d" % d, T + 1.5 + d / 4000.0 + 2)
                n += 1
                if want == 504 and st != 504:
                    verdict = ("not-cut-off", "status %s after %.2fs (err %s); upstream needs %d ms, -proxy.responseheadertimeout 300ms: want 504 within %.1fs" % (st, el, err, d, T + 1.5))
                    strikes += 1
                    if strikes >= 2:
                        break
                    continue
                if want == 504 and el > T + 1.5:
                    verdict = ("late", "504 after %.2fs, want within %.1fs" % (el, T + 1.5))
                    continue
                if want == 200 and st != 200:
                    verdict = ("timely-upstream-not-served", "status %s after %.2fs (err %s); upstream answers after %d ms" % (st, el, err, d))
                    continue
                verdict = None
                break
            if verdict:
                ctx.violation({"sub": "binary", "clause": verdict[0]}, "binary: fabio -proxy.responseheadertimeout 300ms: " + verdict[1],
                              replay={"sub": "binary", "case": {"delay": d, "want": want}})
        ctx.cover("binary", evaluations=n, traces_validated_against_impl=1)
        ctx.log("binary: %d requests through the built fabio" % n)
    finally:
        if proc is not None:
            proc.terminate()
            try:
                proc.wait(10)
            except subprocess.TimeoutExpired:
                proc.kill()
        up.shutdown()
        up.server_close()


def replay(ctx, rp):
    sub = (rp.get("replay") or {}).get("sub")
    case = (rp.get("replay") or {}).get("case")
    if sub == "binary":
        binary(ctx)
        return
    one = os.path.join(ctx.tmp, "c19.replay")
    vf.write_ndjson(one, [case])
    r = fields(ctx, one, "C19 replay") if sub == "fields" else behaviour(ctx, one, "C19 replay")
    if r is None:
        return
    ctx.cover(evaluations=1)
    ctx.take_failures(r, sub)
