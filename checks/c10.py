"""C10 - SNI extraction agrees with the TLS stack; no panic.

spec: ClientHello.tla (the extractor as a state machine, one action per length check, in the two
      stages of the SNI proxy) + ClientHello_MC.tla (structured messages, serialiser, corruption
      operators, client configuration universe, case generator)
TLC : SizeBound, WellFormedAccepted (serialise-then-extract = first host_name), PrefixRejected,
      InBounds on every case; prints every case with bytes, outcome class and parser path
bind: harness/proxy/tcp/c10_test.go feeds the bytes to the real clientHelloBufferSize /
      readServerName under recover; referee = a real crypto/tls server on the same bytes; plus real
      hellos of crypto/tls clients configured from the model, all prefixes, seeded corruptions"""
import json, os, re
from lib import vf

CFG = """SPECIFICATION Spec
CONSTANTS
  Cases <- MCCases
  Level = %d
INVARIANTS SizeBound WellFormedAccepted PrefixRejected InBounds GenOut CfgOut
"""
ACTIONS = ["Need9", "RecType", "RecLen", "HsType", "HsLen", "ReadFull", "Fixed", "Sid", "CsLen", "CmLen", "ExtOpt",
           "ExtLen", "ExtHdr", "SnList", "SnEntry"]


def harness(ctx, cases, cfgs, what, ncorrupt=0, timeout=800):
    env = {"VERIF_NCORRUPT": ncorrupt}
    if cases:
        env["VERIF_IN"] = cases
    if cfgs:
        env["VERIF_CFG"] = cfgs
    r = ctx.gotest("proxy/tcp", ["proxy/tcp/c10_test.go"], "^TestVerifC10$", env=env, timeout=timeout)
    if crashed(ctx, r, "extractor"):
        return None
    return r if ctx.need_go_ok(r, what) else None


def glue(ctx, cases, what, only=False, timeout=600):
    env = {"VERIF_IN": cases}
    if only:
        env["VERIF_GLUE_ONLY"] = "1"
    r = ctx.gotest("proxy/tcp", ["proxy/tcp/c10_test.go", "proxy/tcp/c10glue_test.go"], "^TestVerifC10Glue$", env=env, timeout=timeout)
    if crashed(ctx, r, "glue"):
        return None
    return r if ctx.need_go_ok(r, what) else None


def crashed(ctx, g, sub):
    """a panic in the code under test that kills the test process is a verdict ('never panics'), not a broken harness"""
    if g.summary is None and not g.build_failed and not g.timed_out and ("panic:" in g.out or "fatal error:" in g.out):
        i = max(g.out.find("panic:"), 0)
        ctx.violation({"part": sub, "clause": "crash"}, "the process crashed:\n" + g.out[i:i + 3000], replay={"sub": sub + "-crash", "case": None})
        return True
    return False


def glue_reject(ctx, cases, what, timeout=600):
    r = ctx.gotest("proxy/tcp", ["proxy/tcp/c10_test.go", "proxy/tcp/c10glue_test.go"], "^TestVerifC10GlueReject$", env={"VERIF_IN": cases}, timeout=timeout)
    if crashed(ctx, r, "glue-reject"):
        return None
    return r if ctx.need_go_ok(r, what) else None


def wire(ctx, cases, what, timeout=600):
    r = ctx.gotest(".", ["main/c10wire_test.go"], "^TestVerifC10Wire$", env={"VERIF_IN": cases}, timeout=timeout)
    return r if ctx.need_go_ok(r, what) else None


def take(ctx, r, sub):
    ctx.take_failures(r, sub)
    for e in r.of_kind("modelbug")[:3]:
        ctx.inconclusive("%s: the specification disagrees with crypto/tls (suspect the check): %s" % (sub, e.get("msg")))
    for e in r.of_kind("error")[:3]:
        ctx.inconclusive("%s: harness error: %s" % (sub, e.get("msg")))


def run(ctx):
    ctx.level = "exploration"
    ctx.assumptions += [
        "byte-level fidelity is judged against crypto/tls (the referee the statement names); the specification contributes the branch structure: "
        "every length check of the extractor is an action, TLC enumerates the structured messages x corruptions and prints bytes, outcome class and parser path",
        "structured universe: session id 0/32, 1-3 cipher suites, extension lists over server_name (1-2 entries, host_name first or second), ALPN, supported_versions, "
        "supported_groups, signature_algorithms, key_share 32/1216 bytes, session_ticket, padding, GREASE; corruptions: every length field := 0, len-1, len+1, all-ones "
        "(thorough: also pairs), record/handshake type flips, every proper prefix, cuts with self-consistent outer lengths, 9-byte header combinations",
        "verdict rules: no panic; buffer size <= 5 + record length; whenever crypto/tls accepts the bytes fabio accepts them with the same name; well-formed => first host_name; "
        "a length that overruns its container => rejected.  Grammar violations without overrun (odd cipher list, trailing bytes, wrong type) are counted, not judged",
        "crypto/tls accepts two things the grammar forbids: plaintext records longer than 2^14 and session ids longer than 32 bytes; such input is malformed and fabio may reject it (not judged)",
        "non-termination: every extraction runs under a watchdog (5 s, tried twice, for a pure function of < 20 KB input); not returning is a violation of 'it is rejected instead'",
        "glue: SNIProxy.ServeTCP is driven over loopback with well-formed hellos (the specification's and real ones up to ~16 KB) in 1-3 segments; pauses between segments are a hint only, judged are the lookup name and the bytes the upstream receives",
        "routing: the specification's table has routes for example.com and a.example; server names that differ from a routed host by a control character, a line break, a non-UTF-8 byte "
        "or a tail of DEL bytes have no route, one that differs by letter case has; checked on lookupHostFn / lookupHostMatcher of package main and through tcp.Server + SNIProxy wired with them",
        "sessions (Sessions.tla, shared with C09): up to three connections with small and large hellos through one SNIProxy instance; every connection is routed by the name in its own hello, as soon as that hello is complete",
        "log.level (TRACE, DEBUG, INFO, WARN, installed like main does) is a dimension of the glue runs with malformed input; a crash of the test process inside the code under test is a violation",
        "at the glue every input in which a length overruns its container must not be routed (no lookup, no upstream connection), whatever the extractor's partial results",
        "hellos spanning several TLS records are outside the statement ('never exceeds the first TLS record') and not judged; only Go's TLS client generates real hellos",
    ]
    from checks import c09
    sfuts = c09.sessions_start(ctx, "c10")
    sink = os.path.join(ctx.tmp, "c10.gen")
    mc = c09.tlc_now(ctx, "ClientHello_MC", cfg_text=CFG % ctx.pick(1, 2), workers=6, json_sink=sink, timeout=ctx.pick(240, 900),
                 coverage=ctx.thorough)
    ctx.log("ClientHello: %d generated, %d distinct, %.0fs" % (mc.generated, mc.distinct, mc.wall))
    if not ctx.need_tlc_ok(mc, "ClientHello"):
        return
    ctx.cover("mc", states=mc.distinct, transitions=mc.generated, exhaustive=True)
    if ctx.thorough:
        seen = set(re.findall(r"<(\w+) line[^>]*>: \d+:\d+", mc.out))
        never = [a for a in ACTIONS if a in mc.coverage0 or a not in seen]
        if never:
            ctx.inconclusive("ClientHello: action(s) never taken: %s" % ", ".join(never))
            return
    cases, cfgs = [], None
    with open(sink) as fh:
        for line in fh:
            o = json.loads(line)
            if "configs" in o:
                cfgs = o["configs"]
            else:
                cases.append(o)
    if not cases or not cfgs:
        ctx.inconclusive("ClientHello generator printed no cases / no client configurations")
        return
    cfgs.sort(key=lambda c: json.dumps(c, sort_keys=True))
    if not ctx.thorough:
        cfgs = [c for c in cfgs if int(vf.stable_hash([c, ctx.seed]), 16) % 2 == 0]      # a seeded half
    fcases, fcfgs = os.path.join(ctx.tmp, "c10.cases"), os.path.join(ctx.tmp, "c10.cfgs")
    vf.write_ndjson(fcases, cases)
    with open(fcfgs, "w") as fh:
        json.dump(cfgs, fh)
    classes = {}
    for c in cases:
        k = c["class"] + ("!" if c["must"] else "")
        classes[k] = classes.get(k, 0) + 1
    ctx.log("%d model cases (%s), %d client configurations" % (len(cases), ", ".join("%s=%d" % kv for kv in sorted(classes.items())), len(cfgs)))

    r = harness(ctx, fcases, fcfgs, "C10 conformance", ncorrupt=ctx.pick(600, 2000), timeout=ctx.pick(300, 840))
    if r is None:
        return
    s = r.summary
    ctx.log("model cases %d over %d parser paths; %d real hellos (longest %d bytes); %d inputs evaluated, crypto/tls accepted %d, fabio %d; "
            "grammar-only violations: fabio agrees with the strict reading on %d of %d (lenient on %d); not judged: %d fragmented, %d malformed but taken by crypto/tls; %d failed, %.0fs"
            % (s["model_cases"], s["paths"], s["hellos"], s["max_hello"], s["evaluations"], s["tls_accepts"], s["fabio_accepts"],
               s["strict_agree"], s["strict_total"], s["lenient"], s["fragmented_not_judged"], s["tls_lenient_not_judged"], s["fails"], r.wall))
    for n in r.of_kind("note")[:5]:
        ctx.log("note:", n.get("msg"))
    if s["hellos"] < len(cfgs) * 0.9:
        ctx.inconclusive("only %d of %d client configurations produced a hello" % (s["hellos"], len(cfgs)))
    ctx.cover("impl", traces_validated_against_impl=s["model_cases"] + s["hellos"], evaluations=s["evaluations"],
              distinct_nontrivial=s["paths"] + s["hellos"], samples=s.get("samples") or [],
              rule="one case per (structured message, corruption) TLC enumerated + one per captured real hello; evaluations = byte strings given to the real extractor "
                   "(cases, hellos, every prefix, seeded corruptions); non-trivial = distinct parser paths of the specification + distinct real hellos")
    take(ctx, r, "c10")

    # the glue: SNIProxy.ServeTCP over loopback, hellos in 1-3 segments and up to one full record
    wfn = [c for c in cases if c["wf"] and c["wfname"]]
    fglue = os.path.join(ctx.tmp, "c10.glue")
    vf.write_ndjson(fglue, wfn)
    rg = glue(ctx, fglue, "C10 glue")
    if rg is None:
        return
    g = rg.summary
    ctx.log("glue: %d hellos (%d larger than 4096 bytes, %d spread over several records: not judged) offered to SNIProxy.ServeTCP in 1-3 segments: %d connections, %d failed, %d without verdict, %.0fs"
            % (g["hellos"], g["over4096"], g["fragmented_not_judged"], g["ran"], g["fails"], g["hangs"], rg.wall))
    ctx.cover("glue", traces_validated_against_impl=g["ran"] - g["hangs"], evaluations=g["evaluations"])
    if g["over4096"] < 3 or g["ran"] < 100:
        ctx.inconclusive("glue: too few hellos were offered (%d connections, %d hellos over 4096 bytes)" % (g["ran"], g["over4096"]))
    for h in rg.of_kind("hang")[:3]:
        ctx.inconclusive("glue: no verdict: %s" % h.get("msg"))
    take(ctx, rg, "c10")

    # the same proxy with the inputs that must be rejected, under every log level fabio can be configured with
    must = [c for c in cases if c.get("mustnotroute") and len(c["bytes"]) < 6000]
    fr = os.path.join(ctx.tmp, "c10.gluereject")
    vf.write_ndjson(fr, must)
    rr = glue_reject(ctx, fr, "C10 glue (rejects)")
    if rr is None:
        return
    ctx.log("glue: %d inputs with a length that overruns its container offered to SNIProxy.ServeTCP under log levels %s: none may be routed; %d failed, %d without verdict"
            % (rr.summary["ran"], "/".join(sorted(rr.summary["levels"])), rr.summary["fails"], rr.summary["hangs"]))
    ctx.cover("glue_reject", traces_validated_against_impl=rr.summary["ran"], evaluations=rr.summary["ran"])
    for h in rr.of_kind("hang")[:3]:
        ctx.inconclusive("glue (rejects): no verdict: %s" % h.get("msg"))
    take(ctx, rr, "c10")

    # the wiring in package main: lookupHostFn / lookupHostMatcher in front of the real routing table and SNIProxy
    fw = os.path.join(ctx.tmp, "c10.wire")
    small = [c for c in wfn if len(c["bytes"]) < 2000]
    vf.write_ndjson(fw, small)
    rw = wire(ctx, fw, "C10 wiring")
    if rw is None:
        return
    w = rw.summary
    ctx.log("wiring (package main): %d well-formed hellos looked up, matched and sent through lookupHostFn + SNIProxy: %d routed by their name, %d without a route, %d failed"
            % (w["cases"], w["routed"], w["no_route"], w["fails"]))
    if w["routed"] < 2 or w["no_route"] < 4:
        ctx.inconclusive("wiring: the universe offers too few routed / unrouted names (%d / %d)" % (w["routed"], w["no_route"]))
    ctx.cover("wire", traces_validated_against_impl=w["cases"], evaluations=w["evaluations"])
    for h in rw.of_kind("hang")[:3]:
        ctx.inconclusive("wiring: no verdict: %s" % h.get("msg"))
    take(ctx, rw, "c10")

    # histories of several connections through one SNIProxy instance (shared with C09)
    from checks import c09
    if not c09.sessions(ctx, "c10", sfuts):
        return

    # binding self-test: corrupted expectations must be rejected by the harness
    wf = [c for c in cases if c["wf"] and c["wfname"]]
    if not wf:
        ctx.inconclusive("no usable case for the binding self-test")
        return
    a = json.loads(json.dumps(wf[0]))
    a["wfname"] = a["wfname"][:-1] + [a["wfname"][-1] ^ 1]          # expects another name
    b = json.loads(json.dumps(wf[-1]))
    b.update(wf=False, **{"class": "reject", "must": True, "why": "selftest"})   # claims the hello cannot be parsed
    one = os.path.join(ctx.tmp, "c10.selftest")
    vf.write_ndjson(one, [a, b])
    r2 = harness(ctx, one, None, "C10 self-test", timeout=300)
    if r2 is None:
        return
    got = sorted(f.get("features", {}).get("clause", "") for f in r2.of_kind("fail")) + [e.get("kind") for e in r2.of_kind("modelbug")]
    if len(got) != 2:
        ctx.inconclusive("binding self-test: corrupted expectations were NOT both rejected by the harness (got %r)" % got)


def replay(ctx, rp):
    one = os.path.join(ctx.tmp, "c10.replay")
    vf.write_ndjson(one, [rp["replay"]["case"]])
    if "sched" in rp["replay"]["case"]:
        from checks import c09
        r = c09.go_sessions(ctx, one, "C10 replay")
        if r is not None:
            ctx.cover(evaluations=r.summary.get("connections", 0), traces_validated_against_impl=1)
            take(ctx, r, "sessions")
        return
    if "route" in rp["replay"]["case"] and "table" in rp["replay"]["case"] and rp.get("features", {}).get("part") == "wire":
        r = wire(ctx, one, "C10 replay")
        if r is not None:
            ctx.cover(evaluations=r.summary.get("evaluations", 0), traces_validated_against_impl=1)
            take(ctx, r, "c10")
        return
    if rp["replay"]["case"].get("tpl") == "glue":
        r = glue(ctx, one, "C10 replay", only=True, timeout=300)
        if r is not None:
            ctx.cover(evaluations=r.summary.get("evaluations", 0), traces_validated_against_impl=r.summary.get("ran", 0))
            take(ctx, r, "c10")
        return
    r = harness(ctx, one, None, "C10 replay", timeout=300)
    if r is None:
        return
    ctx.cover(evaluations=r.summary.get("evaluations", 0), traces_validated_against_impl=1)
    take(ctx, r, "c10")
