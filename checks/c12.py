"""C12 - access rules and route authentication gate every request.

spec: Access.tla (+ Access_MC.tla universes / generator)
TLC : the gate state machine (lookup -> access / auth checks -> forward | 403 | 401, TCP: dial |
      close) with the invariants "forwarded => admitted and authorised", "denied => upstream
      untouched", "an unparsable item never widens access" on the bounded universe (MC); then
      one case per (rule configuration, request) with the bounds the specification fixes (Gen)
bind: every case replayed into the real code
      - decisions: route built by route.NewTable, Target.AccessDeniedHTTP / AccessDeniedTCP /
        Authorized (harness/route/c12_test.go)
      - end to end HTTP: status seen by a client through a real proxy.HTTPProxy and the hit
        counter of an instrumented upstream (harness/proxy/c12_test.go)
      - end to end TCP: tcp.Proxy / DynamicProxy / SNIProxy, connection closed and the upstream
        never accepted a connection (harness/proxy/tcp/c12_test.go)"""
import json, os
from lib import vf

CFG = """SPECIFICATION %(spec)s
CONSTANTS
  Items <- %(itemset)s
  WFItems <- %(wfset)s
  Addrs <- %(addrset)s
  Zoned <- MCZoned
  Others <- %(others)s
  ValidOthers <- MCOthersValid
  Redirects <- MCRedirects
  Member <- MCMemberAll
  Schemes <- %(schemes)s
  KnownSchemes <- MCKnown
  Creds <- %(creds)s
  Protos <- %(protos)s
  MaxItems = %(items)d
  MaxXff = %(xff)d
  Pres <- %(pres)s
  Sufs <- %(sufs)s
  Fills <- %(fills)s
%(inv)s
CHECK_DEADLOCK FALSE
"""
INV = ("INVARIANTS TypeOK GateSafe DeniedUntouched ForwardedOnce OutcomeSound NoSpuriousDeny SomeOutcome "
       "NeverWidens AllowOnlyInside DenyRejectsInside UnknownSchemeRejects ChainPositionFree OtherOptionNeverWidens")
ACTIONS = ["ChooseRules", "ChooseReq", "Lookup", "AccessPass", "AccessDeny", "AuthPass", "AuthDeny", "Forward"]


def cfg(spec, items, xff, auth=True, protos="MCBoth", inv=False, chain=None, nest=False, others=False):
    pres, sufs, fills = chain or ("MCPresNone", "MCSufsNone", "MCFillsOne")
    if nest:
        fills = "MCFillsNest"
    return CFG % dict(spec=spec, items=items, xff=xff, protos=protos, pres=pres, sufs=sufs, fills=fills,
                      others={False: "MCOthersNone", True: "MCOthersAll", "redirect": "MCOthersRedirect"}[others],
                      itemset="MCItemsNest" if nest else "MCItems", wfset="MCWFItemsNest" if nest else "MCWFItems",
                      addrset="MCAddrsNest" if nest else "MCAddrs",
                      schemes="MCSchemes" if auth else "MCNoAuthSchemes",
                      creds="MCCreds" if auth else "MCNoAuthCreds", inv=INV if inv else "")


HIST_CFG = """SPECIFICATION %(spec)s
CONSTANTS
  Creds <- %(creds)s
  Versions <- MCVersions
  Valid <- MCValid
  SameConcat <- MCSameConcat
  FirstVersion = "v1"
  MTimes <- %(mtimes)s
  Gone <- MCGone
  WithRemoval = %(removal)s
  MaxAttempts = %(attempts)d
  MaxReloads = %(reloads)d
  Memo = "%(memo)s"
%(inv)s
CHECK_DEADLOCK FALSE
"""


def hist_cfg(spec, creds, attempts, reloads, memo="none", inv=False, mtimes="MCMTimesAll", removal=False):
    return HIST_CFG % dict(removal="TRUE" if removal else "FALSE", spec=spec, creds=creds, attempts=attempts, reloads=reloads, memo=memo, mtimes=mtimes,
                           inv="INVARIANTS HistoryIndependent UpstreamOnlyWhenAccepted" if inv else "")


OV_CFG = """SPECIFICATION %(spec)s
CONSTANTS
  Creds <- %(creds)s
  Versions <- MCVersions
  Valid <- MCValid
  FirstVersion = "v1"
  MaxAttempts = %(attempts)d
  MaxReloads = 1
  MaxOpen = 2
  Design = "%(design)s"
%(inv)s
CHECK_DEADLOCK FALSE
"""


def ov_cfg(spec, attempts, design="none", creds="MCCreds", inv=False):
    return OV_CFG % dict(spec=spec, attempts=attempts, design=design, creds=creds,
                         inv="INVARIANTS OverlapSound UpstreamOnlyWhenAccepted" if inv else "")


def ov_class(line):
    """schedules of the new dimension: some attempt's extent contains the replacement and some attempt starts after it"""
    c = json.loads(line)
    ev = c["events"]
    rs = [i for i, e in enumerate(ev) if e["ev"] == "reload"]
    return bool(rs) and any(e["ev"] == "finish" and len(e["seen"]) > 1 for e in ev) and \
        any(e["ev"] == "start" and i > rs[0] for i, e in enumerate(ev))


CHAIN_Q = ("MCPresLong", "MCSufsShort", "MCFillsSome")
CHAIN_T = ("MCPresLong", "MCSufsLong", "MCFillsAll")

SUBS = {
    "multihttp": ("proxy", ["proxy/c12_test.go", "proxy/c12_multi_test.go"], "^TestVerifC12MultiHTTP$", False),
    "multitcp": ("proxy/tcp", ["proxy/tcp/c12_test.go", "proxy/tcp/c12_multi_test.go"], "^TestVerifC12MultiTCP$", False),
    "authhist": ("proxy", ["proxy/c12_hist_test.go"], "^TestVerifC12AuthHist$", False),
    "authoverlap": ("proxy", ["proxy/c12_overlap_test.go"], "^TestVerifC12AuthOverlap$", False),
    "route": ("route", ["route/c12_test.go"], "^TestVerifC12Route$", False),
    "http": ("proxy", ["proxy/c12_test.go"], "^TestVerifC12HTTP$", False),
    "tcp": ("proxy/tcp", ["proxy/tcp/c12_test.go"], "^TestVerifC12TCP$", False),
}


def run_sub(ctx, sub, cases, what, timeout=600):
    pkg, files, run, race = SUBS[sub]
    r = ctx.gotest(pkg, files, run, env={"VERIF_IN": cases}, race=race, timeout=timeout)
    if not ctx.need_go_ok(r, what):
        return None
    orc = r.of_kind("oracle")
    if orc:
        ctx.inconclusive("%s: the harness's own referee/plumbing disagrees (%d): %s" % (what, len(orc), orc[0].get("msg", "")[:600]))
        return None
    return r


import threading
_settle = threading.RLock()   # TLC runs go on in parallel threads; their results are logged / accounted one at a time


def locked(fn):
    def wrapped(*a, **kw):
        return fn(*a, **kw)
    return wrapped


def par(ctx, thunks, width=4):
    """run independent TLC steps (functions returning True when the run may go on) several at a time"""
    from concurrent.futures import ThreadPoolExecutor
    with ThreadPoolExecutor(max_workers=width) as ex:
        return all(list(ex.map(lambda f: f(), thunks)))


def mc(ctx, what, items, xff, auth, timeout, coverage=False, chain=None, protos="MCBoth", nest=False, others=False):
    r = ctx.tlc("Access_MC", cfg_text=cfg("Spec", items, xff, auth=auth, inv=True, chain=chain, protos=protos, nest=nest, others=others),
                workers=ctx.pick(4, 8), timeout=timeout, coverage=coverage)
    with _settle:
        return _mc_settle(ctx, r, what, items, xff, auth, coverage)


def _mc_settle(ctx, r, what, items, xff, auth, coverage):
    ctx.log("MC %s (<=%d items, XFF<=%d, auth=%s): %d generated, %d distinct, %.0fs" % (what, items, xff, auth, r.generated, r.distinct, r.wall))
    if not ctx.need_tlc_ok(r, "Access MC " + what):
        return False
    if coverage:
        dead = [a for a in r.coverage0 if a in ACTIONS]
        if dead:
            ctx.inconclusive("Access MC %s: action(s) never taken: %s" % (what, dead))
            return False
    ctx.cover("mc-" + what, states=r.distinct, transitions=r.generated)
    return True


def gen(ctx, what, sink, items, xff, auth, protos="MCBoth", timeout=600, chain=None, nest=False, others=False):
    r = ctx.tlc("Access_MC", cfg_text=cfg("GenSpec", items, xff, auth=auth, protos=protos, chain=chain, nest=nest, others=others),
                workers=ctx.pick(4, 8), json_sink=sink, timeout=timeout)
    with _settle:
        return _gen_settle(ctx, r, what, items, xff, auth)


def _gen_settle(ctx, r, what, items, xff, auth):
    ctx.log("Gen %s (<=%d items, XFF<=%d, auth=%s): %d transitions, %.0fs" % (what, items, xff, auth, r.generated, r.wall))
    if not ctx.need_tlc_ok(r, "Access Gen " + what):
        return False
    ctx.cover("gen-" + what, transitions=r.generated)
    return True


def clean_rules(line):
    c = json.loads(line)
    ok = lambda xs: all(x in ("A", "B", "C", "An", "Ah", "Cn") for x in xs)
    return ok(c["allow"]) and ok(c["deny"]) and not (c["allow"] and c["deny"])


def sample(ctx, src, dst, keep, proto=None, always=None, pred=None):
    """Seeded slice of a case file, selected by content (TLC's output order is not deterministic):
    every line for which always(line) holds plus a pseudo-random share `keep` of the others."""
    import hashlib
    n = 0
    salt = ("%d|" % ctx.seed).encode()
    with open(src) as fh, open(dst, "a") as out:
        for line in fh:
            if proto and ('"proto":"%s"' % proto) not in line:
                continue
            if pred and not pred(line):
                continue
            take = keep >= 1.0
            if not take:
                h = int.from_bytes(hashlib.sha1(salt + line.encode()).digest()[:4], "big")
                take = h < keep * 2 ** 32 or (always is not None and always(line))
            if take:
                out.write(line)
                n += 1
    return n


def run(ctx):
    ctx.level = "model_checking"
    ctx.assumptions += [
        "universe: rule items {A=v4 /8, B=v4 host, C=v6 /10, nested: An=narrower block inside A with A's network address, Ah=that address as host, Cn=narrower block inside C, ip:<v4>/33, ip:notanip, item without type, unknown type}, lists of <=%d items as allow / deny / both; peers and X-Forwarded-For elements {in A, in B, v4 outside, in C, v6 outside, zone-scoped v6 in C}, chains of <=2 judged elements surrounded by {0,1,2,15,16,17,40,200} filler hops in front and {0,1,20} behind, on one or several header lines; schemes {none, basic (configured), unconfigured name}; credentials {none, good, bad, malformed header}" % ctx.pick(2, 3),
        "for an undocumented configuration (unparsable item, allow and deny together) and for zone-scoped addresses the specification fixes only the upper bound (never admit what the well-formed part / the address part would not admit); denying more is permitted there",
        "the unparsable items name blocks containing no address of the universe, so a more lenient parser would be judged the same",
        "other options of the same target {none, strip=, host=dst, tlsskipverify= (valid); redirect=3O1, redirect=200, proto=<unknown>, an unknown option (malformed); redirect=301 (valid: the route answers 30x instead of forwarding - the 30x is gated by rules and scheme like a forwarded request)} combined with every rule list: they never take part in the decision; a target with a malformed one may be refused as a whole or deny more, it must not admit more",
        "authentication histories: <=3 login attempts over {good, changed password, wrong password, shifted user/password split, empty user, empty password, other user, crossed, none, malformed} with <=1 replacement of the htpasswd file (3 contents; modification time newer, older or equal to the loaded one - equal leaves either content permitted; a refresh missing after 250 intervals = 5 s counts as not applied); the file may also disappear and come back, up to 3 file events per history: while it is gone nobody is accepted on a fresh scheme instance per history; the verdict must follow from the attempt and the content in force",
        "authentication while the htpasswd content changes under requests in flight (scheme with refresh > 0, the judged user's password stored under bcrypt cost 11 so that one check takes about 0.1 s): schedules of <=%d attempts {good, changed password, wrong password} with an extent (start .. finish, <=2 in flight) and one replacement of the file taking effect in between; an attempt whose extent contains the replacement is played as <=6 identical requests fired across it and may be judged by either content; an attempt STARTED after the new content was observed in force (its sentinel user accepted) is judged by the new content alone" % ctx.pick(2, 3),
        "routes with two targets carrying their own rules (none / allow or deny of one block each) and instances up or down, 4 requests each so that the round-robin picker uses both: a request may reach only an instance whose own target's rules admit it; failing or trying another (checked) target after a failed connect are both permitted",
        "when access and authentication both fail, 403 and 401 are both accepted (the statement fixes no order)",
        "end to end runs use loopback sources (127.0.0.0/8, ::1 and, when the host has one, a link-local address for the zone-scoped peer); the IPv6-outside peer exists only at decision level and as an X-Forwarded-For element",
    ]
    # 1. the clauses on the models (the broken design must be caught) and 2. the cases - independent TLC runs,
    #    several at a time
    T = ctx.tmp
    acc, gate, nestc, chainc, otherc, histc, histr, multic, histx, redirc, ovc2, ovc3 = (os.path.join(T, "c12.%s.cases" % n) for n in
                                                              ("access", "gate", "nest", "chain", "other", "hist", "histreload", "multi", "histremove", "redirect", "overlap2", "overlap3"))
    mcfg = cfg("MSpec", 1, 1, auth=False).replace("Items <- MCItems", "Items <- MCWFItems")

    def multi_mc():
        mm = ctx.tlc("AccessMulti_MC", cfg_text=mcfg.replace("CHECK_DEADLOCK FALSE", "INVARIANTS ServedByAdmittingTarget UntouchedUnlessServed MOutcomeSound\nCHECK_DEADLOCK FALSE"),
                     workers=4, timeout=600)
        with _settle:
            ctx.log("MC multi-target routes: %d generated, %d distinct, %.0fs" % (mm.generated, mm.distinct, mm.wall))
            if not ctx.need_tlc_ok(mm, "AccessMulti MC"):
                return False
            ctx.cover("mc-multi", states=mm.distinct, transitions=mm.generated)
            return True

    def multi_gen():
        mg = ctx.tlc("AccessMulti_MC", cfg_text=mcfg.replace("MSpec", "MGenSpec"), workers=4, json_sink=multic, timeout=600)
        with _settle:
            if not ctx.need_tlc_ok(mg, "AccessMulti Gen"):
                return False
            ctx.cover("gen-multi", transitions=mg.generated)
            return True

    def hist_mc(memo):
        def f():
            h = ctx.tlc("AccessHist_MC", cfg_text=hist_cfg("Spec", "MCCredsFull", 3, ctx.pick(1, 2), memo=memo, inv=True), workers=4, timeout=600)
            with _settle:
                ctx.log("MC auth histories (memo=%s): %d generated, %d distinct, %.0fs" % (memo, h.generated, h.distinct, h.wall))
                if not ctx.need_tlc_ok(h, "AccessHist MC memo=" + memo):
                    return False
                ctx.cover("mc-authhist-" + memo, states=h.distinct, transitions=h.generated)
                return True
        return f

    def hist_mc_removal():
        h = ctx.tlc("AccessHist_MC", cfg_text=hist_cfg("Spec", "MCCredsTiny", 2, 3, inv=True, mtimes="MCMTimesAll", removal=True), workers=4, timeout=600)
        with _settle:
            ctx.log("MC auth histories with the file disappearing: %d generated, %d distinct, %.0fs" % (h.generated, h.distinct, h.wall))
            if not ctx.need_tlc_ok(h, "AccessHist MC removal"):
                return False
            ctx.cover("mc-authhist-removal", states=h.distinct, transitions=h.generated)
            return True

    def hist_bad():
        bad = ctx.tlc("AccessHist_MC", cfg_text=hist_cfg("Spec", "MCCredsFull", 3, 1, memo="concat", inv=True), workers=4, timeout=300)
        with _settle:
            if bad.error or bad.timed_out or bad.violated != "HistoryIndependent":
                ctx.inconclusive("the design that remembers verified credentials by user+password run together is NOT rejected by the model (violated=%s error=%s)"
                                 % (bad.violated, bad.error))
                return False
            ctx.log("MC auth histories, broken design (memo keyed by the concatenation): violates HistoryIndependent after %d states, as required" % bad.generated)
            return True

    def hist_gen(sink, creds, reloads, what, attempts=3, **kw):
        def f():
            r = ctx.tlc("AccessHist_MC", cfg_text=hist_cfg("GenSpec", creds, attempts, reloads, **kw), workers=4, json_sink=sink, timeout=600)
            with _settle:
                if not ctx.need_tlc_ok(r, "AccessHist Gen " + what):
                    return False
                ctx.log("Gen auth histories (%s): %d transitions" % (what, r.generated - 1))
                ctx.cover("gen-authhist-" + what, transitions=r.generated)
                return True
        return f

    def ov_mc(design):
        def f():
            h = ctx.tlc("AccessOverlap_MC", cfg_text=ov_cfg("Spec", 3, design=design, creds=ctx.pick("MCCreds", "MCCredsWide"), inv=True), workers=4, timeout=600)
            with _settle:
                ctx.log("MC auth with requests in flight across a replacement (design=%s): %d generated, %d distinct, %.0fs" % (design, h.generated, h.distinct, h.wall))
                if not ctx.need_tlc_ok(h, "AccessOverlap MC design=" + design):
                    return False
                ctx.cover("mc-authoverlap-" + design, states=h.distinct, transitions=h.generated)
                return True
        return f

    def ov_bad():
        bad = ctx.tlc("AccessOverlap_MC", cfg_text=ov_cfg("Spec", 3, design="late", inv=True), workers=4, timeout=300)
        with _settle:
            if bad.error or bad.timed_out or bad.violated != "OverlapSound":
                ctx.inconclusive("the design that stores the verdict of a check begun against the replaced table after the flush is NOT rejected by the model (violated=%s error=%s)"
                                 % (bad.violated, bad.error))
                return False
            ctx.log("MC auth with requests in flight, broken design (verdict of a check on the replaced table remembered after the flush): violates OverlapSound after %d states, as required" % bad.generated)
            return True

    def ov_gen(sink, attempts):
        def f():
            r = ctx.tlc("AccessOverlap_MC", cfg_text=ov_cfg("GenSpec", attempts), workers=4, json_sink=sink, timeout=600)
            with _settle:
                if not ctx.need_tlc_ok(r, "AccessOverlap Gen %d" % attempts):
                    return False
                ctx.log("Gen auth schedules with requests in flight (<=%d attempts): %d transitions" % (attempts, r.generated - 1))
                ctx.cover("gen-authoverlap-%d" % attempts, transitions=r.generated)
                return True
        return f

    steps = []
    if ctx.thorough:
        # coverage statistics (vacuity guard: every action taken) on the small configuration only - they slow TLC a lot
        steps += [lambda: mc(ctx, "gate-auth-coverage", 1, 1, True, 600, coverage=True),
                  lambda: mc(ctx, "gate-3items", 3, 1, True, 900), lambda: mc(ctx, "gate-3items-xff2", 3, 2, False, 900)]
    else:
        steps += [lambda: mc(ctx, "gate-auth", 1, 1, True, 200), lambda: mc(ctx, "gate-lists", 2, 1, False, 200)]
    steps += [
        # nested / overlapping blocks (narrow inside wide with the same network address, a host and its network), both orders
        lambda: mc(ctx, "nested-blocks", ctx.pick(2, 3), 1, False, ctx.pick(200, 900), nest=True),
        # other options of the same target, valid and malformed: never part of the decision
        lambda: mc(ctx, "other-options", ctx.pick(1, 2), 1, False, ctx.pick(200, 900), others=True),
        # routes with several targets carrying different rules: served only by a target whose own rules admit
        multi_mc,
        # long X-Forwarded-For chains: fillers around the judged elements, lengths at boundary values
        lambda: mc(ctx, "chains", ctx.pick(1, 2), 1, False, ctx.pick(200, 900), chain=ctx.pick(CHAIN_Q, CHAIN_T), protos="MCHttp"),
        # authentication over histories: the design and the pair-keyed memo hold, the concatenation-keyed memo must not
        hist_mc("none"), hist_bad,
        lambda: hist_mc_removal(),
        # cases: every configuration x peer x chain without authentication; the product with schemes and
        # credentials on the smaller configuration universe; the special universes
        lambda: gen(ctx, "access", acc, ctx.pick(2, 3), 2, False),
        lambda: gen(ctx, "gate", gate, ctx.pick(1, 2), 1, True, protos="MCHttp"),
        lambda: gen(ctx, "nested-blocks", nestc, ctx.pick(2, 3), ctx.pick(1, 2), False, nest=True),
        lambda: gen(ctx, "other-options", otherc, ctx.pick(1, 2), 1, False, others=True),
        # redirecting routes with authentication: who is told the new location is gated like a forwarded request
        lambda: gen(ctx, "redirect+auth", redirc, 1, 1, True, protos="MCHttp", others="redirect"),
        lambda: mc(ctx, "redirect+auth", 1, 1, True, ctx.pick(200, 900), others="redirect"),
        lambda: gen(ctx, "chains", chainc, ctx.pick(1, 2), 1, False, protos="MCHttp", chain=ctx.pick(CHAIN_Q, CHAIN_T)),
        hist_gen(histc, "MCCredsFull", 0, "no-reload"),
        hist_gen(histr, ctx.pick("MCCredsSmall", "MCCredsFull"), 1, "one-reload"),
        # the htpasswd file disappears and comes back, more than once
        hist_gen(histx, "MCCredsTiny", 3, "file-disappears", attempts=2, mtimes="MCMTimesNewer", removal=True),
        multi_gen,
        # requests in flight while the htpasswd content is replaced: the design and the memo that stores only
        # verdicts of the table in force hold, the memo that stores a stale verdict after the flush must not
        ov_mc("none"), ov_mc("checked"), ov_bad, ov_gen(ovc2, 2),
    ]
    if ctx.thorough:
        steps.append(hist_mc("pair"))
        steps.append(ov_gen(ovc3, 3))
    if not par(ctx, steps, width=ctx.pick(4, 3)):
        return

    # 3. the case files of all replays, then the replays - separate `go test` processes, several at a time
    allc = os.path.join(ctx.tmp, "c12.all.cases")
    sample(ctx, acc, allc, 1.0)
    sample(ctx, gate, allc, 1.0)
    sample(ctx, chainc, allc, ctx.pick(1.0, 0.10), always=clean_rules)
    sample(ctx, nestc, allc, 1.0)
    sample(ctx, otherc, allc, ctx.pick(1.0, 0.3), always=clean_rules)
    sample(ctx, redirc, allc, ctx.pick(0.5, 1.0), pred=lambda l: "redirect-valid" in l)
    httpc = os.path.join(ctx.tmp, "c12.http.cases")
    n1 = sample(ctx, gate, httpc, ctx.pick(0.5, 1.0), proto="http")
    n2 = sample(ctx, acc, httpc, ctx.pick(0.08, 0.06), proto="http", always=clean_rules)
    n2 += sample(ctx, chainc, httpc, ctx.pick(0.10, 0.03), proto="http")
    n2 += sample(ctx, nestc, httpc, ctx.pick(0.5, 0.15), proto="http")
    n2 += sample(ctx, otherc, httpc, ctx.pick(0.5, 0.05), proto="http", always=clean_rules)
    n2 += sample(ctx, redirc, httpc, ctx.pick(0.3, 0.6), proto="http", pred=lambda l: "redirect-valid" in l)
    tcpc = os.path.join(ctx.tmp, "c12.tcp.cases")
    sample(ctx, acc, tcpc, 1.0, proto="tcp")
    sample(ctx, nestc, tcpc, 1.0, proto="tcp")
    sample(ctx, otherc, tcpc, ctx.pick(1.0, 0.3), proto="tcp", always=clean_rules)
    hall = os.path.join(ctx.tmp, "c12.hist.all")
    sample(ctx, histc, hall, 1.0)
    nrel = sample(ctx, histr, hall, ctx.pick(0.12, 0.08), always=None, pred=lambda l: '"reload"' in l and l.count('"attempt"') == 3)
    nrel += sample(ctx, histx, hall, ctx.pick(0.15, 0.5), pred=lambda l: '"remove"' in l and l.count('"attempt"') == 2)
    ovall = os.path.join(ctx.tmp, "c12.overlap.all")
    nov = sample(ctx, ovc2, ovall, 1.0, pred=ov_class)
    if ctx.thorough:
        nov += sample(ctx, ovc3, ovall, 0.08, pred=lambda l: ov_class(l) and l.count('"start"') == 3)
    mh = os.path.join(ctx.tmp, "c12.multi.http")
    sample(ctx, multic, mh, ctx.pick(0.3, 1.0), proto="http")
    mt = os.path.join(ctx.tmp, "c12.multi.tcp")
    sample(ctx, multic, mt, ctx.pick(0.5, 1.0), proto="tcp")
    from concurrent.futures import ThreadPoolExecutor
    ex = ThreadPoolExecutor(max_workers=ctx.pick(3, 3))
    FUT = {}
    FUT["route"] = ex.submit(run_sub, ctx, "route", allc, "C12 decisions")
    FUT["http"] = ex.submit(run_sub, ctx, "http", httpc, "C12 end to end HTTP", timeout=ctx.pick(300, 800))
    FUT["tcp"] = ex.submit(run_sub, ctx, "tcp", tcpc, "C12 end to end TCP", timeout=ctx.pick(300, 800))
    FUT["authhist"] = ex.submit(run_sub, ctx, "authhist", hall, "C12 authentication histories", timeout=ctx.pick(300, 800))
    FUT["authoverlap"] = ex.submit(run_sub, ctx, "authoverlap", ovall, "C12 authentication with requests in flight", timeout=ctx.pick(300, 800))
    FUT["multihttp"] = ex.submit(run_sub, ctx, "multihttp", mh, "C12 multi-target HTTP", timeout=ctx.pick(300, 800))
    FUT["multitcp"] = ex.submit(run_sub, ctx, "multitcp", mt, "C12 multi-target TCP", timeout=ctx.pick(300, 800))
    ex.shutdown(wait=False)

    # 3. replay: decisions (every case; of the long chains a seeded share in the thorough tier)
    r = FUT["route"].result()
    if r is None:
        return
    s = r.summary
    ctx.log("decisions: %d cases, %d access + %d auth evaluations, %d failed, %.0fs"
            % (s["cases"], s["access_evaluations"], s["auth_evaluations"], s["fails"], r.wall))
    ctx.cover("route", traces_validated_against_impl=s["cases"], evaluations=s["access_evaluations"] + s["auth_evaluations"],
              distinct_nontrivial=s["distinct_nontrivial"], samples=s.get("samples") or [],
              rule="one case per (rule configuration, request) TLC enumerated; decision level: every case under two address concretisations and several X-Forwarded-For header spellings; end to end: every TCP case and a seeded share of the HTTP cases from loopback sources; non-trivial = rules present and a chain / scheme / TCP peer involved")
    ctx.take_failures(r, "route")

    # 4. replay: end to end HTTP (all gate cases of the small universe + a seeded share of the access cases)
    r = FUT["http"].result()
    if r is None:
        return
    s = r.summary
    ctx.log("HTTP end to end: %d cases (%d gate + %d access), %d run with %d requests over %s, %d forwarded / %d redirected / %d denied, %d with a real zone-scoped peer, %d skipped (no such source address), %d failed, %.0fs"
            % (s["cases"], n1, n2, s["ran"], s["requests"], s["listeners"], s["forwarded"], s.get("redirected", 0), s["denied"], s["zoned_peer_cases"], s["skipped_no_source_address"], s["fails"], r.wall))
    if s["ran"] == 0 or s["forwarded"] == 0 or s["denied"] == 0:
        ctx.inconclusive("HTTP end to end run is vacuous: %s" % json.dumps(s)[:400])
    ctx.cover("http", traces_validated_against_impl=s["ran"], evaluations=s["requests"], distinct_nontrivial=s["distinct_nontrivial"],
              samples=s.get("samples") or [])
    ctx.take_failures(r, "http")

    # 5. replay: end to end TCP (every TCP case, three proxy kinds)
    r = FUT["tcp"].result()
    if r is None:
        return
    s = r.summary
    ctx.log("TCP end to end: %d cases, %d run with %d client connections over %d listeners, %d dialed / %d closed, %d with a real zone-scoped peer, %d skipped, %d failed, %.0fs"
            % (s["cases"], s["ran"], s["connections"], s["listeners"], s["dialed"], s["closed"], s["zoned_peer_cases"], s["skipped_no_source_address"], s["fails"], r.wall))
    if s["ran"] == 0 or s["dialed"] == 0 or s["closed"] == 0:
        ctx.inconclusive("TCP end to end run is vacuous: %s" % json.dumps(s)[:400])
    ctx.cover("tcp", traces_validated_against_impl=s["ran"], evaluations=s["connections"], distinct_nontrivial=s["distinct_nontrivial"],
              samples=s.get("samples") or [])
    ctx.take_failures(r, "tcp")

    # 6. replay: authentication histories end to end (every history without reload; with a reload: those of full length)
    r = FUT["authhist"].result()
    if r is None:
        return
    s = r.summary
    ctx.log("auth histories end to end: %d histories (%d with a reload), %d attempts, %d accepted / %d rejected, %d reloads observed, %d failed, %.0fs"
            % (s["ran"], nrel, s["attempts"], s["accepted"], s["rejected"], s["reloads"], s["fails"], r.wall))
    if s["ran"] == 0 or s["accepted"] == 0 or s["rejected"] == 0 or s["reloads"] == 0:
        ctx.inconclusive("authentication history run is vacuous: %s" % json.dumps(s)[:400])
    ctx.cover("authhist", traces_validated_against_impl=s["ran"], evaluations=s["attempts"], distinct_nontrivial=s["distinct_nontrivial"],
              samples=s.get("samples") or [])
    ctx.take_failures(r, "authhist")

    # 6b. replay: the htpasswd content replaced under requests in flight
    r = FUT["authoverlap"].result()
    if r is None:
        return
    s = r.summary
    ctx.log("auth with requests in flight end to end: %d schedules, %d requests, %d accepted / %d rejected, %d replacements observed, %d schedules with a request spanning the replacement, %d with an attempt started after it, %d failed, %.0fs"
            % (s["ran"], s["requests"], s["accepted"], s["rejected"], s["reloads"], s["spanned"], s["judged_after"], s["fails"], r.wall))
    if not s["fails"] and (s["ran"] == 0 or s["accepted"] == 0 or s["rejected"] == 0 or s["reloads"] == 0 or s["spanned"] == 0 or s["judged_after"] == 0):
        ctx.inconclusive("run of authentication with requests in flight is vacuous: %s" % json.dumps(s)[:400])
    ctx.cover("authoverlap", traces_validated_against_impl=s["ran"], evaluations=s["requests"], distinct_nontrivial=s["distinct_nontrivial"],
              samples=s.get("samples") or [])
    ctx.take_failures(r, "authoverlap")

    # 7. routes with several targets carrying different rules, instances up / down
    r = FUT["multihttp"].result()
    if r is None:
        return
    s = r.summary
    ctx.log("multi-target routes over HTTP: %d cases run with %d requests over %d routes: %d / %d served by instance 1 / 2, %d denied, %d failed (instance down), %d failed checks, %.0fs"
            % (s["ran"], s["requests"], s["routes"], s["served1"], s["served2"], s["denied"], s["failed"], s["fails"], r.wall))
    if min(s["served1"], s["served2"], s["denied"], s["failed"]) == 0:
        ctx.inconclusive("multi-target HTTP run is vacuous: %s" % json.dumps(s)[:400])
    ctx.cover("multihttp", traces_validated_against_impl=s["ran"], evaluations=s["requests"], distinct_nontrivial=s["distinct_nontrivial"], samples=s.get("samples") or [])
    ctx.take_failures(r, "multihttp")
    r = FUT["multitcp"].result()
    if r is None:
        return
    s = r.summary
    ctx.log("multi-target routes over TCP: %d cases run with %d connections: %d / %d reached instance 1 / 2, %d closed without reaching one, %d failed checks, %.0fs"
            % (s["ran"], s["connections"], s["served1"], s["served2"], s["closed"], s["fails"], r.wall))
    if min(s["served1"], s["served2"], s["closed"]) == 0:
        ctx.inconclusive("multi-target TCP run is vacuous: %s" % json.dumps(s)[:400])
    ctx.cover("multitcp", traces_validated_against_impl=s["ran"], evaluations=s["connections"], distinct_nontrivial=s["distinct_nontrivial"], samples=s.get("samples") or [])
    ctx.take_failures(r, "multitcp")

    selftest(ctx, acc)
    selftest_overlap(ctx, ovall)


def selftest(ctx, acc):
    """binding self-test: a corrupted expectation must be rejected."""
    pick = None
    with open(acc) as fh:
        for line in fh:
            c = json.loads(line)
            if c["proto"] == "http" and c["allow"] == ["A"] and not c["deny"] and c["peer"] == "inA" and c["xff"] == ["inA"] and c["must"]:
                pick = c
                break
    if pick is None:
        ctx.inconclusive("no usable case for the binding self-test")
        return
    bad = dict(pick)
    bad["may"] = False          # claims the admitted request must be denied
    bad["must"] = False
    bad["outcomes"] = ["deny403"]
    one = os.path.join(ctx.tmp, "c12.selftest")
    vf.write_ndjson(one, [bad])
    # (a) the net/netip referee must notice that the bound is not the specification's
    r = ctx.gotest("route", ["route/c12_test.go"], "^TestVerifC12Route$", env={"VERIF_IN": one}, timeout=300)
    if not ctx.need_go_ok(r, "C12 self-test"):
        return
    if not r.of_kind("oracle"):
        ctx.inconclusive("binding self-test: the referee did NOT notice a corrupted bound")
    # (b) with the referee bypassed, the real code's decision must contradict the corrupted bound
    r = ctx.gotest("route", ["route/c12_test.go"], "^TestVerifC12Route$", env={"VERIF_IN": one, "VERIF_C12_NOREFEREE": "1"}, timeout=300)
    if not ctx.need_go_ok(r, "C12 self-test"):
        return
    if not r.of_kind("fail"):
        ctx.inconclusive("binding self-test: a corrupted expectation was NOT rejected by the real code's decision")


def selftest_overlap(ctx, ovall):
    """binding self-test of the in-flight schedules: a corrupted permitted-verdict set must be rejected."""
    pick = None
    with open(ovall) as fh:
        for line in fh:
            pick = json.loads(line)
            break
    if pick is None:
        ctx.inconclusive("no usable schedule for the binding self-test of the in-flight schedules")
        return
    bad = json.loads(json.dumps(pick))
    for a in bad["allowed"]:
        if len(a["may"]) == 1:
            a["may"] = [not a["may"][0]]
    one = os.path.join(ctx.tmp, "c12.selftest.overlap")
    vf.write_ndjson(one, [bad])
    pkg, files, run_, _ = SUBS["authoverlap"]
    r = ctx.gotest(pkg, files, run_, env={"VERIF_IN": one}, timeout=300)
    if not ctx.need_go_ok(r, "C12 self-test (in-flight schedules)"):
        return
    if not r.of_kind("oracle"):
        ctx.inconclusive("binding self-test: the referee did NOT notice a corrupted verdict set of an in-flight schedule")
    r = ctx.gotest(pkg, files, run_, env={"VERIF_IN": one, "VERIF_C12_NOREFEREE": "1"}, timeout=300)
    if not ctx.need_go_ok(r, "C12 self-test (in-flight schedules)"):
        return
    if not r.of_kind("fail"):
        ctx.inconclusive("binding self-test: a corrupted verdict set of an in-flight schedule was NOT rejected by the real code's answers")


def replay(ctx, rp):
    sub = rp["replay"]["sub"]
    if sub not in SUBS:
        ctx.inconclusive("unknown sub-harness %r in the replay file" % sub)
        return
    one = os.path.join(ctx.tmp, "c12.replay")
    vf.write_ndjson(one, [rp["replay"]["case"]])
    r = run_sub(ctx, sub, one, "C12 replay")
    if r is None:
        return
    ctx.cover(evaluations=1)
    ctx.take_failures(r, sub)
