"""C06 - concurrent requests do not influence each other's routing.

spec: DataPlane.tla (pick / glob / redirect as Inv, one atomic effect, Ret; FineGrain = the unrepaired grain)
TLC : ExactShare / OwnLocation / CacheBounded exhaustively for 3 processes; the FineGrain configuration
      must violate them (documents the repaired flaws, guards against a vacuous model)
bind: C->S recorded concurrent executions of real lookups (-race) validated against DataPlane_Trace
      (linearizability, final cursor and cache contents bound); 16-goroutine stress runs judged by exact
      counts and the race detector."""
import json, os
from lib import vf

FILES = ["route/common_test.go", "route/c06_test.go"]
MC = """SPECIFICATION Spec
CONSTANTS
  Procs = {1, 2, 3}
  Ring <- MCRing
  Patterns = {"p1", "p2", "p3"}
  Paths = {"/x", "/y"}
  Addrs = {"in-1", "out"}
  CacheSize = 2
  MaxOps = %d
  FineGrain = %s
INVARIANTS ExactShare OwnLocation OwnDecision CacheBounded
CHECK_DEADLOCK FALSE
"""


def race(ctx, r, sub):
    if "WARNING: DATA RACE" in r.out:
        i = r.out.index("WARNING: DATA RACE")
        frames = [ln.strip() for ln in r.out[i:i + 4000].splitlines() if "fabio/route." in ln or "fabio/proxy" in ln or "fabio/admin" in ln][:4]
        ctx.violation({"sub": sub, "race": True, "where": frames[0].split("(")[0] if frames else "?"},
                      "data race reported while serving lookups concurrently:\n" + r.out[i:i + 2500], replay={"sub": sub + "-race", "case": None})
        return True
    return False


def validate(ctx, trace):
    v = ctx.tlc("DataPlane_Trace", cfg="DataPlane_Trace", workers=1, env={"VERIF_TRACE": trace}, timeout=900)
    if v.timed_out or v.error:
        ctx.inconclusive("trace validation did not complete: %s" % (v.error or "timeout"))
        return None
    return v


def run(ctx):
    ctx.tlaps("DataPlane_Proof", ["DataPlane"])
    ctx.assumptions += ["the interleaving semantics of the specification is sound only for race-free executions; the race detector discharges that on every recorded run (a report is itself a violation of C06)",
                        "TLC-validated traces use 6 goroutines x 36 operations; the 16-goroutine runs are judged by exact counts"]
    mc = ctx.tlc("DataPlane_MC", cfg_text=MC % (ctx.pick(5, 6), "FALSE"), workers=8, timeout=1200, coverage=ctx.thorough)
    if not ctx.need_tlc_ok(mc, "DataPlane MC"):
        return
    ctx.cover("mc", states=mc.distinct, transitions=mc.generated)
    fg = ctx.tlc("DataPlane_MC", cfg_text=MC % (4, "TRUE"), workers=4, timeout=300)
    if fg.violated is None:
        ctx.inconclusive("the fine-grain (unrepaired) configuration does not violate the properties: the model is vacuous")
        return
    runs = ctx.pick(2, 12)
    for k in range(runs):
        r = ctx.gotest("route", FILES, "^TestVerifC06Trace$", race=True, timeout=600, env={"GOMAXPROCS": [16, 4, 2, 8][k % 4]})
        if race(ctx, r, "trace"):
            break
        if not ctx.need_go_ok(r, "C06 trace run"):
            return
        s = r.summary
        v = validate(ctx, s["trace"])
        if v is None:
            return
        if v.ok:
            ctx.cover("trace", traces_validated_against_impl=1, states=v.distinct, transitions=v.generated, evaluations=s["ops"])
        else:
            ctx.violation({"sub": "trace", "why": v.violated}, "a recorded execution of concurrent lookups is not a behaviour of DataPlane (%s): some pick, redirect or cache result cannot be explained by atomic effects" % v.violated,
                          replay={"sub": "trace", "case": None})
            break
        if k == 0:
            lines = open(s["trace"]).read().splitlines()
            idx = [i for i, ln in enumerate(lines) if '"ev":"Ret"' in ln and '"res":"rr' in ln]
            ev = json.loads(lines[idx[len(idx) // 2]])
            ev["res"] = "rrA" if ev["res"] != "rrA" else "rrB"
            lines[idx[len(idx) // 2]] = json.dumps(ev)
            bad = os.path.join(ctx.tmp, "c06.bad")
            open(bad, "w").write("\n".join(lines) + "\n")
            v2 = validate(ctx, bad)
            if v2 is not None and v2.ok:
                ctx.inconclusive("binding self-test: a trace with one changed pick result was accepted")
    for k in range(ctx.pick(2, 8)):
        r = ctx.gotest("route", FILES, "^TestVerifC06Stress$", race=True, timeout=900,
                       env={"GOMAXPROCS": [16, 4, 2][k % 3], "VERIF_CYCLES": ctx.pick(2, 4), "VERIF_ITERS": ctx.pick(300, 1500)})
        if race(ctx, r, "stress"):
            break
        if not ctx.need_go_ok(r, "C06 stress run"):
            return
        s = r.summary
        ctx.cover("stress", evaluations=s["rr_lookups"] + s["lookups"], traces_validated_against_impl=1,
                  samples=[{"rr_lookups": s["rr_lookups"], "ring": s["ring"], "lookups": s["lookups"], "swaps": s["swaps"], "cache_keys": s["cache_keys"]}])
        ctx.take_failures(r, "stress")
    # observers: admin API requests on the active table concurrently with lookups (DataPlane!LinObserve)
    for k in range(ctx.pick(1, 4)):
        r = ctx.gotest("admin/api", ["admin/api/c06_test.go"], "^TestVerifC06Observers$", race=True, timeout=600, env={"GOMAXPROCS": [16, 4, 2, 8][k % 4]})
        if race(ctx, r, "observers"):
            break
        if not ctx.need_go_ok(r, "C06 observers run"):
            return
        s = r.summary
        ctx.take_failures(r, "observers")
        v = validate(ctx, s["trace"])
        if v is None:
            return
        if v.ok:
            ctx.cover("observers", traces_validated_against_impl=1, states=v.distinct, transitions=v.generated, evaluations=s["ops"])
        else:
            ctx.violation({"sub": "observers", "why": v.violated}, "a recorded execution of lookups concurrent with admin API requests on the active table is not a behaviour of DataPlane (%s): the picks do not follow the ring the route had before the observers ran" % v.violated,
                          replay={"sub": "observers", "case": None})
            break
    ctx.cover(distinct_nontrivial=ctx.cov["traces_validated_against_impl"],
              rule="recorded concurrent runs (each a distinct schedule of 216 operations / of 20000+ lookups); non-trivial = run with at least two goroutines overlapping")


def replay(ctx, rp):
    ctx.inconclusive("replay of %s: re-run the check (the schedule depends on goroutine timing)" % rp["replay"]["sub"])
