"""C16 - gRPC calls are proxied transparently to a matching backend.

spec: GrpcProxy.tla (+ GrpcProxy_MC.tla universes / behaviour generator)
TLC : the statement's invariants (ordered exactly-once delivery per direction, caller status =
      backend status, NotFound contacts nobody, one connection per backend counted at the backend's
      listener, dropped after the clean-up, no call cancelled by another call's race for the pool) on
      five configurations: (a) the complete per-call universe (incl. the health-checking method paths a
      grpc.Server could answer itself, and final statuses Unavailable / ResourceExhausted sent trailers-only),
      (b) histories of <=3 calls with table changes and clean-up ticks, (c) bursts of 2-3 overlapping first
      calls with every interleaving of their pool accesses, (d) outages (BackendDown / BackendUp) with calls
      during the outage, recovery, leaving the table and clean-up, (e) flapping: leave, clean-up, re-enter,
      a stream in flight while the old connection is closed; every examined transition that completes a call, a burst or a
      closing tick is printed as a behaviour with what an observer must see
bind: every behaviour replayed against a listener started through proxy.ListenAndServeGRPC with
      main.newGrpcProxy's options (as main does),
      real grpc_testing.TestService backends behind counting listeners (stopped and restarted on the
      same address for outages) and a real client (harness/main/c16_test.go)"""
import json, os, random, threading, time
from lib import vf

CFG = """SPECIFICATION %(spec)s
CONSTANTS
  Backends <- %(backends)s
  SchemeOf <- MCSchemeOf
  Slots <- %(slots)s
  Tables <- %(tables)s
  CallUniverse <- %(calls)s
  HostOf <- MCHostOf
  MaxCalls = %(nc)d
  MaxSets = %(ns)d
  MaxTicks = %(nt)d
  MaxDowns = %(nd)d
  MaxBursts = %(nb)d
  BurstUniverse <- MCBurstCalls
  BurstSizes <- MCBurstSizes
  CleanupCloses = %(cc)s
  MidCall = %(mid)s
  PoolRace = "%(race)s"
VIEW View
INVARIANTS TypeOK OrderedExactlyOnce Transparent ForwardedWhenReachable NotFoundContactsNobody OneConnPerBackend ReusedWhileInTable CleanedAfterTick ClosedWhenDropped BurstTransparent BurstLeavesOneConn
PROPERTIES DialOnlyWithoutEntry
CHECK_DEADLOCK FALSE
"""


def cfg(**k):
    d = dict(spec="GenSpec", backends="MCBackends", slots="MCSlots2", tables="MCTablesFixed", calls="MCCallsQuick", nc=1, ns=0, nt=0, cc="TRUE", nd=0, nb=0, race="recheck", mid="FALSE")
    d.update(k)
    return CFG % d


ACTIONS = ["SetTableAny", "CallStartAny", "Route", "NotFound", "Dial", "Reuse", "Unavailable", "Reconnect", "StillBackingOff",
           "MsgToBackend", "EofToBackend", "MsgToCaller", "Finish", "Return", "CleanupTick", "Drop", "Outage",
           "BurstStartAny", "BurstStep", "BurstEnd"]


def read(path):
    with open(path) as fh:
        return [json.loads(l) for l in fh if l.strip()]


def read_mid(path):
    """Behaviours of a (large) sink whose last call has a clean-up pass ("k") or a closing ("d") inside it."""
    out = []
    with open(path) as fh:
        for l in fh:
            if '"k"' in l or '"d"' in l:
                out.append(json.loads(l))
    return out


def effective_ticks(b):
    return sum(1 for s in b["steps"] if s["op"] == "tick" and s.get("closed"))


def run_harness(ctx, cases, what, timeout):
    r = ctx.gotest(".", ["main/c16_test.go"], "^TestVerifC16$", env={"VERIF_IN": cases}, timeout=timeout)
    if not ctx.need_go_ok(r, what):
        return None
    return r


def corrupt(b, how):
    """Return a copy of behaviour b with one expected field changed (binding self-test)."""
    c = json.loads(json.dumps(b))
    st = [s for s in c["steps"] if s["op"] == "call" and s.get("be")][-1]
    if how == "resp":
        st["cgot"] = list(st["cgot"][:-1]) + ["r9"] if st["cgot"] else ["r9"]
    elif how == "status":
        st["code"] = 7
    elif how == "backend":
        st["be"] = "b2" if st["be"] == "b1" else "b1"
    elif how == "conn":
        st["conn"] = "reuse" if st["conn"] == "dial" else "dial"
    c["selftest"] = True
    c["mode"] = ""
    c["how"] = how
    return c


def run(ctx):
    ctx.level = "model_checking"
    ctx.assumptions += [
        "universe: 2 backends; route slots {/grpc.testing.TestService/, h1/grpc.testing.TestService/ (+ /grpc.testing.TestService/UnaryCall in thorough)}; dsthost in {none, h1, h2 (no route: host-less routes apply)}; unary / client-stream / server-stream / bidi calls with <=2 messages per direction, backend scripts eager/echo/late/early-finish, headers {none, SetHeader, SendHeader}, trailers {none, some}, status {OK, NotFound, Unavailable, 42 (+ ResourceExhausted, Internal in thorough)}; metadata {none, one key, repeated values + -bin key}; histories of <=3 calls with <=2 table changes and <=2 clean-up ticks; bursts of 2-3 unary / bidi calls; <=1 outage with <=4 (5) calls around it",
        "calls of one history are sequential except in bursts: 2-3 calls started together for a backend without a pooled connection, each held at the backend until all are in flight; the interleaving of their pool accesses cannot be steered, so every burst is played several times; per-call behaviours run 8 at a time over warmed-up connections",
        "outages: the backend's listener is closed (all its connections die) and later reopened on the same address; nothing is asserted about the status of a call whose backend does not listen, except that nobody else serves it; after the recovery a call must get through within 20 s (gRPC's reconnect back-off is ~1-3 s); from then on connections OPEN AT THE BACKEND'S LISTENER are counted (<=1 while in the table, observed for 2.5 s / 4 s after recovery and after the clean-up; 0 after it left the table and the clean-up ran), not dials",
        "after a burst the backend must have exactly one open connection within 5 s",
        "route weights: a backend that stays in the table with weight 0 (its sibling on the route has 'weight 1.0') is a target of the table: a stream in flight on it must survive the table change and the next clean-up pass (waited for: next multiple of 5 s after the change + 1 s + grace + 0.5 s); calls whose backend has left the table altogether while they run are not covered",
        "size limits: besides the defaults (4 MiB both) one non-default pair proxy.grpcmaxrxmsgsize=300000 > proxy.grpcmaxtxmsgsize=40000 with a 120000-byte request ('qB'); responses above tx (legitimately refused towards the caller) are not exercised",
        "dsthost spellings: exact, other letter case (H1), with the default port (h1:80), matched only by a glob route (x.beta.c16.test vs *.beta.c16.test), no route (h2)",
        "flapping: grpcshutdowntimeout is 3 s in these behaviours; the proxy's clean-up timer cannot be observed before it closes something, so the tick is taken to have happened 1 s after it was due (5 s after the proxy was made) - if it is later still, the behaviour says nothing and is counted; the closing of the old connection ('d' in the call's event order) is observed at the backend's socket",
        "every call is counted at the backend by its id: a call that reaches a backend twice (a retry replaying the caller's messages) is a violation whatever the caller sees",
        "method paths of services a grpc.Server may register itself: grpc.health.v1.Health/Check and /Watch, routed for host h1 only (reflection and channelz paths are not exercised)",
        "a message token stands for a protobuf message with a seeded payload of 0 B .. 70 KB (1 MiB now and then in thorough), below the configured 4 MiB limit",
        "the routing hint dsthost is compared like any other metadata of the caller; transport-level metadata (user-agent, content-type, :authority) and status details are not compared; NotFound is checked by code only",
        "a backend that was missing from a table since its connection was made may have lost the connection to the proxy's own 5 s timer at any time: its next call may dial once or reuse (spec: conn = may)",
        "the clean-up is waited for at most 17 s (5 s period + 0.3 s grace + slack); closure is observed at the backend's socket",
    ]
    sink_call = os.path.join(ctx.tmp, "c16.call")
    sink_hist = os.path.join(ctx.tmp, "c16.hist")

    # 1. TLC: four configurations of the one specification, side by side
    #    (a) per-call universe  (b) histories: table changes, calls, clean-up ticks
    #    (c) bursts of overlapping first calls to a backend the pool has no connection to yet
    #    (d) outages: a backend in the table stops listening, calls arrive, it listens again, it leaves
    sink_burst = os.path.join(ctx.tmp, "c16.burst")
    sink_out = os.path.join(ctx.tmp, "c16.outage")
    sink_flap = os.path.join(ctx.tmp, "c16.flap")
    sink_lim = os.path.join(ctx.tmp, "c16.limits")
    sink_w = sink_flap
    jobs = [
        ("per-call universe", dict(calls=ctx.pick("MCCallsQuick", "MCCallsFull"), slots=ctx.pick("MCSlotsH", "MCSlots4")), sink_call, "mc_call"),
        # flapping backends, and table changes / clean-up while a stream is in flight (zero-weight targets), in one run
        ("flapping+weights", dict(calls="MCCallsFlap", slots="MCSlotsW", tables="MCTablesFW", backends="MCBackendsTls", nc=2, ns=2, nt=1, mid="TRUE"), sink_flap, "mc_flap"),
        ("histories", dict(calls=ctx.pick("MCCallsHistSmall", "MCCallsHist"), tables="MCTablesAll", nc=3, ns=2, nt=ctx.pick(1, 2)), sink_hist, "mc_hist"),
        ("bursts", dict(calls="MCCallsHistSmall", tables="MCTablesAll", nc=ctx.pick(0, 1), ns=1, nt=1, nb=1), sink_burst, "mc_burst"),
        ("outages", dict(calls="MCCallsOutage", tables="MCTablesAll", nc=ctx.pick(4, 5), ns=1, nt=1, nd=1), sink_out, "mc_outage"),
    ]
    results = {}

    def tlc_job(name, kw, sink):
        try:
            results[name] = ctx.tlc("GrpcProxy_MC", cfg_text=cfg(**kw), json_sink=sink, workers=4, timeout=ctx.pick(300, 1500),
                                    coverage=ctx.thorough)
        except Exception as e:      # surfaces below as a missing result
            results[name] = e
    threads = []
    for name, kw, sink, _ in jobs:
        t = threading.Thread(target=tlc_job, args=(name, kw, sink))
        t.start()
        threads.append(t)
        time.sleep(0.5)             # ctx.tlc numbers its scratch directories when it is entered
    for t in threads:
        t.join()
    cov0 = set(ACTIONS)
    for name, kw, sink, part in jobs:
        r = results.get(name)
        if r is None or isinstance(r, Exception):
            ctx.inconclusive("GrpcProxy %s: TLC did not run: %r" % (name, r))
            return
        ctx.log("%s: %d states, %d distinct, depth %d, %.0fs" % (name, r.generated, r.distinct, r.depth, r.wall))
        if not ctx.need_tlc_ok(r, "GrpcProxy " + name):
            return
        ctx.cover(part, states=r.distinct, transitions=r.generated)
        cov0 &= set(r.coverage0)
    if ctx.thorough:
        for race, inv in (("overwrite", "BurstLeavesOneConn"), ("close-replaced", "BurstTransparent")):
            dv = ctx.tlc("GrpcProxy_MC", cfg_text=cfg(spec="Spec", calls="MCCallsHistSmall", tables="MCTablesAll", nc=0, nb=1, race=race),
                         workers=4, timeout=300)
            if dv.violated != inv:
                ctx.inconclusive("model self-test: the deviation PoolRace=%s should violate %s, got %r %r" % (race, inv, dv.violated, dv.error))
                return
        never = cov0
        if never:
            ctx.inconclusive("actions never taken in any configuration: %s" % sorted(never))
            return
        # the pool invariants are not vacuous: the deviation 'entries are never deleted' violates them
        dv = ctx.tlc("GrpcProxy_MC", cfg_text=cfg(spec="Spec", calls="MCCallsHistSmall", tables="MCTablesAll", nc=2, ns=1, nt=1, cc="FALSE"),
                     workers=4, timeout=300)
        if dv.violated != "CleanedAfterTick":
            ctx.inconclusive("model self-test: the deviation CleanupCloses=FALSE should violate CleanedAfterTick, got %r %r" % (dv.violated, dv.error))
            return

    calls = read(sink_call)
    hists = read(sink_hist)
    rnd = random.Random(ctx.seed)
    plain = [b for b in hists if effective_ticks(b) == 0]
    ticked = [b for b in hists if effective_ticks(b) > 0]
    for l in (plain, ticked):   # TLC's workers print in no particular order
        l.sort(key=lambda x: json.dumps(x, sort_keys=True))
    rnd.shuffle(plain)
    rnd.shuffle(ticked)
    # every behaviour with a closing tick costs up to 5.3 s of the proxy's own timer
    def tick_key(b):
        return (tuple(s["op"] for s in b["steps"]), tuple(sorted(b["steps"][-1].get("closed", []))))
    chosen_ticks, seen = [], set()
    want_ticks = ctx.pick(1, 8)
    # prefer behaviours that go on after the tick (re-dial after the clean-up) and end in a call
    def redials(b):
        closed, n = set(), 0
        for s in b["steps"]:
            if s["op"] == "tick":
                closed |= set(s.get("closed", []))
            elif s["op"] == "call" and s.get("be") in closed:
                n += 1
        return n
    ticked.sort(key=lambda b: (-min(redials(b), 1), -(b["steps"][-1]["op"] == "call"), -len(b["steps"])))
    for b in ticked:
        if effective_ticks(b) != 1:
            continue
        k = tick_key(b)
        if k in seen:
            continue
        seen.add(k)
        chosen_ticks.append(b)
        if len(chosen_ticks) >= want_ticks:
            break
    if ctx.thorough:
        two = [b for b in ticked if effective_ticks(b) == 2][:2]
        chosen_ticks += two
    if not chosen_ticks:
        ctx.inconclusive("the generator produced no behaviour with a closing clean-up tick")
        return
    if not ctx.thorough:
        plain = plain[:700]
    # bursts: every distinct one (the interleaving inside the proxy cannot be steered: played several times)
    def key(b):
        return json.dumps(b["steps"], sort_keys=True)
    bursts = sorted({key(b): b for b in read(sink_burst) if any(s["op"] == "burst" for s in b["steps"])}.values(), key=key)
    rnd.shuffle(bursts)
    burst_plain = [b for b in bursts if effective_ticks(b) == 0 and b["steps"][-1]["op"] == "burst"]
    burst_tick = [b for b in bursts if effective_ticks(b) == 1 and b["steps"][-1]["op"] == "tick"
                  and any(s["op"] == "burst" and s["be"] in b["steps"][-1]["closed"] for s in b["steps"])]
    if not ctx.thorough:
        burst_plain = burst_plain[:24]
    for b in burst_plain:
        b["repeat"] = ctx.pick(2, 5)
    burst_tick = burst_tick[:ctx.pick(1, 3)]
    # outages: the history that matters most first -- calls refused during the outage, recovery, the
    # backend leaves the table, clean-up -- then other shapes
    outs = sorted({key(b): b for b in read(sink_out) if any(s["op"] == "down" for s in b["steps"])}.values(), key=key)
    rnd.shuffle(outs)
    def out_score(b):
        ops = [s["op"] for s in b["steps"]]
        refused = sum(1 for s in b["steps"] if s["op"] == "call" and s.get("unav") == "yes")
        rec = any(s["op"] == "call" and s.get("conn") == "reconnect" for s in b["steps"])
        down_be = next(s["be"] for s in b["steps"] if s["op"] == "down")
        closes = b["steps"][-1]["op"] == "tick" and down_be in b["steps"][-1].get("closed", [])
        dialled = any(s["op"] == "call" and s.get("conn") == "dial" and s.get("be") == down_be for s in b["steps"][:ops.index("down")])
        return (-(rec and closes and refused >= 2), -(rec and closes), -refused, -dialled)
    outs.sort(key=out_score)
    chosen_out, seen_sig = [], set()
    for b in outs:
        sig = tuple(s["op"] + (":" + s.get("unav", "") + s.get("conn", "") if s["op"] == "call" else "") for s in b["steps"])
        if sig in seen_sig:
            continue
        seen_sig.add(sig)
        chosen_out.append(b)
        if len(chosen_out) >= ctx.pick(1, 5):
            break
    # flapping: leave, clean-up, re-enter while the old connection awaits closing, a stream in flight across
    # that closing ("d" somewhere between its first message and its end)
    flaps = []
    mid = sorted(read_mid(sink_flap), key=key)
    for b in mid:
        last = b["steps"][-1]
        ops = [x["op"] for x in b["steps"]]
        if (last["op"] == "call" and last.get("scheme") != "grpcs" and "d" in last.get("ord", []) and ops.count("tick") == 1 and effective_ticks(b) == 1
                and not set("tk") & set(last.get("ord", []))):
            pos = last["ord"].index("d")
            if 0 < pos < len(last["ord"]) - 1:
                b["flap"] = True
                flaps.append(b)
    rnd.shuffle(flaps)
    seen_pos, chosen_flap = set(), []
    for b in flaps:
        pos = b["steps"][-1]["ord"].index("d")
        if pos not in seen_pos:
            seen_pos.add(pos)
            chosen_flap.append(b)
    chosen_flap = chosen_flap[:ctx.pick(1, 4)]
    # a stream in flight on a backend whose traffic is moved away ("t": it stays in the table with weight 0) and
    # that outlives a clean-up pass ("k"), with messages still to be exchanged afterwards
    weights = []
    for b in mid:
        last = b["steps"][-1]
        o = last.get("ord", [])
        if (last["op"] == "call" and last.get("scheme") != "grpcs" and len(b["steps"]) == 2 and "t" in o and "k" in o and "d" not in o and 0 < o.index("t") < o.index("k")
                and any(e in ("q", "r") for e in o[o.index("k"):]) and any(r.get("zero") and r["be"] == last["be"] for r in last["tabs"][0])):
            b["drive"] = "lock"
            weights.append(b)
    rnd.shuffle(weights)
    weights = weights[:ctx.pick(1, 3)]
    if not weights:
        ctx.inconclusive("the generator produced no behaviour with a stream on a backend that is moved to weight 0")
        return
    # a stream to a backend reached through a grpcs:// target (TLS upstream) that lives across a clean-up pass ("k"),
    # with messages still to be exchanged afterwards; with and without its traffic being moved away first ("t")
    tls_k, tls_tk = [], []
    for b in mid:
        last = b["steps"][-1]
        o = last.get("ord", [])
        if (last["op"] == "call" and last.get("scheme") == "grpcs" and len(b["steps"]) == 2 and "k" in o and "d" not in o
                and 0 < o.index("k") and any(e in ("q", "r") for e in o[o.index("k"):])):
            if "t" not in o:
                tls_k.append(b)
            elif o.index("t") < o.index("k") and any(r.get("zero") and r["be"] == last["be"] for r in last["tabs"][0]):
                tls_tk.append(b)
    rnd.shuffle(tls_k)
    rnd.shuffle(tls_tk)
    if not tls_k or not tls_tk:
        ctx.inconclusive("the generator produced no behaviour with a stream on a grpcs:// backend across a clean-up pass")
        return
    tls = tls_k[:1] + tls_tk[:ctx.pick(0, 2)] + tls_k[1:ctx.pick(1, 2)]
    for b in tls:
        b["drive"] = "lock"
    if not ctx.thorough:
        chosen_ticks = []       # the flapping behaviour also dials, leaves, is cleaned up and dials again
        burst_tick_q = []       # (bursts followed by leaving and clean-up: thorough)
    else:
        burst_tick_q = burst_tick
    if not burst_plain or not burst_tick or not chosen_flap or not chosen_out or out_score(chosen_out[0])[0] != -1:
        ctx.inconclusive("the generator produced no burst / burst+clean-up / outage+recovery+clean-up behaviour")
        return
    lim_src = [x for x in calls if "qB" in x["steps"][-1]["call"]["reqs"]]
    calls = [x for x in calls if "qB" not in x["steps"][-1]["call"]["reqs"]]
    for b in calls:
        b["mode"] = "shared"
    # binding self-test: corrupted expectations must be rejected by the harness
    base = next((b for b in plain if any(s["op"] == "call" and s.get("be") and s.get("cgot") for s in b["steps"])), None)
    if base is None:
        ctx.inconclusive("no usable behaviour for the binding self-test")
        return
    # connection accounting does not depend on how the messages of a call are stepped: one drive is enough
    # for the behaviours that wait for the proxy's timers
    for i, b in enumerate(chosen_ticks + burst_tick + chosen_out):
        b["drive"] = ("lock", "free")[(i + ctx.seed) % 2]
    for b in chosen_flap:
        b["drive"] = "lock"     # the closing of the old connection is a step of the call
    selftests = [corrupt(base, how) for how in ("resp", "status", "backend", "conn")]
    # non-default message size limits (rx > tx): one interleaving per call is enough here
    lims, seen_call = [], set()
    for b in sorted(lim_src, key=key):
        k = json.dumps(b["steps"][-1]["call"], sort_keys=True)
        if k not in seen_call:
            seen_call.add(k)
            b["limits"] = "rx>tx"
            lims.append(b)
    if not lims:
        ctx.inconclusive("the generator produced no behaviour for the size limits")
        return
    allb = calls + plain + lims + burst_plain + chosen_ticks + chosen_flap + weights + tls + burst_tick_q + chosen_out + selftests
    for i, b in enumerate(allb):
        b["idx"] = i + 1
    for b in chosen_ticks + chosen_flap + weights + tls + burst_tick_q + chosen_out:
        ctx.log("  closing-tick behaviour: " + " ".join(
            s["op"] + (":" + (s.get("be") or "-") + "/" + s.get("conn", "") + ("/" + "".join(s["ord"]) if set("dtk") & set(s.get("ord", [])) else "") if s["op"] == "call" else
                       ":" + ",".join(s.get("closed", [])) if s["op"] == "tick" else
                       ":" + s["be"] + ("x%d" % s["n"] if s["op"] == "burst" else "") if s["op"] in ("down", "up", "burst") else
                       ":" + ",".join(sorted(set(r["be"] for r in s["table"])))) for s in b["steps"]))
    # The behaviours that wait for the proxy's own timers (clean-up period, grace, reconnect back-off) each get a
    # test process of their own -- every process has its own routing table -- beside the one that replays the rest.
    waiting = tls + chosen_ticks + chosen_flap + weights + burst_tick_q + chosen_out
    wait_ids = {id(b) for b in waiting}
    groups = [[b for b in allb if id(b) not in wait_ids]] + [[] for _ in range(min(4, len(waiting)))]
    for i, b in enumerate(waiting):
        groups[1 + i % (len(groups) - 1)].append(b)
    case_files = []
    for gi, g in enumerate(groups):
        case_files.append(os.path.join(ctx.tmp, "c16.cases.%d" % gi))
        vf.write_ndjson(case_files[-1], g)
    ctx.log("replaying %d per-call behaviours, %d histories, %d with a closing clean-up tick (of %d / %d / %d generated), %d bursts (+%d with clean-up), %d outages"
            % (len(calls), len(plain), len(chosen_ticks), len(calls), len(hists) - len(ticked), len(ticked), len(burst_plain), len(burst_tick), len(chosen_out)))

    results = [None] * len(groups)

    def replay_job(gi):
        results[gi] = run_harness(ctx, case_files[gi], "C16 replay (group %d)" % gi, timeout=ctx.pick(300, 800))
    threads = []
    for gi in range(len(groups)):
        t = threading.Thread(target=replay_job, args=(gi,))
        t.start()
        threads.append(t)
        time.sleep(0.5)             # ctx.gotest numbers its scratch directories when it is entered
    for t in threads:
        t.join()
    if any(x is None for x in results):
        return
    s = {}
    for x in results:
        for k, v in x.summary.items():
            if isinstance(v, bool) or not isinstance(v, (int, float)):
                continue
            s[k] = s.get(k, 0) + v
    s["samples"] = [y for x in results for y in (x.summary.get("samples") or [])]
    s["aborted"] = "; ".join(x.summary["aborted"] for x in results if x.summary.get("aborted"))
    r = results[0]
    r.wall = max(x.wall for x in results)
    ctx.log("replayed %d behaviours: %d calls, %d messages, %d closing ticks, %d bursts, %d outages, %d failed, %.0fs"
            % (s["behaviours"], s["calls"], s["messages"], s["ticks"], s["bursts"], s["outages"], s["fails"], r.wall))
    ctx.cover(traces_validated_against_impl=s["behaviours"], evaluations=s["calls"], distinct_nontrivial=s["distinct_nontrivial"],
              samples=s.get("samples") or [], exhaustive=bool(ctx.thorough),
              rule="one behaviour per transition TLC examined that completes a call, a burst or a closing clean-up tick (shortest history to the source state + that step); per-call universe complete, histories complete in thorough and a seeded slice in quick, bursts distinct ones (24 in quick) x 2-5 plays, outages chosen by shape (refused calls + recovery + leaving + clean-up first); non-trivial = distinct behaviour with a routed call that moved >=2 messages, or a burst")
    for x in results:
        ctx.take_failures(x, "c16")
    if s.get("flaps_degenerate"):
        ctx.log("%d flapping behaviour(s) said nothing: the proxy's clean-up ran later than expected" % s["flaps_degenerate"])
    if s.get("aborted"):
        ctx.inconclusive("replay stopped early: %s" % s["aborted"])
    if s["selftests"] != len(selftests) or s["selftests_rejected"] != s["selftests"]:
        ctx.inconclusive("binding self-test: %d of %d corrupted behaviours were rejected by the harness"
                         % (s["selftests_rejected"], len(selftests)))


def replay(ctx, rp):
    case = rp["replay"]["case"]
    if not isinstance(case, dict) or "steps" not in case:
        ctx.inconclusive("replay file carries no behaviour")
        return
    case["mode"] = ""
    case["selftest"] = False
    if len(case["steps"]) and case["steps"][-1]["op"] != "call" and case.get("calls"):
        ctx.inconclusive("aggregate finding (connection count over the whole per-call run): re-run the check instead")
        return
    one = os.path.join(ctx.tmp, "c16.replay")
    vf.write_ndjson(one, [case])
    r = run_harness(ctx, one, "C16 replay", timeout=300)
    if r is None:
        return
    ctx.cover(evaluations=r.summary["calls"], traces_validated_against_impl=1)
    ctx.take_failures(r, "c16")
