"""C14 - every service registration yields route commands fabio itself accepts.

spec: Registration.tla (Expressible / Denote, Register->Build->Parse->Accepted|Dropped),
      ControlPlane.tla (instance state "bad": an inexpressible registration is dropped on its own;
      invariant Isolation, liveness EventuallyCorrect)
TLC : enumerates every registration of the bounded universe with its denotation; Isolation on every
      interleaving of the control plane
bind: each registration through the real routecmd.build -> route.NewTable (projection compared);
      inexpressible tag sets drawn from the same enumeration are served by the fake Consul to the real
      consul backend + update loop while other services change (pipeline of C01 with rotating bad tags)"""
import json, os, random
from lib import vf
from checks import c01

CFG = """SPECIFICATION GSpec
CONSTANTS
  BadNames <- MCBadNames
  BadWeights <- MCBadWeights
  BadGlobs <- MCBadGlobs
  QuoteTokens <- MCQuoteTokens
  LowerHost <- MCLowerHost
  MaxOpts = %d
  MaxTags = %d
INVARIANT OnlyExpressibleRouted
CHECK_DEADLOCK FALSE
"""
FILES = ["registry/consul/c14_test.go"]


def harness(ctx, cases, what):
    r = ctx.gotest("registry/consul", FILES, "^TestVerifC14$", env={"VERIF_IN": cases, "VERIF_SLICE": 1 if (ctx.thorough or ctx.replay) else 4}, timeout=900)
    if not ctx.need_go_ok(r, what):
        return None
    return r


def run(ctx):
    ctx.assumptions += [
        "universe: names {svc, 'my svc', ''}, addresses {IPv4, IPv6, none -> node address}, prefixes {/x, h.com/x, H.COM/x/Y, :1234, /[ (bad glob), nohost.com, a prefix with tab + line breaks + route commands}, <=2 (quick) / 3 (thorough) options of 16 (incl. a value containing '=') (weights incl. abc/Inf/NaN/1e999, strip, proto=tcp|https|grpc|ftp, host=dst, unknown k=v, an option with a double quote, redirect=301,url), <=2 other tags of {plain, with double quote, with backslash, non-ASCII, with a line break followed by route commands}",
        "scope: a malformed redirect option (no URL) and tags containing commas or white space are outside the universe: the statement does not say what they denote",
    ]
    cases = os.path.join(ctx.tmp, "c14.cases")
    g = ctx.tlc("Registration_MC", cfg_text=CFG % (ctx.pick(2, 3), 2), json_sink=cases, workers=8, timeout=1800)
    ctx.log("Registration Gen: %d states, %.0fs" % (g.distinct, g.wall))
    if not ctx.need_tlc_ok(g, "Registration Gen"):
        return
    ctx.cover("gen", states=g.distinct, transitions=g.generated)
    r = harness(ctx, cases, "C14 build/parse")
    if r is None:
        return
    s = r.summary
    ctx.log("build->parse: %d registrations (%d expressible), %d failed, %.0fs" % (s["cases"], s["expressible"], s["fails"], r.wall))
    ctx.cover("build", traces_validated_against_impl=s["cases"], evaluations=s["cases"], distinct_nontrivial=s["distinct_nontrivial"],
              samples=s.get("samples") or [], exhaustive=ctx.thorough,
              rule="every registration of the bounded universe (TLC three-level enumeration: option list, tag list, name x address x prefix); non-trivial = at least two options/extra tags")
    ctx.take_failures(r, "build")
    # binding self-test
    first = None
    for line in open(cases):
        c = json.loads(line)
        if c["expressible"] and c["reg"]["opts"]:
            first = c
            break
    first["denote"]["dst"] = {"scheme": "http", "hostport": "0.0.0.0:1", "url": ""}
    one = os.path.join(ctx.tmp, "c14.self")
    vf.write_ndjson(one, [first])
    r2 = harness(ctx, one, "C14 self-test")
    if r2 is not None and not r2.of_kind("fail"):
        ctx.inconclusive("binding self-test: a corrupted denotation was not rejected")

    # isolation, end to end: inexpressible tag sets rotate through the "bad" instances of the pipeline
    bad = []
    for line in open(cases):
        c = json.loads(line)
        if not c["expressible"] and c["reg"]["name"] == "svc" and c["reg"]["addr"] == "10.0.0.1":
            spell = {"@nonascii": "gr\u00fcn-\u65e5\u672c", "@newline": "x\"\nroute del svc-a\nroute add evil /evil http://10.6.6.6:666/\n#"}
            if c["reg"]["prefix"] == "@nlprefix":
                continue
            tags = ["urlprefix-" + c["reg"]["prefix"] + (" " + " ".join(c["reg"]["opts"]) if c["reg"]["opts"] else "")] + [spell.get(t, t) for t in c["reg"]["tags"]]
            bad.append(tags)
    rnd = random.Random(ctx.seed)
    rnd.shuffle(bad)
    bad = bad[:500]
    badfile = os.path.join(ctx.tmp, "c14.badtags")
    with open(badfile, "w") as fh:
        json.dump(bad, fh)
    mc = ctx.tlc("ControlPlane_MC", cfg_text=c01.cfg("Spec", c01.U3, 3, "INVARIANTS TypeOK Isolation QuiescentCorrect"),
                 workers=8, timeout=900)
    if not ctx.need_tlc_ok(mc, "ControlPlane MC (Isolation)"):
        return
    ctx.cover("mc", states=mc.distinct, transitions=mc.generated)
    hist = os.path.join(ctx.tmp, "c14.hist")
    if c01.gen_histories(ctx, hist) is None:
        return
    # keep the histories in which some instance is inexpressible at some point
    keep = [ln for ln in open(hist) if '"state":"bad"' in ln]
    with open(hist, "w") as fh:
        fh.writelines(keep[:ctx.pick(400, 4000)])
    g2 = ctx.gotest(".", c01.MAIN_FILES, "^TestVerifC01$", env={"VERIF_IN": hist, "VERIF_BADTAGS": badfile, "VERIF_NAMING": "split,mon2"}, timeout=900)
    if g2.summary is None and "panic:" in g2.out and "watchBackend" in g2.out:
        ctx.violation({"sub": "pipeline", "crash": True}, "the update loop crashed the process:\n" + g2.out[-3000:],
                      replay={"sub": "pipeline-crash", "case": None})
        return
    if not ctx.need_go_ok(g2, "C14 pipeline"):
        return
    s2 = g2.summary
    ctx.log("isolation pipeline: %d histories with inexpressible registrations (%d bad tag sets), %d steps compared, %d failed, %.0fs"
            % (s2["histories"], len(bad), s2["compared"], s2["fails"], g2.wall))
    ctx.cover("pipeline", traces_validated_against_impl=s2["histories"], evaluations=s2["compared"])
    ctx.take_failures(g2, "pipeline")
    r3 = c01.validate_trace(ctx, s2["trace"], "recorded trace", split=True)
    if r3 is None:
        return
    if r3.ok:
        ctx.cover("trace", traces_validated_against_impl=1, states=r3.distinct, transitions=r3.generated)
    else:
        ctx.violation({"sub": "trace", "why": r3.violated},
                      "the execution recorded from the real backend + update loop is not a behaviour of ControlPlane (%s)" % r3.violated,
                      replay={"sub": "trace", "case": None})


def replay(ctx, rp):
    if rp["replay"]["sub"] != "build":
        ctx.inconclusive("replay of %s: re-run the check" % rp["replay"]["sub"])
        return
    one = os.path.join(ctx.tmp, "c14.replay")
    vf.write_ndjson(one, [rp["replay"]["case"]])
    r = harness(ctx, one, "C14 replay")
    if r is not None:
        ctx.cover(evaluations=1)
        ctx.take_failures(r, "build")
