"""C02 - table replacement is atomic, keeps the last good table, never crashes.

spec: UpdateLoop.tla (update loop / custom poll loop: Same, Reject, Install; no crash action),
      TableSwap.tla (atomic register: writer installs versions, a lookup loads once and uses k times),
      RouteHostile_MC.tla (grammar of hostile command texts; outcome accepted|rejected, never crash)
TLC : LastGood / InvalidKeeps / NextValidApplied / AtSelectCurrent exhaustively; ReaderSingleVersion
bind: S->C every update sequence through the real main.watchBackend (scripted registry.Backend, and the
      real custom backend against a scripted HTTP endpoint); hostile texts through NewTable /
      NewTableCustom + lookups under recover; C->S concurrent lookups during table swaps recorded
      (-race) and validated against TableSwap_Trace."""
import json, os
from lib import vf

GEN = """SPECIFICATION GSpec
CONSTANTS
  SvcMsgs <- %s
  ManMsgs <- %s
  Bad <- %s
  Den <- %s
  MaxSteps = %d
INVARIANTS GConsistent
CHECK_DEADLOCK FALSE
"""
MC = """SPECIFICATION Spec
CONSTANTS
  SvcMsgs <- %s
  ManMsgs <- %s
  Bad <- %s
  Den <- %s
  MaxSteps = %d
INVARIANTS LastGood NeverDies AtSelectCurrent
PROPERTIES InvalidKeeps NextValidApplied
CHECK_DEADLOCK FALSE
"""
U = ("MCSvc", "MCMan", "MCBad", "MCDen")
UC = ("MCSvcC", "MCManC", "MCBadC", "MCDenC")
FILES = ["main/c02_test.go"]


def crashed(ctx, g, sub):
    if g.summary is None and "panic:" in g.out:
        ctx.violation({"sub": sub, "crash": True}, "the process crashed:\n" + g.out[-3500:], replay={"sub": sub + "-crash", "case": None})
        return True
    return False


def histories(ctx, u, n, test, sub):
    mc = ctx.tlc("UpdateLoop_MC", cfg_text=MC % (u + (n + 1,)), workers=4, timeout=600, coverage=ctx.thorough)
    if not ctx.need_tlc_ok(mc, "UpdateLoop MC " + sub):
        return False
    if ctx.thorough and mc.coverage0:
        ctx.inconclusive("UpdateLoop actions never taken: %s" % mc.coverage0)
    ctx.cover("mc-" + sub, states=mc.distinct, transitions=mc.generated)
    cases = os.path.join(ctx.tmp, "c02.%s.hist" % sub)
    g = ctx.tlc("UpdateLoop_Gen", cfg_text=GEN % (u + (n,)), json_sink=cases, workers=4, timeout=600)
    if not ctx.need_tlc_ok(g, "UpdateLoop Gen " + sub):
        return False
    ctx.cover("gen-" + sub, states=g.distinct, transitions=g.generated)
    r = ctx.gotest(".", FILES, "^%s$" % test, env={"VERIF_IN": cases}, timeout=900)
    if crashed(ctx, r, sub):
        return True
    if not ctx.need_go_ok(r, "C02 " + sub):
        return False
    s = r.summary
    ctx.log("%s: %d update sequences of %d steps replayed (%d steps), %d failed, %.0fs" % (sub, s["histories"], n, s["steps"], s["fails"], r.wall))
    ctx.cover(sub, traces_validated_against_impl=s["histories"], evaluations=s["steps"], distinct_nontrivial=s["histories"], samples=s.get("samples") or [])
    ctx.take_failures(r, sub)
    # binding self-test
    first = json.loads(open(cases).readline())
    for st in first["steps"]:
        st["expect"] = ["t9"]
    one = os.path.join(ctx.tmp, "c02.%s.self" % sub)
    vf.write_ndjson(one, [first])
    r2 = ctx.gotest(".", FILES, "^%s$" % test, env={"VERIF_IN": one}, timeout=300)
    if ctx.need_go_ok(r2, "C02 %s self-test" % sub) and not r2.of_kind("fail"):
        ctx.inconclusive("binding self-test (%s): corrupted expectation not rejected" % sub)
    return True


def run(ctx):
    ctx.tlaps("UpdateLoop_Proof", ["UpdateLoop"])
    ctx.tlaps("ControlPlane_Proof", ["ControlPlane"])
    ctx.tlaps("TableSwap_Proof", ["TableSwap"])
    ctx.assumptions += [
        "update sequences: every sequence of 4 (quick) / 5 (thorough) messages over service texts {empty, v1, v2, invalid} and manual texts {empty, m1, invalid} (invalid texts drawn by seed from a list of rejected commands); custom backend: every sequence of 3/4 poll answers over {j1, j2, [], truncated JSON, invalid command, HTTP 500}",
    ]
    if not histories(ctx, U, ctx.pick(4, 5), "TestVerifC02Loop", "loop"):
        return
    if not histories(ctx, UC, ctx.pick(3, 4), "TestVerifC02Custom", "custom"):
        return
    from checks import c02_more
    c02_more.run(ctx)
    ctx.cover(rule="update sequences enumerated by TLC (all of the stated length), hostile command scripts enumerated from the grammar x token classes, recorded concurrent swap/lookup runs; non-trivial = distinct sequence/script")


def replay(ctx, rp):
    sub = rp["replay"]["sub"]
    test = {"loop": "TestVerifC02Loop", "custom": "TestVerifC02Custom"}.get(sub)
    if not test or not rp["replay"].get("case"):
        from checks import c02_more
        return c02_more.replay(ctx, rp)
    one = os.path.join(ctx.tmp, "c02.replay")
    vf.write_ndjson(one, [rp["replay"]["case"]])
    r = ctx.gotest(".", FILES, "^%s$" % test, env={"VERIF_IN": one}, timeout=300)
    if crashed(ctx, r, sub):
        return
    if ctx.need_go_ok(r, "C02 replay"):
        ctx.cover(evaluations=1)
        ctx.take_failures(r, sub)
