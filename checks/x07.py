"""X07 - specification growth: the Vault certificate sources (type=vault, type=vault-pki) and the token of
the Vault client - the part of certificate handling that C11 leaves out of scope.  Not one of the 20 listed
properties (not in MANIFEST.json); run by `bin/check X07`.

spec: VaultCerts.tla (A: KV refresh loop, B: PKI on-demand issuer, C: token renewal), VaultCerts_MC.tla
      (universes), VaultCerts_Gen.tla (histories), VaultCerts_Trace.tla (trace validation of part B)
TLC : A  ARegIsLastGood ABadNeverPublishes ANoSpin ARoundsInTime (+ liveness AConverges) on the documented
         design; the named deviations ReadErrorDropsEntry / FieldlessIgnored / SpinOnError must violate them
      B  BRightName BCacheBounded BStoreOnePerName BOneFlight BFailedRetries on every interleaving of
         concurrent handshakes, timers, expiry and faults; BServedFromCache and BExpiredNeverPresented hold for
         the documented design and are violated by AsyncInstall / ServesExpired (what the code does)
      C  CTokenKept CNoSpin; LookupFailDisables must violate CTokenKept
bind: harness/cert/x07_vault_test.go + harness/x/x07vault.go (fake Vault HTTP API, every request one log event):
      S->C  TLC-generated histories replayed against the real VaultSource / VaultPKISource / vaultClient behind
            the real TLSConfig with real TLS handshakes (KV histories on a v1, a v2 and a pre-0.10 mount);
      C->S  concurrent handshakes under -race, recorded with the fake's request log, validated by
            VaultCerts_Trace; a data race with a frame in cert/ is a violation.
      The deviation constants are PROBED on the tree first; histories and traces are generated / validated for
      the probed values, every deviation that is present is printed as a LEAD."""
import json, os, random, re, threading, time
from lib import vf

FILES = ["cert/x07_vault_test.go"]
REFRESH_MS, SEC_MS, PKIREFRESH_MS = 60, 100, 800

BASE = dict(KNames="<- MCKNames1", Refresh="= 2", MaxLoads="= 1", MaxEnv="= 1", ReadErrorDropsEntry="= FALSE",
            FieldlessIgnored="= FALSE", SpinOnError="= FALSE", PNames="<- MCPNames1", Clients="<- MCClients1",
            MaxIssue="= 1", MaxHs="= 1", Strict="= TRUE", AsyncInstall="= FALSE", ServesExpired="= FALSE",
            TTL="= 2", MaxT="= 4", LookupFailDisables="= FALSE", IssueFaults="<- MCIssueFaults")
A_INV = "INVARIANTS ATypeOK ARegIsLastGood ABadNeverPublishes ANoSpin ARoundsInTime\n"
B_SAFE = "INVARIANTS BTypeOK BRightName BCacheBounded BStoreOnePerName BOneFlight BFailedRetries\n"
B_DOC = "INVARIANTS BServedFromCache BExpiredNeverPresented\n"
C_INV = "INVARIANTS CTypeOK CTokenKept CNoSpin\n"


def cfg(spec, rest="", gen=False, **kw):
    c = dict(BASE)
    for k, v in kw.items():
        c[k] = v if isinstance(v, str) and (v.startswith("=") or v.startswith("<-")) else "= %s" % (str(v).upper() if isinstance(v, bool) else v)
    lines = ["SPECIFICATION %s" % spec, "CONSTANTS"] + ["  %s %s" % (k, v) for k, v in c.items()]
    lines += ["  c1 = c1", "  c2 = c2", "  c3 = c3"]
    if gen and "GWide" not in c:
        lines += ["  GWide = FALSE"]
    if gen and "GSteps" not in c:
        lines += ["  GSteps = 0"]
    return "\n".join(lines) + "\n" + rest + "CHECK_DEADLOCK FALSE\n"


def violated(r):
    if r.violated:
        return r.violated
    m = re.search(r"Error: Temporal property (\S+) was violated", r.out)
    return m.group(1) if m else None


class Bg:
    def __init__(self, fn, *a, **kw):
        self.res = self.err = None

        def run():
            try:
                self.res = fn(*a, **kw)
            except Exception as e:        # noqa
                self.err = e
        self.th = threading.Thread(target=run)
        self.th.start()

    def get(self):
        self.th.join()
        if self.err:
            raise self.err
        return self.res


# ------------------------------------------------------------------ model checking
def models(ctx):
    """(name, Bg, must_hold | name of the invariant that must be violated)"""
    th = ctx.thorough
    A = dict(KNames="<- MCKNames", MaxLoads=ctx.pick(4, 5), MaxEnv=ctx.pick(2, 3))
    B = dict(PNames="<- MCPNames", Clients="<- MCClients2", MaxIssue=2, MaxHs=2, MaxEnv=1)
    B3 = dict(B, Clients="<- MCClients3", MaxHs=1)
    Bc = dict(PNames="<- MCPNames", Clients="<- MCClients2", MaxIssue=2, MaxHs=1, MaxEnv=1)
    C = dict(TTL=ctx.pick(2, 3), MaxT=ctx.pick(14, 20), MaxEnv=ctx.pick(3, 4))
    jobs = [
        ("A documented design", "MCASpec", A_INV, A, None, 4),
        ("A ReadErrorDropsEntry", "MCASpec", A_INV, dict(A, ReadErrorDropsEntry=True), "ABadNeverPublishes", 2),
        ("A FieldlessIgnored", "MCASpec", A_INV, dict(A, FieldlessIgnored=True), "ABadNeverPublishes", 2),
        ("A SpinOnError", "MCASpec", A_INV, dict(A, SpinOnError=True), "ANoSpin", 2),
        ("A liveness", "MCALive", "PROPERTY AConverges\n", dict(KNames="<- MCKNames1", MaxLoads=3, MaxEnv=2), None, 2),
        ("B documented design", "BSpec", B_SAFE + B_DOC, B, None, 6),
        ("B as the code is (safety that must survive)", "BSpec", B_SAFE, dict(Bc, AsyncInstall=True, ServesExpired=True), None, 6),
        ("B AsyncInstall", "BSpec", B_DOC, dict(B, AsyncInstall=True), "BServedFromCache", 4),
        ("B ServesExpired", "BSpec", B_DOC, dict(B, ServesExpired=True), "BExpiredNeverPresented", 4),
        ("B strictmatch=false", "BSpec", B_SAFE + B_DOC, dict(B, Strict=False, MaxHs=ctx.pick(1, 2)), None, 6),
        ("C documented design", "CSpec", C_INV, C, None, 2),
        ("C LookupFailDisables", "CSpec", C_INV, dict(C, LookupFailDisables=True), "CTokenKept", 2),
    ]
    if th:
        jobs.append(("B documented design, 3 clients", "BSpec", B_SAFE + B_DOC, B3, None, 6))
    out = []
    for name, spec, inv, kw, must, w in jobs:
        cov = th and must is None and spec != "MCALive"
        out.append((name, Bg(ctx.tlc, "VaultCerts_MC", cfg_text=cfg(spec, inv, **kw), workers=w, timeout=ctx.pick(240, 800), coverage=cov), must, cov))
        time.sleep(0.15)
    return out


def judge_models(ctx, jobs):
    ok = True
    states = trans = 0
    for name, bg, must, cov in jobs:
        r = bg.get()
        v = violated(r)
        if must is None:
            if not ctx.need_tlc_ok(r, "VaultCerts %s" % name) or v:
                if v:
                    ctx.inconclusive("VaultCerts %s: model violates %s" % (name, v))
                ok = False
                continue
            states += r.distinct or 0
            trans += r.generated or 0
            if cov:
                dead = [m for m in re.findall(r"<(\w+) line \d+, col \d+ to line \d+, col \d+ of module VaultCerts(?:_MC)?>: 0:0", r.out)]
                part = name[0]
                dead = [d for d in dead if d not in ("HsFallback", "HsCached") and (d[0] == part or d.startswith({"A": "K", "B": "Hs", "C": "T"}[part]))]
                if dead:
                    ctx.inconclusive("VaultCerts %s: actions never taken: %s" % (name, dead))
                    ok = False
            ctx.log("TLC %-48s holds: %d states, %d transitions, %.0fs" % (name, r.distinct or 0, r.generated or 0, r.wall))
        else:
            if r.timed_out or (r.error and not v):
                ctx.inconclusive("VaultCerts %s: %s" % (name, r.error or "timed out"))
                ok = False
            elif v != must:
                ctx.inconclusive("VaultCerts %s: the deviation must violate %s, TLC reports %r (the property would be vacuous)" % (name, must, v))
                ok = False
            else:
                ctx.log("TLC %-48s violates %s as it must (%.0fs)" % (name, must, r.wall))
    ctx.cover("model", states=states, transitions=trans)
    return ok


# ------------------------------------------------------------------ scaled sources
def scaled_sources(ctx):
    """copies of three files of cert/ in which the hard-coded time floors are scaled down (overlay only)"""
    d = os.path.join(ctx.tmp, "scaled")
    os.makedirs(d, exist_ok=True)
    out = {}
    for rel, pat, ms in (("cert/watch.go", "time.Second", REFRESH_MS), ("cert/vault_client.go", "time.Second", SEC_MS),
                         ("cert/vault_pki_source.go", "time.Hour", PKIREFRESH_MS)):
        try:
            src = open(os.path.join(vf.REPO, rel)).read()
        except OSError as e:
            ctx.inconclusive("cannot read %s: %s" % (rel, e))
            return None
        if pat not in src:
            ctx.log("note: %s no longer contains %s; it is used unscaled" % (rel, pat))
            continue
        p = os.path.join(d, rel.replace("/", "_"))
        with open(p, "w") as fh:
            fh.write(src.replace(pat, "(%d * time.Millisecond)" % ms))
        out[rel] = p
    return out


def go(ctx, env, scaled, what, timeout):
    e = {"VERIF_X07_REFRESH_MS": REFRESH_MS if "cert/watch.go" in scaled else 1000,
         "VERIF_X07_SEC_MS": SEC_MS if "cert/vault_client.go" in scaled else 1000,
         "VERIF_X07_PKIREFRESH_MS": PKIREFRESH_MS if "cert/vault_pki_source.go" in scaled else 3600000}
    e.update(env)
    g = ctx.gotest("cert", FILES, "^TestVerifX07$", env=e, race=True, timeout=timeout, extra_files=scaled)
    if not ctx.need_go_ok(g, what):
        return None
    s = g.summary
    if s.get("infra"):
        ctx.inconclusive("%s: %d infrastructure problems: %s" % (what, s["infra"], s.get("infra_msgs")))
        return None
    return g


def race_blocks(out):
    blocks, cur = [], None
    for line in out.splitlines():
        if line.startswith("WARNING: DATA RACE"):
            cur = [line]
        elif cur is not None:
            cur.append(line)
            if line.startswith("=================="):
                blocks.append(cur)
                cur = None
    if cur:
        blocks.append(cur)
    return blocks


def race_in_cert(out):
    where = []
    for b in race_blocks(out):
        for line in b:
            m = re.match(r"\s+(/\S+?/cert/([\w.-]+\.go)):(\d+)", line)
            if not m or m.group(2).startswith("zz_verif_") or not m.group(1).startswith(vf.REPO.rstrip("/") + "/"):
                continue
            w = "cert/%s:%s" % (m.group(2), m.group(3))
            if w not in where:
                where.append(w)
    return where


CORRUPT_A = {"a": [{"kv": {"a": "g1"}, "fault": "none", "kind": "good", "need": "good", "pub": "y", "gap": "n", "reg": {"a": "g1"}}], "corrupt": True}
CORRUPT_B = {"b": [{"op": "hs", "name": "a", "id": 0, "ids": []}, {"op": "issue", "name": "a", "id": 1, "ids": []},
                   {"op": "install", "name": "", "id": 0, "ids": [1]}, {"op": "end", "name": "a", "id": 1, "ids": []}], "corrupt": True}
CORRUPT_C = {"c": [{"req": "lookup", "at": 0, "ok": True}, {"req": "renew", "at": 2, "ok": True}], "renewable": True, "dead": False, "ttl": 2, "kpc": "timer", "corrupt": True}

LEADS = {
    "ReadErrorDropsEntry": "VaultSource.load skips an entry that is LISTED but cannot be READ (500, permission denied on one secret: `continue` after a [WARN]) and publishes the rest: the certificate silently drops out of the set in effect and its name is served the fallback / refused, although the documentation's 'refresh' reading (and the other sources, e.g. http: one failing file fails the load) keeps the previous set when something present is unusable",
    "FieldlessIgnored": "a secret below the certificate path that has neither a `cert` nor a `key` field is ignored without any log line and the rest is published (a secret with only one of the two fields makes the whole load fail, as it must)",
    "LookupFailDisables": "vaultClient.keepTokenAlive returns for good when the single lookup-self at client creation fails (one 500 / sealed answer at start-up): the token is never renewed although it is renewable and Vault is healthy a moment later; it expires after its TTL and every later refresh / issue fails with 403 until fabio is restarted",
    "ServesExpired": "VaultPKISource: when the re-issue that the timer starts fails it is logged and never retried ('TODO: Now what?'); the expired certificate stays in the store, GetCertificate never looks at NotAfter, so every later handshake for the name is presented the EXPIRED certificate and no issue request is ever made again for it",
}


def probe_and_selftest(ctx, scaled):
    a, b, c = (os.path.join(ctx.tmp, "x07.corrupt." + x) for x in "abc")
    vf.write_ndjson(a, [CORRUPT_A])
    vf.write_ndjson(b, [CORRUPT_B])
    vf.write_ndjson(c, [CORRUPT_C])
    g = go(ctx, {"VERIF_X07_PROBE": 1, "VERIF_X07_A": a, "VERIF_X07_B": b, "VERIF_X07_C": c}, scaled, "X07 probe + binding self-test", 300)
    if g is None:
        return None
    subs = {f.get("features", {}).get("sub") for f in g.of_kind("fail")}
    if subs != {"kv", "pki", "token"}:
        ctx.inconclusive("binding self-test: a corrupted expectation was NOT rejected by the harness for %s (fail records: %s)"
                         % (sorted({"kv", "pki", "token"} - subs), [f.get("msg", "")[:200] for f in g.of_kind("fail")]))
        return None
    p = g.of_kind("probe")
    if not p:
        ctx.inconclusive("probe produced no record")
        return None
    p = p[-1]
    for k in ("ReadErrorDropsEntry", "FieldlessIgnored", "LookupFailDisables", "ServesExpired"):
        if k not in p:
            ctx.inconclusive("probe could not measure %s: %s" % (k, p))
            return None
    return p


# ------------------------------------------------------------------ generators
def gen_a(ctx, dev):
    hs = []
    kw = dict(KNames="<- MCKNames", MaxLoads=3, MaxEnv=0, ReadErrorDropsEntry=dev["ReadErrorDropsEntry"], FieldlessIgnored=dev["FieldlessIgnored"])
    r = ctx.tlc("VaultCerts_Gen", cfg_text=cfg("GASpec", "VIEW GAView\n", gen=True, **kw), workers=4, timeout=300)
    if not ctx.need_tlc_ok(r, "VaultCerts_Gen A"):
        return None
    hs += [j for j in r.json if "a" in j]
    n_bfs = len(hs)
    n = ctx.pick(60, 600)
    r2 = ctx.tlc("VaultCerts_Gen", cfg_text=cfg("GASpec", gen=True, **dict(kw, MaxLoads=8, GWide=True)), simulate=n, depth=30, seed=ctx.seed, timeout=300)
    if r2.timed_out or r2.error:
        ctx.inconclusive("VaultCerts_Gen A (simulation): %s" % (r2.error or "timed out"))
        return None
    sim = [j for j in r2.json if "a" in j]
    hs += sim
    # keep maximal histories (a prefix is replayed by its extension)
    keys = {json.dumps(h["a"], sort_keys=True) for h in hs}
    out, seen = [], set()
    for h in sorted(hs, key=lambda h: -len(h["a"])):
        k = json.dumps(h["a"], sort_keys=True)
        if k in seen:
            continue
        seen.add(k)
        for i in range(1, len(h["a"])):
            seen.add(json.dumps(h["a"][:i], sort_keys=True))
        out.append(h)
    ctx.log("Gen A: %d transitions enumerated (3 rounds, one change per round), %d simulated wide histories -> %d maximal histories" % (n_bfs, len(sim), len(out)))
    ctx.cover("gen", transitions=(r.generated or 0))
    return out


def gen_b(ctx, dev):
    hs = []
    for strict in (True, False):
        kw = dict(PNames="<- MCPNames", Clients="<- MCClients1", MaxIssue=9, MaxHs=99, MaxEnv=99, AsyncInstall=True,
                  ServesExpired=dev["ServesExpired"], Strict=strict, GSteps=ctx.pick(5, 6) if strict else ctx.pick(4, 5))
        r = ctx.tlc("VaultCerts_Gen", cfg_text=cfg("GBSpec", gen=True, **kw), workers=6, timeout=500)
        if not ctx.need_tlc_ok(r, "VaultCerts_Gen B"):
            return None
        for j in r.json:
            if "b" in j:
                if not strict:
                    j["nonstrict"] = True
                hs.append(j)
        ctx.cover("gen", transitions=(r.generated or 0))
    return hs


def gen_c(ctx, dev):
    hs = []
    for ttl, maxt in ((2, 12), (3, 14)) + (((4, 18),) if ctx.thorough else ()):
        r = ctx.tlc("VaultCerts_Gen", cfg_text=cfg("GCSpec", gen=True, TTL=ttl, MaxT=maxt, LookupFailDisables=dev["LookupFailDisables"]), workers=2, timeout=200)
        if not ctx.need_tlc_ok(r, "VaultCerts_Gen C"):
            return None
        hs += [j for j in r.json if "c" in j]
        ctx.cover("gen", transitions=(r.generated or 0))
    return hs


def pick_b(ctx, hs, n):
    """all histories with a re-issue round first (they are the expensive, interesting ones), the rest sampled"""
    rnd = random.Random(ctx.seed)
    loose = [h for h in hs if h.get("nonstrict")]
    hs = [h for h in hs if not h.get("nonstrict")]
    rounds = [h for h in hs if any(e["op"] == "round" for e in h["b"])]
    plain = [h for h in hs if not any(e["op"] == "round" for e in h["b"])]
    for q in (rounds, plain, loose):
        rnd.shuffle(q)
    loose.sort(key=lambda h: any(e["op"] == "round" for e in h["b"]))     # the cheap ones first
    kl = min(len(loose), n // 5)
    k = min(len(rounds), (n - kl) * 2 // 3)
    return rounds[:k] + plain[:max(0, n - kl - k)] + loose[:kl]


# ------------------------------------------------------------------ trace validation
def validate(ctx, path, timeout, eager=False):
    return ctx.tlc("VaultCerts_Trace", cfg="VaultCerts_TraceEager" if eager else "VaultCerts_Trace", workers=1, env={"VERIF_TRACE": path}, timeout=timeout)


def head_segments(src, dst, n):
    k = 0
    with open(dst, "w") as out:
        for line in open(src):
            if '"Reset"' in line:
                k += 1
                if k > n:
                    break
            out.write(line)


def stuck_at(r):
    for j in r.json:
        if isinstance(j, dict) and "stuck" in j:
            return int(j["stuck"])
    m = re.search(r'stuck\\?":(\d+)', r.out)
    return int(m.group(1)) if m else 0


def corrupt_trace(src, dst):
    lines = [json.loads(l) for l in open(src)]
    idx = [i for i, e in enumerate(lines) if e["ev"] == "HsEnd" and e["id"] > 0]
    if not idx:
        return False
    i = idx[len(idx) // 2]
    lines[i]["id"] += 1
    vf.write_ndjson(dst, lines)
    return True


def run(ctx):
    ctx.level = "model_checking"
    ctx.assumptions += [
        "oracle: docs/content/feature/certificate-stores.md (Vault), ref/proxy.cs.md (Vault, Vault PKI), feature/vault.md, fabio.properties (proxy.cs), ref/proxy.addr.md (strictmatch) and C11's reading of unusable material: something PRESENT that cannot be used (secret listed but unreadable, only one of cert/key, broken PEM, neither field) makes the load unusable as a whole and the previous set stays; an ABSENT entry is a legitimate smaller set",
        "A: a refresh round is atomic with respect to writes to Vault (no write between LIST and the reads); entry names are lower-case host names, one certificate per entry, no client CAs; 2 entry names x 8 entry states x 7 faults of a round; every history on a KV v1 mount, a KV v2 mount and a Vault without the sys/internal/ui/mounts endpoint: the expectations do not mention the mount",
        "A time: the 1 s floor of cert/watch.go is scaled to %d ms by an overlay copy of the file (the repository is not touched); 'no spin' is judged as a lower bound only (a round that published nothing and the next one are at least refresh/3 apart); 'takes effect within one refresh' is judged causally (the set is in effect when the first round after the write has ended)" % REFRESH_MS,
        "B: listeners with strictmatch=true, and with strictmatch=false, where proxy.addr documents the fall-back to 'the first certificate' (HsFallback; which one is first is left open: the snapshot is built from a map); server names are lower-case; Vault PKI answers: issued, 500, sealed, 403, malformed JSON, no private_key, no certificate, broken PEM; x509 times have a resolution of one second, so the re-issue round is played with real 2 s certificates and the one-hour floor of the refresh option scaled to %d ms; one re-issue round and one expiry per history" % PKIREFRESH_MS,
        "B concurrency: what IS promised is golang.org/x/sync/singleflight in TLSConfig - the handshakes that wait for a name share one issue request (BOneFlight); timers are outside of it; traces are recorded with 1-hour certificates (no timers)",
        "C: one Vault second is scaled to %d ms (overlay copy of cert/vault_client.go); the fake enforces the expiry by the wall clock; a history that disagrees is repeated and reported when it disagrees twice while the process was not frozen" % SEC_MS,
        "the named deviations are probed on the tree; histories and traces are generated / validated for the probed values; AsyncInstall (GetCertificate consults only the asynchronously updated store) is always TRUE in the trace specification (its behaviours include those of the documented design)",
        "out of scope: vaultfetchtoken, wrapped tokens, client CA loading (clientca), TLS to Vault, namespaces, KV v2 soft-deleted versions",
    ]
    scaled = scaled_sources(ctx)
    if scaled is None:
        return
    # the generators start at once for the deviations this tree is expected to show; they run again if the probe differs
    guess = {k: True for k in ("ReadErrorDropsEntry", "FieldlessIgnored", "LookupFailDisables", "ServesExpired")}
    early = []
    for fn in (gen_a, gen_b, gen_c):
        early.append(Bg(fn, ctx, guess))
        time.sleep(0.2)
    mjobs = models(ctx)
    pr = probe_and_selftest(ctx, scaled)
    if pr is None:
        for b in early:
            b.get()
        judge_models(ctx, mjobs)
        return
    dev = {k: bool(pr[k]) for k in ("ReadErrorDropsEntry", "FieldlessIgnored", "LookupFailDisables", "ServesExpired")}
    ctx.log("probe: %s" % pr)
    for k, v in dev.items():
        if v:
            ctx.log("LEAD (%s): %s" % (k, LEADS[k]))
    if pr.get("DupIssueWindow"):
        ctx.log("LEAD (AsyncInstall): VaultPKISource.Issue caches the certificate in s.certs, but GetCertificate only consults the certificate store, which is updated later by `go func() { s.certsCh <- allCerts }()` goroutines (unordered) and the TLSConfig goroutine: with that goroutine held for a moment, two consecutive handshakes for one name caused %s issue requests - the cache is not what handshakes are served from; every duplicate arms one more re-issue timer chain for the name, and an older snapshot delivered last removes a newer certificate from the store" % pr.get("DupIssueRequests"))
    if pr.get("ShortTTLSpin"):
        ctx.log("LEAD (ShortTTLSpin): a certificate whose life time is not longer than the refresh option (floor: one hour) makes Issue arm its timer with a negative duration: the re-issue fires at once, the new certificate does the same - %s issue requests in %s ms" % (pr.get("ShortTTLSpinRequests"), pr.get("ShortTTLSpinWindowMs")))

    ha, hb, hc = [b.get() for b in early]
    if dev != guess:
        ga = Bg(gen_a, ctx, dev)
        time.sleep(0.2)
        gb = Bg(gen_b, ctx, dev)
        time.sleep(0.2)
        gc = Bg(gen_c, ctx, dev)
        ha, hb, hc = ga.get(), gb.get(), gc.get()
    if ha is None or hb is None or hc is None:
        judge_models(ctx, mjobs)
        return
    rnd = random.Random(ctx.seed)
    na = ctx.pick(220, 100000)
    if len(ha) > na:
        long_ = [h for h in ha if len(h["a"]) > 3]
        short = [h for h in ha if len(h["a"]) <= 3]
        rnd.shuffle(short)
        ha = long_ + short[:max(0, na - len(long_))]
    hb_all = len(hb)
    hb = pick_b(ctx, hb, ctx.pick(330, 6000))
    ctx.log("histories: A %d, B %d of %d (%d with a re-issue round), C %d" % (len(ha), len(hb), hb_all, sum(1 for h in hb if any(e["op"] == "round" for e in h["b"])), len(hc)))
    if len(ha) < 50 or len(hb) < 50 or len(hc) < 10:
        ctx.inconclusive("generators produced too few histories: A %d, B %d, C %d" % (len(ha), len(hb), len(hc)))
        judge_models(ctx, mjobs)
        return
    fa, fb, fc = (os.path.join(ctx.tmp, "x07.in." + x) for x in "abc")
    CA, CB = 500, 1500
    more = [(ha[i * CA:(i + 1) * CA], hb[i * CB:(i + 1) * CB]) for i in range(1, max((len(ha) + CA - 1) // CA, (len(hb) + CB - 1) // CB))]
    vf.write_ndjson(fa, ha[:CA])
    vf.write_ndjson(fb, hb[:CB])
    vf.write_ndjson(fc, hc)
    trace = os.path.join(ctx.tmp, "x07.trace")
    g = go(ctx, {"VERIF_X07_A": fa, "VERIF_X07_B": fb, "VERIF_X07_C": fc, "VERIF_X07_TRACE_OUT": trace,
                 "VERIF_X07_SEGMENTS": ctx.pick(50, 400), "VERIF_X07_CLIENTS": 6, "VERIF_X07_PER_CLIENT": 3},
           scaled, "X07 replay + recording", ctx.pick(400, 1500))
    if g is None:
        judge_models(ctx, mjobs)
        return
    s = g.summary
    # every history leaves a watcher goroutine with a connection behind: further histories go to further processes
    for k, (xa, xb) in enumerate(more):
        vf.write_ndjson(fa, xa)
        vf.write_ndjson(fb, xb)
        g2 = go(ctx, {"VERIF_X07_A": fa, "VERIF_X07_B": fb}, scaled, "X07 replay (process %d)" % (k + 2), 1500)
        if g2 is None:
            judge_models(ctx, mjobs)
            return
        if "WARNING: DATA RACE" in g2.out:
            g.out += g2.out
        ctx.take_failures(g2, "replay")
        for key, val in g2.summary.items():
            if isinstance(val, int) and not isinstance(val, bool) and key in s:
                s[key] += val
    ok_models = judge_models(ctx, mjobs)
    ctx.log("replay: kv %d histories x 3 mounts (%d rounds, %d handshakes); pki %d histories (%d handshakes, %d issues, %d re-issue rounds, %d retried, %d void); "
            "token %d histories (%d void); recorded %d handshakes / %d events (%d segments dropped); %d fails; %.0fs"
            % (s["kv_histories"], s["kv_rounds"], s["kv_handshakes"], s["pki_played"], s["pki_handshakes"], s["pki_issues"], s["pki_rounds"], s["pki_retries"], s["pki_void"],
               s["token_played"], s["token_void"], s["trace_handshakes"], s["trace_events"], s["trace_dropped"], s["fails"], g.wall))
    where = race_in_cert(g.out)
    if where:
        ctx.violation({"sub": "race", "clause": "data-race", "where": where[0]},
                      "race: the race detector reports unsynchronised access inside cert/ while handshakes, issues and installs run concurrently (frames: %s):\n%s"
                      % (", ".join(where[:6]), "\n".join(race_blocks(g.out)[0][:40])), replay={"sub": "race", "case": {"frames": where[:12]}})
    elif "WARNING: DATA RACE" in g.out:
        ctx.inconclusive("the race detector reported a data race outside cert/ (harness?)\n%s" % "\n".join(race_blocks(g.out)[0][:40]))
    ctx.take_failures(g, "replay")
    if s["pki_void"] > max(3, len(hb) // 20) or s["token_void"] > max(2, len(hc) // 10):
        ctx.inconclusive("too many histories could not be judged because the box stalled: pki %d, token %d" % (s["pki_void"], s["token_void"]))
    if s["kv_played"] != 3 * len(ha) or s["pki_played"] + s["pki_void"] != len(hb):
        ctx.inconclusive("not every history was played: kv %d of %d, pki %d of %d" % (s["kv_played"], 3 * len(ha), s["pki_played"], len(hb)))

    # ---- C->S
    accepted = 0
    if s.get("trace_handshakes", 0) < 100:
        ctx.inconclusive("only %d handshakes were recorded" % s.get("trace_handshakes", 0))
    else:
        # cross-check of the reduction in VaultCerts_Trace!TSpec: every silent step explicit, on a part
        small = os.path.join(ctx.tmp, "x07.trace.small")
        head_segments(trace, small, ctx.pick(1, 3))
        bg_eager = Bg(validate, ctx, small, ctx.pick(20, 240), eager=True)
        time.sleep(0.2)
        v = validate(ctx, trace, ctx.pick(300, 1200))
        nev = sum(1 for _ in open(trace))
        if v.violated == "postcondition":
            k = stuck_at(v)
            lines = [json.loads(l) for l in open(trace)]
            lo = max(i for i in range(k) if lines[i]["ev"] == "Reset") if k else 0
            ctx.violation({"sub": "trace", "clause": "not-a-behaviour", "event": lines[k - 1]["ev"] if k else "?"},
                          "trace: the recorded concurrent execution is not a behaviour of VaultCerts (part B); event #%d cannot be explained; the segment up to it:\n%s"
                          % (k, "\n".join(json.dumps(e) for e in lines[lo:k][-40:])), replay={"sub": "trace", "case": lines[lo:k + 20]})
        elif ctx.need_tlc_ok(v, "trace validation"):
            accepted = s["trace_handshakes"]
            stale, segs, seen = 0, 0, []
            for line in open(trace):
                e = json.loads(line)
                if e["ev"] == "Reset":
                    segs += 1
                    seen = []
                elif e["ev"] == "Install":
                    if any(set(e["ids"]) < set(p) for p in seen):
                        stale += 1
                    seen.append(e["ids"])
            if stale:
                ctx.log("LEAD (AsyncInstall, observed): in %d of %d recorded segments the store received an OLDER snapshot after a newer one (Install [1,2,3] followed by Install [1,2]): the certificate issued last is gone from the store although it is cached, the next handshake for its name issues again" % (stale, segs))
            ctx.log("trace validation: %d events accepted, %d states, %.0fs" % (nev, v.distinct or 0, v.wall))
            bad = os.path.join(ctx.tmp, "x07.trace.bad")
            if not corrupt_trace(trace, bad):
                ctx.inconclusive("binding self-test: no successful handshake in the trace to corrupt")
            else:
                vb = validate(ctx, bad, 300)
                if vb.violated != "postcondition":
                    ctx.inconclusive("binding self-test: a trace with one corrupted handshake result was NOT rejected (%r %s)" % (vb.violated, vb.error))
            ctx.cover("trace", states=v.distinct or 0, transitions=v.generated or 0)
            ve = bg_eager.get()
            bg_eager = None
            if ve.timed_out:
                ctx.log("note: the cross-check with explicit silent steps did not finish in time (not a verdict)")
            elif ve.violated or ve.error:
                ctx.inconclusive("VaultCerts_Trace: TSpec accepted the recording but TSpecEager rejects its first segments (%r %s)" % (ve.violated, ve.error))
            else:
                ctx.log("cross-check: first segments accepted with explicit silent steps (%d states, %.0fs)" % (ve.distinct or 0, ve.wall))
    if s.get("trace_handshakes", 0) >= 100 and bg_eager is not None:
        bg_eager.get()
    ctx.cover(traces_validated_against_impl=s["kv_played"] + s["pki_played"] + s["token_played"] + (s["trace_handshakes"] if accepted else 0),
              evaluations=s["kv_handshakes"] + s["pki_handshakes"] + s["kv_rounds"] + accepted,
              distinct_nontrivial=s["kv_nontrivial"] + s["pki_rounds"] + s["pki_issues"],
              samples=[json.dumps(ha[0])[:300], json.dumps(hb[0])[:300], json.dumps(hc[-1])[:300]],
              rule="S->C: every generated history replayed against the real sources (kv x 3 mount flavours); C->S: recorded handshakes accepted by VaultCerts_Trace; "
                   "non-trivial = kv rounds with unusable material or two entries, pki issues and re-issue rounds",
              exhaustive=False)


def replay(ctx, rp):
    feats = rp.get("features", {})
    sub = feats.get("sub")
    case = (rp.get("replay") or {}).get("case")
    scaled = scaled_sources(ctx)
    if scaled is None:
        return
    if sub == "trace":
        p = os.path.join(ctx.tmp, "x07.trace")
        vf.write_ndjson(p, case)
        v = validate(ctx, p, 300)
        if v.violated == "postcondition":
            ctx.violation(feats, rp.get("message", "trace rejected"), replay=rp.get("replay"))
        else:
            ctx.need_tlc_ok(v, "trace validation")
        return
    if sub == "race" or not case or "history" not in case:
        ctx.inconclusive("this finding is replayed by running the check again (bin/check X07)")
        return
    env = {}
    h = case["history"]
    p = os.path.join(ctx.tmp, "x07.replay")
    if sub == "kv":
        vf.write_ndjson(p, [{"a": h}])
        env["VERIF_X07_A"] = p
    elif sub == "pki":
        vf.write_ndjson(p, [{"b": h}])
        env["VERIF_X07_B"] = p
    else:
        vf.write_ndjson(p, [h])
        env["VERIF_X07_C"] = p
    g = go(ctx, env, scaled, "X07 replay", 300)
    if g is not None:
        ctx.take_failures(g, "replay")
