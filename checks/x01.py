"""X01 (specification growth) - fabio's self-registration and alias registrations with the Consul agent.

spec: Register.tla (agent catalog + TTL checks, be.dereg, one registration goroutine per entry, the
      update loop calling Register, the signal handler calling DeregisterAll, discrete time for the
      TTL refresh), Register_MC.tla (universes), Register_Gen.tla (macro-step histories with the
      catalog prescribed at quiescence), Register_Trace.tla (validation of recorded executions)
TLC : the documented design (no named deviation) satisfies QuiescentCorrect, NoForeign, NoOrphan,
      LiveInMap, AliasesFollowTable, ShutdownClean, NoReappear, NoStuckCaller, NeverExpired and the
      liveness properties Restored, ShutdownCompletes, ExitReaped; every named deviation of the code
      (UnsyncShutdown, InvalidDropsAliases, DeletedKeepsAlias) must violate the property it is named
      for; the design with all deviations still satisfies the remaining properties
bind: the deviations the real code exhibits are MEASURED first (probes); S->C histories generated for
      exactly that instance are replayed against the real consul backend (direct Register /
      DeregisterAll calls, 24 rigs in parallel) and against the real main.watchBackend (manual
      override texts with register= options); C->S the event logs of the fake agent are validated by
      Register_Trace; one run with the REAL refresh interval (no scaling)."""
import copy, json, os, random, re, tempfile, threading, time
from lib import vf

DEVS = ["UnsyncShutdown", "InvalidDropsAliases", "DeletedKeepsAlias"]
SAFE_ALL = "TypeOK OwnWanted QuiescentCorrect NoForeign NoOrphan LiveInMap AliasesFollowTable ShutdownClean NoStuckCaller NeverExpired"
SAFE_CODE = "TypeOK OwnWanted QuiescentCorrect NoForeign NoOrphan LiveInMap NeverExpired"
BE_FILES = ["registry/consul/x01_be_test.go"]
LOOP_FILES = ["main/x01_loop_test.go"]
SCALED_MS = 40


def b(v):
    return "TRUE" if v else "FALSE"


def cfg(spec="Spec", alias="MCAlias1", cands="MCCands1", enabled=True, maxcands=3, faults=1, fails=1, timed=False,
        refresh=2, ttl=3, devs=None, inv="", props="", extra=""):
    devs = devs or {}
    return """SPECIFICATION %s
CONSTANTS
  Alias <- %s
  Own = "fabio"
  Enabled = %s
  Cands <- %s
  MaxCands = %d
  MaxFaults = %d
  MaxRegFails = %d
  Timed = %s
  RefreshTicks = %d
  TTLTicks = %d
  UnsyncShutdown = %s
  InvalidDropsAliases = %s
  DeletedKeepsAlias = %s
%s
%s
%s
CHECK_DEADLOCK FALSE
""" % (spec, alias, b(enabled), cands, maxcands, faults, fails, b(timed), refresh, ttl,
       b(devs.get("UnsyncShutdown")), b(devs.get("InvalidDropsAliases")), b(devs.get("DeletedKeepsAlias")), extra,
       ("INVARIANTS " + inv) if inv else "", ("PROPERTIES " + props) if props else "")


def sub_ctx(ctx, name):
    """a shallow copy with a scratch directory of its own, so that TLC / go runs can be started from
    several threads (vf numbers its scratch directories per context)"""
    c = copy.copy(ctx)
    c.tmp = tempfile.mkdtemp(prefix=name + "-", dir=ctx.tmp)
    c._tlc_n = 0
    return c


class Pool:
    """runs jobs (callables returning a result) on at most n threads"""
    def __init__(self, n):
        self.sem = threading.Semaphore(n)
        self.th = []
        self.res = {}

    def go(self, key, fn):
        def run():
            with self.sem:
                try:
                    self.res[key] = fn()
                except Exception as e:  # reported by the caller as inconclusive
                    self.res[key] = e
        t = threading.Thread(target=run, daemon=True)
        t.start()
        self.th.append(t)

    def wait(self):
        for t in self.th:
            t.join()
        return self.res


# --------------------------------------------------------------------------- model checking
def mc_jobs(ctx):
    """(key, what, cfg text, expectation) - expectation None = must hold, else the property that must be violated"""
    T = ctx.thorough
    all3 = {d: True for d in DEVS}
    jobs = [
        ("doc", "documented design, safety", cfg(maxcands=3, inv=SAFE_ALL, props="NoReappear"), None, 2),
        ("code", "design with the three deviations of the code, remaining properties", cfg(maxcands=ctx.pick(2, 3), devs=all3, inv=SAFE_CODE), None, 3),
        ("doc-live", "documented design, liveness", cfg(maxcands=2, inv="TypeOK", props="Restored ShutdownCompletes"), None, 2),
        ("timed", "documented design with time, safety", cfg(maxcands=2, timed=True, inv=SAFE_ALL, props="NoReappear"), None, 2),
        ("v-shutdown", "UnsyncShutdown", cfg(devs={"UnsyncShutdown": True}, inv="ShutdownClean"), "ShutdownClean", 1),
        ("v-stuck", "UnsyncShutdown", cfg(devs={"UnsyncShutdown": True}, inv="NoStuckCaller"), "NoStuckCaller", 1),
        ("v-reappear", "UnsyncShutdown", cfg(devs={"UnsyncShutdown": True}, inv="TypeOK", props="NoReappear"), "NoReappear", 1),
        ("v-invalid", "InvalidDropsAliases", cfg(devs={"InvalidDropsAliases": True}, inv="AliasesFollowTable"), "AliasesFollowTable", 1),
        ("v-deleted", "DeletedKeepsAlias", cfg(devs={"DeletedKeepsAlias": True}, inv="AliasesFollowTable"), "AliasesFollowTable", 1),
        ("v-refresh", "refresh interval = TTL", cfg(maxcands=2, timed=True, refresh=3, inv="NeverExpired"), "NeverExpired", 1),
    ]
    if T:
        jobs += [
            ("doc2", "documented design, two aliases + own name as alias, safety",
             cfg(alias="MCAlias2", cands="MCCands2", maxcands=2, inv=SAFE_ALL, props="NoReappear"), None, 4),
            ("code2", "design with the deviations, two aliases",
             cfg(alias="MCAlias2", cands="MCCands2", maxcands=2, devs=all3, inv=SAFE_CODE), None, 4),
            ("off", "registration disabled, safety", cfg(enabled=False, maxcands=3, inv=SAFE_ALL, props="NoReappear"), None, 2),
            ("timed-live", "documented design with time, liveness",
             cfg(maxcands=2, timed=True, inv="TypeOK", props="Restored ShutdownCompletes ExitReaped"), None, 3),
            ("code-live", "design with the deviations, liveness of re-registration", cfg(maxcands=2, devs=all3, inv="TypeOK", props="Restored"), None, 2),
            ("v-shutlive", "UnsyncShutdown", cfg(maxcands=2, devs={"UnsyncShutdown": True}, inv="TypeOK", props="ShutdownCompletes"), "temporal", 2),
        ]
    return jobs


def model_check(ctx):
    pool = Pool(ctx.pick(3, 3))
    jobs = mc_jobs(ctx)
    for key, what, text, expect, workers in jobs:
        c = sub_ctx(ctx, "mc-" + key)
        cov = ctx.thorough and key == "timed"
        pool.go(key, (lambda c=c, text=text, workers=workers, cov=cov:
                      c.tlc("Register_MC", cfg_text=text, workers=workers, timeout=ctx.pick(240, 1500), coverage=cov)))
    return jobs, pool


def judge_mc(ctx, jobs, res):
    ok = True
    for key, what, text, expect, workers in jobs:
        r = res.get(key)
        if isinstance(r, Exception) or r is None:
            ctx.inconclusive("model checking %s: %r" % (key, r))
            ok = False
            continue
        if expect is None:
            ctx.log("MC %-10s %s: %d distinct states, depth %d, %.0fs" % (key, what, r.distinct, r.depth, r.wall))
            if not ctx.need_tlc_ok(r, "Register MC (%s)" % what):
                ok = False
                continue
            ctx.cover("mc-" + key, states=r.distinct, transitions=r.generated)
            if key == "timed" and ctx.thorough and r.coverage0:
                ctx.inconclusive("actions never taken in the timed model: %s" % r.coverage0)
        else:
            viol = r.violated
            if not viol and re.search(r"Temporal propert(y|ies) .*violated", r.out):
                viol = "temporal"
            if r.timed_out or (r.error and not viol):
                ctx.inconclusive("Register MC (%s must violate %s): %s" % (what, expect, r.error or "timeout"))
                ok = False
            elif viol != expect:
                ctx.inconclusive("the named deviation %s does not violate %s on the model (got %s): the specification does not say what it is meant to say"
                                 % (what, expect, viol))
                ok = False
            else:
                ctx.log("MC %-10s deviation '%s' violates %s as intended (%d states)" % (key, what, expect, r.distinct))
                ctx.cover("mc-" + key, states=r.distinct, transitions=r.generated)
    return ok


# --------------------------------------------------------------------------- binding
def scaled_register(ctx):
    """register.go of the tree under test with the refresh interval scaled down (the interval is a
    constant of the code; everything else is the code as it is)"""
    p = os.path.join(vf.REPO, "registry/consul/register.go")
    try:
        src = open(p).read()
    except OSError as e:
        ctx.inconclusive("cannot read %s: %s" % (p, e))
        return None
    new, n = re.subn(r"(\bTTLRefreshInterval\s*=\s*)[^\n]+", r"\g<1>time.Millisecond * %d" % SCALED_MS, src)
    if n != 1:
        ctx.inconclusive("register.go: the refresh interval constant TTLRefreshInterval was found %d times, cannot scale time" % n)
        return None
    out = os.path.join(ctx.tmp, "x01_register_scaled.go")
    open(out, "w").write(new)
    return out


def gen(ctx, devs, level, enabled, path):
    """exhaustive histories of <= k steps + seeded random longer ones"""
    cands = "MCCandsBe" if level == "be" else "MCLoopCands"
    k = ctx.pick(3, 4) if level == "be" else 3
    extra = '  Level = "%s"\n  MaxSteps = %%d' % level
    tmp = path + ".all"
    g = ctx.tlc("Register_Gen", cfg_text=cfg("GenSpec", "MCAlias2", cands, enabled, 100, 2, 0, devs=devs, inv="GenConsistent", extra=extra % k),
                json_sink=tmp, workers=2, timeout=600)
    if not ctx.need_tlc_ok(g, "Register Gen (%s)" % level):
        return None
    ctx.cover("gen-%s-%s" % (level, "on" if enabled else "off"), states=g.distinct, transitions=g.generated)
    n_ex = sum(1 for _ in open(tmp))
    depth = ctx.pick(7, 10)
    s = ctx.tlc("Register_Gen", cfg_text=cfg("GenSpec", "MCAlias2", cands, enabled, 100, 3, 0, devs=devs, inv="GenConsistent", extra=extra % depth),
                json_sink=tmp, simulate=ctx.pick(40, 400) if level == "be" else ctx.pick(12, 80), depth=depth + 1, seed=ctx.seed, timeout=600)
    if s.error or s.violated or s.timed_out:
        ctx.need_tlc_ok(s, "Register Gen simulation (%s)" % level)
        return None
    lines = open(tmp).read().splitlines()
    ex, sim = sorted(lines[:n_ex]), lines[n_ex:]
    return ex, sim


def validate(ctx, trace, devs, enabled, what):
    text = cfg("TSpec", "MCAlias2", "MCLoopCands", enabled, 10**8, 10**8, 10**8, devs=devs, inv=SAFE_CODE, extra="CONSTRAINT HW\nPOSTCONDITION Accepted")
    r = ctx.tlc("Register_Trace", cfg_text=text, workers=1, env={"VERIF_TRACE": trace}, timeout=ctx.pick(300, 1500))
    if r.timed_out or r.error:
        return None, r
    return r.ok, r


def unexplained(r, path):
    """the first event of a rejected trace that no behaviour of the specification explains, with its context"""
    m = re.search(r'"x01-unexplained", (\d+),', r.out)
    if not m:
        return r.out[-2500:]
    k = int(m.group(1))
    lines = open(path).read().splitlines()
    lo = max(0, k - 9)
    return "event #%d cannot be explained; the events before it and the event itself:\n%s" % (k, "\n".join(lines[lo:k]))


def be_level(ctx, scaled, devs, hist_on, hist_off, label="be"):
    g = ctx.gotest("registry/consul", BE_FILES, "^TestVerifX01Be$", env={"VERIF_IN": hist_on, "VERIF_X01_WORKERS": 24},
                   timeout=ctx.pick(300, 1200), extra_files={"registry/consul/register.go": scaled})
    return g


def lead_repro_run(c, scaled, thorough):
    return c.gotest("registry/consul", BE_FILES, "^TestVerifX01Leads$", timeout=300, race=thorough,
                    env={"VERIF_X01_RACE_ROUNDS": 40 if thorough else 10}, extra_files={"registry/consul/register.go": scaled})


def lead_repro(ctx, g):
    """consequences of UnsyncShutdown that no replayed history can contain (the call never returns); reported, never judged"""
    if isinstance(g, Exception) or g is None or g.summary is None:
        ctx.log("lead reproduction did not complete (not judged)")
        return
    s = g.summary
    race = "DATA RACE" in g.out
    ctx.log("LEAD reproduction: Register that drops an alias after DeregisterAll blocks for ever: %s; Register concurrent with DeregisterAll: %d of %d rounds left a caller blocked%s"
            % (s.get("register_after_deregisterall_blocks"), s.get("concurrent_calls_hung", 0), s.get("concurrent_rounds", 0),
               ("; the race detector reports a data race on be.dereg" if race else "; race detector: no report") if ctx.thorough else ""))
    ctx.cover(lead_reproduction={"register_after_deregisterall_blocks": s.get("register_after_deregisterall_blocks"),
                                 "concurrent_calls_hung": s.get("concurrent_calls_hung"), "rounds": s.get("concurrent_rounds"),
                                 "data_race_reported": race if ctx.thorough else None})


def run(ctx):
    ctx.assumptions += [
        "universe: own service 'fabio' (enabled / disabled), aliases a, b and the own name used as an alias; stimuli: Register calls / override texts with register= options (also on routes deleted again, also texts with a syntax error), the agent forgetting a service, failing register requests, DeregisterAll, table changes after DeregisterAll",
        "time is scaled for the replayed histories: the harness builds against a copy of register.go in which the constant TTLRefreshInterval (10 s) is %d ms, nothing else is changed; one run uses the real constant" % SCALED_MS,
        "the fake agent implements GET /v1/agent/services, PUT /v1/agent/service/register, PUT /v1/agent/service/deregister/<id>, PUT /v1/agent/check/update/<id>; a new TTL check starts critical",
        "quiescence = every goroutine the specification says is alive has had two TTL updates answered by the agent after the step (causal: covers one complete check-and-repair round)",
    ]
    scaled = scaled_register(ctx)
    if scaled is None:
        return
    jobs, mcpool = model_check(ctx)
    side = Pool(2)
    creal = sub_ctx(ctx, "real")
    side.go("real", lambda: creal.gotest("registry/consul", BE_FILES, "^TestVerifX01Real$", timeout=400))

    # ---- the deviations of the code are measured, not assumed
    pb = ctx.gotest("registry/consul", BE_FILES, "^TestVerifX01ProbeBe$", timeout=300, extra_files={"registry/consul/register.go": scaled})
    if not ctx.need_go_ok(pb, "X01 probe (backend)"):
        mcpool.wait(); side.wait()
        return
    pl = ctx.gotest(".", LOOP_FILES, "^TestVerifX01ProbeLoop$", timeout=300, extra_files={"registry/consul/register.go": scaled})
    if not ctx.need_go_ok(pl, "X01 probe (update loop)"):
        mcpool.wait(); side.wait()
        return
    devs = {"UnsyncShutdown": bool(pb.summary.get("unsync_shutdown")),
            "InvalidDropsAliases": bool(pl.summary.get("invalid_drops_aliases")),
            "DeletedKeepsAlias": bool(pl.summary.get("deleted_keeps_alias"))}
    ctx.log("measured deviations of the code: %s" % json.dumps(devs, sort_keys=True))
    for pr in (pb, pl):
        if pr.summary.get("failed"):
            ctx.log("  a probe could not establish its precondition (%s): the documented design is assumed there" % pr.summary["failed"])
    ctx.log("  after DeregisterAll the catalog is %s; Register([a b]) afterwards leaves %s" % (pb.summary.get("after_deregisterall"), pb.summary.get("after_register")))
    ctx.log("  after a text with a syntax error the catalog is %s while the active table asks for %s; after 'route add .. register=a' + 'route del' it is %s while the table asks for %s"
            % (pl.summary.get("after_bad"), pl.summary.get("active_after_bad"), pl.summary.get("after_adel"), pl.summary.get("active_after_adel")))
    leads = [d for d in DEVS if devs[d]]
    ctx.cover(leads=leads)
    if devs["UnsyncShutdown"]:
        cl = sub_ctx(ctx, "leads")
        side.go("leads", lambda: lead_repro_run(cl, scaled, ctx.thorough))

    # ---- S->C: histories for exactly this instance of the specification
    rnd = random.Random(ctx.seed)
    files = {}
    gp = Pool(3)
    levels = (("be", True), ("be", False), ("loop", True))
    for level, enabled in levels:
        key = "%s-%s" % (level, "on" if enabled else "off")
        c = sub_ctx(ctx, "gen-" + key)
        gp.go(key, lambda c=c, level=level, enabled=enabled, key=key: gen(c, devs, level, enabled, os.path.join(ctx.tmp, "x01.hist." + key)))
    gres = gp.wait()
    for level, enabled in levels:
        key = "%s-%s" % (level, "on" if enabled else "off")
        path = os.path.join(ctx.tmp, "x01.hist." + key)
        r = gres.get(key)
        if isinstance(r, Exception):
            ctx.inconclusive("Register Gen (%s): %r" % (key, r))
            r = None
        if r is None:
            mcpool.wait(); side.wait()
            return
        ex, sim = r
        if level == "be":
            cap = ctx.pick(170, 3500)
            if len(ex) > cap:
                ex = rnd.sample(ex, cap)
            sel = ex + sim
        else:
            no = [l for l in ex + sim if '"shutdown"' not in l]
            sh = [l for l in ex if '"shutdown"' in l and json.loads(l)["steps"][-1]["kind"] == "cand" and json.loads(l)["steps"][-2]["kind"] == "shutdown"]
            cap = ctx.pick(36, 330)
            must = [l for l in no if [st["id"] for st in json.loads(l)["steps"]] in (["a", "bad", "a"], ["a", "adel", "a"], ["own", "none", "ab"])]
            if len(no) > cap:
                no = rnd.sample(no, cap)
            no = must + [l for l in no if l not in must]
            # the rig of the real update loop cannot be restarted: one history with DeregisterAll, at the end
            sel = no + (rnd.sample(sh, 1) if sh else [])
        with open(path, "w") as fh:
            fh.write("\n".join(sel) + "\n")
        files[key] = (path, len(sel))
    both = os.path.join(ctx.tmp, "x01.hist.be")
    with open(both, "w") as fh:
        fh.write(open(files["be-on"][0]).read() + open(files["be-off"][0]).read())
    ctx.log("histories: %d backend level (enabled), %d (disabled), %d update-loop level" % (files["be-on"][1], files["be-off"][1], files["loop-on"][1]))

    rp = Pool(2)
    cbe, clo = sub_ctx(ctx, "be"), sub_ctx(ctx, "loop")
    rp.go("be", lambda: cbe.gotest("registry/consul", BE_FILES, "^TestVerifX01Be$", env={"VERIF_IN": both, "VERIF_X01_WORKERS": 24},
                                   timeout=ctx.pick(300, 1500), extra_files={"registry/consul/register.go": scaled}))
    rp.go("loop", lambda: clo.gotest(".", LOOP_FILES, "^TestVerifX01Loop$", env={"VERIF_IN": files["loop-on"][0]},
                                     timeout=ctx.pick(300, 1500), extra_files={"registry/consul/register.go": scaled}))
    res = rp.wait()
    gb, gl = res.get("be"), res.get("loop")
    for name, g in (("backend", gb), ("update loop", gl)):
        if isinstance(g, Exception) or g is None:
            ctx.inconclusive("X01 replay (%s): %r" % (name, g))
            mcpool.wait(); side.wait()
            return
    okb = ctx.need_go_ok(gb, "X01 replay (backend)")
    okl = ctx.need_go_ok(gl, "X01 replay (update loop)")
    if gl.summary is None and gl.of_kind("fail"):
        ctx.take_failures(gl, "loop")
    if not (okb and okl):
        mcpool.wait(); side.wait()
        return
    sb, sl = gb.summary, gl.summary
    if sb.get("unscaled") or sl.get("unscaled"):
        ctx.inconclusive("the harness was built against the unscaled register.go")
        mcpool.wait(); side.wait()
        return
    ctx.log("backend level: %d histories, %d steps, %d quiescent comparisons (%d after DeregisterAll, %d agent losses), %d events, %d failed, %.0fs"
            % (sb["histories"], sb["steps"], sb["compared"], sb["after_shutdown"], sb["losses"], sb["events"], sb["fails"], gb.wall))
    ctx.log("update-loop level: %d histories, %d steps, %d quiescent comparisons (%d after DeregisterAll, %d agent losses), %d events, %d failed, %.0fs"
            % (sl["histories"], sl["steps"], sl["compared"], sl["after_shutdown"], sl["losses"], sl["events"], sl["fails"], gl.wall))
    ctx.cover("be", traces_validated_against_impl=sb["histories"], evaluations=sb["compared"], samples=sb.get("samples") or [])
    ctx.cover("loop", traces_validated_against_impl=sl["histories"], evaluations=sl["compared"], samples=sl.get("samples") or [])
    ctx.take_failures(gb, "be")
    ctx.take_failures(gl, "loop")

    # ---- C->S: the recorded executions must be behaviours of Register (same instance)
    tp = Pool(3)
    traces = [("be-on", sb["trace_on"], True), ("be-off", sb["trace_off"], False), ("loop", sl["trace"], True)]
    for key, path, en in traces:
        c = sub_ctx(ctx, "tr-" + key)
        tp.go(key, lambda c=c, path=path, en=en: validate(c, path, devs, en, key))
    # binding self-tests: a trace with one register event removed / one catalog answer changed
    bad = []
    lines = open(sb["trace_on"]).read().splitlines()
    idx = [i for i, ln in enumerate(lines) if '"ev":"AReg"' in ln and '"ok":1' in ln]
    if idx:
        cut = idx[len(idx) // 2]
        p = os.path.join(ctx.tmp, "x01.bad1.ndjson")
        open(p, "w").write("\n".join(lines[:cut] + lines[cut + 1:]) + "\n")
        bad.append(("bad-areg", p, True))
    lines = open(sl["trace"]).read().splitlines()
    idx = [i for i, ln in enumerate(lines) if '"ev":"ASvcs"' in ln and '"has":["a","fabio"]' in ln]
    if idx:
        cut = idx[len(idx) // 2]
        lines[cut] = lines[cut].replace('"has":["a","fabio"]', '"has":["fabio"]')
        p = os.path.join(ctx.tmp, "x01.bad2.ndjson")
        open(p, "w").write("\n".join(lines) + "\n")
        bad.append(("bad-svcs", p, True))
    for key, path, en in bad:
        c = sub_ctx(ctx, "tr-" + key)
        tp.go(key, lambda c=c, path=path, en=en: validate(c, path, devs, en, key))
    # binding self-test of the replay: one expected catalog corrupted
    first = json.loads(open(files["be-on"][0]).readline())
    st = first["steps"][-1]
    st["expect"] = [n for n in st["expect"] if n != "fabio"] if "fabio" in st["expect"] else st["expect"] + ["fabio"]
    first["fixed"] = True
    one = os.path.join(ctx.tmp, "x01.self")
    vf.write_ndjson(one, [first])
    cs = sub_ctx(ctx, "self")
    tp.go("self", lambda: cs.gotest("registry/consul", BE_FILES, "^TestVerifX01Be$", env={"VERIF_IN": one}, timeout=300,
                                    extra_files={"registry/consul/register.go": scaled}))
    tres = tp.wait()
    for key, path, en in traces:
        v = tres.get(key)
        if isinstance(v, Exception) or v is None or v[0] is None:
            ctx.inconclusive("trace validation (%s) did not complete: %r" % (key, v if not isinstance(v, tuple) else (v[1].error or "timeout")))
            continue
        ok, r = v
        ctx.log("trace %-6s: %d states, %s, %.0fs" % (key, r.distinct, "accepted" if ok else "REJECTED (%s)" % r.violated, r.wall))
        if ok:
            ctx.cover("trace-" + key, traces_validated_against_impl=1, states=r.distinct, transitions=r.generated)
        else:
            ctx.violation({"sub": "trace-" + key, "why": r.violated},
                          "the execution recorded from the real code (%s) is not a behaviour of Register with the measured deviations %s (%s)\n%s"
                          % (key, leads, r.violated, unexplained(r, path)), replay={"sub": "trace", "case": None})
    if len(bad) < 2:
        ctx.inconclusive("binding self-test: no event to corrupt was recorded")
    for key, path, en in bad:
        v = tres.get(key)
        if isinstance(v, Exception) or v is None or v[0] is None:
            ctx.inconclusive("binding self-test (%s) did not complete" % key)
        elif v[0]:
            ctx.inconclusive("binding self-test: a corrupted trace (%s) was accepted" % key)
    g2 = tres.get("self")
    if isinstance(g2, Exception) or g2 is None or not ctx.need_go_ok(g2, "X01 replay self-test"):
        pass
    elif not g2.of_kind("fail"):
        ctx.inconclusive("binding self-test: a corrupted expectation was not rejected")

    # ---- the run with the real interval, the model
    sres = side.wait()
    gr = sres.get("real")
    if isinstance(gr, Exception) or gr is None:
        ctx.inconclusive("X01 real-interval run: %r" % gr)
    elif ctx.need_go_ok(gr, "X01 real-interval run"):
        s = gr.summary
        ctx.log("real refresh interval %s: lost registration restored after %s, longest distance between TTL updates %s (TTL %s), %.0fs"
                % (s.get("interval"), s.get("restore"), s.get("gap"), s.get("ttl"), gr.wall))
        ctx.cover("real", evaluations=1)
        ctx.take_failures(gr, "real")
    if devs["UnsyncShutdown"]:
        lead_repro(ctx, sres.get("leads"))
    judge_mc(ctx, jobs, mcpool.wait())
    for d in leads:
        ctx.log("LEAD: the real code exhibits the named deviation %s (see spec/Register.tla; the documented design without it satisfies the property it violates)" % d)
    ctx.cover(rule="backend level: histories of <=3 macro steps over {Register(S) for S within {a, b, fabio}, agent loses n, DeregisterAll} (sampled in the quick tier) plus seeded random ones of 7-10 steps, own registration enabled and disabled, a seeded quarter of the steps with a failing register request; update-loop level: override texts none/a/b/ab/a+del/ab+del/syntax error/own name; every step compared at quiescence")


def replay(ctx, rp):
    sub = rp["replay"]["sub"]
    case = rp["replay"].get("case")
    if sub not in ("be", "loop") or not case:
        ctx.inconclusive("replay of %s: re-run the check (the recorded schedule depends on goroutine timing)" % sub)
        return
    scaled = scaled_register(ctx)
    if scaled is None:
        return
    one = os.path.join(ctx.tmp, "x01.replay")
    vf.write_ndjson(one, [case])
    if sub == "be":
        g = ctx.gotest("registry/consul", BE_FILES, "^TestVerifX01Be$", env={"VERIF_IN": one}, timeout=300, extra_files={"registry/consul/register.go": scaled})
    else:
        g = ctx.gotest(".", LOOP_FILES, "^TestVerifX01Loop$", env={"VERIF_IN": one}, timeout=300, extra_files={"registry/consul/register.go": scaled})
    if ctx.need_go_ok(g, "X01 replay"):
        ctx.cover(evaluations=1)
        ctx.take_failures(g, sub)
