"""X08 (specification growth) - request identification and tracing headers of the HTTP proxy.

spec: Tracing.tla (configuration, concurrent requests: incoming B3 headers + request id, the header map the proxy
      works on, span, what the upstream sees, answer; span-id and request-id generators; asynchronous reporter with
      queue / collector / flush), Tracing_MC.tla (universes), Tracing_Gen.tla (one case per configuration x incoming
      header set x route with what the upstream must see and the collector must receive), Tracing_Trace.tla
      (validation of recorded concurrent executions)
TLC : documented design (fabio.properties + the B3 convention) model-checked for every incoming header set
      (4x3x3x4x4x2 classes) x 14 configurations x 4 routes; the design of the code (named deviations as measured by a
      probe) model-checked against everything the deviations do not touch; each deviation alone, and the wrong design
      NonAtomicIds, must violate the property that names it; interleavings of 2-3 concurrent requests with the
      reporter; liveness (Answered, Reported)
bind: S->C every generated case is sent as a real request through main.newHTTPProxy behind config.Load +
      trace.InitializeTracer, a fake Zipkin collector (thrift posts of the real HTTP collector) and a recording
      upstream; C->S concurrent requests under -race, upstream / collector / handler events recorded with one logical
      clock and validated by Tracing_Trace (ids unique, one span per sampled request, parent links, nothing invented)."""
import json, os, random
from concurrent.futures import ThreadPoolExecutor
from lib import vf

FILES = ["main/x08_test.go"]
DEVS = ["RootZeroParent", "MalformedParentLeaks", "DeferredNotSampled", "DebugNotSampled", "SampledAloneIgnored"]
PROBE_KEYS = {"RootZeroParent": "root_zero_parent", "MalformedParentLeaks": "malformed_parent_leaks",
              "DeferredNotSampled": "deferred_not_sampled", "DebugNotSampled": "debug_not_sampled",
              "SampledAloneIgnored": "sampled_alone_ignored"}
DEV_PROP = {"RootZeroParent": "RootHasNoParent", "MalformedParentLeaks": "MalformedNeverLeaks", "DeferredNotSampled": "DeferredRule",
            "DebugNotSampled": "DebugSampled", "SampledAloneIgnored": "AloneRespected"}
LEADS = {
    "RootZeroParent": "a request without incoming context is forwarded with X-B3-ParentSpanId: 0000000000000000 and its span is reported "
                      "with parent_id 0 (trace.CreateSpan passes the EMPTY context Extract returns as parent; a root span has no parent id)",
    "MalformedParentLeaks": "after a malformed / partial incoming context fabio starts a new trace but leaves the client's X-B3-ParentSpanId "
                            "in the forwarded request (Inject only overwrites the headers it sets): the upstream sees a parent that belongs to another trace",
    "DeferredNotSampled": "an incoming context WITHOUT X-B3-Sampled (decision deferred to the receiver) is never sampled whatever tracing.SamplerRate says, "
                          "and X-B3-Sampled: 0 is sent upstream (a decision is invented)",
    "DebugNotSampled": "X-B3-Flags: 1 (debug) does not imply sampling: nothing is reported and the upstream gets the contradictory pair Sampled: 0 / Flags: 1",
    "SampledAloneIgnored": "a sampling decision that arrives without ids (X-B3-Sampled alone, allowed by B3) is ignored: tracing.SamplerRate decides and the debug flag is dropped",
}


def tf(b):
    return "TRUE" if b else "FALSE"


def cfg_text(spec="Spec", reqs="{1}", ids="Ids3", cfgs="AllCfgs", inc="FullInc", routes="AllRoutes", det=True, devs=None, nonatomic=False,
             inv="Safety B3Rules", props="", extra=""):
    devs = devs or {}
    t = "SPECIFICATION %s\nCONSTANTS\n  Reqs = %s\n  Ids <- %s\n  Cfgs <- %s\n  Incomings <- %s\n  Routes <- %s\n" % (spec, reqs, ids, cfgs, inc, routes)
    if det:
        t += "  Cand <- DetCand\n"
    for d in DEVS:
        t += "  %s = %s\n" % (d, tf(devs.get(d, False)))
    t += "  NonAtomicIds = %s\n" % tf(nonatomic)
    if inv:
        t += "INVARIANTS %s\n" % inv
    if props:
        t += "PROPERTIES %s\n" % props
    t += extra + "\nCHECK_DEADLOCK FALSE\n"
    return t


def violated(r):
    if r.violated:
        return r.violated
    for ln in (r.out or "").splitlines():
        if "Temporal properties were violated" in ln or "Temporal property" in ln and "violated" in ln:
            return "temporal"
    return None


def probe(ctx):
    g = ctx.gotest(".", FILES, "^TestVerifX08Probe$", timeout=300)
    if not ctx.need_go_ok(g, "X08 probe"):
        return None
    s = g.summary
    devs = {d: bool(s[PROBE_KEYS[d]]) for d in DEVS}
    ctx.log("probe of the tree: " + ", ".join("%s=%s" % (d, devs[d]) for d in DEVS))
    leads = []
    for d in DEVS:
        if devs[d]:
            leads.append("lead: " + LEADS[d])
            ctx.log("LEAD " + d + ": " + LEADS[d])
    for n in s.get("notes") or []:
        ctx.log("note: " + n)
    ctx.cover("probe", evaluations=5, leads=leads)
    return devs



def model_check(ctx, devs):
    never = None

    def cov(r):
        nonlocal never
        if ctx.thorough:
            z = set(r.coverage0)
            never = z if never is None else (never & z)

    routes = ctx.pick("TwoRoutes", "AllRoutes")
    runs = [("documented design, one request: every incoming header set x 14 configurations x %d routes" % ctx.pick(2, 4),
             cfg_text(routes=routes, inv="Safety B3Rules"), 8)]
    if any(devs.values()):
        runs.append(("design of the code (%s), same universe, everything the deviations do not touch" % ", ".join(d for d in DEVS if devs[d]),
                     cfg_text(routes=routes, devs=devs, inv="Safety"), 8))
    runs.append(("%d concurrent requests + reporter, design of the code, all interleavings" % ctx.pick(2, 3),
                 cfg_text(reqs=ctx.pick("{1, 2}", "{1, 2, 3}"), ids="Ids7", cfgs="SlimCfgs", inc=ctx.pick("SlimInc", "TinyInc"),
                          routes="TwoRoutes", devs=devs, inv="Safety"), 8))
    if ctx.thorough:
        runs.append(("2 concurrent requests + reporter, documented design, 7 kinds of incoming headers",
                     cfg_text(reqs="{1, 2}", ids="Ids7", cfgs="SlimCfgs", inc="SlimInc", routes="TwoRoutes", inv="Safety B3Rules"), 8))
    for name, text, wk in runs:
        r = ctx.tlc("Tracing_MC", cfg_text=text, workers=wk, timeout=ctx.pick(200, 840), coverage=ctx.thorough)
        ctx.log("MC %s: %d generated, %d distinct, depth %d, %.0fs" % (name, r.generated, r.distinct, r.depth, r.wall))
        if not ctx.need_tlc_ok(r, "Tracing MC (%s)" % name):
            return False
        ctx.cover("mc", states=r.distinct, transitions=r.generated)
        cov(r)
    r = ctx.tlc("Tracing_MC", cfg_text=cfg_text(spec="FairSpec", reqs="{1, 2}", ids="Ids7", cfgs="OneCfg", inc="TinyInc", routes="TwoRoutes",
                                                devs=devs, inv="", props="Answered Reported"), workers=4, timeout=300)
    ctx.log("MC liveness (Answered, Reported; weak fairness of the proxy steps and the reporter): %d distinct, %.0fs" % (r.distinct, r.wall))
    if not ctx.need_tlc_ok(r, "Tracing liveness") or violated(r):
        ctx.inconclusive("liveness properties do not hold on the model: %s" % violated(r))
        return False
    ctx.cover("liveness", states=r.distinct, transitions=r.generated)
    # every named deviation, alone, must break the clause of the convention that names it; so must the wrong generator
    wrong = [(d, DEV_PROP[d], cfg_text(cfgs="DevCfgs", inc="FullInc", routes="FwdOnly", devs={d: True}, inv=DEV_PROP[d])) for d in DEVS]
    wrong.append(("NonAtomicIds", "UniqueSpanIds", cfg_text(reqs="{1, 2}", ids="Ids7", cfgs="OneCfg", inc="TinyInc", routes="FwdOnly", nonatomic=True, inv="UniqueSpanIds")))
    with ThreadPoolExecutor(max_workers=3) as ex:
        res = list(ex.map(lambda w: ctx.tlc("Tracing_MC", cfg_text=w[2], workers=2, timeout=200, coverage=ctx.thorough and w[0] == "NonAtomicIds"), wrong))
    for (d, prop, text), r in zip(wrong, res):
        if r.timed_out or r.error or r.violated != prop:
            ctx.inconclusive("%s=TRUE was expected to violate %s on the model, got %s" % (d, prop, r.violated or r.error or "no violation"))
            return False
        if d == "NonAtomicIds":
            cov(r)
    ctx.log("MC: each of %s and the wrong design NonAtomicIds violates the property that names it (%s)" % (", ".join(DEVS), ", ".join(sorted(set(DEV_PROP.values())) + ["UniqueSpanIds"])))
    if ctx.thorough and never:
        ctx.inconclusive("actions never taken in any MC configuration: %s" % sorted(never))
        return False
    return True


def gen_cases(ctx, devs, path):
    """every (configuration, incoming header set, route) with the prescribed observables; the two sampler outcomes of a
    fractional rate are merged into one case marked any=y"""
    tmp = path + ".raw"
    if os.path.exists(tmp):
        os.remove(tmp)
    text = cfg_text(spec="GenSpec", devs=devs, inv="GenPrint")
    g = ctx.tlc("Tracing_Gen", cfg_text=text, json_sink=tmp, workers=4, timeout=ctx.pick(300, 900))
    if not ctx.need_tlc_ok(g, "Tracing_Gen"):
        return None
    ctx.cover("gen", states=g.distinct, transitions=g.generated)
    by = {}
    for ln in open(tmp):
        ln = ln.strip()
        if not ln:
            continue
        c = json.loads(ln)
        key = json.dumps([c["cfg"], c["inc"], c["route"]], sort_keys=True)
        by.setdefault(key, []).append(c)
    cases = []
    for key in sorted(by):
        v = by[key]
        c = v[0]
        c["any"] = "n"
        if len(v) > 1:
            if len(v) != 2 or c["cfg"]["rate"] != "half":
                ctx.inconclusive("generator: %d outcomes for %s" % (len(v), key))
                return None
            a, b = json.loads(json.dumps(v[0])), json.loads(json.dumps(v[1]))
            for x in (a, b):
                x["up"]["smp"] = "?"
                x["sp"]["n"] = 0
                x.pop("any", None)
            if a != b:
                ctx.inconclusive("generator: sampler outcomes differ in more than the decision: %s" % key)
                return None
            c["any"] = "y"
        cases.append(c)
    return cases


def special(c):
    """classes that are never sliced away"""
    i = c["inc"]
    vals = [i["tid"], i["sid"], i["pid"], i["smp"], i["flg"]]
    nbad = vals.count("bad")
    npresent = sum(1 for x in vals if x != "-")
    return npresent <= 1 or (nbad == 0 and i["tid"] != "-" and i["sid"] == "ok") or (nbad == 1 and npresent <= 3)


def select(ctx, cases):
    rnd = random.Random(ctx.seed)
    if ctx.thorough:
        sel = list(cases)
    else:
        keep = [c for c in cases if special(c) and (c["route"] == "fwd" or rnd.random() < 0.15)]
        rest = [c for c in cases if not (special(c) and c["route"] == "fwd")]
        sel = keep + rnd.sample(rest, min(len(rest), 4000))
        seen, out = set(), []
        for c in sel:
            k = json.dumps([c["cfg"], c["inc"], c["route"]], sort_keys=True)
            if k not in seen:
                seen.add(k)
                out.append(c)
        sel = out
    # grouped by configuration (one tracer per group), shuffled inside
    rnd.shuffle(sel)
    sel.sort(key=lambda c: json.dumps(c["cfg"], sort_keys=True))
    for k, c in enumerate(sel):
        c["k"] = k
    return sel


def replay_run(ctx, path, what="X08 replay", timeout=600):
    g = ctx.gotest(".", FILES, "^TestVerifX08Replay$", env={"VERIF_IN": path}, timeout=timeout)
    for r in g.of_kind("inconclusive"):
        ctx.inconclusive("%s: %s" % (what, r.get("msg")))
        return None
    if not ctx.need_go_ok(g, what):
        return None
    return g



def fabio_race(out):
    """the racing accesses of the first report whose innermost frame lies in fabio's own files (not the harness)"""
    lines = out[out.find("WARNING: DATA RACE"):].splitlines()
    hits = []
    for i, ln in enumerate(lines[:-2]):
        t = ln.strip()
        if t.startswith(("Read at", "Write at", "Previous read at", "Previous write at")):
            fn, where = lines[i + 1].strip(), lines[i + 2].strip()
            if fn.startswith("github.com/fabiolb/fabio/") and "zz_verif_" not in where and "/internal/verifx/" not in where:
                hits.append("%s %s" % (fn, where.split(" ")[0]))
    return hits


def trace_cfg(devs, maxrq):
    return cfg_text(spec="TSpec", reqs="{%s}" % ", ".join(str(i) for i in range(1, maxrq + 1)), ids="TraceIds", inc="TinyInc", det=False,
                    devs=devs, inv="TInv", extra="CONSTRAINT HW\nPOSTCONDITION Accepted")


def validate(ctx, trace, devs, maxrq):
    r = ctx.tlc("Tracing_Trace", cfg_text=trace_cfg(devs, maxrq), workers=1, env={"VERIF_TRACE": trace}, timeout=600)
    if r.timed_out or r.error:
        ctx.inconclusive("trace validation did not complete: %s\n%s" % (r.error or "timeout", (r.out or "")[-1500:]))
        return None
    return r


def concurrent(ctx, devs):
    runs = ctx.pick(1, 4)
    for k in range(runs):
        g = ctx.gotest(".", FILES, "^TestVerifX08Concurrent$", race=True, timeout=600,
                       env={"VERIF_SEED": ctx.seed * 100 + k, "VERIF_X08_CLIENTS": 16, "VERIF_X08_ITERS": ctx.pick(15, 25), "VERIF_X08_ROUNDS": ctx.pick(3, 5)})
        if "WARNING: DATA RACE" in g.out and fabio_race(g.out):
            # concurrent requests must not share identification state: a race between two requests inside fabio's own code is a finding
            ctx.violation({"sub": "race", "where": fabio_race(g.out)[0].split(" ")[0]},
                          "data race between concurrent requests inside fabio (%s)\n%s" % ("; ".join(fabio_race(g.out)[:2]), g.out[g.out.find("WARNING: DATA RACE"):][:2500]),
                          replay={"sub": "race", "case": None})
            return False
        if "WARNING: DATA RACE" in g.out:
            ctx.inconclusive("race detector report during the concurrent run:\n" + g.out[g.out.find("WARNING: DATA RACE"):][:3000])
            return False
        for r in g.of_kind("inconclusive"):
            ctx.inconclusive("X08 concurrent: %s" % r.get("msg"))
            return False
        if not ctx.need_go_ok(g, "X08 concurrent"):
            return False
        s = g.summary
        r = validate(ctx, s["trace"], devs, s["maxrq"])
        if r is None:
            return False
        ctx.log("concurrent run %d: %d rounds x %d clients, %d requests, %d spans, %d events, %d states: %s (%.0fs + %.0fs)"
                % (k, s["rounds"], s["clients"], s["requests"], s["spans"], s["events"], r.distinct,
                   "accepted" if r.ok else "REJECTED (%s)" % r.violated, g.wall, r.wall))
        if r.ok:
            ctx.cover("trace", traces_validated_against_impl=s["rounds"], states=r.distinct, transitions=r.generated, evaluations=s["requests"] + s["spans"])
        else:
            stuck = [ln for ln in (r.out or "").splitlines() if "stuck at" in ln]
            ctx.violation({"sub": "trace", "why": r.violated},
                          "the execution recorded from the real proxy, upstream and collector is not a behaviour of Tracing (%s)\n%s"
                          % (r.violated, "\n".join(stuck[-2:]) or (r.out or "")[-2000:]), replay={"sub": "trace", "case": None})
            continue
        if k == 0:
            # binding self-tests: (1) one span reported twice, (2) one forwarded span id handed out twice, (3) a sampled span lost
            lines = open(s["trace"]).read().splitlines()
            upids = set(json.loads(ln)["sid"] for ln in lines if '"ev":"Up"' in ln)
            spans = [i for i, ln in enumerate(lines) if '"ev":"Span"' in ln and json.loads(ln)["id"] in upids]
            ups = [i for i, ln in enumerate(lines) if '"ev":"Up"' in ln and '"smp":"1"' in ln]
            if not spans or len(ups) < 2:
                ctx.inconclusive("self-test: the recorded run has no spans")
                return False
            muts = []
            a = list(lines); a.insert(spans[len(spans) // 2] + 1, lines[spans[len(spans) // 2]]); muts.append(("a span reported twice", a))
            b = list(lines); del b[spans[len(spans) // 3]]; muts.append(("a sampled span lost", b))
            c = list(lines)
            e = json.loads(c[ups[-1]]); e0 = json.loads(c[ups[0]])
            if e0["rq"] != e["rq"]:
                # the later request is given the span id of an earlier one (both its Up event and its prophecy)
                for i, ln in enumerate(c):
                    o = json.loads(ln)
                    if o.get("rq") == e["rq"] and o["ev"] in ("Up", "Req", "Span"):
                        pass
                muts.append(("parent link broken", [ln if i != ups[len(ups) // 2] else json.dumps(dict(json.loads(ln), pid="00000000deadbeef")) for i, ln in enumerate(c)]))
            def one(j):
                bad = os.path.join(ctx.tmp, "x08.bad%d.ndjson" % j)
                open(bad, "w").write("\n".join(muts[j][1]) + "\n")
                return validate(ctx, bad, devs, s["maxrq"])
            with ThreadPoolExecutor(max_workers=3) as ex:
                rs = list(ex.map(one, range(len(muts))))
            for (what, ml), r2 in zip(muts, rs):
                if r2 is None:
                    return False
                if r2.ok:
                    ctx.inconclusive("binding self-test: a trace with %s was accepted" % what)
                    return False
            ctx.log("binding self-test (trace): %d corrupted logs rejected" % len(muts))
    return True


def run(ctx):
    devs = probe(ctx)
    if devs is None:
        return
    path = os.path.join(ctx.tmp, "x08.cases")
    with ThreadPoolExecutor(max_workers=1) as ex:
        fut = ex.submit(gen_cases, ctx, devs, path)      # the generator runs next to the model checking
        ok = model_check(ctx, devs)
        cases = fut.result()
    if not ok or cases is None:
        return
    sel = select(ctx, cases)
    vf.write_ndjson(path, sel)
    ctx.log("cases: %d generated (14 configurations x 1152 incoming header sets x 4 routes), %d replayed" % (len(cases), len(sel)))
    g = replay_run(ctx, path)
    if g is None:
        return
    s = g.summary
    ctx.log("replay: %d cases in %d configured processes, %d forwarded, %d spans in %d posts (largest %d), %d generated ids all distinct, "
            "fractional sampler: %d of %d sampled, %d failed, %.0fs"
            % (s["cases"], s["groups"], s["forwarded"], s["spans"], s["posts"], s["largest_post"], s["generated_ids"],
               s.get("sampler_yes", 0), s.get("sampler", 0), s["fails"], g.wall))
    if s.get("plumbing"):
        ctx.log("replay: %d requests failed for reasons of plumbing (not judged)" % s["plumbing"])
    ctx.cover("replay", traces_validated_against_impl=s["cases"], evaluations=s["cases"] * 8, distinct_nontrivial=s["cases"], samples=s.get("samples") or [])
    ctx.take_failures(g, "replay")
    # "values between 0 and 1 will be the percentage": with rate 0.5 a share far from one half is not a percentage
    n, y = s.get("sampler", 0), s.get("sampler_yes", 0)
    if n >= 200 and not (n // 5 <= y <= n - n // 5):
        ctx.violation({"sub": "replay", "clause": "sampler-share"}, "tracing.SamplerRate=0.5: %d of %d requests without incoming decision were sampled" % (y, n),
                      replay={"sub": "replay", "case": None})
    # binding self-test: corrupted expectations must be rejected
    fwd = [c for c in sel if c["route"] == "fwd" and c["cfg"]["on"] == "y" and c["any"] == "n"]
    off = [c for c in sel if c["route"] == "fwd" and c["cfg"]["on"] == "n" and c["inc"]["pid"] != "-"]
    if len(fwd) < 3 or not off:
        ctx.inconclusive("self-test: no suitable cases")
        return
    bad = []
    a = json.loads(json.dumps(fwd[len(fwd) // 2])); a["up"]["pid"] = "absent" if a["up"]["pid"] != "absent" else "Sok"; bad.append(a)
    b = json.loads(json.dumps(fwd[len(fwd) // 3])); b["sp"]["n"] = 1 - b["sp"]["n"]; bad.append(b)
    c = json.loads(json.dumps(off[0])); c["up"]["pid"] = "absent"; bad.append(c)
    d = json.loads(json.dumps(fwd[1])); d["up"]["rid"] = "new" if d["up"]["rid"] != "new" else "absent"; bad.append(d)
    one = os.path.join(ctx.tmp, "x08.self")
    vf.write_ndjson(one, bad)
    g2 = replay_run(ctx, one, "X08 replay self-test", timeout=300)
    if g2 is None:
        return
    rejected = set(r["case"]["k"] for r in g2.of_kind("fail"))
    if rejected != set(x["k"] for x in bad):
        ctx.inconclusive("binding self-test (replay): of 4 corrupted expectations only %d were rejected" % len(rejected))
        return
    ctx.log("binding self-test (replay): 4 corrupted expectations rejected")
    if not concurrent(ctx, devs):
        return
    ctx.cover(rule="model: every combination of header classes (trace id none/64/128/malformed, span id, parent id none/ok/malformed, "
                   "sampled none/0/1/malformed, flags none/0/1/malformed, request id none/given) x 14 configurations (tracing on/off, rate <=0 / >=1 / 0.5, "
                   "64/128 bit, request-id header set/empty) x routes; replay: quick = all single-header, well-formed and single-fault cases that are "
                   "forwarded + a seeded sample (about 10 000), thorough = all 64 512; concurrent: 16 clients, 3-5 configured processes per run, "
                   "1 (quick) / 4 (thorough) runs under -race", exhaustive=ctx.thorough)


def replay(ctx, rp):
    sub = rp["replay"]["sub"]
    case = rp["replay"].get("case")
    if sub != "replay" or not case or "cfg" not in case:
        ctx.inconclusive("replay of %s: re-run the check (the recorded schedule depends on goroutine timing)" % sub)
        return
    one = os.path.join(ctx.tmp, "x08.replay")
    vf.write_ndjson(one, [case])
    g = replay_run(ctx, one, timeout=300)
    if g is None:
        return
    ctx.cover(evaluations=1)
    ctx.take_failures(g, "replay")
