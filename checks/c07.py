"""C07 - HTTP requests and responses pass through unaltered apart from routing.

spec: HttpProxy.tla (one request's pipeline: Lookup | NextHost | NoRoute | Deny | Redirect |
      BuildTarget | AddHeaders | Forward | Respond) + HttpProxy_MC.tla (universes, generator)
TLC : the pipeline invariants on the bounded product of request / option / configuration
      features; every finished run is printed with the request the upstream must receive and
      the answer the client must see (quick: a seed-selected slice, thorough: the full product)
bind: every case replayed over real sockets through a real proxy.HTTPProxy wired like
      main.newHTTPProxy (route.NewTable + route.GetTable().Lookup) towards an instrumented
      upstream (harness/proxy/common_verif_test.go, c07_test.go)

This module also holds the machinery shared with C08 and C13 (same specification)."""
import json, os
from lib import vf

INVARIANTS = ("ForwardOnlyRouted AnsweredLocally EveryAnswerHasAKind PathStaysAbsolute EscapesSurvive "
              "OnlyStripAndPrepend QueryMergedInFront SimultaneousIndependent HostOnlyOnRequest PeerIsTold TLSHeaderTruthful "
              "RequestedHostIsTold RequestedPortIsTold STSOnlyOnTLS RedirectStatusIs3xx NeverRedirectsToItself "
              "RedirectCarriesQuery FaultNotHidden HistoryIndependent ConnectionIndependent NoRoutePageWasConfigured STSOnEveryTLSAnswer")

CFG = """SPECIFICATION Spec
CONSTANTS
  Outer <- %(outer)s
  Inner <- %(inner)s
  Escapes <- MCEscapes
  Encoded <- MCEncoded
  Decoded <- MCDecoded
  Faulty <- MCFaulty
  Prop = "%(prop)s"
  SliceMod = %(mod)d
  SliceSeed = %(seed)d
INVARIANTS %(inv)s
CHECK_DEADLOCK FALSE
"""

ACTIONS = ["ChooseOuter", "ChooseCase", "RegistryPage", "Arrive", "PageUpdate", "Lookup", "NextHost", "NoRoute", "Deny", "Redirect",
           "BuildTarget", "AddHeaders", "DialFails", "Forward", "Respond"]
# actions a property's universe cannot reach by construction (Deny is exercised by the model-only run)
UNREACHED = {
    "C07": {"Deny", "Redirect"},
    "C08": {"Deny", "Redirect", "NoRoute", "NextHost", "RegistryPage", "PageUpdate"},
    "C13": {"Deny", "RegistryPage", "PageUpdate", "DialFails"},
}
HARNESS = {"C07": "c07", "C08": "c08", "C13": "c13"}


def cfg(prop, mod, seed, gen=True, deny=False):
    return CFG % dict(outer="DenyOuter" if deny else "MCOuter", inner="DenyInner" if deny else "MCInner",
                      prop=prop, mod=mod, seed=seed, inv=INVARIANTS + (" Gen" if gen else ""))


FILES = {"C07": ["proxy/common_verif_test.go", "proxy/common_wire_test.go", "proxy/c07_test.go"],
         "C08": ["proxy/common_verif_test.go", "proxy/common_wire_test.go", "proxy/c08_test.go"],
         "C13": ["proxy/common_verif_test.go", "proxy/common_wire_test.go", "proxy/c13_test.go"]}


def crashed(ctx, prop, r, what):
    """A crash of the code under test (Go runtime 'fatal error', panic that takes the process down) is a verdict."""
    if r.summary is None and not r.build_failed and not r.timed_out and ("fatal error:" in r.out or "panic:" in r.out):
        i = r.out.find("fatal error:")
        if i < 0:
            i = r.out.find("panic:")
        ctx.violation({"sub": HARNESS[prop], "clause": "crash"}, "%s: the proxy process died:\n%s" % (what, r.out[i:i + 3000]),
                      replay={"sub": HARNESS[prop] + "-crash", "case": None})
        return True
    return False


def raced(ctx, prop, r, what):
    """A data race inside fabio under simultaneous requests (run with the race detector)."""
    if "WARNING: DATA RACE" in r.out:
        i = r.out.index("WARNING: DATA RACE")
        rep = r.out[i:i + 3500]
        if "github.com/fabiolb/fabio/" in rep:
            ctx.violation({"sub": HARNESS[prop], "clause": "data-race"}, "%s: simultaneous requests race inside fabio:\n%s" % (what, rep),
                          replay={"sub": HARNESS[prop] + "-race", "case": None})
            return True
    return False


def check_run(ctx, prop, r, what):
    if crashed(ctx, prop, r, what):
        return None
    if not ctx.need_go_ok(r, what):
        return None
    s = r.summary
    if s.get("table_error"):
        ctx.inconclusive("%s: the harness could not build the routing table: %s" % (what, s["table_error"]))
        return None
    if s.get("errors"):
        msgs = [x.get("msg", "") for x in r.of_kind("error")][:3]
        ctx.inconclusive("%s: %d request(s) could not be carried out (no verdict on them): %s" % (what, s["errors"], msgs))
    return r


def run_harness(ctx, prop, cases, what, timeout=1500, env=None, race=False, test=None):
    e = {"VERIF_IN": cases}
    if env:
        e.update(env)
    r = ctx.gotest("proxy", FILES[prop], "^%s$" % (test or "TestVerif%s" % prop), env=e, timeout=timeout, race=race)
    return check_run(ctx, prop, r, what)


def run_main_harness(ctx, cases, what, timeout=900, prop="C07"):
    """Cases through package main's own wiring: the shared harness files are compiled into package main."""
    extra = {}
    name = HARNESS[prop]
    for f in ("common_verif_test.go", "%s_test.go" % name):
        src = open(os.path.join(vf.HARNESS, "proxy", f)).read().replace("package proxy\n", "package main\n", 1)
        dst = os.path.join(ctx.tmp, "main_" + f)
        with open(dst, "w") as fh:
            fh.write(src)
        extra["zz_verif_px_" + f] = dst
    r = ctx.gotest(".", ["main/%s_main_test.go" % name], "^TestVerif%sMain$" % prop, env={"VERIF_IN": cases}, timeout=timeout, extra_files=extra)
    return check_run(ctx, prop, r, what)


def filter_cases(src, dst, keep):
    n = 0
    with open(src) as fi, open(dst, "w") as fo:
        for line in fi:
            if keep(json.loads(line)):
                fo.write(line)
                n += 1
    return n


def generate(ctx, prop, mod):
    """TLC: invariants + case generation.  Returns the case file or None."""
    cases = os.path.join(ctx.tmp, "%s.cases" % prop.lower())
    r = ctx.tlc("HttpProxy_MC", cfg_text=cfg(prop, mod, ctx.seed % 1000003), json_sink=cases, workers=8,
                coverage=ctx.thorough, timeout=ctx.pick(240, 1500), keep_out=False)
    ctx.log("TLC %s universe (1/%d of the product): %d states, %d distinct, %.0fs" % (prop, mod, r.generated, r.distinct, r.wall))
    if not ctx.need_tlc_ok(r, "HttpProxy %s universe" % prop):
        return None
    ctx.cover("pipeline", states=r.distinct, transitions=r.generated)
    if ctx.thorough:
        dead = [a for a in r.coverage0 if a in ACTIONS and a not in UNREACHED[prop]]
        if dead:
            ctx.inconclusive("vacuity: action(s) %s never taken in the %s universe" % (dead, prop))
            return None
        # the coverage report itself must be readable: the actions this universe cannot reach show up with count 0
        if not UNREACHED[prop] <= set(r.coverage0):
            ctx.inconclusive("vacuity guard: TLC's coverage report does not list %s as never taken (got %s)"
                             % (sorted(UNREACHED[prop]), sorted(set(r.coverage0) & set(ACTIONS))))
            return None
    # the Deny action (access rules are C12's) is checked on the model only
    d = ctx.tlc("HttpProxy_MC", cfg_text=cfg(prop, 1, 0, gen=False, deny=True), workers=1, coverage=ctx.thorough, timeout=120)
    if not ctx.need_tlc_ok(d, "HttpProxy deny universe"):
        return None
    if ctx.thorough and "Deny" in d.coverage0:
        ctx.inconclusive("vacuity: Deny never taken in the deny universe")
        return None
    ctx.cover("deny-model", states=d.distinct, transitions=d.generated)
    return cases


def first_case(path, pred):
    with open(path) as fh:
        for line in fh:
            c = json.loads(line)
            if pred(c):
                return c
    return None


def selftest(ctx, prop, cases, pred, corrupt, clause):
    """Binding self-test: one corrupted expectation must be rejected by the harness."""
    c = first_case(cases, pred)
    if c is None:
        ctx.inconclusive("no usable case for the binding self-test")
        return
    good = json.loads(json.dumps(c))
    corrupt(c)
    one = os.path.join(ctx.tmp, "%s.selftest" % prop.lower())
    vf.write_ndjson(one, [good, c])
    r = run_harness(ctx, prop, one, "%s self-test" % prop, timeout=300)
    if r is None:
        return
    hit = [f for f in r.of_kind("fail") if f.get("features", {}).get("clause") == clause]
    if not hit:
        ctx.inconclusive("binding self-test: a corrupted expectation (%s) was NOT rejected by the harness" % clause)
    elif r.summary.get("fails") != 1:
        ctx.inconclusive("binding self-test: expected exactly the corrupted copy to fail, got %s failures" % r.summary.get("fails"))


def run_prop(ctx, prop, mod, rule, pred, corrupt, clause, after=None):
    cases = generate(ctx, prop, mod)
    if cases is None:
        return
    r = run_harness(ctx, prop, cases, "%s replay" % prop, timeout=ctx.pick(300, 1500))
    if r is None:
        return
    s = r.summary
    ctx.log("replayed %d cases through the real proxy (%d routes in one table), %d failed, %d request errors, %d exchanges repeated, %.0fs"
            % (s["cases"], s["routes"], s["fails"], s.get("errors", 0), s.get("retried_exchanges", 0), r.wall))
    if s.get("skipped_no_ipv6"):
        ctx.log("NOTE: %d case(s) with an IPv6 peer were skipped: ::1 cannot be listened on here" % s["skipped_no_ipv6"])
        ctx.assumptions.append("%d IPv6-peer case(s) skipped (no ::1 on this machine): counted, not judged" % s["skipped_no_ipv6"])
        ctx.cover("skipped", skipped_no_ipv6=s["skipped_no_ipv6"])
    ctx.cover(traces_validated_against_impl=s["ran"], evaluations=s["ran"], distinct_nontrivial=s["distinct_nontrivial"],
              samples=s.get("samples") or [], rule=rule, exhaustive=ctx.thorough)
    ctx.take_failures(r, HARNESS[prop])
    if after:
        after(ctx, cases)
    selftest(ctx, prop, cases, pred, corrupt, clause)


def replay_prop(ctx, prop, rp):
    one = os.path.join(ctx.tmp, "%s.replay" % prop.lower())
    if rp["replay"].get("case") is None:
        ctx.inconclusive("this finding (%s) has no single case to replay: run the check again" % rp["replay"].get("sub"))
        return
    vf.write_ndjson(one, [rp["replay"]["case"]])
    if rp["replay"].get("sub") == "c07-main":
        r = run_main_harness(ctx, one, "C07 replay (package main wiring)", timeout=300)
    else:
        r = run_harness(ctx, prop, one, "%s replay" % prop, timeout=300)
    if r is None:
        return
    ctx.cover(evaluations=1)
    ctx.take_failures(r, HARNESS[prop])


COMMON_ASSUMPTIONS = [
    "one request at a time per route target; simultaneous requests are property C06's subject",
    "peer address is 127.0.0.1 (loopback sockets); HTTP/1.1 on both legs; TLS front = httptest certificate, client does not verify it",
    "the harness turns abstract tokens into bytes (paths, header spellings, bodies); expected values come from the TLC-generated case",
    "fabio's glob cache is filled by one request per proxy before requests run in parallel (its unsynchronised fill path belongs to C06)",
]


# ------------------------------------------------------------------------------------------ C07
def _c07_pred(c):
    # a forwarded case outside the escape classes, so that the uncorrupted copy is expected to pass
    return (c["out"]["kind"] == "upstream"
            and not any(t.startswith("%") or "'" in t for t in c["c"]["path"]))


def _c07_corrupt(c):
    c["up"]["path"] = c["up"]["path"] + ["zz"]


def run(ctx):
    ctx.level = "model_checking"
    ctx.assumptions += COMMON_ASSUMPTIONS + [
        "never sliced (in every quick run): route options that need escaping (strip/prepend with a non-ASCII letter or ^, the client spelling the prefix %C3%B6 / %c3%b6 / %5E) x 6 raw paths; queries with empty parameters (leading, trailing, doubled &) x route query; upstream answers preceded by 103 / 102 / 103+103 and requests with Expect: 100-continue (final status, headers, body judged; the informational answers themselves and the Expect header are not)",
        "universe: 6 methods x 10 raw paths (%2F %2f %20 %41 %C3%A9, unescaped sub-delimiters, strip leaving nothing / a relative rest) x 3 queries x strip {none, /strip, one that does not apply, /strip/} x prepend {none, /pre, pre} x host {none, dst, name} x 3 target queries x 4 (header set, upstream answer) pairs, plain and TLS front alternating; no-route: 6 methods x 2 paths x 3 queries x status {404, 503, 999} x page {empty, html} x {host without routes, route that does not match}",
        "bodies {0, 1, 32 KiB+1, 1 MiB} x {Content-Length, chunked in seeded pieces} attached round-robin to requests and upstream answers",
        "never sliced: the no-route page after a history of registry operations (set, replace, remove, set again; 8 histories) - delivered by a scripted registry back end through main.watchNoRouteHTML in the package main part - and while the registry keeps replacing it (3 sets of pages, every request repeated 120 / 400 times): the answer must be ONE of the pages configured while the request was there, complete; queries with ';', invalid escapes and a trace parameter",
        "second binding: the never-sliced cases and the no-route cases are replayed a second time through package main's own wiring (main.newHTTPProxy: its Lookup function, transports, every metrics handler set; proxy.ListenAndServeHTTP where a case asks for fabio's own listener); in package proxy the proxy is put together the same way with the metrics handlers set",
        "never sliced (round 4): request-targets ending in a bare '?' (the RAW request-target at the upstream is compared; with a route query the bare '?' is not asked); proxy.gzip.contenttype set (^text/) and not set x answers that already carry Content-Encoding deflate / br / identity / compress to a client accepting gzip, and plain answers to a client not asking for gzip: headers and body unchanged; the route's instance refuses the connection (body-less GET / DELETE, host option none / dst / name, with and without a route WITHOUT a host matching the same path): a 5xx of fabio and no upstream at all sees the request",
        "never sliced: upstream statuses 200, 299, 300, 404, 499, 500, 599, 600, 799, 999 and the no-route status, each with and without an access logger configured; upstreams that die before their answer is complete (closed before any header; Content-Length announced, closed after 10 000 of 32 769 body bytes; chunked without the last chunk after 10 000 / 0 body bytes, closed or reset): the client must either see the exchange fail or get a 5xx from fabio, never a complete-looking answer with part of the body missing (what the upstream had received is not judged in these cases)",
        "strip leaving an empty or relative rest together with prepend follows the documentation's reading: strip yields an absolute path ('forward /path/to/file as /to/file'), 'prepending is done after stripping' (/strip -> /pre/, /stripme/x -> /pre/me/x, strip=/strip/ on /strip/a/b -> /pre/a/b)",
        "never sliced (round 6): 8 requests that are in the proxy at the SAME moment through ONE route - sent over connections opened beforehand to one of fabio's own listeners, released together and each repeated 400 / 1200 times over its connection (40 / 150 times in the run with the race detector) - with different short queries (none, one, two parameters, an escape) and paths, x target URL with a query of 1 / 2 / 3 parameters or none x strip {none, /sim} x {GET, DELETE} x {plain, TLS}: every upstream request is the one made from ITS request alone (route query & its own query, its own path); run twice, the second time with the race detector: a data race inside fabio is a violation (this replaces 'one request at a time per route target' for these cases)",
        "scope: a strip prefix that ends inside an escape is not asked; hop-by-hop headers are net/http's; User-Agent suppression and added forwarding headers are not judged here (C08)",
    ]
    run_prop(ctx, "C07", ctx.pick(8, 1),
             "one case per finished pipeline run TLC enumerated (quick: the slice selected by the seed; thorough: the full product); non-trivial = forwarded case with strip/prepend applying, escapes in the path, a host option or a target query",
             _c07_pred, _c07_corrupt, "path", after=_c07_after)


MAIN_SUBS = {"amp", "pagehist", "flip", "rest", "status", "interim", "enc"}


def _c07_main(ctx, cases):
    """Second binding: the never-sliced cases (and the no-route cases) through package main's own wiring -
    main.newHTTPProxy with its Lookup function, transports and metrics handlers, main.watchNoRouteHTML fed by a
    scripted registry back end, proxy.ListenAndServeHTTP."""
    sub = os.path.join(ctx.tmp, "c07.main.cases")
    n = filter_cases(cases, sub, lambda c: c["c"]["sub"] in MAIN_SUBS or (c["c"]["sub"] == "noroute" and not c["c"]["accesslog"]))
    if n == 0:
        ctx.inconclusive("no cases for the package main wiring")
        return
    r = run_main_harness(ctx, sub, "C07 replay through package main")
    if r is None:
        return
    s = r.summary
    ctx.log("package main wiring (main.newHTTPProxy, main.watchNoRouteHTML): %d cases replayed, %d failed, %.0fs" % (s["cases"], s["fails"], r.wall))
    ctx.cover("main-wiring", traces_validated_against_impl=s["ran"], evaluations=s["ran"])
    ctx.take_failures(r, "c07-main")


def _c07_after(ctx, cases):
    _c07_main(ctx, cases)
    _c07_sim(ctx, cases)


def _c07_sim(ctx, cases):
    """The cases whose requests are in the proxy at the same moment (HttpProxy!TogetherUps) once more, built with the
    race detector; then the binding self-test of that oracle (one request's expected query swapped for another's)."""
    sub = os.path.join(ctx.tmp, "c07.sim.cases")
    n = filter_cases(cases, sub, lambda c: c["c"]["together"] and c["out"]["kind"] == "upstream" and c.get("each"))
    if n == 0:
        ctx.inconclusive("no simultaneous-request cases")
        return
    what = "C07 simultaneous requests through one route (race detector)"
    r = ctx.gotest("proxy", FILES["C07"], "^TestVerifC07Sim$", env={"VERIF_IN": sub, "VERIF_C07_SIM_ROUNDS": str(ctx.pick(40, 150))},
                   timeout=900, race=True)
    if crashed(ctx, "C07", r, what):
        return
    if raced(ctx, "C07", r, what):
        if r.summary is not None:
            ctx.take_failures(r, "c07")
        return
    r = check_run(ctx, "C07", r, what)
    if r is None:
        return
    s = r.summary
    ctx.log("simultaneous requests: %d cases x 8 connections, repeated, with the race detector: %d failed, %.0fs" % (s["cases"], s["fails"], r.wall))
    ctx.cover("simultaneous-race", traces_validated_against_impl=s["ran"], evaluations=8 * s["ran"])
    ctx.take_failures(r, "c07")
    # binding self-test: request 3 is expected to arrive with the query of request 1 -> must be rejected, the good copy not
    c = first_case(sub, lambda c: len(c["c"]["routes"][0]["tquery"]) > 0)
    if c is None:
        ctx.inconclusive("no simultaneous-request case with a target query for the binding self-test")
        return
    good = json.loads(json.dumps(c))
    c["each"][2]["query"] = c["each"][0]["query"]
    one = os.path.join(ctx.tmp, "c07.sim.selftest")
    vf.write_ndjson(one, [good, c])
    t = run_harness(ctx, "C07", one, "C07 simultaneous self-test", timeout=300, env={"VERIF_C07_SIM_ROUNDS": "3"})
    if t is None:
        return
    hit = [f for f in t.of_kind("fail") if f.get("features", {}).get("clause") == "query" and f.get("features", {}).get("simultaneous")]
    if not hit:
        ctx.inconclusive("binding self-test: a swapped expectation among simultaneous requests was NOT rejected by the harness")
    elif any(f.get("features", {}).get("step") != 3 for f in t.of_kind("fail")):
        ctx.inconclusive("binding self-test: requests other than the corrupted one failed among the simultaneous ones")


def replay(ctx, rp):
    replay_prop(ctx, "C07", rp)
