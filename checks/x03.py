"""X03 - specification growth: (a) life cycle of the TCP-DYNAMIC listeners, (b) the static and file
registry backends.  Not one of the 20 listed properties (not in MANIFEST.json); run by `bin/check X03`.

spec: DynListeners.tla (+_MC universes, _Gen histories, _Trace validation), StaticFile.tla (+_MC)
TLC : (a) invariants Exclusive / NoCrash / OnlyWanted / QuiescentExact / RoutedRight and action
      properties NoCollateralTeardown / KeepsWanted on every interleaving of table changes, foreign
      occupation, refresh rounds and client connections; liveness EventuallyExact; the variant
      ProbeThenBind = TRUE (what the code does) must violate NoCrash (recorded as a lead);
      (b) Constant / ServesConfigured / InvalidNeverServes / HtmlConfigured on the register machine
bind: the REAL fabio binary, observed from outside.  (a) consul backend against the fake Consul:
      S->C replay of TLC histories with a causality barrier after every change, C->S validation of the
      recorded executions (the sequential replay run and concurrent runs) by DynListeners_Trace;
      (b) every TLC case started as a process with -registry.backend static|file, compared through
      /api/routes, real proxied requests and the no-route answer."""
import json, os, random, shutil, subprocess, threading, time
from lib import vf

FILES = ["main/x03_dyn_test.go", "main/x03_static_test.go"]

DYN_CFG = """SPECIFICATION %(spec)s
CONSTANTS
  Ports <- %(ports)s
  Ips <- MCIps
  Inst <- %(inst)s
  PortOf <- %(portof)s
  IpOf <- %(ipof)s
  Tcp <- %(tcp)s
  Clients = %(clients)s
  MaxChanges = %(nchg)d
  MaxForeign = %(nfor)d
  ProbeThenBind = %(ptb)s
  CloseKillsTunnels = TRUE
%(rest)s
CHECK_DEADLOCK FALSE
"""
UA = dict(ports="MCPorts", inst="MCInst", portof="MCPortOf", ipof="MCIpOf", tcp="MCTcp")
UB = dict(ports="MCPortsB", inst="MCInstB", portof="MCPortOfB", ipof="MCIpOfB", tcp="MCTcpB")
UG = dict(ports="MCPorts", inst="MCInstG", portof="MCPortOfH", ipof="MCIpOfH", tcp="MCTcpH")
SAFETY = "INVARIANTS TypeOK Exclusive NoCrash OnlyWanted QuiescentExact RoutedRight\nPROPERTIES NoCollateralTeardown KeepsWanted"


def dyn_cfg(u, spec="Spec", clients="{}", nchg=3, nfor=2, ptb="FALSE", rest=SAFETY):
    d = dict(u)
    d.update(spec=spec, clients=clients, nchg=nchg, nfor=nfor, ptb=ptb, rest=rest)
    return DYN_CFG % d


class Par:
    """Runs ctx.tlc / ctx.gotest calls concurrently.  Both number their scratch directories with an
    unguarded counter, so the calls are STARTED one at a time; results are judged by the main thread."""
    def __init__(self, ctx):
        self.ctx, self.lock = ctx, threading.Lock()

    def start(self, fn, *a, **kw):
        box = {}

        def run():
            try:
                box["res"] = fn(*a, **kw)
            except Exception as e:
                box["err"] = e
        with self.lock:
            n0 = self.ctx._tlc_n
            th = threading.Thread(target=run)
            th.start()
            t0 = time.time()
            while self.ctx._tlc_n == n0 and th.is_alive() and time.time() - t0 < 10:
                time.sleep(0.005)
            time.sleep(0.05)
        box["th"] = th
        return box

    def call(self, fn, *a, **kw):
        return self.wait(self.start(fn, *a, **kw))

    @staticmethod
    def wait(box):
        box["th"].join()
        if "err" in box:
            raise box["err"]
        return box["res"]


def build_fabio(ctx):
    gobin, genv = vf.go_tool()
    binp = os.path.join(ctx.tmp, "fabio")
    b = subprocess.run([gobin, "build", "-o", binp, "."], cwd=vf.REPO, env=genv, capture_output=True, text=True)
    if b.returncode != 0:
        ctx.inconclusive("fabio does not build:\n" + (b.stdout + b.stderr)[-2000:])
        return None
    return binp


# ----------------------------------------------------------------------------- (a) model checking
def dyn_model_jobs(ctx, par):
    jobs = {
        "A": par.start(ctx.tlc, "DynListeners_MC", cfg_text=dyn_cfg(UA, nchg=ctx.pick(3, 4), nfor=ctx.pick(2, 3)),
                       workers=ctx.pick(3, 6), timeout=ctx.pick(300, 900), coverage=ctx.thorough),
        "B": par.start(ctx.tlc, "DynListeners_MC", cfg_text=dyn_cfg(UB, clients='{"k1"}', nchg=ctx.pick(2, 3), nfor=ctx.pick(1, 2)),
                       workers=ctx.pick(3, 6), timeout=ctx.pick(300, 1500), coverage=ctx.thorough),
        "L": par.start(ctx.tlc, "DynListeners_MC", cfg_text=dyn_cfg(UA, nchg=2, nfor=2, rest="INVARIANTS TypeOK\nPROPERTIES EventuallyExact"),
                       workers=2, timeout=600),
        "V": par.start(ctx.tlc, "DynListeners_MC", cfg_text=dyn_cfg(UA, nchg=2, nfor=1, ptb="TRUE"), workers=2, timeout=300),
    }
    if ctx.thorough:    # two concurrent clients (2 clients with 2 table changes: > 40 M states, not run)
        jobs["B2"] = par.start(ctx.tlc, "DynListeners_MC", cfg_text=dyn_cfg(UB, clients='{"k1", "k2"}', nchg=1, nfor=1), workers=4, timeout=900)
    return jobs


def dyn_model_results(ctx, jobs):
    ok = True
    for k, what in (("A", "DynListeners MC (listeners, 3 ports)"), ("B", "DynListeners MC (connections, 2 ports, 1 client)"),
                    ("B2", "DynListeners MC (connections, 2 ports, 2 clients)"), ("L", "DynListeners liveness EventuallyExact")):
        if k not in jobs:
            continue
        r = Par.wait(jobs[k])
        ctx.log("%s: %d generated, %d distinct, depth %d, %.0fs" % (what, r.generated, r.distinct, r.depth, r.wall))
        if not ctx.need_tlc_ok(r, what):
            ok = False
            continue
        if ctx.thorough and k in ("A", "B") and r.coverage0:
            # universe A has no clients: the client actions are necessarily idle there; Bind/BindFail
            # belong to the variant ProbeThenBind = TRUE
            idle = [a for a in r.coverage0 if not (k == "A" and (a.startswith("Conn") or a in ("ChkInv", "ChkRet", "Drop", "Client")))
                    and a not in ("Bind", "BindFail")]
            if idle:
                ctx.inconclusive("actions never taken in %s: %s" % (what, idle))
        ctx.cover("dyn-mc-" + k, states=r.distinct, transitions=r.generated)
    v = Par.wait(jobs["V"])
    if v.timed_out or v.error:
        ctx.inconclusive("DynListeners variant ProbeThenBind=TRUE did not complete: %s" % (v.error or "timeout"))
        ok = False
    elif v.violated != "NoCrash":
        ctx.inconclusive("the variant ProbeThenBind=TRUE (probe, close, bind later - what the code does) is expected to violate NoCrash; TLC says %s" % v.violated)
        ok = False
    else:
        ctx.log("variant ProbeThenBind=TRUE violates NoCrash as expected (lead: the port can be lost between probe and bind)")
    return ok


# ----------------------------------------------------------------------------- (a) histories
GEN_K = 2


def dyn_gen_jobs(ctx, par, base):
    depth = ctx.pick(7, 10)
    rest = "CONSTANTS\n  MaxSteps = %d\n  Shape <- %s\nINVARIANTS GenConsistent"
    ex = par.start(ctx.tlc, "DynListeners_Gen", cfg_text=dyn_cfg(UA, spec="GenSpec", clients='{"k1", "k2"}', nchg=0, nfor=0,
                   rest=rest % (GEN_K, "ShapeAny")), json_sink=base + ".ex", workers=2, timeout=600)
    tun = par.start(ctx.tlc, "DynListeners_Gen", cfg_text=dyn_cfg(UA, spec="GenSpec", clients='{"k1"}', nchg=0, nfor=0,
                    rest=rest % (4, "ShapeTunnel")), json_sink=base + ".tun", workers=2, timeout=600)
    sim = par.start(ctx.tlc, "DynListeners_Gen", cfg_text=dyn_cfg(UG, spec="GenSpec", clients='{"k1", "k2"}', nchg=0, nfor=0,
                    rest=rest % (depth, "ShapeAny")), json_sink=base + ".sim",
                    simulate=ctx.pick(40, 200), depth=depth + 1, seed=ctx.seed, timeout=600)
    return ex, tun, sim, depth


def dyn_histories(ctx, jobs, base):
    jex, jtun, jsim, depth = jobs
    g, t, s = Par.wait(jex), Par.wait(jtun), Par.wait(jsim)
    if not ctx.need_tlc_ok(g, "DynListeners Gen") or not ctx.need_tlc_ok(t, "DynListeners Gen (tunnel kept across a table change)"):
        return None
    if s.error or s.violated or s.timed_out:
        ctx.need_tlc_ok(s, "DynListeners Gen simulation")
        return None
    ctx.cover("dyn-gen", states=g.distinct + t.distinct, transitions=g.generated + t.generated)
    ex = open(base + ".ex").read().splitlines()
    tun = open(base + ".tun").read().splitlines()
    sim = open(base + ".sim").read().splitlines() if os.path.exists(base + ".sim") else []
    rnd = random.Random(ctx.seed)
    total_ex, total_tun = len(ex), len(tun)
    cap = ctx.pick(25, 250)
    if len(ex) > cap:
        ex = rnd.sample(ex, cap)
    # tunnels: as many that must survive as that must be torn down
    half = ctx.pick(6, 40)
    br = [ln for ln in tun if '"broken"' in ln]
    al = [ln for ln in tun if '"broken"' not in ln]
    tun = rnd.sample(br, min(half, len(br))) + rnd.sample(al, min(half, len(al)))
    sim = sim[:ctx.pick(12, 100)]
    with open(base, "w") as fh:
        for ln in ex + tun + sim:
            fh.write(ln + "\n")
    ctx.log("histories: %d of the %d exhaustive ones (%d macro steps), %d of the %d 'table, keep a tunnel, table, probe it' ones, %d simulated (%d macro steps)"
            % (len(ex), total_ex, GEN_K, len(tun), total_tun, len(sim), depth))
    return len(ex) + len(tun) + len(sim)


def validate_raw(ctx, trace, ptb="FALSE"):
    cfg = open(os.path.join(vf.SPEC, "DynListeners_Trace.cfg")).read().replace("ProbeThenBind = FALSE", "ProbeThenBind = " + ptb)
    if ptb == "TRUE":
        cfg = cfg.replace("INVARIANTS TypeOK Exclusive OnlyWanted", "INVARIANTS TypeOK Exclusive")
    return ctx.tlc("DynListeners_Trace", cfg_text=cfg, workers=1, env={"VERIF_TRACE": trace}, timeout=ctx.pick(300, 1200))


def judge_trace(ctx, par, s, r, what, sub):
    """C->S: the recorded execution must be a behaviour of DynListeners_Trace"""
    if r.timed_out or r.error:
        ctx.inconclusive("%s: trace validation did not complete: %s" % (what, r.error or "timeout"))
        return None
    ctx.log("%s: %d events, %d states: %s, %.0fs" % (what, s["events"], r.distinct, "accepted" if r.ok else "REJECTED (%s)" % r.violated, r.wall))
    if r.ok:
        ctx.cover(sub + "-trace", traces_validated_against_impl=1, states=r.distinct, transitions=r.generated)
        return True
    r2 = par.call(validate_raw, ctx, s["trace"], ptb="TRUE")
    dev = bool(r2.ok)
    keep = os.path.join(vf.VERIF, "evidence", "replay", "X03-%s-rejected.ndjson" % sub)
    try:
        os.makedirs(os.path.dirname(keep), exist_ok=True)
        shutil.copy(s["trace"], keep)
    except Exception:
        keep = None
    ctx.violation({"sub": sub + "-trace", "why": r.violated, "explained_by_probe_then_bind": dev},
                  "the execution recorded from the real fabio binary (registrations, consul answers, foreign binds, connections and their answers, tunnel probes) "
                  "is not a behaviour of DynListeners (%s)%s; trace kept at %s" %
                  (r.violated, " - it IS one of the variant ProbeThenBind=TRUE (port lost between probe and bind)" if dev else "", keep),
                  replay={"sub": sub + "-trace", "case": None, "trace": keep})
    return False


def corrupted(ctx, trace, kind):
    """binding self-test traces (cut shortly after the corrupted event): kind 1 = one answer attributed
    to the upstream of another port; kind 2 = an unwanted port still accepts after the barrier"""
    lines = open(trace).read().splitlines()
    if kind == 1:
        swap = {"a1": "c1", "a2": "c1", "b1": "a1", "b2": "a1", "c1": "b1"}
        idx = [i for i, ln in enumerate(lines) if '"ev":"ConnRet"' in ln and any('"res":"%s"' % k in ln for k in swap)]
        if not idx:
            return None
        j = idx[len(idx) // 4]
        e = json.loads(lines[j])
        e["res"] = swap[e["res"]]
        lines[j] = json.dumps(e, separators=(",", ":"))
    else:
        idx = [i for i, ln in enumerate(lines) if '"ev":"ConnRet"' in ln and '"c":"k0"' in ln and '"res":"refused"' in ln
               and i > 0 and '"p":"p' in lines[i - 1]]
        # a refused answer that directly follows another settled observation (not a poll of a port being started)
        idx = [i for i in idx if i >= 3 and '"ev":"ConnRet"' in lines[i - 2] and '"res":"refused"' in lines[i - 2]]
        if not idx:
            return None
        j = idx[len(idx) // 4]
        lines[j] = lines[j].replace('"res":"refused"', '"res":"closed"')
    bad = os.path.join(ctx.tmp, "x03.bad%d.ndjson" % kind)
    open(bad, "w").write("\n".join(lines[:j + 40]) + "\n")
    return bad


# ----------------------------------------------------------------------------- (b) static / file
SF_CFG = """SPECIFICATION %s
CONSTANTS
  FileNeedsHtml = TRUE
  ReadsOnce = TRUE
  MaxWrites = %d
%s
CHECK_DEADLOCK FALSE
"""


def sf_jobs(ctx, par, cases):
    mc = par.start(ctx.tlc, "StaticFile_MC", cfg_text=SF_CFG % ("Spec", 2, "INVARIANTS TypeOK ServesConfigured InvalidNeverServes HtmlConfigured\nPROPERTIES Constant"),
                   workers=1, timeout=300, coverage=ctx.thorough)
    gen = par.start(ctx.tlc, "StaticFile_MC", cfg_text=SF_CFG % ("GenSpec", 1, "INVARIANTS GenOK"), json_sink=cases, workers=1, timeout=300)
    return mc, gen


def sf_go(ctx, par, jobs, cases, binp):
    mc, gen = Par.wait(jobs[0]), Par.wait(jobs[1])
    if not ctx.need_tlc_ok(mc, "StaticFile MC") or not ctx.need_tlc_ok(gen, "StaticFile Gen"):
        return None
    if ctx.thorough and mc.coverage0:
        idle = [a for a in mc.coverage0 if a != "Reread"]      # Reread belongs to the variant ReadsOnce = FALSE
        if idle:
            ctx.inconclusive("actions never taken in StaticFile MC: %s" % idle)
    ctx.cover("sf-mc", states=mc.distinct + gen.distinct, transitions=mc.generated + gen.generated)
    uniq = sorted(set(open(cases).read().splitlines()))
    open(cases, "w").write("\n".join(uniq) + "\n")
    pick = [ln for ln in uniq if '"outcome":["serving"]' in ln and '"routes":["r1"]' in ln]
    one = None
    if pick:
        e = json.loads(pick[0])
        e["routes"] = ["r1", "r2"]
        one = os.path.join(ctx.tmp, "x03.sf.self")
        vf.write_ndjson(one, [e])
    run = par.start(ctx.gotest, ".", FILES, "^TestVerifX03StaticFile$", env={"VERIF_IN": cases, "VERIF_FABIO_BIN": binp}, timeout=400)
    self_ = par.start(ctx.gotest, ".", FILES, "^TestVerifX03StaticFile$", env={"VERIF_IN": one, "VERIF_FABIO_BIN": binp}, timeout=200) if one else None
    return run, self_


def sf_results(ctx, jobs):
    run, self_ = jobs
    r = Par.wait(run)
    if not ctx.need_go_ok(r, "X03 static/file"):
        return False
    s = r.summary
    if s.get("inconclusive"):
        ctx.inconclusive("static/file: %s" % s["inconclusive"])
    ctx.log("static/file backends: %d/%d cases, %d comparisons, deviation 'file backend does not start without noroutehtmlpath' shown in %d case(s), %d failed, %.0fs"
            % (s["cases"], s["of"], s["compared"], s.get("file_needs_html", 0), s["fails"], r.wall))
    ctx.cover("sf", traces_validated_against_impl=s["cases"], evaluations=s["compared"], samples=s.get("samples") or [])
    ctx.take_failures(r, "static-file")
    if self_ is None:
        ctx.inconclusive("static/file self-test: no serving case with route r1 generated")
        return True
    r2 = Par.wait(self_)
    if ctx.need_go_ok(r2, "X03 static/file self-test") and not r2.of_kind("fail"):
        ctx.inconclusive("binding self-test (static/file): a corrupted expectation was not rejected")
    return True


# ----------------------------------------------------------------------------- driver
def go_dyn(ctx, test, env, timeout):
    return ctx.gotest(".", FILES, test, env=env, timeout=timeout)


def run(ctx):
    ctx.assumptions += [
        "universe (a): ports p1..p3 (+4 marker ports of the barrier), registrations a1 a2 ':p1' tcp, h1 ':p1' http (mixed host), b1 ':p2' tcp, "
        "b2 '127.0.0.1:p2' tcp, c1 ':p3' tcp; clients connect through 127.0.0.1 and 127.0.0.2; refresh 40 ms",
        "table installs are not observable from outside the binary; the tables are determined by the fake Consul's logged health/catalog answers "
        "(as in ControlPlane.tla) and installed in order, each at an unobserved moment no later than the next control-plane barrier (C01)",
        "'eventually accepts' observations are polled with a 20 s deadline; a time-out is inconclusive.  'refuses after the barrier', "
        "'answered by an upstream of another route', 'tunnel torn down although its port stayed wanted' are safety verdicts",
        "the foreign process binds only ports no registration asks for, on a settled system (the probe-then-bind window of the listener start is a recorded lead, not exercised)",
        "universe (b): routes texts empty / one route / two routes with comments / grammar error; no-route HTML not given, empty or a page; file rewritten after start or not",
    ]
    par = Par(ctx)
    mjobs = dyn_model_jobs(ctx, par)
    hist = os.path.join(ctx.tmp, "x03.hist")
    gjobs = dyn_gen_jobs(ctx, par, hist)
    cases = os.path.join(ctx.tmp, "x03.sf.cases")
    sjobs = sf_jobs(ctx, par, cases)
    binp = build_fabio(ctx)
    if not binp:
        return
    sgo = sf_go(ctx, par, sjobs, cases, binp)
    n = dyn_histories(ctx, gjobs, hist)
    if not n:
        return
    # S->C
    g = par.call(go_dyn, ctx, "^TestVerifX03DynReplay$", {"VERIF_IN": hist, "VERIF_FABIO_BIN": binp}, ctx.pick(300, 800))
    pend, selfs = [], []
    if ctx.need_go_ok(g, "X03 dyn replay"):
        s = g.summary
        ctx.log("replay: %d/%d histories, %d macro steps, %d ip:port comparisons, %d connections (%d polls), %d events, %d failed, %.0fs"
                % (s["histories"], s["of"], s["steps"], s["compared"], s["connects"], s["polls"], s["events"], s["fails"], g.wall))
        ctx.cover("dyn-replay", traces_validated_against_impl=s["histories"], evaluations=s["compared"], samples=s.get("samples") or [])
        ctx.take_failures(g, "dyn-replay")
        if s.get("inconclusive"):
            ctx.inconclusive("replay run: %s" % s["inconclusive"])
        else:
            pend.append((s, par.start(validate_raw, ctx, s["trace"]), "replay run, recorded", "dyn-replay"))
            for kind in (1, 2):
                bad = corrupted(ctx, s["trace"], kind)
                if bad is None:
                    ctx.inconclusive("replay run self-test %d: no suitable event recorded" % kind)
                else:
                    selfs.append((kind, par.start(validate_raw, ctx, bad)))
    # C->S
    for k in range(ctx.pick(1, 4)):
        g2 = par.call(go_dyn, ctx, "^TestVerifX03DynConc$", {"VERIF_FABIO_BIN": binp, "VERIF_X03_STEPS": ctx.pick(60, 120),
                      "VERIF_SEED": ctx.seed * 100 + k}, ctx.pick(300, 600))
        if not ctx.need_go_ok(g2, "X03 dyn concurrent"):
            break
        s2 = g2.summary
        ctx.log("concurrent run %d: %d bursts, %d barriers, %d connections, %d events, %.0fs" % (k, s2["steps"], s2["barriers"], s2["connects"], s2["events"], g2.wall))
        ctx.take_failures(g2, "dyn-conc")
        if s2.get("inconclusive"):
            ctx.inconclusive("concurrent run %d: %s" % (k, s2["inconclusive"]))
            continue
        ctx.cover("dyn-conc", evaluations=s2["connects"])
        pend.append((s2, par.start(validate_raw, ctx, s2["trace"]), "concurrent run %d" % k, "dyn-conc"))
    # collect
    dyn_model_results(ctx, mjobs)
    for s, job, what, sub in pend:
        judge_trace(ctx, par, s, Par.wait(job), what, sub)
    for kind, job in selfs:
        r = Par.wait(job)
        if r.timed_out or r.error:
            ctx.inconclusive("replay run self-test %d did not complete: %s" % (kind, r.error or "timeout"))
        elif r.ok:
            ctx.inconclusive("binding self-test: a trace %s was accepted" % ("with one answer attributed to the upstream of another port" if kind == 1
                             else "in which an unwanted port still accepts after the barrier"))
    if sgo:
        sf_results(ctx, sgo)
    ctx.cover(rule="(a) histories: a seeded sample of all histories of 2 macro steps over 32 tables x 3 ports, a seeded sample of all 'table, keep a tunnel, table, probe it' histories, plus seeded simulated ones of 7 (quick) / 10 (thorough) "
              "macro steps over 64 tables, each step followed by a causality barrier and a comparison of all 6 ip:port pairs; recorded executions validated by TLC; "
              "(b) every case of the StaticFile generator started as a real process", exhaustive=False)


def replay(ctx, rp):
    sub = rp["replay"]["sub"]
    case = rp["replay"].get("case")
    if sub.endswith("-trace"):
        tr = rp["replay"].get("trace")
        if not tr or not os.path.exists(tr):
            ctx.inconclusive("replay of %s: the kept trace is gone; re-run the check" % sub)
            return
        r = validate_raw(ctx, tr)
        if r.timed_out or r.error:
            ctx.inconclusive("trace validation did not complete: %s" % (r.error or "timeout"))
        elif not r.ok:
            ctx.violation(rp.get("features", {}), "the kept trace is still rejected by DynListeners_Trace (%s)" % r.violated, replay=rp["replay"])
        else:
            ctx.cover(traces_validated_against_impl=1)
        return
    binp = build_fabio(ctx)
    if not binp:
        return
    one = os.path.join(ctx.tmp, "x03.replay")
    if sub == "dyn-replay" and isinstance(case, dict) and isinstance(case.get("history"), dict):
        vf.write_ndjson(one, [case["history"]])
        g = go_dyn(ctx, "^TestVerifX03DynReplay$", {"VERIF_IN": one, "VERIF_FABIO_BIN": binp}, 300)
        if ctx.need_go_ok(g, "X03 dyn replay"):
            ctx.cover(evaluations=g.summary["compared"])
            ctx.take_failures(g, "dyn-replay")
            if g.summary.get("inconclusive"):
                ctx.inconclusive(g.summary["inconclusive"])
        return
    if sub == "static-file" and case:
        vf.write_ndjson(one, [case])
        r = ctx.gotest(".", FILES, "^TestVerifX03StaticFile$", env={"VERIF_IN": one, "VERIF_FABIO_BIN": binp}, timeout=200)
        if ctx.need_go_ok(r, "X03 static/file replay"):
            ctx.cover(evaluations=1)
            ctx.take_failures(r, "static-file")
        return
    ctx.inconclusive("replay of %s: re-run the check (the recorded schedule depends on timing)" % sub)
