"""Which properties are claimed, at what level; source of MANIFEST.json (bin/mkmanifest)."""

HOOK_COMMITS = ["63154e1"]

MC = "model_checking"

CHECKS = {
    "C01": {
        "category": MC,
        "technique": "TLA+ spec ControlPlane (registry, two consul watchers, update loop) model-checked with TLC incl. liveness; TLC-generated registry histories replayed through a fake Consul into the real consul backend + main.watchBackend, recorded event trace validated by TLC against the spec; Health.tla check-multiset rule enumerated and replayed into passingServices",
        "text": "Every interleaving of registry changes, both watchers (including the health-snapshot/catalog skew) and the update loop is explored for the bounded universe and QuiescentCorrect/LastGood/Isolation plus EventuallyCorrect (liveness) are decided by TLC; the same spec generates registry histories with the table prescribed at quiescence, which are applied to a fake Consul HTTP API serving fabio's real consul backend and real update loop, comparing route.GetTable() after every change; every execution is recorded (fake-Consul events + SetTable hook, one logical clock) and must be accepted by ControlPlane_Trace with the invariants evaluated at every step. The health rule itself is enumerated over every multiset of <=3/4 checks x 28 configurations and replayed into passingServices/checksWithTagPrefix.",
        "note": "Bounded: 3 instances (two of one service with the same service id on two nodes), 5 instance states, 3 node states, 5 override texts, <=3 (quick) / 4 (thorough) changes exhaustively in the model, histories of <=2/3 changes exhaustively plus seeded random ones of 8-12 changes against the code. 'Observed' is read as 'delivered to the update loop'. Trusts TLC, the fake Consul's blocking-query semantics, the hook placement (after table.Store), Go toolchain.",
    },
    "C06": {
        "category": MC,
        "technique": "TLA+ spec DataPlane (pick/glob/redirect as invocation, one atomic effect, response) model-checked with TLC (the fine-grain variant of the unrepaired code must violate it); recorded concurrent executions of real lookups under the race detector validated by TLC against DataPlane_Trace (linearizability), 16-goroutine stress judged by exact counts",
        "text": "TLC decides ExactShare, OwnLocation and CacheBounded for every interleaving of 3 request processes and shows that the unrepaired grain (read-then-add cursor, shared redirect slot) violates them. The binding is trace validation: 6 goroutines perform real Table.Lookup round-robin picks, redirect lookups with their own path and GlobCache gets; every invocation/response is recorded with one logical clock and TLC must find atomic effects explaining every result and the final cursor and cache contents. Stress runs with 16 goroutines and a concurrent table swapper require exact per-target counts after whole ring cycles (10^4-slot weighted ring), the cache within its size, every Location the request's own, and no race-detector report.",
        "note": "Schedules are those the Go scheduler produces at GOMAXPROCS 16/4/2/8 in 4 (quick) to 20 (thorough) runs; exhaustive only in the model (3 processes, <=5-6 operations). A data-race report is a violation of this property. Trusts TLC, the race detector, the logical-clock recorder.",
    },
    "C14": {
        "category": MC,
        "technique": "TLA+ spec Registration (Expressible/Denote) enumerated by TLC and replayed into routecmd.build -> route.NewTable; isolation decided on ControlPlane (state 'bad', invariant Isolation) and bound by the fake-Consul pipeline with rotating inexpressible tag sets + trace validation",
        "text": "TLC enumerates every registration of a bounded token-class universe with the target it must denote or the verdict 'inexpressible'; each is pushed through the real generator and the real parser and the resulting table is compared field by field (service, prefix, protocol/address, weight, tags, options), an inexpressible one must produce no command. That one bad registration never blocks others is the invariant Isolation of ControlPlane, checked on every interleaving, and is bound to the code by running the real consul backend and update loop against a fake Consul whose 'bad' instances carry inexpressible tag sets taken from the same enumeration.",
        "note": "Bounded token classes (3 names, 3 address forms, 6 prefixes, <=2/3 of 15 options with one option per key, <=2 of 4 other tags). Out of scope (statement silent): malformed redirect option, tags with commas/white space, redirect combined with proto. Trusts TLC, the harness's CatalogService construction, Go toolchain.",
    },
    "C02": {
        "category": MC,
        "technique": "TLA+ specs UpdateLoop (Same/Reject/Install, no crash action), TableSwap (atomic register, split invocation/linearization/response) and RouteHostile (grammar over hostile tokens) checked/enumerated by TLC; update sequences replayed into the real main.watchBackend and custom backend, hostile scripts into NewTable/NewTableCustom + lookups, concurrent swap/lookup runs recorded under -race and validated by TLC (linearizability)",
        "text": "LastGood/InvalidKeeps/NextValidApplied are decided exhaustively on the update-loop model; every update sequence of the bounded alphabet is then driven through the real update loop (scripted registry backend: both channels; real custom backend polling a scripted HTTP endpoint) and the active table compared after every message, a crash of the loop being a violation. 'No text can crash the process' is bound by enumerating the command grammar over hostile token classes (non-finite/denormal/huge weights, bad globs and URLs, 64 KiB tokens) and running every script through both table constructors followed by lookups with all matchers and pickers. Atomicity is a linearizability check: recorded executions of 8 concurrent readers (3 probes per loaded table) against a writer alternating two distinguishable tables must be accepted by TableSwap_Trace, built with the race detector.",
        "note": "Bounded alphabets (4 service texts, 3 manual texts, 7 poll answers; sequences of 4-5 / 3-4 messages), 11k-23k hostile scripts, 2-10 recorded runs of about 1000 events. Texts used as 'invalid' are grammar-level syntax errors, verified by the harness to be rejected on their own. Trusts TLC, the Go race detector, the duplicate-send barrier.",
    },
    "C05": {
        "category": MC,
        "technique": "TLA+ spec RouteLang model-checked with TLC; every examined transition and seeded simulation behaviours replayed into route.NewTable/NewTableCustom/Table.String (model-based conformance)",
        "text": "The command language is an explicit TLA+ state machine (one action per command); TLC proves the language properties (idempotent add, exact del, local weight, weights sum to one, render/rebuild round trip) on the bounded universe and enumerates every transition with the table the spec prescribes; each is replayed through the real parser and table builder and the complete projected table is compared after every script, plus the re-parsed text rendering.",
        "note": "Bounded universe (2 services, 7 source spellings incl. upper-case hosts and a :port source, 2 destinations, 3 weights, 3 tag lists, 2 option sets; exhaustive to 2 commands over the full universe and 3 over the small one, seeded random scripts to 7-10 commands). Trusts TLC, the Go toolchain, and the harness's command renderer; float weights compared with exact rationals to 1e-9.",
    },
}

_PENDING = "check not built yet in this round (specification and harness planned in DESIGN.md section 3)"
NOT_APPLICABLE = {("C%02d" % i): _PENDING for i in range(1, 21) if ("C%02d" % i) not in CHECKS}
