"""Which properties are claimed, at what level; source of MANIFEST.json (bin/mkmanifest)."""

HOOK_COMMITS = []

MC = "model_checking"

CHECKS = {
    "C05": {
        "category": MC,
        "technique": "TLA+ spec RouteLang model-checked with TLC; every examined transition and seeded simulation behaviours replayed into route.NewTable/NewTableCustom/Table.String (model-based conformance)",
        "text": "The command language is an explicit TLA+ state machine (one action per command); TLC proves the language properties (idempotent add, exact del, local weight, weights sum to one, render/rebuild round trip) on the bounded universe and enumerates every transition with the table the spec prescribes; each is replayed through the real parser and table builder and the complete projected table is compared after every script, plus the re-parsed text rendering.",
        "note": "Bounded universe (2 services, 7 source spellings incl. upper-case hosts and a :port source, 2 destinations, 3 weights, 3 tag lists, 2 option sets; exhaustive to 2 commands over the full universe and 3 over the small one, seeded random scripts to 7-10 commands). Trusts TLC, the Go toolchain, and the harness's command renderer; float weights compared with exact rationals to 1e-9.",
    },
}

_PENDING = "check not built yet in this round (specification and harness planned in DESIGN.md section 3)"
NOT_APPLICABLE = {("C%02d" % i): _PENDING for i in range(1, 21) if ("C%02d" % i) not in CHECKS}
