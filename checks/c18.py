"""C18 - shutdown drains in-flight work and completes within the configured wait.

spec: Shutdown.tla (+ Shutdown_MC.tla universes / scenario generator)
TLC : NoAcceptAfterStart, ShortCompletes, NothingRunsAtReturn, BoundedReturn on every configuration of
      <=2 listener kinds out of {http, https, tcp, tcp+sni, grpc, https+tcp+sni} (thorough: also <=3 of 4
      kinds), and of listeners that share a port on two local addresses ("k~2"), x <=2 work items per
      listener x durations {short, long, never, mute = half-closed tunnel with a silent upstream} x start
      moments; the deviation of the pinned code (GrpcIgnoresDeadline) must violate BoundedReturn on the
      model; every examined Return transition is printed as a scenario; seeded simulation adds mixes of
      up to all six kinds
bind: scenarios played against the real proxy.ListenAndServe* listeners (real `servers` registry),
      real in-flight requests / tunnels / streams and the real proxy.Shutdown(W), followed by what the
      process exit does (harness/proxy/c18_test.go); thorough also runs the built fabio binary and sends
      SIGTERM"""
import json, os, random, signal, socket, subprocess, threading, time
from lib import vf

CFG = """SPECIFICATION %(spec)s
CONSTANTS
  KindOrder <- %(ko)s
  DurOrder <- %(do)s
  Dur <- MCDur
  TunnelKinds <- MCTunnelKinds
  GrpcKinds <- MCGrpcKinds
  LateStartKinds <- %(late)s
  LateListenerLeaks = %(leak)s
  DynamicKinds <- %(dyn)s
  FailKinds <- %(fail)s
  GraceTicks = %(grace)d
  WaitFromSignal = %(wfs)s
  FailedServerForgotten = %(forgot)s
  MaxSignals = %(sig)d
  SecondSignalKills = %(kill)s
  MaxServers = %(ms)d
  MaxItems = %(mi)d
  MaxStart = %(st)d
  W = 4
  Slack = 1
  GrpcIgnoresDeadline = %(gid)s
INVARIANTS TypeOK NoAcceptAfterStart ShortCompletes NothingRunsAtReturn BoundedReturn
PROPERTIES NoNewWorkAfterStart
CHECK_DEADLOCK FALSE
"""
ACTIONS = ["AcceptAny", "FinishAny", "ShutdownStart", "DrainAny", "DeadlineAny", "Return", "Tick"]   # StartServeAny: only in gen_late
TICK = 0.150
WAIT_TICKS = 4


def cfg(**k):
    d = dict(spec="Spec", ms=2, mi=2, st=1, gid="FALSE", ko="MCKindOrder", do="MCDurOrder", late="MCNoKinds", leak="FALSE", dyn="MCNoKinds", sig=0, kill="FALSE", fail="MCNoKinds", grace=0, wfs="FALSE", forgot="FALSE")
    d.update(k)
    return CFG % d


def read(path):
    with open(path) as fh:
        return [json.loads(l) for l in fh if l.strip()]


def signature(sc):
    return (tuple(sorted(sc["kinds"])), tuple(sorted((i["srv"], i["dur"]) for i in sc["items"])))


def stratified(scs, n, rnd):
    """n scenarios, as different from each other as the generated set allows: every listener kind x
    duration class first, then one per signature in random order."""
    scs.sort(key=lambda x: json.dumps(x, sort_keys=True))   # TLC's workers print in no particular order
    rnd.shuffle(scs)
    by_sig = {}
    for sc in scs:
        by_sig.setdefault(signature(sc), []).append(sc)
    chosen, used = [], set()
    # each (kind, duration) pair in flight at the moment shutdown starts, alone and next to other work
    pairs = sorted({(i["srv"], i["dur"]) for sc in scs for i in sc["items"]})
    rnd.shuffle(pairs)
    for p in pairs:
        cands = sorted(s for s in by_sig if p in s[1] and s not in used and len(s[1]) >= 2)
        if cands and len(chosen) < n:
            s = rnd.choice(cands)
            used.add(s)
            chosen.append(by_sig[s][0])
    sigs = sorted(s for s in by_sig if s not in used)
    rnd.shuffle(sigs)
    for s in sigs:
        if len(chosen) >= n:
            break
        chosen.append(by_sig[s][0])
    return chosen


def run_harness(ctx, cases, what, timeout):
    r = ctx.gotest("proxy", ["proxy/c18_test.go"], "^TestVerifC18$", env={"VERIF_IN": cases}, timeout=timeout)
    if not ctx.need_go_ok(r, what):
        return None
    return r


def run(ctx):
    ctx.level = "model_checking"
    ctx.assumptions += [
        "1 tick = 150 ms, W = proxy.shutdownwait = 4 ticks = 600 ms, slack = 2 s: Shutdown must return within 2.6 s; short work = 150 ms (4x below W), long = 6 s (10x above), never-ending work ends with the scenario",
        "work that ends just within the wait ('edge'): scenarios that carry it run with 1 tick = 500 ms (W = 2 s); the work ends at the absolute moment shutdown start + W - 75 ms; it must complete; an incomplete item is a violation only if the client saw it end earlier than W - 25 ms after the start (a later cut may be the deadline itself), otherwise it is counted as skipped",
        "a signal during start-up: proxy.serve is taken apart by the harness (server put into the registry; handed its listener 50 ms after Shutdown was called) for http, https, tcp, tcp+sni, tcp+tls and grpc; the tcpproxy-based https+tcp+sni listener and moments inside ListenTCP are not covered",
        "stalled connections: the client connects and sends nothing (stall0), half of its first protocol message (stall1: TLS ClientHello, HTTP/2 preface, HTTP request head, tunnel line) or that message and nothing after it (stall2: ClientHello without the rest of the handshake, preface without SETTINGS), 30 ms before Shutdown is called; nothing is asserted about them except that they do not delay the return",
        "a listener closed at run time: kind tcp-dyn = what main's refresh loop starts for a port of a proto=tcp-dynamic listener with a cert source (ListenAndServeTCP + tcp.DynamicProxy + TLS); 'reset' work = a TLS tunnel whose client connection is reset (SO_LINGER 0) once the upstream has the request, the upstream keeps its side open; proxy.CloseProxy(addr) is called before Shutdown as the loop does when the route of the port goes; nothing is asserted about work on a listener closed that way",
        "a listener that fails at run time: the harness starts the server through proxy.serve (where every ListenAndServe* ends) on a listener whose Accept returns a non-temporary error on command, waits for Serve to return, then calls Shutdown as main does after its exit.Fatal; covered for http, https, tcp, tcp+sni, tcp+tls, grpc",
        "proxy.deregistergraceperiod: in the package harness the grace period is just time before Shutdown is called; the wiring in main (wait counted from the start of the shutdown, not from the signal) is bound by the binary part, which runs with deregistergraceperiod=0.6s and a 1.3 s request in flight (wait 1 s): it must complete; an incomplete request is a violation only if the client saw it end earlier than 0.25 s before grace+wait",
        "a further signal while the shutdown is under way: in the package harness a second proxy.Shutdown call; in the built binary (now also in quick) SIGTERM followed 0.1 s later by SIGHUP / SIGTERM / SIGINT (seed picks one, thorough all three) with a 0.3 s request in flight and proxy.shutdownwait = 1 s: the request must complete and the process must exit by itself (exit code >= 0)",
        "the harness never blocks on fabio's own registry lock (TryLock with a 3 s limit): a lock left behind makes the shutdown that follows a bounded-return violation and ends the run",
        "besides the served-connection probe at +100 ms, a plain TCP connect at W/2 and at 0.9 W after the start must be refused for every listener (every listener of fabio closes its socket first; being accepted and dropped later is only tolerated at +100 ms)",
        "one listener per kind in a configuration ({http, https, tcp, tcp+sni, grpc, https+tcp+sni}; 'k~2' = a second listener on the same port of 127.0.0.2), <=2 work items per listener, all in flight (first answer bytes received by the client; for a half-closed tunnel: the upstream has seen the client's EOF) before Shutdown is called",
        "when Shutdown has returned the harness closes every server, as the process exit does in fabio's main: work a listener was not waited for is cut there",
        "a short item is asserted to complete only if its server side ended within W/2 of the shutdown start by the harness's own clock (a slower machine gives no verdict on that item; counted as skipped)",
        "'no listener accepts': one fresh connection per listener 100 ms after Shutdown was called must be refused or closed without an answer; new requests on connections that already exist are not covered",
        "the statement is silent about work that outlasts the wait (cut or left running): nothing is asserted about it except that it does not delay the return",
        "the grpc listener carries the options main.newGrpcProxy builds (codec, transparent handler, interceptor), reconstructed in the harness because package proxy cannot import main",
    ]
    # 1. TLC, side by side: (a) the design on <=2 of the 6 kinds -- invariants checked and one scenario
    #    printed per Return transition; (b) the same with listeners that share a port; (c) seeded simulation
    #    over all six kinds; (d) the deviation of the pinned code, which must break exactly BoundedReturn;
    #    thorough: (e) configurations of three listeners
    sink = os.path.join(ctx.tmp, "c18.gen")
    sink2 = os.path.join(ctx.tmp, "c18.sim")
    sink3 = os.path.join(ctx.tmp, "c18.twins")
    sink4 = os.path.join(ctx.tmp, "c18.edge")
    sink5 = os.path.join(ctx.tmp, "c18.simedge")
    sink6 = os.path.join(ctx.tmp, "c18.late")
    sink7 = os.path.join(ctx.tmp, "c18.dyn")
    sink9 = os.path.join(ctx.tmp, "c18.fail")
    jobs = [
        # a listener fails at run time (Accept returns an error for good) with work in flight; then the shutdown
        # (in the same run: a signal during start-up -- servers that are in the registry but have not been handed
        # their listener yet)
        ("gen_late_fail", dict(cfg_text=cfg(spec="GenSpec", ms=2, mi=1, st=1, fail="MCFailKinds", late="MCLateKinds"), json_sink=sink9, workers=2,
                               timeout=ctx.pick(300, 900))),
        # a listener closed at run time (proxy.CloseProxy: the route of a tcp-dynamic port went) with a tunnel on it
        # whose client connection was reset; later the shutdown; and a further signal while it is under way
        ("gen_dyn", dict(cfg_text=cfg(spec="GenSpec", ms=2, mi=ctx.pick(1, 2), st=1, ko="MCKindOrderDyn", do="MCDurOrderDyn", dyn="MCDynKinds", sig=1),
                         json_sink=sink7, workers=2, timeout=ctx.pick(300, 900))),

        ("gen_edge", dict(cfg_text=cfg(spec="GenSpec", ms=2, mi=ctx.pick(1, 2), st=1, do="MCDurOrderEdge"), json_sink=sink4, workers=4, timeout=ctx.pick(300, 1500))),
        ("sim_edge", dict(cfg_text=cfg(spec="GenSpec", ms=7, st=1, do="MCDurOrderEdge"), json_sink=sink5, simulate=ctx.pick(600, 4000), depth=80, seed=ctx.seed, timeout=600)),
        ("gen", dict(cfg_text=cfg(spec="GenSpec", ms=2, st=ctx.pick(1, 2)), json_sink=sink, workers=4, timeout=ctx.pick(300, 1500), coverage=ctx.thorough)),
        ("gen_twins", dict(cfg_text=cfg(spec="GenSpec", ms=2, mi=ctx.pick(1, 2), st=1, ko="MCKindOrderTwins"), json_sink=sink3, workers=4, timeout=ctx.pick(300, 1500))),
        ("sim", dict(cfg_text=cfg(spec="GenSpec", ms=6, st=2), json_sink=sink2, simulate=ctx.pick(400, 4000), depth=80, seed=ctx.seed, timeout=600)),
        ("mc_deviation", dict(cfg_text=cfg(ms=1, gid="TRUE"), workers=2, timeout=300)),
    ]
    sink8 = os.path.join(ctx.tmp, "c18.dyn2")
    if ctx.thorough:
        # proxy.deregistergraceperiod: the wait counts from the start of the shutdown, not from the signal
        jobs.append(("mc_grace", dict(cfg_text=cfg(ms=2, grace=2), workers=2, timeout=900)))
        # proxy.CloseProxy is an exported function: also on a listener main itself never closes at run time
        jobs.append(("gen_dyn_api", dict(cfg_text=cfg(spec="GenSpec", ms=2, mi=1, st=1, ko="MCKindOrderDynApi", do="MCDurOrderDyn", dyn="MCDynKindsApi"),
                                         json_sink=sink8, workers=2, timeout=900)))
        jobs.append(("mc3", dict(cfg_text=cfg(ms=3, st=1, ko="MCKindOrder4"), workers=4, timeout=1500)))
        jobs.append(("mc_deviation_late", dict(cfg_text=cfg(ms=1, mi=1, late="MCLateKinds", leak="TRUE"), workers=2, timeout=300)))
        jobs.append(("mc_deviation_grace", dict(cfg_text=cfg(ms=1, grace=2, wfs="TRUE"), workers=2, timeout=300)))
        jobs.append(("mc_deviation_failed", dict(cfg_text=cfg(ms=1, mi=1, fail="MCFailKinds", forgot="TRUE"), workers=2, timeout=300)))
        jobs.append(("mc_deviation_signal", dict(cfg_text=cfg(ms=1, sig=1, kill="TRUE"), workers=2, timeout=300)))
    results = {}

    def tlc_job(name, kw):
        try:
            results[name] = ctx.tlc("Shutdown_MC", **kw)
        except Exception as e:
            results[name] = e
    threads = []
    for name, kw in jobs:
        t = threading.Thread(target=tlc_job, args=(name, kw))
        t.start()
        threads.append(t)
        time.sleep(0.5)             # ctx.tlc numbers its scratch directories when it is entered
    for t in threads:
        t.join()
    for name, kw in jobs:
        r = results.get(name)
        if r is None or isinstance(r, Exception):
            ctx.inconclusive("Shutdown %s: TLC did not run: %r" % (name, r))
            return
        ctx.log("%s: %d states, %d distinct, depth %d, %.0fs" % (name, r.generated, r.distinct, r.depth, r.wall))
        if name == "mc_deviation":
            if r.violated != "BoundedReturn":
                ctx.inconclusive("model self-test: GrpcIgnoresDeadline=TRUE should violate BoundedReturn, got %r %r" % (r.violated, r.error))
                return
        elif name == "mc_deviation_late":
            if r.violated != "NoAcceptAfterStart":
                ctx.inconclusive("model self-test: LateListenerLeaks=TRUE should violate NoAcceptAfterStart, got %r %r" % (r.violated, r.error))
                return
        elif name in ("mc_deviation_grace", "mc_deviation_failed"):
            # a forgotten server makes Shutdown return at once: the work it cuts (ShortCompletes) is also still running
            # at the return (NothingRunsAtReturn); with several workers TLC reports whichever it reaches first
            if r.violated != "ShortCompletes" and not (name == "mc_deviation_failed" and r.violated == "NothingRunsAtReturn"):
                ctx.inconclusive("model self-test: %s should violate ShortCompletes, got %r %r" % (name, r.violated, r.error))
                return
        elif name == "mc_deviation_signal":
            if r.violated != "ShortCompletes":
                ctx.inconclusive("model self-test: SecondSignalKills=TRUE should violate ShortCompletes, got %r %r" % (r.violated, r.error))
                return
        elif name in ("sim", "sim_edge"):
            if r.error or r.violated or r.timed_out:
                ctx.need_tlc_ok(r, "Shutdown simulation")
                return
        elif not ctx.need_tlc_ok(r, "Shutdown " + name):
            return
        ctx.cover(name, states=r.distinct if not name.startswith("sim") else 0, transitions=r.generated)
    if ctx.thorough and set(results["gen"].coverage0) & set(ACTIONS):
        ctx.inconclusive("actions never taken: %s" % sorted(set(results["gen"].coverage0) & set(ACTIONS)))
        return
    twins = [s for s in read(sink3) if s["items"] and len(s["kinds"]) == 2 and sum(k.endswith("~2") for k in s["kinds"]) == 1]
    small = [s for s in read(sink) if s["items"]]
    big = [s for s in read(sink2) if len(s["kinds"]) >= 4 and len(s["items"]) >= 4]
    rnd = random.Random(ctx.seed)
    # classes that must be present whatever the seed: (a) an idle listener that drains at once next to a
    # listener with short work in flight, (b) a half-closed tunnel with a silent upstream that outlasts the
    # wait, (c) two listeners on one port
    idle = [s for s in small if len(s["kinds"]) == 2 and len({i["srv"] for i in s["items"]}) == 1
            and any(i["dur"] == "short" and i["at"] == s["tstart"] for i in s["items"])
            and (set(s["kinds"]) - {i["srv"] for i in s["items"]}) & {"http", "https", "grpc"}]
    mute = [s for s in small if any(i["dur"] == "mute" for i in s["items"])]
    chosen = (stratified(small, ctx.pick(4, 220), rnd) + stratified(big, ctx.pick(2, 40), rnd) + stratified(idle, ctx.pick(2, 18), rnd)
              + stratified(mute, ctx.pick(1, 12), rnd) + stratified(twins, ctx.pick(1, 24), rnd))
    # (d) work that ends just within the wait, on every kind; (e) connections that never get as far as a
    # request (silent, or stuck in the middle of the TLS ClientHello), on every kind -- fewest scenarios
    # that cover all kinds first, then a stratified slice
    allkinds = ["http", "https", "tcp", "tcp+sni", "grpc", "https+tcp+sni", "tcp+tls"]
    edgy = sorted(read(sink4) + read(sink5), key=lambda x: json.dumps(x, sort_keys=True))
    rnd.shuffle(edgy)

    def cover_kinds(dur, need_at_start):
        todo, out = set(allkinds), []
        while todo:
            def gain(sc):
                return len({i["srv"] for i in sc["items"] if i["dur"] == dur and (not need_at_start or i["at"] == sc["tstart"])} & todo)
            best = max(edgy, key=gain, default=None)
            if best is None or gain(best) == 0:
                break
            out.append(best)
            todo -= {i["srv"] for i in best["items"] if i["dur"] == dur}
        return out, todo
    edge_cover, edge_missing = cover_kinds("edge", True)
    stall_cover, stall_missing = [], set()
    for cls in ("stall0", "stall1", "stall2"):      # nothing sent / part of the first message / the first message and no more
        c, m = cover_kinds(cls, False)
        stall_cover += [x for x in c if x not in stall_cover]
        stall_missing |= m
    if edge_missing or stall_missing:
        ctx.inconclusive("the generator produced no edge / stalled-connection work for %s" % sorted(edge_missing | stall_missing))
        return
    # (f) servers handed their listener after shutdown began: fewest scenarios that cover every such kind
    lates = sorted((s for s in read(sink9) if s.get("late") and not s.get("failed")), key=lambda x: json.dumps(x, sort_keys=True))
    rnd.shuffle(lates)
    late_cover, todo = [], {"http", "https", "tcp", "tcp+sni", "grpc", "tcp+tls"}
    while todo:
        best = max(lates, key=lambda sc: (len(set(sc["late"]) & todo), len(sc["items"])), default=None)
        if best is None or not set(best["late"]) & todo:
            break
        late_cover.append(best)
        todo -= set(best["late"])
    if todo:
        ctx.inconclusive("the generator produced no start-up scenario for %s" % sorted(todo))
        return
    if ctx.thorough:
        late_cover += stratified(lates, 16, rnd)
    # (g) a listener closed at run time with a reset tunnel on it, other listeners with short work, a second signal
    dyns = sorted(read(sink7), key=lambda x: json.dumps(x, sort_keys=True))
    rnd.shuffle(dyns)

    def dyn_score(sc):
        reset = any(i["dur"] == "reset" and i["srv"] in sc["removed"] for i in sc["items"])
        other_short = any(i["dur"] == "short" and i["srv"] not in sc["removed"] and i["at"] == sc["tstart"] for i in sc["items"])
        return (bool(sc["removed"]) and reset, other_short, sc["signals"] > 0, len(sc["kinds"]))
    dyns.sort(key=dyn_score, reverse=True)
    dyn_cover = dyns[:ctx.pick(1, 6)]
    if not dyn_cover or dyn_score(dyn_cover[0])[:3] != (True, True, True):
        ctx.inconclusive("the generator produced no scenario with a listener closed at run time, a reset tunnel, short work elsewhere and a second signal")
        return
    if ctx.thorough:
        dyn_cover += stratified([d for d in dyns if d["removed"] or d["signals"]], 14, rnd)
        api = [d for d in read(sink8) if d["removed"] and "https+tcp+sni" in d["removed"] and len(d["kinds"]) == 2]
        if not api:
            ctx.inconclusive("the generator produced no scenario that closes a https+tcp+sni listener at run time")
            return
        dyn_cover += stratified(api, 6, rnd)
    # (h) a listener that failed at run time with short work in flight on it, alone (so that nothing else keeps
    #     the shutdown from returning) -- every kind -- and next to other listeners
    fails = sorted((s for s in read(sink9) if s.get("failed")), key=lambda x: json.dumps(x, sort_keys=True))
    rnd.shuffle(fails)
    fail_cover, todo = [], {"http", "https", "tcp", "tcp+sni", "grpc", "tcp+tls"}

    def all_failed_busy(sc):    # every listener of the scenario failed, each with short work in flight at the start
        return (not sc.get("late") and sorted(sc["failed"]) == sorted(sc["kinds"])
                and all(any(i["srv"] == k and i["dur"] == "short" and i["at"] == sc["tstart"] for i in sc["items"]) for k in sc["kinds"]))
    cands = [s for s in fails if all_failed_busy(s)]
    while todo:
        best = max(cands, key=lambda sc: len(set(sc["kinds"]) & todo), default=None)
        if best is None or not set(best["kinds"]) & todo:
            ctx.inconclusive("the generator produced no scenario with a failed listener carrying short work for %s" % sorted(todo))
            return
        fail_cover.append(best)
        todo -= set(best["kinds"])
    if ctx.thorough:
        fail_cover += stratified([s for s in fails if len(s["kinds"]) == 2], 16, rnd)
    small_edge = [s for s in read(sink4) if s["items"]]
    chosen += edge_cover + stall_cover + late_cover + dyn_cover + fail_cover + stratified(small_edge, ctx.pick(1, 40), rnd)
    if not idle or not mute or not twins:
        ctx.inconclusive("the generator produced no idle-listener / half-closed-tunnel / shared-port scenario")
        return
    if len(chosen) < 10:
        ctx.inconclusive("the generator produced only %d usable scenarios" % len(chosen))
        return
    rnd.shuffle(chosen)
    # 3. binding self-test: corrupted expectations must be rejected by the harness
    base = next((s for s in chosen if any(i["srv"] in ("tcp", "tcp+sni") for i in s["items"])), chosen[0])
    st_a = json.loads(json.dumps(base))
    st_a["items"].append({"srv": st_a["kinds"][0], "dur": "short", "at": st_a["tstart"] + 1, "st": "done"})
    st_a["selftest"] = "accept-after-start expected to be served"
    st_b = {"kinds": ["tcp"], "tstart": 0, "tret": 4, "w": WAIT_TICKS, "wait_ticks": 24, "selftest": "bound 4 ticks but Shutdown is handed 24",
            "items": [{"srv": "tcp", "dur": "inf", "at": 0, "st": "cut"}]}
    allsc = chosen + [st_a, st_b]
    for i, s in enumerate(allsc):
        s["idx"] = i + 1
    cases = os.path.join(ctx.tmp, "c18.cases")
    vf.write_ndjson(cases, allsc)
    ctx.log("playing %d scenarios (of %d + %d generated)" % (len(chosen), len(small), len(big)))
    # the built binary (its own process and ports) is exercised while the scenarios are played
    bt = threading.Thread(target=binary, args=(ctx,))
    bt.start()
    r = run_harness(ctx, cases, "C18 scenarios", timeout=ctx.pick(400, 1500))
    bt.join()
    if r is None:
        return
    s = r.summary
    ctx.log("played %d scenarios: %d items, %d short items asserted (%d skipped: machine too slow), %d connection attempts after start, "
            "slowest Shutdown %d ms, %d setup failures, %d failed, %.0fs"
            % (s["scenarios"], s["items"], s["asserted"], s["skipped"], s["probes"], s["max_shutdown_ms"], s["setup_failures"], s["fails"], r.wall))
    ctx.cover(traces_validated_against_impl=s["scenarios"] - s["setup_failures"], evaluations=s["items"] + s["probes"] + s["scenarios"],
              distinct_nontrivial=s["distinct_nontrivial"], samples=s.get("samples") or [],
              rule="one scenario per Return transition TLC examined (<=2 listener kinds) plus seeded simulation behaviours over all six kinds, a stratified seeded slice of which is played (every kind x duration in flight at shutdown start first); non-trivial = distinct scenario with >=2 work items; evaluations = items + connection attempts + Shutdown calls")
    ctx.take_failures(r, "c18")
    for rec in r.of_kind("setup")[:3]:
        ctx.log("  could not be staged: %s" % str(rec.get("msg"))[:200])
    if s.get("twin_skipped"):
        ctx.log("127.0.0.2 cannot be bound on this machine: %d shared-port scenarios skipped" % s["twin_skipped"])
        ctx.assumptions.append("shared-port scenarios skipped: 127.0.0.2 not bindable (%d)" % s["twin_skipped"])
    if s["setup_failures"] * 5 > s["scenarios"]:
        ctx.inconclusive("%d of %d scenarios could not be staged" % (s["setup_failures"], s["scenarios"]))
    if s["asserted"] == 0 or s["skipped"] > s["asserted"]:
        ctx.inconclusive("machine too slow for the timing assumptions: %d short items asserted, %d skipped" % (s["asserted"], s["skipped"]))
    if s["selftests"] != 2 or s["selftests_rejected"] != 2:
        ctx.inconclusive("binding self-test: %d of 2 corrupted scenarios were rejected by the harness (first: %s)"
                         % (s["selftests_rejected"], json.dumps(r.of_kind("selftest"))[:600]))
    if s.get("registry_dead") or s.get("not_played"):
        ctx.inconclusive("fabio left its registry of servers locked (reported above where it happened): %d scenarios could not be played" % s.get("not_played", 0))
    if s.get("registry_left"):
        ctx.inconclusive("harness left %d servers in the registry" % s["registry_left"])


# ---------------------------------------------------------------------------------------------------
# thorough: the built binary, static registry, SIGTERM -- covers main's exit handler (deregister,
# grace period, proxy.Shutdown(cfg.Proxy.ShutdownWait)) with a never-ending request in flight

def free_port():
    s = socket.socket()
    s.bind(("127.0.0.1", 0))
    p = s.getsockname()[1]
    s.close()
    return p


SECOND_SIGNALS = [("SIGHUP", signal.SIGHUP), ("SIGTERM", signal.SIGTERM), ("SIGINT", signal.SIGINT)]


def binary(ctx):
    """The built binary: SIGTERM with work in flight, and a second signal while the shutdown is under way (the
    Signal action of the specification; SIGHUP is documented as ignored, shutting down is idempotent).  Quick: one
    second signal chosen by the seed; thorough: all three.  Up to three attempts each: on a busy machine a port
    picked as free may be taken before fabio binds it."""
    sigs = SECOND_SIGNALS if ctx.thorough else [SECOND_SIGNALS[ctx.seed % 3]]
    for name, sig in sigs:
        why = ""
        for _ in range(3):
            why = binary_once(ctx, name, sig)
            if not why:
                break
        if why:
            ctx.inconclusive(why)
            return


def binary_once(ctx, signame, second):
    gobin, genv = vf.go_tool()
    exe = os.path.join(ctx.tmp, "fabio-c18")
    b = subprocess.run([gobin, "build", "-o", exe, "."], cwd=vf.REPO, env=genv, capture_output=True, text=True, timeout=600)
    if b.returncode != 0:
        ctx.inconclusive("binary part: fabio does not build: %s" % (b.stdout + b.stderr)[-1500:])
        return
    # an upstream that answers the first bytes and then never finishes
    up = socket.socket()
    up.setsockopt(socket.SOL_SOCKET, socket.SO_REUSEADDR, 1)
    up.bind(("127.0.0.1", 0))
    up.listen(8)
    upport = up.getsockname()[1]
    held = []

    import threading

    short_s = 0.3                       # work that finishes well within the wait (3.3x below it)
    short_end = []
    mid_s = 1.3

    def serve_one(c):
        try:
            req = c.recv(4096)
            c.sendall(b"HTTP/1.1 200 OK\r\nTransfer-Encoding: chunked\r\n\r\n6\r\nstart\n\r\n")
            if b"/short" in req:
                time.sleep(short_s)
                c.sendall(b"5\r\ndone\n\r\n0\r\n\r\n")
                short_end.append(time.time())
            elif b"/mid" in req:            # outlasts signal+wait, ends well before grace+wait
                time.sleep(mid_s)
                c.sendall(b"5\r\ndone\n\r\n0\r\n\r\n")
        except OSError:
            short_end.append(time.time())

    def upstream():
        while True:
            try:
                c, _ = up.accept()
            except OSError:
                return
            held.append(c)
            threading.Thread(target=serve_one, args=(c,), daemon=True).start()
    threading.Thread(target=upstream, daemon=True).start()
    hp, tp, ui, dp = free_port(), free_port(), free_port(), free_port()
    wait_s = 1.0
    grace_s = 0.6                       # proxy.deregistergraceperiod: the wait counts from the start of the shutdown
    args = [exe, "-registry.backend", "static", "-registry.static.routes",
            "route add web / http://127.0.0.1:%d/\nroute add tun :%d tcp://127.0.0.1:%d\nroute add dyn :%d tcp://127.0.0.1:%d"
            % (upport, tp, upport, dp, upport),
            "-proxy.addr", "127.0.0.1:%d;proto=http,127.0.0.1:%d;proto=tcp,127.0.0.1:0;proto=tcp-dynamic;refresh=100ms" % (hp, tp),
            "-ui.addr", "127.0.0.1:%d" % ui, "-proxy.shutdownwait", "%dms" % int(wait_s * 1000),
            "-proxy.deregistergraceperiod", "%dms" % int(grace_s * 1000), "-insecure", "-log.level", "WARN"]
    log = open(os.path.join(ctx.tmp, "fabio-c18.log"), "w")
    p = subprocess.Popen(args, stdout=log, stderr=subprocess.STDOUT, cwd=ctx.tmp)
    try:
        # readiness: the HTTP listener answers
        ok = False
        for _ in range(200):
            try:
                c = socket.create_connection(("127.0.0.1", hp), timeout=0.5)
                c.sendall(b"GET /never HTTP/1.1\r\nHost: x\r\n\r\n")
                c.settimeout(5)
                data = c.recv(4096)
                ok = b"200" in data
                break
            except OSError:
                if p.poll() is not None:
                    break
                time.sleep(0.05)
        if not ok:
            return "binary part: fabio did not come up (rc=%s): %s" % (p.poll(), open(log.name).read()[-1500:])
        t = socket.create_connection(("127.0.0.1", tp), timeout=2)      # a tunnel that never ends either
        t.sendall(b"GET /tunnel HTTP/1.1\r\nHost: x\r\n\r\n")
        t.settimeout(5)
        t.recv(4096)
        # the dynamic listener (opened by the refresh loop for the route's port) must be up before the signal
        dyn_up = False
        for _ in range(100):
            try:
                socket.create_connection(("127.0.0.1", dp), timeout=0.3).close()
                dyn_up = True
                break
            except OSError:
                time.sleep(0.05)
        # a request that is in flight when the signal comes and finishes well within the wait
        short = {"data": b"", "started": threading.Event(), "done": threading.Event()}

        def short_client():
            try:
                c = socket.create_connection(("127.0.0.1", hp), timeout=2)
                c.sendall(b"GET /short HTTP/1.1\r\nHost: x\r\n\r\n")
                c.settimeout(wait_s + 5)
                while not short["data"].endswith(b"0\r\n\r\n"):
                    d = c.recv(4096)
                    if not d:
                        break
                    short["data"] += d
                    if b"start" in short["data"]:
                        short["started"].set()
            except OSError:
                pass
            short["done"].set()
        threading.Thread(target=short_client, daemon=True).start()
        mid = {"data": b"", "started": threading.Event(), "done": threading.Event(), "end": None}

        def mid_client():
            try:
                c = socket.create_connection(("127.0.0.1", hp), timeout=2)
                c.sendall(b"GET /mid HTTP/1.1\r\nHost: x\r\n\r\n")
                c.settimeout(grace_s + wait_s + 5)
                while not mid["data"].endswith(b"0\r\n\r\n"):
                    d = c.recv(4096)
                    if not d:
                        break
                    mid["data"] += d
                    if b"start" in mid["data"]:
                        mid["started"].set()
            except OSError:
                pass
            mid["end"] = time.time()
            mid["done"].set()
        threading.Thread(target=mid_client, daemon=True).start()
        if not short["started"].wait(5) or not mid["started"].wait(5):
            return "binary part: the short requests did not get in flight"
        t0 = time.time()
        p.send_signal(signal.SIGTERM)
        time.sleep(0.1)
        if p.poll() is None:
            p.send_signal(second)       # shutting down is idempotent; SIGHUP is ignored
        time.sleep(max(0.0, t0 + grace_s + 0.1 - time.time()))      # the listeners are closed after the grace period
        refused = 0
        for port in (hp, tp):
            try:
                x = socket.create_connection(("127.0.0.1", port), timeout=1)
                x.settimeout(1)
                try:
                    x.sendall(b"GET /late HTTP/1.1\r\nHost: x\r\n\r\n")
                    if not x.recv(4096):
                        refused += 1
                except OSError:
                    refused += 1
                x.close()
            except OSError:
                refused += 1
        dyn_late = None
        if dyn_up:
            # half way through the wait the dynamic port must be closed and stay closed
            time.sleep(max(0.0, t0 + grace_s + wait_s / 2 - time.time()))
            try:
                socket.create_connection(("127.0.0.1", dp), timeout=0.3).close()
                dyn_late = True
            except OSError:
                dyn_late = False
        bound = grace_s + wait_s + 2.0 + 1.0          # grace + wait + slack + process exit
        try:
            p.wait(timeout=bound - (time.time() - t0))
            took = time.time() - t0
            ctx.log("binary: SIGTERM, then %s 0.1s later, with a never-ending request and tunnel and a %.1fs request in flight: exit code %s after %.2fs (wait %.1fs), %d of 2 late connections refused"
                    % (signame, short_s, p.returncode, took, wait_s, refused))
            short["done"].wait(2)
            complete = b"done" in short["data"] and short["data"].endswith(b"0\r\n\r\n")
            if p.returncode is not None and p.returncode < 0:
                ctx.violation({"clause": "second-signal", "sub": "binary", "signal": signame},
                              "fabio binary: %s during the shutdown killed the process (signal %d) %.2fs after SIGTERM; proxy.shutdownwait=%.1fs"
                              % (signame, -p.returncode, took, wait_s), replay={"sub": "binary", "case": {"args": args[1:], "second": signame}})
            mid["done"].wait(2)
            mid_complete = b"done" in mid["data"] and mid["data"].endswith(b"0\r\n\r\n")
            if not mid_complete and mid["end"] is not None and mid["end"] < t0 + grace_s + wait_s - 0.25:
                ctx.violation({"clause": "short-cut", "sub": "binary", "how": "grace"},
                              "fabio binary: a request in flight at SIGTERM and due %.1fs after it was cut %.2fs after the signal, although the shutdown only begins after proxy.deregistergraceperiod=%.1fs and then waits proxy.shutdownwait=%.1fs"
                              % (mid_s, mid["end"] - t0, grace_s, wait_s), replay={"sub": "binary", "case": {"args": args[1:], "second": signame}})
            if not complete and short_end and short_end[0] <= t0 + wait_s / 2:
                ctx.violation({"clause": "short-cut", "sub": "binary", "signal": signame},
                              "fabio binary: a request in flight at SIGTERM whose upstream finished %.2fs after it (proxy.shutdownwait=%.1fs) did not complete; a %s had followed 0.1s after the SIGTERM; process exit %s after %.2fs"
                              % (short_end[0] - t0, wait_s, signame, p.returncode, took), replay={"sub": "binary", "case": {"args": args[1:], "second": signame}})
        except subprocess.TimeoutExpired:
            took = time.time() - t0
            ctx.violation({"clause": "bounded-return", "sub": "binary"},
                          "fabio binary had not exited %.1fs after SIGTERM with proxy.shutdownwait=%.1fs and never-ending work in flight" % (took, wait_s),
                          replay={"sub": "binary", "case": {"args": args[1:]}})
        if dyn_late:
            ctx.violation({"clause": "accept-after-start", "sub": "binary", "kind": "tcp-dynamic"},
                          "fabio binary: the tcp-dynamic listener on :%d accepted a TCP connection %.1fs after SIGTERM (proxy.shutdownwait=%.1fs): the refresh loop opened it again"
                          % (dp, wait_s / 2, wait_s), replay={"sub": "binary", "case": {"args": args[1:]}})
        elif dyn_late is None:
            ctx.log("binary: the tcp-dynamic listener did not come up; nothing said about it")
        if refused != 2:
            ctx.violation({"clause": "accept-after-start", "sub": "binary"},
                          "fabio binary: %d of 2 connections made 100 ms after the deregister grace period (%.1fs after SIGTERM) were served" % (2 - refused, grace_s + 0.1),
                          replay={"sub": "binary", "case": {"args": args[1:]}})
        ctx.cover("binary", evaluations=5, traces_validated_against_impl=1)
    finally:
        if p.poll() is None:
            p.kill()
            p.wait()
        up.close()
        for c in held:
            try:
                c.close()
            except OSError:
                pass
        log.close()


def replay(ctx, rp):
    if rp["replay"].get("sub") == "binary":
            return
    case = rp["replay"]["case"]
    case["selftest"] = ""
    one = os.path.join(ctx.tmp, "c18.replay")
    vf.write_ndjson(one, [case])
    r = run_harness(ctx, one, "C18 replay", timeout=300)
    if r is None:
        return
    ctx.cover(evaluations=1, traces_validated_against_impl=1)
    ctx.take_failures(r, "c18")
