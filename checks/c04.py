"""C04 - traffic is split by the configured weights.

spec: Weights.tla (exact effective weights over fixed weights in units of 1/1 200 000, slot
      bounds, `route weight` over services and tags, step-by-step transcription of the ring
      filling loop with MaxSlots as a small constant, round-robin cursor) + Weights_MC.tla
TLC : weights non-negative / sum to one / honoured as given / proportional scaling / equal
      dynamic shares for every vector of the universe; the ring model terminates, leaves no
      empty slot, gives target i exactly cnt[i] slots, and one full round-robin cycle from any
      cursor position picks target i exactly cnt[i] times (0 iff weight 0); generator: one line
      per weight vector with exact weights and slot bounds
bind: every generated vector replayed through real route.NewTable (`route add ... weight`,
      `route weight`), Target.Weight, the real ring, one full cycle of real rrPicker picks and
      rndPicker with its random source replaced by a counter (harness/route/c04_test.go)"""
import json, os
from lib import vf

CFG = """SPECIFICATION %(spec)s
CONSTANTS
  Unit = 1200000
  WU <- %(wu)s
  WC <- %(wc)s
  Svc <- %(svc)s
  TagSets <- %(tags)s
  SelTags <- %(tags)s
  Ops <- %(ops)s
  MaxInit = %(init)d
  MaxTargets = %(n)d
  MaxCmds = %(cmds)d
  MaxSlots = %(slots)d
%(rest)s
"""
RING_INV = "INVARIANTS WeightInv SlotInv FillInv RingInv CycleInv BoundsInv\nPROPERTY Terminates"
CFG_INV = "INVARIANTS WeightInv WeighInv BoundsInv\nVIEW View\nCHECK_DEADLOCK FALSE"
GEN = "INVARIANTS WeightInv WeighInv BoundsInv\nVIEW View\nCHECK_DEADLOCK FALSE"
GEN_ALL = "INVARIANTS WeightInv WeighInv DelInv ReAddInv BoundsInv\nCHECK_DEADLOCK FALSE"     # every script is a case
RR_CFG = """SPECIFICATION GenSpec
CONSTANTS
  Rings <- MCRings
  Starts <- MCStarts
  MaxSteps = %d
  PatLen = %d
INVARIANTS PerRouteCycle Periodic PeriodicAtAnyCount OnlyMembers
CHECK_DEADLOCK FALSE
"""
WORKERS = 8
FILES = ["route/common_test.go", "route/c04_test.go"]


def vec_cfg(spec, n, slots, rest, wu="MCWUAll"):
    return CFG % dict(spec=spec, wu=wu, wc="MCWCNone", svc="MCSvc1", tags="MCTags1", ops="MCOpsWeight", init=n, n=n, cmds=0, slots=slots, rest=rest)


def cmd_cfg(spec, n, cmds, wu, wc, rest, tags="MCTags3", ops="MCOpsWeight", init=None):
    return CFG % dict(spec=spec, wu=wu, wc=wc, svc="MCSvc2", tags=tags, ops=ops, init=init or n, n=n, cmds=cmds, slots=12, rest=rest)


def run_harness(ctx, cases, what, pick_every=1, timeout=900):
    r = ctx.gotest("route", FILES, "^TestVerifC04$",
                   env={"VERIF_IN": cases, "VERIF_WORKERS": WORKERS, "VERIF_PICK_EVERY": pick_every}, timeout=timeout)
    if not ctx.need_go_ok(r, what):
        return None
    if r.of_kind("error"):
        ctx.inconclusive("%s: harness could not read its input: %s" % (what, r.of_kind("error")[0].get("msg")))
        return None
    return r


def run(ctx):
    ctx.level = "model_checking"
    ctx.assumptions += [
        "fixed weights {dynamic, 10 ppm, 100 ppm, 25 %, 33.33 %, 50 %, 99.99 %, 100 %, 150 %}, every vector of 1..4 targets; `route weight` scripts over 2 services x tag sets {none, t1, t1+t2}",
        "effective weights compared with exact rationals to 1e-9 (fabio computes in float64)",
        "round robin is observed through behaviour only: two ring lengths of consecutive lookups from a seed-chosen cursor position; the first ring length and a later window must each hit target i exactly as often as it occupies the ring, and lookup j and j+len(ring) must agree; the ring share of a target is accepted when it is exact (count/len = weight) or within the slot bounds floor(10^4 w)-1 .. ceil(10^4 w), at least one slot iff w > 0",
        "`route weight` with w <= 0 removes the fixed weight (documented: 'w <= 0 means no fixed weighting'); the expected split is that of the configuration after the LAST command of the script (scripts with weight > 0 then weight 0 / negative are cases of their own)",
        "histories: after up to 2 `route add` lines any 2 (thorough 3) further commands out of route add / route del <svc> <src> / route weight (weights {dyn, 50 %, 100 %}, 2 services) - every script is a case; the expected weights, ring shares and cycles are those of the targets the route has at the end, whatever state earlier commands left behind",
        "re-announcements: in histories of up to 2 (thorough 3) commands after up to 2 `route add` lines an instance the route has (same service, URL, tags) is added again with any weight of {dyn, 50 %, 100 %} (thorough also: 2 commands over {dyn, 25 %, 50 %, 100 %}, and re-announcements / `route weight` over tags {none, t1}); C04 accepts both sets of targets a re-announcement may leave (a further entry, as the route language says; or the last weight replacing the old one) and holds the route to the exact split of the fixed weights of the targets it then has - which of the two it is, is C05's claim",
        "several routes in one table (same path on different hosts, ':port' routes): lookups are interleaved following every schedule of up to 4 (thorough 5) steps over 3 routes, repeated until every route has seen two ring lengths; each route's own consecutive lookups must form exact cycles and be periodic with its ring length",
        "long histories: the cursor is a natural number (WeightsRR!PeriodicAtAnyCount); an OPTIONAL probe positions the real counter (uint64 field 'total' of Route, found by reflection; skipped and counted when absent) a few lookups below 2^32, 2^32+2^31 and 2^63 and requires the next three ring lengths of lookups to form exact cycles and be periodic; the wrap of the 64-bit counter itself (2^64 lookups) is outside the claim",
        "listener wiring: proxy.strategy=rr (non-default), listeners of kind http, tcp, tcp+sni and https+tcp+sni started by main.startServers, three routes per kind with 2, 4 and 3 targets without fixed weight; one connection = one lookup (WeightsRR!Connect), every ring length of consecutive connections of a route must reach every target exactly once; https (TLS-terminating), grpc and tcp-dynamic listeners, weighted rings through the listeners and strategy rnd are not driven through the wiring",
        "random picker: the statistical share is not checked; with the random source replaced by a counter every ring index is drawn once and the picks must be exactly the ring's members",
        "the ring-filling loop is model-checked on rings of 12 and 30 slots (MaxSlots is a constant of the specification, 10 000 in fabio); the real 10 000-slot ring is bound through its observable properties (no empty slot, occupancy, cursor order)",
    ]
    # 1. the ring model: terminates, no empty slot, exactly cnt[i] slots, full-cycle counts
    rings = [("<=3 targets over 6 weights, 12 slots", vec_cfg("Spec", 3, 12, RING_INV, wu="MCWUCore"), 400)]
    if ctx.thorough:
        rings = [("<=3 targets over 9 weights, 12 slots", vec_cfg("Spec", 3, 12, RING_INV), 900),
                 ("<=4 targets over 6 weights, 12 slots", vec_cfg("Spec", 4, 12, RING_INV, wu="MCWUCore"), 1500),
                 ("<=3 targets over 9 weights, 30 slots", vec_cfg("Spec", 3, 30, RING_INV), 900)]
    for name, text, to in rings:
        mc = ctx.tlc("Weights_MC", cfg_text=text, workers=WORKERS, timeout=to, coverage=ctx.thorough)
        ctx.log("MC ring %s: %d generated, %d distinct, %.0fs" % (name, mc.generated, mc.distinct, mc.wall))
        if not ctx.need_tlc_ok(mc, "Weights MC ring " + name):
            return
        # the ring configurations have no `route weight` commands: the DoWeigh disjunct of Next
        # (reported under the name of the enclosing definition) is disabled by construction
        zero = [a for a in mc.coverage0 if a not in ("DoWeigh", "Next")]
        if ctx.thorough and zero:
            ctx.inconclusive("Weights MC ring %s: actions never taken: %s" % (name, zero))
            return
        ctx.cover("mc ring " + name, states=mc.distinct, transitions=mc.generated)
    # 2. `route weight` over services and tags: weights still sum to one, command is local
    #    (quick tier: the same invariants are checked during the generator run of step 3)
    if ctx.thorough:
        cm = ctx.tlc("Weights_MC", workers=WORKERS, timeout=1500,
                     cfg_text=cmd_cfg("CfgSpec", 3, 2, "MCWUSmall", "MCWCFull", CFG_INV))
        ctx.log("MC route weight: %d generated, %d distinct, %.0fs" % (cm.generated, cm.distinct, cm.wall))
        if not ctx.need_tlc_ok(cm, "Weights MC route weight"):
            return
        ctx.cover("mc cmd", states=cm.distinct, transitions=cm.generated)

    # 3. generator
    cases = os.path.join(ctx.tmp, "c04.cases")
    gens = [("vectors <=4 targets", vec_cfg("GenSpec", 4, 12, GEN)),
            ("route weight, 1 command", cmd_cfg("GenSpec", ctx.pick(2, 3), 1, "MCWUSmall", ctx.pick("MCWCSmall", "MCWCFull"), GEN))]
    # weight > 0 then weight 0 / negative, resets as the last command on the route, ...: every
    # script of <=2 commands is a case (no view), the split must be that of the LAST configuration
    gens.append(("route weight resets, every script of <=2 commands",
                 cmd_cfg("GenSpec", 2, 2, "MCWUSmall", "MCWCReset", GEN_ALL, tags="MCTags2")))
    # histories of add / del / weight on one route (<=2 targets first, then <=2 (thorough 3) further
    # commands of any kind): the split is a function of the targets the route has at the end
    # (generated by the re-announcement universe below, which contains these scripts)
    # the same histories in which, in addition, an instance (service, URL, tags) is announced again with another weight - fixed -> fixed,
    # dynamic -> fixed, fixed -> dynamic - between / after add, del and weight commands: the split
    # is the one the fixed weights of the targets the route has afterwards prescribe (Weights!DoReAdd)
    gens.append(("histories with re-announced instances, every script",
                 cmd_cfg("GenSpec", 3, 2, "MCWUHist", "MCWCHist", GEN_ALL, tags="MCTags1", ops="MCOpsReAdd", init=2)))
    if ctx.thorough:
        gens.append(("histories with re-announced instances, 4 weights",
                     cmd_cfg("GenSpec", 3, 2, "MCWUReAdd", "MCWCHist", GEN_ALL, tags="MCTags1", ops="MCOpsReAdd", init=2)))
        gens.append(("histories with re-announced instances, every script of <=3 commands",
                     cmd_cfg("GenSpec", 3, 3, "MCWUHist", "MCWCHist", GEN_ALL, tags="MCTags1", ops="MCOpsReAdd", init=2)))
        gens.append(("re-announcements and route weight over tags",
                     cmd_cfg("GenSpec", 3, 2, "MCWUReAdd", "MCWCHist", GEN_ALL, tags="MCTags2", ops="MCOpsReAddOnly", init=2)))
        gens.append(("route weight resets, 3 targets", cmd_cfg("GenSpec", 3, 2, "MCWUSmall", "MCWCReset", GEN, tags="MCTags2")))
        gens.append(("route weight, 2 commands", cmd_cfg("GenSpec", 2, 2, "MCWUSmall", "MCWCSmall", GEN)))
        gens.append(("route weight, 4 targets", cmd_cfg("GenSpec", 4, 1, "MCWUSmall", "MCWCSmall", GEN, tags="MCTags2")))
    for name, text in gens:
        g = ctx.tlc("Weights_MC", cfg_text=text, workers=WORKERS, json_sink=cases, timeout=ctx.pick(300, 1500))
        ctx.log("Gen %s: %d transitions, %d states, %.0fs" % (name, g.generated, g.distinct, g.wall))
        if not ctx.need_tlc_ok(g, "Weights Gen " + name):
            return
        ctx.cover("gen " + name, states=g.distinct, transitions=g.generated)

    # 4. replay into the real code
    # quick tier: weights and ring shares for every vector, the pick cycles for every
    # vector of <=3 targets added with fixed weights and a seed-selected slice of the others
    r = run_harness(ctx, cases, "C04 replay", pick_every=ctx.pick(30, 10))
    if r is None:
        return
    s = r.summary
    ctx.log("replayed %d vectors (%d through route weight, %d with a reset as last command): %d weights, %d ring shares, %d rr picks, %d rnd picks, %d failed, %.0fs"
            % (s["cases"], s["via_weight_cmd"], s["reset_last"], s["weights"], s["cycles"], s["picks"], s["rnd_picks"], s["fails"], r.wall))
    ctx.log("large-count probe (cursor positioned below 2^32, 2^32+2^31, 2^63 by reflection): %d routes probed, %d skipped (counter field not found)"
            % (s["large_count_probes"], s["large_count_skipped"]))
    ctx.cover("large-count", evaluations=0, probes=s["large_count_probes"], skipped=s["large_count_skipped"])
    ctx.log("histories with add / del after the first adds: %d; with an instance announced again: %d (%d routes held to the last-weight-wins reading)"
            % (s["histories"], s["reannounced"], s["last_wins"]))
    ctx.cover("reannounced", evaluations=s["reannounced"], last_wins=s["last_wins"])
    if s["reannounced"] == 0:
        ctx.inconclusive("C04: no re-announced instance was replayed")
        return
    if s["cases"] == 0 or s["picks"] == 0 or s["rnd_picks"] == 0 or s["via_weight_cmd"] == 0 or s["reset_last"] == 0 or s["histories"] == 0:
        ctx.inconclusive("C04: vacuous replay (%s)" % json.dumps(s)[:300])
        return
    ctx.cover(traces_validated_against_impl=s["cases"], evaluations=s["weights"] + s["cycles"] + s["picks"] + s["rnd_picks"],
              distinct_nontrivial=s["distinct_nontrivial"], samples=s.get("samples") or [],
              rule="one case per weight vector / script TLC generated (targets as added + route weight script); evaluations = target weights compared + ring shares compared + single real picks checked; non-trivial = distinct vector with >=2 targets and at least one fixed weight")
    ctx.take_failures(r, "c04")

    # 4b. several routes in one table, lookups interleaved as TLC's schedules prescribe
    sched = os.path.join(ctx.tmp, "c04.sched")
    rrg = ctx.tlc("WeightsRR_MC", cfg_text=RR_CFG % (ctx.pick(7, 8), ctx.pick(4, 5)), workers=4, json_sink=sched, timeout=600)
    ctx.log("MC+Gen round robin over 3 routes: %d generated, %d distinct, %.0fs" % (rrg.generated, rrg.distinct, rrg.wall))
    if not ctx.need_tlc_ok(rrg, "WeightsRR MC"):
        return
    ctx.cover("mc rr", states=rrg.distinct, transitions=rrg.generated)
    m = ctx.gotest("route", FILES, "^TestVerifC04Multi$",
                   env={"VERIF_IN": cases, "VERIF_SCHED": sched, "VERIF_WORKERS": WORKERS}, timeout=900)
    if not ctx.need_go_ok(m, "C04 interleaved replay"):
        return
    if m.of_kind("error"):
        ctx.inconclusive("C04 interleaved replay: %s" % m.of_kind("error")[0].get("msg"))
        return
    ms = m.summary
    ctx.log("interleaved: %d tables of up to 3 routes (same path on different hosts / ':port' routes), %d lookups, %d failed, %.0fs"
            % (ms["tables"], ms["picks"], ms["fails"], m.wall))
    if ms["tables"] == 0 or ms["picks"] == 0:
        ctx.inconclusive("C04 interleaved replay is vacuous")
        return
    ctx.cover("multi", traces_validated_against_impl=ms["tables"], evaluations=ms["picks"], samples=ms.get("samples") or [])
    ctx.take_failures(m, "c04-multi")

    # 4c. through the listener wiring of the binary (WeightsRR!Connect): config.Load with
    #     proxy.strategy=rr and one listener per kind, main.startServers, real loopback upstreams;
    #     every schedule is followed by connections on http, tcp, tcp+sni and https+tcp+sni listeners
    wv = ctx.gotest(".", ["main/c04_test.go"], "^TestVerifC04Wire$", timeout=900,
                    env={"VERIF_IN": cases, "VERIF_SCHED": sched, "VERIF_SCHED_EVERY": ctx.pick(3, 1)})
    if not ctx.need_go_ok(wv, "C04 listener wiring"):
        return
    if wv.of_kind("error"):
        ctx.inconclusive("C04 listener wiring: %s" % wv.of_kind("error")[0].get("msg"))
        return
    ws = wv.summary
    ctx.log("listener wiring (rr): %d connections through %d listener kinds following %d schedules, %d ring-length windows checked, %d failed, %.0fs"
            % (ws["connections"], ws["kinds"], ws["schedules"], ws["windows"], ws["fails"], wv.wall))
    if ws["connections"] == 0 or ws["windows"] == 0:
        ctx.inconclusive("C04 listener wiring is vacuous")
        return
    ctx.cover("wire", traces_validated_against_impl=ws["schedules"], evaluations=ws["windows"])
    ctx.take_failures(wv, "c04-wire")

    # 5. binding self-test: corrupted expectations must be rejected by the harness
    victim = None
    with open(cases) as fh:
        for line in fh:
            c = json.loads(line)
            # 10 ppm next to dynamic targets: the ring cannot give the exact share
            if len(c["adds"]) >= 3 and 12 in c["fk"] and any(k == 0 for k in c["fk"]) \
                    and all(e["n"] > 0 for e in c["ew"]):
                victim = c
                break
    if victim is None:
        ctx.inconclusive("no usable case for the binding self-test")
        return
    a = json.loads(json.dumps(victim))
    a["ew"][0]["n"], a["ew"][0]["d"] = a["ew"][0]["n"] * 1000 + a["ew"][0]["d"], a["ew"][0]["d"] * 1000   # weight off by 1e-3
    b = json.loads(json.dumps(victim))
    i = max(range(len(b["hi"])), key=lambda j: b["hi"][j])
    b["lo"][i] += 3
    b["hi"][i] += 3                                                                      # share bounds off by 3 slots
    for name, corrupted, clause in (("weight", a, "effective-weight"), ("slots", b, "ring-share")):
        one = os.path.join(ctx.tmp, "c04.selftest")
        vf.write_ndjson(one, [corrupted])
        r2 = run_harness(ctx, one, "C04 self-test " + name)
        if r2 is None:
            return
        if not [f for f in r2.of_kind("fail") if f.get("features", {}).get("clause") == clause]:
            ctx.inconclusive("binding self-test (%s): the corrupted expectation was NOT rejected as %s" % (name, clause))
            return


def replay(ctx, rp):
    one = os.path.join(ctx.tmp, "c04.replay")
    case = rp["replay"]["case"]
    vf.write_ndjson(one, [case])
    if isinstance(case, dict) and "wire" in case:
        ctx.inconclusive("a listener-wiring violation is re-examined by running the check again (bin/check C04): it depends on the whole connection history of the listener")
        return
    if isinstance(case, dict) and "multi" in case:
        r = ctx.gotest("route", FILES, "^TestVerifC04Multi$", env={"VERIF_IN": one, "VERIF_WORKERS": 1}, timeout=600)
        if not ctx.need_go_ok(r, "C04 interleaved replay"):
            return
        ctx.cover(evaluations=1)
        ctx.take_failures(r, "c04-multi")
        return
    r = run_harness(ctx, one, "C04 replay")
    if r is None:
        return
    ctx.cover(evaluations=1)
    ctx.take_failures(r, "c04")
