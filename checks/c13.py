"""C13 - redirect routes answer from the request alone (sequential part; the schedules clause is C06's).

spec: HttpProxy.tla: Lookup / NextHost (a redirect pointing back at the request is passed over),
      Redirect (operators IsRedirect, RedirPath, JoinTpl, Location, PointsBack)
TLC : 12 documented template forms x 6 status codes x strip x prepend x 8 request paths
      (%2F %2f %20 %41 %C3%A9, empty rest) x 3 queries x requested Host {name, name:8080} x {plain, TLS};
      redirect= values that are no 3xx code; self-redirect layouts (own host literally or as $host,
      X-Forwarded-Proto sent or not, with and without a next matching host)
bind: replayed end to end through real route.NewTable + Table.Lookup + HTTPProxy: status, Location,
      upstream hit count - harness/proxy/c13_test.go"""
from checks import c07 as base


def _pred(c):
    r = c["c"]["routes"]
    return (c["out"]["kind"] == "redirect" and r and r[0]["tpl"]["var"] and r[0]["tpl"]["slash"]
            and r[0]["tpl"]["host"] == "t.example" and not any(t.startswith("%") for t in c["c"]["path"]))


def _corrupt(c):
    c["out"]["loc"]["path"] = c["out"]["loc"]["path"] + ["zz"]


def run(ctx):
    ctx.level = "model_checking"
    ctx.assumptions += base.COMMON_ASSUMPTIONS + [
        "scope: the request query is expected in Location when the target has $path and no query of its own (documentation: $path = the original request URI); for targets without $path the query of Location is not judged; Location paths are compared after RFC 3986 normalisation of unreserved escapes and hex case (%41 = A), hosts case-insensitively; an empty $path is only asked where the join is unambiguous",
        "scope: the scheme of the request = X-Forwarded-Proto if the client (a proxy in front) sent it, else that of the connection; a redirect= value outside 300..399 must leave an ordinary route to the target",
        "never sliced (in every quick run): request kinds on redirect routes - GET, HEAD, POST with a body (1 byte / 32 KiB+1), Upgrade: websocket / Websocket handshakes, Accept: text/event-stream - x 4 targets (two naming the instrumented upstream, so a request proxied instead of redirected is seen there) x {301, 308} x {plain, TLS}: all must get the configured 3xx + Location and contact no upstream; an exchange that breaks off on each of 4 attempts counts as 'never received the redirect' (timeouts excepted); strip/prepend values that need escaping (non-ASCII letter, ^) x 3 targets x 5 client paths spelling the prefix %C3%B6 / %c3%b6 / %5E",
        "never sliced: histories of 2 and 3 requests sent one after the other through ONE redirect route whose host pattern (*.<key>.test) matches several hosts - all 64 ordered pairs of 8 requests differing in host (a./b.), path (incl. %2F) and query, and each pair with the first request repeated at the end - x 4 targets ($host with $path, $host with $path and own query, $host static, $path only) x {plain, TLS}; every answer must be the one that follows from its own request alone (invariant HistoryIndependent), whatever was asked before (the histories of one target also follow one another)",
        "never sliced: 32 bursts - 8 requests (hosts a./b., 4 paths, queries) sent at the same moment over connections opened beforehand to one of fabio's own listeners (proxy.ListenAndServeHTTP) in front of a proxy of its own that has answered no redirect yet, metrics handlers set as in main (redirect counter) - x 4 targets x {301, 302, 307, 308} x {plain, TLS}: every request gets its own answer; run twice, the second time with the race detector; a proxy process that dies (Go 'fatal error') or a data race inside fabio is a violation",
        "never sliced (round 4): glob.matching.disabled on and off (a dimension of the request-kind cases too) with the documented layout redirect on host:80 + route on the same host without port: a redirect pointing back is passed over in favour of the latter; a self-redirect on a route WITHOUT a host (the last candidate) leaves the request without a route; '$host' and '$path' as plain text in the client's path and query stay as they are",
        "in the replay of TLC's cases requests to the same redirect target are issued one after the other; simultaneous requests are covered by the concurrent stress runs of the DataPlane harness (16 goroutines, every documented $path/$host form, race detector), which this check runs as its 'schedules' part",
    ]
    base.run_prop(ctx, "C13", ctx.pick(4, 1),
                  "one case per finished pipeline run TLC enumerated (quick: the slice selected by the seed plus all bad-code and self-redirect layouts; thorough: the full product); non-trivial = settled on a redirect route (answered 3xx), a redirect passed over, or an ordinary route left by a redirect= value that is no 3xx code",
                  _pred, _corrupt, "location-path", after=_burst)
    schedules(ctx)


def _burst(ctx, cases):
    """The cases whose requests arrive simultaneously once more, built with the race detector."""
    import os
    sub = os.path.join(ctx.tmp, "c13.burst.cases")
    n = base.filter_cases(cases, sub, lambda c: c["c"]["together"])
    if n == 0:
        ctx.inconclusive("no simultaneous-request cases")
        return
    r = ctx.gotest("proxy", base.FILES["C13"], "^TestVerifC13Burst$", env={"VERIF_IN": sub}, timeout=900, race=True)
    if base.crashed(ctx, "C13", r, "C13 simultaneous first requests") or base.raced(ctx, "C13", r, "C13 simultaneous first requests"):
        return
    r = base.check_run(ctx, "C13", r, "C13 simultaneous first requests (race detector)")
    if r is None:
        return
    ctx.cover("burst-race", traces_validated_against_impl=r.summary["ran"], evaluations=8 * r.summary["ran"])
    ctx.take_failures(r, "c13")


def schedules(ctx):
    """'under any number of simultaneous requests': the recorded concurrent runs of C06 (DataPlane spec) for
    the redirect clause - 16 goroutines, distinct requests to $path redirect routes of every documented form,
    with the race detector; every Location must be the request's own."""
    from checks import c06
    for k in range(ctx.pick(1, 4)):
        r = ctx.gotest("route", c06.FILES, "^TestVerifC06Stress$", race=True, timeout=900,
                       env={"GOMAXPROCS": [16, 4, 2][k % 3], "VERIF_CYCLES": 1, "VERIF_ITERS": ctx.pick(300, 1500)})
        if "WARNING: DATA RACE" in r.out and "RedirectURL" in r.out:
            i = r.out.index("WARNING: DATA RACE")
            ctx.violation({"sub": "schedules", "race": True}, "data race on the redirect location under simultaneous requests:\n" + r.out[i:i + 2000],
                          replay={"sub": "schedules-race", "case": None})
            return
        if not ctx.need_go_ok(r, "C13 simultaneous requests"):
            return
        for f in r.of_kind("fail"):
            if f.get("features", {}).get("clause") == "redirect-own":
                ctx.violation({"sub": "schedules", "clause": "redirect-own", "form": f["features"].get("form")},
                              "simultaneous requests: " + f.get("msg", ""), replay={"sub": "schedules", "case": None})
        ctx.cover("schedules", traces_validated_against_impl=1, evaluations=r.summary["lookups"] // 2)


def replay(ctx, rp):
    base.replay_prop(ctx, "C13", rp)
