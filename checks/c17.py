"""C17 - response compression never changes the content.

spec: Gzip.tla (+ Gzip_MC.tla universes / generator)
TLC : concurrent handlers over a shared writer pool; invariants "a pooled writer is never shared
      by two live handlers", "no cross talk", "content intact", decision / header / status rules
      (MC); the variant that returns a writer to the pool before flushing it must violate them;
      then one behaviour per examined transition (Gen): single handler, <= 4 ops over the full
      parameter universe, and two interleaved handlers
bind: every behaviour executed against the real NewGzipHandler behind a real HTTP server, many at
      a time, built with -race (harness/proxy/gzip/c17_test.go); a share of the single-handler
      behaviours also through the real proxy.HTTPProxy with an upstream performing the script
      (harness/proxy/c17_test.go)"""
import hashlib, json, os, re
from lib import vf

CFG = """SPECIFICATION %(spec)s
CONSTANTS
  Handlers <- %(handlers)s
  MaxOps = %(ops)d
  Codes <- %(codes)s
  Chunks <- %(chunks)s
  Reqs <- %(reqs)s
  MaxWriters = %(writers)d
  FlushSupported = %(fls)s
  WithFlush = %(wfl)s
  WithAbort = %(wab)s
  WithHijack = %(whj)s
  AbortPutsBlind = %(abb)s
  PutBeforeFlush = %(bad)s
VIEW View
%(inv)s
CHECK_DEADLOCK FALSE
"""
INV = "INVARIANTS TypeOK PoolSane NoSharedWriter NoCrossTalk ContentIntact DecisionRule HeaderRule StatusRule"
ACTIONS = ["Begin", "WriteHeader", "Write", "FinishFlush", "FinishPut"]
MCCHUNKS2 = "MCChunksTwo"


def cfg(spec, handlers, ops, reqs, full=False, bad=False, inv=False, codes=None, chunks=None, flush=None, abort=False, blind=False, hijack=False):
    """flush: None = scripts without Flush; True / False = with Flush, got through / no-op"""
    return CFG % dict(spec=spec, handlers=handlers, ops=ops, reqs=reqs,
                      wab="TRUE" if abort else "FALSE", whj="TRUE" if hijack else "FALSE", abb="TRUE" if blind else "FALSE",
                      fls="TRUE" if flush else "FALSE", wfl="FALSE" if flush is None else "TRUE",
                      codes=codes or ("MCCodesFull" if full else "MCCodesSmall"),
                      chunks=chunks or ("MCChunksFull" if full else "MCChunksSmall"),
                      writers={"MCOne": 1, "MCTwo": 2, "MCThree": 3}[handlers],
                      bad="TRUE" if bad else "FALSE", inv=INV if inv else "")


def par_tlc(ctx, jobs, width=4):
    """run independent TLC invocations concurrently (the JVM start-up dominates the small ones);
    jobs: list of dicts(name=, cfg_text=, json_sink=None, timeout=, coverage=False, workers=4).
    Returns {name: TLCResult}; results are inspected by the caller in the main thread."""
    from concurrent.futures import ThreadPoolExecutor
    def one(j):
        return j["name"], ctx.tlc("Gzip_MC", cfg_text=j["cfg_text"], workers=j.get("workers", 4), timeout=j["timeout"],
                                  coverage=j.get("coverage", False), json_sink=j.get("json_sink"))
    with ThreadPoolExecutor(max_workers=width) as ex:
        return dict(ex.map(one, jobs))


def mc_job(ctx, what, handlers, ops, reqs, timeout, **kw):
    return dict(name="mc-" + what, kind="mc", what=what, desc="%s, <=%d ops, %s" % (handlers, ops, reqs),
                cfg_text=cfg("Spec", handlers, ops, reqs, inv=True, **kw), timeout=timeout, coverage=ctx.thorough,
                workers=ctx.pick(2, 8))


def gen_job(ctx, what, sink, handlers, ops, reqs, full, timeout=900, **kw):
    return dict(name="gen-" + what, kind="gen", what=what, desc="%s, <=%d ops, %s" % (handlers, ops, reqs),
                cfg_text=cfg("GenSpec", handlers, ops, reqs, full=full, **kw), json_sink=sink, timeout=timeout, workers=ctx.pick(2, 8))


def settle(ctx, jobs, res):
    """main-thread inspection of parallel TLC results; False = the run cannot go on"""
    for j in jobs:
        r = res[j["name"]]
        if j["kind"] == "mc":
            ctx.log("MC %s (%s): %d generated, %d distinct, %.0fs" % (j["what"], j["desc"], r.generated, r.distinct, r.wall))
            if not ctx.need_tlc_ok(r, "Gzip MC " + j["what"]):
                return False
            if ctx.thorough:
                dead = [a for a in r.coverage0 if a in ACTIONS]
                if dead:
                    ctx.inconclusive("Gzip MC %s: action(s) never taken: %s" % (j["what"], dead))
                    return False
            ctx.cover(j["name"], states=r.distinct, transitions=r.generated)
        elif j["kind"] == "gen":
            ctx.log("Gen %s (%s): %d transitions, %.0fs" % (j["what"], j["desc"], r.generated, r.wall))
            if not ctx.need_tlc_ok(r, "Gzip Gen " + j["what"]):
                return False
            ctx.cover(j["name"], transitions=r.generated)
        elif j["kind"] == "must-fail":
            if r.error or r.timed_out or r.violated not in j["expect"]:
                ctx.inconclusive("%s is NOT rejected by the model's invariants (violated=%s error=%s)" % (j["what"], r.violated, r.error))
                return False
            ctx.log("MC broken design (%s): violates %s after %d states, as required" % (j["what"], r.violated, r.generated))
    return True


def gen(ctx, what, sink, handlers, ops, reqs, full, timeout=900, **kw):
    j = gen_job(ctx, what, sink, handlers, ops, reqs, full, timeout=timeout, **kw)
    return settle(ctx, [j], par_tlc(ctx, [j]))


def share(ctx, src, dst, keep, boost=1.0, need=None, pred=None):
    """content-selected seeded share of a behaviour file (TLC's output order is not deterministic);
    behaviours in which some handler may be compressed are `boost` times as likely to be kept"""
    n = 0
    salt = ("%d|" % ctx.seed).encode()
    with open(src) as fh, open(dst, "a") as out:
        for line in fh:
            if need and need not in line:
                continue
            if pred and not pred(line):
                continue
            k = keep * (boost if '"mode":"gzip"' in line else 1.0)
            if k < 1.0:
                h = int.from_bytes(hashlib.sha1(salt + line.encode()).digest()[:4], "big")
                if h >= k * 2 ** 32:
                    continue
            out.write(line)
            n += 1
    return n


RACE_IN_FABIO = re.compile(r"proxy/gzip/gzip_handler\.go")


def run_gzip(ctx, behs, what, env=None, timeout=800):
    e = {"VERIF_IN": behs}
    if env:
        e.update(env)
    r = ctx.gotest("proxy/gzip", ["proxy/gzip/c17_test.go"], "^TestVerifC17$", env=e, race=True, timeout=timeout)
    if not ctx.need_go_ok(r, what):
        return None
    return r


def run_proxy(ctx, behs, what, timeout=600):
    r = ctx.gotest("proxy", ["proxy/c17_test.go"], "^TestVerifC17Proxy$", env={"VERIF_IN": behs}, race=False, timeout=timeout)
    if not ctx.need_go_ok(r, what):
        return None
    return r


def plumbing(ctx, r, what):
    """harness-side trouble (a request that got no response without a recorded panic of the handler,
    a lockstep partner that never arrived) makes the run inconclusive; it is looked at AFTER the
    failures and race reports, which are verdicts on what the real code did"""
    orc = r.of_kind("oracle")
    if orc:
        ctx.inconclusive("%s: harness plumbing trouble (%d): %s" % (what, len(orc), orc[0].get("msg", "")[:600]))


def races(ctx, r, sub):
    """a data race report that involves the gzip handler is a violation of C17 (the shared
    writer pool is part of the property); a race elsewhere makes the run inconclusive"""
    if "WARNING: DATA RACE" not in r.out:
        return
    blocks = r.out.split("WARNING: DATA RACE")[1:]
    mine = [b for b in blocks if RACE_IN_FABIO.search(b.split("==================")[0])]
    if mine:
        ctx.violation({"sub": sub, "clause": "data-race"}, "%s: the race detector reports a data race involving proxy/gzip/gzip_handler.go:\n%s"
                      % (sub, mine[0][:2500]), replay={"sub": sub, "case": None})
    else:
        ctx.inconclusive("%s: data race reported outside the gzip handler:\n%s" % (sub, blocks[0][:1500]))


def run(ctx):
    ctx.level = "model_checking"
    ctx.assumptions += [
        "universe: Accept-Encoding {lists gzip, does not, lists gzip with q=0, lists gzip;q=0 next to * or *;q=0, gzip acceptable only via * / unusual spelling} x Content-Type {matches, does not, absent} x {not encoded, already encoded} x Content-Length {set, not set} x Accept {other, text/event-stream} x {GET, HEAD}; ops WriteHeader(404|204|304), Write(text | random bytes | empty); Flush() (through the http.Flusher of the writer the handler was given, if it has one) before / between / after writes; informational scripts: WriteHeader(103|102|404|204) in any order with the response headers set before or after the informational calls, <=%d ops per handler; two interleaved handlers with <=2 ops each" % ctx.pick(3, 4),
        "expression: fabio's documented example for proxy.gzip.contenttype; chunk contents seeded, up to 256 KiB",
        "the mode is left free where statement and documentation are silent: no explicit Content-Type (sniffed), Accept: text/event-stream, nothing written; HEAD / 204 / 304 are asserted for status and labels only",
        "a Flush may get through the compressing writer (then it commits status 200 and the compress decision is due before that) or be a no-op: status and body presence are accepted under either reading, everything else is asserted as usual",
        "Accept-Encoding values that make gzip acceptable only through * or an unusual spelling leave the mode free (not compressing is always permitted there); values that refuse gzip (explicit q=0, also next to *; *;q=0 without an explicit entry) must not be compressed",
        "histories on one handler / proxy instance: a handler may give up with panic(http.ErrAbortHandler) after any op (nothing is asserted of the aborted response, everything of all others - thousands of responses share the instance and its writer pool), and may add a Vary value of its own, which must arrive and must not leak into other responses",
        "a panic of the handler under test other than the scripted abort, and a connection cut without response that it explains, are violations",
        "the inner handler may write all chunks from one buffer it overwrites after each Write (a chunk is the value at the time of the call), and may try to hijack a writer that refuses, then answer normally (the failed attempt must leave nothing behind)",
        "through HTTPProxy the three transports main.newHTTPProxy / route.addTarget create are used (default; tlsskipverify=true; proto=https host=<name>) against http and https upstreams; a response to a client that sent no Accept-Encoding at all may arrive decoded when the upstream answered gzip (the transport negotiated it)",
        "the status of scripts with several WriteHeader calls is cross-checked against (and taken from) a reference run of the same script on net/http without the gzip wrapper",
        "a response the inner handler labelled with a Content-Encoding must pass unchanged (also when that label is gzip)",
        "a data race report involving proxy/gzip/gzip_handler.go counts as a violation (shared writer pool)",
    ]
    # 1. the pool / content / header invariants on the model (the broken designs must be caught) and
    # 2. the behaviours - independent TLC runs, several at a time
    T = ctx.tmp
    one, two, info, info2, aef, flf, hst, hst2, snf, viaf = (os.path.join(T, "c17." + n) for n in ("one", "two", "info", "info2", "ae", "flush", "hist", "hist2", "sniff", "via"))
    jobs = []
    if ctx.thorough:
        jobs += [mc_job(ctx, "pool-4ops", "MCTwo", 4, "MCReqsMid", 1500), mc_job(ctx, "pool-3handlers", "MCThree", 2, "MCReqsSmall", 900),
                 mc_job(ctx, "informational", "MCTwo", 3, "MCReqsInfoPair", 900, codes="MCCodesInfoSmall"),
                 mc_job(ctx, "flush-through", "MCTwo", 3, "MCReqsPair", 900, flush=True),
                 mc_job(ctx, "flush-noop", "MCTwo", 3, "MCReqsPair", 900, flush=False),
                 mc_job(ctx, "abort-histories", "MCThree", 2, "MCReqsHistPair", 900, abort=True)]
    else:
        jobs += [mc_job(ctx, "pool-4ops", "MCTwo", 4, "MCReqsSmall", 200),
                 mc_job(ctx, "informational+flush-noop", "MCTwo", 2, "MCReqsInfoPair", 200, codes="MCCodesInfoSmall", flush=False),
                 mc_job(ctx, "flush-through", "MCTwo", 2, "MCReqsPair", 200, flush=True),
                 mc_job(ctx, "abort-histories", "MCTwo", 3, "MCReqsHistPair", 200, abort=True)]
    jobs += [dict(name="bad-put", kind="must-fail", what="a writer returned to the pool before it is flushed", expect=("NoSharedWriter", "ContentIntact", "NoCrossTalk"),
                  cfg_text=cfg("Spec", "MCTwo", 2, "MCReqsSmall", bad=True, inv=True), timeout=200),
             dict(name="bad-abort", kind="must-fail", what="an abort that hands a writer it never had back to the pool", expect=("PoolSane", "TypeOK"),
                  cfg_text=cfg("Spec", "MCTwo", 2, "MCReqsHistPair", abort=True, blind=True, inv=True), timeout=200)]
    jobs += [gen_job(ctx, "one-handler", one, "MCOne", ctx.pick(3, 4), "MCReqsFull", True),
             gen_job(ctx, "two-handlers", two, "MCTwo", 2, ctx.pick("MCReqsPair", "MCReqsMid"), False),
             gen_job(ctx, "informational", info, "MCOne", ctx.pick(3, 4), "MCReqsInfo", False, codes="MCCodesInfo"),
             gen_job(ctx, "two-handlers-1xx-flush", info2, "MCTwo", 2, ctx.pick("MCReqsInfoOne", "MCReqsInfoPair"), False, codes="MCCodesInfoSmall", flush=False),
             gen_job(ctx, "flush", flf, "MCOne", ctx.pick(3, 4), "MCReqsFlush", False, codes="MCCodesFlush", flush=False),
             gen_job(ctx, "abort+own-vary-two-handlers", hst2, "MCTwo", 2, "MCReqsHistPair", False, abort=True)]
    if ctx.thorough:
        jobs += [gen_job(ctx, "accept-encoding", aef, "MCOne", 3, "MCReqsAE", False, codes="MCCodesFlush", chunks=MCCHUNKS2),
                 # histories on one instance: responses with a Vary value of their own / aborted mid-way, then ordinary ones
                 gen_job(ctx, "abort+own-vary", hst, "MCOne", 4, "MCReqsHist", False, chunks=MCCHUNKS2, abort=True),
                 # typeless bodies written from a reused buffer, failed hijack attempts before / between the ops
                 gen_job(ctx, "sniff+reused-buffer+failed-hijack", snf, "MCOne", 4, "MCReqsSniff", True, codes="MCCodesSmall", hijack=True),
                 # the proxy's three transports (route options) x encoded / not encoded upstream responses
                 gen_job(ctx, "transports", viaf, "MCOne", 3, "MCReqsVia", False, chunks=MCCHUNKS2)]
    else:
        # the same four universes (Accept-Encoding classes; own Vary + aborts; sniffed type + reused buffer + failed
        # hijack; the proxy's transports) in one run
        jobs += [gen_job(ctx, "accept-encoding+histories+sniff+transports", aef, "MCOne", 3, "MCReqsMisc", False, codes="MCCodesFlush",
                         chunks=MCCHUNKS2, abort=True, hijack=True)]
        for f in (hst, snf, viaf):
            open(f, "w").close()
    if not settle(ctx, jobs, par_tlc(ctx, jobs, width=ctx.pick(7, 3))):
        return
    behs = os.path.join(ctx.tmp, "c17.behs")
    n1 = share(ctx, one, behs, ctx.pick(0.025, 0.12), boost=4.0)
    n2 = share(ctx, two, behs, ctx.pick(0.012, 0.06), boost=2.0)
    n3 = share(ctx, info, behs, ctx.pick(0.05, 0.15), boost=2.0, need='"code":10')
    n2 += share(ctx, info2, behs, ctx.pick(0.03, 0.2), boost=2.0, pred=lambda l: '"code":10' in l or '"ev":"fl"' in l)
    n4 = share(ctx, aef, behs, ctx.pick(0.07, 1.0), boost=1.5)
    n4 += share(ctx, flf, behs, ctx.pick(0.06, 0.12), boost=3.0, need='"ev":"fl"')
    n5 = share(ctx, hst, behs, ctx.pick(0.15, 0.25))
    n5 += share(ctx, hst2, behs, ctx.pick(0.08, 0.3))
    n6 = share(ctx, snf, behs, ctx.pick(0.15, 0.5))

    # (the replay through the real HTTPProxy - step 4 - runs as a second `go test` process at the same time)
    px = os.path.join(ctx.tmp, "c17.proxy")
    share(ctx, one, px, ctx.pick(0.02, 0.03), boost=4.0)
    share(ctx, info, px, ctx.pick(0.08, 0.15), boost=2.0, need='"code":10')
    share(ctx, aef, px, ctx.pick(0.12, 0.5))
    share(ctx, flf, px, ctx.pick(0.03, 0.05), boost=3.0, need='"ev":"fl"')
    share(ctx, hst, px, ctx.pick(0.15, 0.15))
    share(ctx, viaf, px, ctx.pick(1.0, 1.0))
    from concurrent.futures import ThreadPoolExecutor
    pxex = ThreadPoolExecutor(max_workers=1)
    pxfut = pxex.submit(run_proxy, ctx, px, "C17 through HTTPProxy", timeout=ctx.pick(300, 600))
    pxex.shutdown(wait=False)

    # 3. replay against the real handler, concurrently, under the race detector
    r = run_gzip(ctx, behs, "C17 replay", timeout=ctx.pick(400, 850))
    if r is None:
        return
    s = r.summary
    ctx.log("replayed %d behaviours (%d single-handler + %d two-handler + %d with informational headers + %d Accept-Encoding / Flush + %d abort / own-Vary histories + %d sniff / reused buffer / failed hijack selected, %d reference runs without the wrapper): %d handlers, %d delivered gzip / %d plain, %.1f MB written by inner handlers, %d chunks >= 64 KiB, %d failed, %.0fs"
            % (s["ran"], n1, n2, n3, n4, n5, n6, s["reference_runs"], s["handlers"], s["gzip_mode"], s["plain_mode"], s["inner_bytes"] / 1e6, s["chunks_64k_plus"], s["fails"], r.wall))
    if s["ran"] == 0 or s["gzip_mode"] == 0 or s["plain_mode"] == 0 or s["two_handler_behaviours"] == 0:
        ctx.inconclusive("replay is vacuous: %s" % json.dumps(s)[:400])
    ctx.cover("gzip", traces_validated_against_impl=s["ran"], evaluations=s["handlers"], distinct_nontrivial=s["distinct_nontrivial"],
              samples=s.get("samples") or [],
              rule="one behaviour per transition TLC examined (shortest interleaving to the source state + one op), a seeded content-selected share of them executed; non-trivial = response delivered compressed after >= 2 Write ops")
    ctx.take_failures(r, "gzip")
    races(ctx, r, "gzip")
    plumbing(ctx, r, "C17 replay")

    # 4. through the real HTTPProxy (upstream performs the script); started before step 3, collected here
    r = pxfut.result()
    if r is None:
        return
    s = r.summary
    ctx.log("through HTTPProxy: %d behaviours, %d delivered gzip / %d plain, %d failed, %.0fs" % (s["ran"], s["gzip_mode"], s["plain_mode"], s["fails"], r.wall))
    if s["ran"] == 0 or s["gzip_mode"] == 0 or s["plain_mode"] == 0:
        ctx.inconclusive("proxy replay is vacuous: %s" % json.dumps(s)[:400])
    ctx.cover("proxy", traces_validated_against_impl=s["ran"], evaluations=s["ran"], samples=s.get("samples") or [])
    ctx.take_failures(r, "proxy")
    races(ctx, r, "proxy")
    plumbing(ctx, r, "C17 through HTTPProxy")

    selftest(ctx, one)


def selftest(ctx, one):
    """binding self-test: corrupted expectations must be rejected by the harness."""
    pick = None
    with open(one) as fh:
        for line in fh:
            b = json.loads(line)
            h = b["handlers"][0]
            if (h["req"]["ae"] == "yes" and h["req"]["ct"] == "match" and h["req"]["enc"] == "" and h["req"]["acc"] == "other"
                    and h["req"]["method"] == "GET" and h["body_allowed"] and len([o for o in h["ops"] if o["ev"] == "w" and o["chunk"] != "e"]) >= 2):
                pick = b
                break
    if pick is None:
        ctx.inconclusive("no usable behaviour for the binding self-test")
        return
    a = json.loads(json.dumps(pick))
    a["handlers"][0]["status"] = 418 if a["handlers"][0]["status"] != 418 else 200           # wrong status
    for alt in a["handlers"][0].get("alts", []):
        alt["status"] = a["handlers"][0]["status"]
    b = json.loads(json.dumps(pick))
    b["handlers"][0]["modes"] = [{"mode": "plain", "ce": "", "cl": b["handlers"][0]["req"]["cl"]}]   # claims: must not be compressed
    path = os.path.join(ctx.tmp, "c17.selftest")
    vf.write_ndjson(path, [a, b])
    r = run_gzip(ctx, path, "C17 self-test", env={"VERIF_C17_WORKERS": "2"}, timeout=300)
    if r is None:
        return
    clauses = {f.get("features", {}).get("clause") for f in r.of_kind("fail")}
    if "status" not in clauses or "mode-gzip" not in clauses:
        ctx.inconclusive("binding self-test: corrupted expectations (status, mode) were NOT rejected by the harness (got %s)" % sorted(x for x in clauses if x))


def replay(ctx, rp):
    case = rp["replay"]["case"]
    sub = rp["replay"]["sub"]
    if case is None:
        ctx.inconclusive("a data race report has no single-case replay; re-run the check")
        return
    one = os.path.join(ctx.tmp, "c17.replay")
    vf.write_ndjson(one, [case])
    r = run_proxy(ctx, one, "C17 replay") if sub == "proxy" else run_gzip(ctx, one, "C17 replay", env={"VERIF_C17_WORKERS": "2"})
    if r is None:
        return
    ctx.cover(evaluations=1)
    ctx.take_failures(r, sub)
    plumbing(ctx, r, "C17 replay")
