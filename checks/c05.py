"""C05 - route commands mean what the command language says.

spec: RouteLang.tla (+ RouteLang_MC.tla universes / generator)
TLC : language properties on the bounded universe (MC), then one case per examined
      transition (Gen, BFS with VIEW tbl) and seeded simulation behaviours beyond the bound
bind: every case replayed through real route.NewTable / NewTableCustom / Table.String
      (harness/route/c05_test.go)"""
import json, os
from lib import vf

BASE = """SPECIFICATION %(spec)s
CONSTANTS
  Svc = {"A", "B"}
  Dst = %(dst)s
  Srcs <- %(srcs)s
  W <- %(w)s
  TagSeqs <- MCTagSeqs
  OptSet <- %(opts)s
  MaxCmds = %(n)d
%(view)s
%(inv)s
CHECK_DEADLOCK FALSE
"""
INV = "INVARIANTS TypeOK NoEmptyRoute AddIdempotent AddAccumulates DelExact WeighLocal WeightsSumToOne RoundTrip"


def cfg(spec, srcs, opts, n, view=True, inv=False):
    return BASE % dict(spec=spec, srcs=srcs, opts=opts, n=n, view="VIEW View" if view else "",
                       inv=INV if inv else "", w="MCW" if srcs == "MCSrcsSmall" else "MCWFull",
                       dst={"MCSrcsSmall": '{"http://u1:80/", "http://u2:80/"}',
                            # destinations that differ only in the query string / user info are different targets
                            "MCSrcsMid": '{"http://u1:80/", "http://u1:80/?v=2"}',
                            "MCSrcsFull": '{"http://u1:80/", "http://u1:80/?v=2", "http://x@u1:80/"}'}[srcs])


def run_harness(ctx, cases, what, env=None, timeout=2400):
    e = {"VERIF_IN": cases}
    if env:
        e.update(env)
    r = ctx.gotest("route", ["route/common_test.go", "route/c05_test.go"], "^TestVerifC05$", env=e, timeout=timeout)
    if not ctx.need_go_ok(r, what):
        return None
    return r


def run(ctx):
    ctx.level = "model_checking"
    ctx.assumptions += [
        "universe: services {A,B}, sources {/, h.com/, H.com/, h.com, H.COM (no slash), h.com/a, H.COM/a, h.com/A, :1234}, 2-3 destinations (some differing only in query string / user info), weights {dynamic, 0.2, 0.5, -0.5 (= dynamic)}, tag lists {none, t1, t1+t2}, opts {none, strip=/x}",
        "fixed weights compared with exact rationals to 1e-9; a zero-weight target omitted by the rendering is not a difference (unobservable by lookups)",
    ]
    # 1. the language properties on the model
    mc = ctx.tlc("RouteLang_MC", cfg_text=cfg("Spec", "MCSrcsSmall", "MCOptsSmall", ctx.pick(2, 3), inv=True),
                 timeout=ctx.pick(300, 3000))
    ctx.log("MC: %d generated, %d distinct, %.0fs" % (mc.generated, mc.distinct, mc.wall))
    if not ctx.need_tlc_ok(mc, "RouteLang MC"):
        return
    ctx.cover("mc", states=mc.distinct, transitions=mc.generated)

    # 2. case generation: every examined transition + seeded random behaviours
    cases = os.path.join(ctx.tmp, "c05.cases")
    g = ctx.tlc("RouteLang_MC", cfg_text=cfg("GenSpec", ctx.pick("MCSrcsMid", "MCSrcsFull"), "MCOptsFull", 2), json_sink=cases, timeout=900)
    ctx.log("Gen(full universe, <=2 cmds): %d transitions, %.0fs" % (g.generated, g.wall))
    if not ctx.need_tlc_ok(g, "RouteLang Gen"):
        return
    ctx.cover("gen2", states=g.distinct, transitions=g.generated)
    if ctx.thorough:
        g3 = ctx.tlc("RouteLang_MC", cfg_text=cfg("GenSpec", "MCSrcsSmall", "MCOptsSmall", 3), json_sink=cases, timeout=3000)
        ctx.log("Gen(small universe, <=3 cmds): %d transitions, %.0fs" % (g3.generated, g3.wall))
        if not ctx.need_tlc_ok(g3, "RouteLang Gen3"):
            return
        ctx.cover("gen3", states=g3.distinct, transitions=g3.generated)
    depth = ctx.pick(7, 10)
    sim = ctx.tlc("RouteLang_MC", cfg_text=cfg("GenSpec", "MCSrcsFull", "MCOptsFull", depth, view=False),
                  simulate=ctx.pick(3000, 20000), depth=depth + 1, seed=ctx.seed, json_sink=cases, timeout=900)
    ctx.log("Sim(depth %d): %d states, %.0fs" % (depth, sim.generated, sim.wall))
    if sim.error or sim.violated:
        ctx.need_tlc_ok(sim, "RouteLang simulation")
        return
    ctx.cover("sim", transitions=sim.generated)

    # 3. replay into the real code
    r = run_harness(ctx, cases, "C05 replay")
    if r is None:
        return
    s = r.summary
    ctx.log("replayed %d cases (%d runs incl. %d spelling/custom-backend variants, %d round trips), %d failed, %.0fs"
            % (s["cases"], s["ran"], s["variants"], s["roundtrips"], s["fails"], r.wall))
    ctx.cover(traces_validated_against_impl=s["cases"], evaluations=s["ran"], distinct_nontrivial=s["distinct_nontrivial"],
              samples=s.get("samples") or [],
              rule="one case per transition TLC examined (shortest script to the source table + one command) plus every prefix of seeded random scripts; non-trivial = distinct script of >=2 commands producing a non-empty table")
    ctx.take_failures(r, "c05")

    # 4. binding self-test: a corrupted expectation must be rejected by the harness
    with open(cases) as fh:
        first = None
        for line in fh:
            c = json.loads(line)
            if c["table"] and len(c["script"]) >= 2:
                first = c
                break
    if first is None:
        ctx.inconclusive("no usable case for the binding self-test")
        return
    k = sorted(first["table"])[0]
    first["table"][k][0]["svc"] = "Z"
    one = os.path.join(ctx.tmp, "c05.selftest")
    vf.write_ndjson(one, [first])
    r2 = run_harness(ctx, one, "C05 self-test")
    if r2 is None:
        return
    if not r2.of_kind("fail"):
        ctx.inconclusive("binding self-test: a corrupted expected table was NOT rejected by the harness")


def replay(ctx, rp):
    one = os.path.join(ctx.tmp, "c05.replay")
    vf.write_ndjson(one, [rp["replay"]["case"]])
    r = run_harness(ctx, one, "C05 replay")
    if r is None:
        return
    ctx.cover(evaluations=1)
    ctx.take_failures(r, "c05")
