"""X06 (specification growth, not a listed property) - streaming responses and upstream failure
handling of the HTTP proxy.

spec: Streaming.tla (+ Streaming_MC universes, Streaming_Gen lock-step histories, Streaming_Trace)
      one proxied exchange as a pipeline of chunks: upstream (header, chunks with pauses, never
      ending, failing at every point) -> the proxy's response buffer with the documented flush rule
      (proxy.flushinterval for Accept: text/event-stream, proxy.globalflushinterval otherwise;
      positive = periodic, 0 = only when the buffer fills / the response ends, negative = at once)
      -> client (reads, may go away at every point); another request to the same target.
TLC : safety (Integrity, HeaderFirst, Mapping, NeverForged, CalmDelivered, NoLateRequest) and
      liveness WITHOUT fairness of the upstream (Delivered, HeaderDelivered, EarlyAnswered,
      BodyFailureSeen, CleanEndSeen, Released, Isolated); six wrong designs must each be rejected
      by the property that names them; then the complete set of lock-step histories.
bind: S->C every (selected) history replayed in lock step through a real HTTPProxy wired like
      main.newHTTPProxy over real sockets (plain, TLS and HTTP/2 fronts), C->S free-running
      exchanges recorded and validated by Streaming_Trace; named deviations are probed first."""
import hashlib, json, os, re, threading, time
from lib import vf

FILES = ["proxy/x06_stream_test.go"]

BASE = """CONSTANTS
  Scenarios <- %(univ)s
  Parts <- MCParts
  UnitW <- %(unitw)s
  BufCap = %(cap)d
  LockStep = %(lock)s
  MaxUnits = %(units)d
  MaxConns = %(conns)d
  SwapIntervals = %(swap)s
  ForgeEnd = %(forge)s
  HoldHeader = %(hold)s
  KeepUpstream = %(keep)s
  PartialHdrStatus = %(partial)d
CHECK_DEADLOCK FALSE
"""
SAFETY = "INVARIANTS TypeOK Integrity HeaderFirst MappingAsBuilt NeverForged CalmDelivered\nPROPERTIES NoLateRequest\n"
LIVE = "PROPERTIES Delivered HeaderDelivered EarlyAnswered BodyFailureSeen CleanEndSeen Released Isolated\n"
ENV_ACTIONS = ["CReq", "CRead", "CClose", "PDial", "PRead", "PFlush", "PTimeout", "PCancel", "UpHdr", "UpSlow",
               "UpFailEarlyAny", "UpWrite", "UpEnd", "UpCut", "UpRst", "OStart", "ODone"]


def consts(univ, small=True, lock=False, conns=0, swap=False, forge=False, hold=False, keep=False, partial=502):
    b = lambda x: "TRUE" if x else "FALSE"
    return BASE % dict(univ=univ, unitw="MCUnitWSmall" if small else "MCUnitWReal", cap=4 if small else 65536,
                       lock=b(lock), units=4 if univ == "MCLive" else 9, conns=conns, swap=b(swap), forge=b(forge), hold=b(hold), keep=b(keep), partial=partial)


def violated(r):
    """name of the violated invariant / temporal property (vf does not parse TLC's 'Temporal property X was violated')"""
    if r.violated:
        return r.violated
    m = re.search(r"Error: Temporal property (\S+) was violated", r.out)
    if m:
        return m.group(1)
    return None


def clean(ctx, r, what):
    if r.timed_out:
        ctx.inconclusive("%s: TLC timed out" % what)
        return False
    v = violated(r)
    if v:
        ctx.inconclusive("%s: the model violates %s (a lead on the specification, not a verdict on the code)\n%s" % (what, v, r.out[-2500:]))
        return False
    if r.error:
        ctx.inconclusive("%s: TLC error: %s" % (what, r.error))
        return False
    return True


class Bg:
    """a ctx.tlc / ctx.gotest call running in a thread (vf numbers the scratch directories under a lock)"""
    def __init__(self, fn, *a, **kw):
        self.res = self.err = None

        def run():
            try:
                self.res = fn(*a, **kw)
            except Exception as e:        # noqa
                self.err = e
        self.th = threading.Thread(target=run)
        self.th.start()

    def get(self):
        self.th.join()
        if self.err:
            raise self.err
        return self.res


def sig(h):
    return " ".join(s["a"] for s in h["steps"])


def eff(h):
    return h["sc"]["f"] if h["sc"]["sse"] else h["sc"]["g"]


def key(h):
    return json.dumps([h["sc"], [(s["a"], s["k"]) for s in h["steps"]]], sort_keys=True)


def hval(seed, s):
    return int.from_bytes(hashlib.sha1(("%d|" % seed).encode() + s.encode()).digest()[:6], "big")


def select(ctx, hs, total, per_class):
    """seeded, content-selected choice: `per_class` histories of every class (step signature x interval in
    force x framing x HTTP status class) so that no special class is ever sliced away, then a seeded share"""
    classes = {}
    for h in hs:
        classes.setdefault((sig(h), eff(h), h["sc"]["fr"], h["sc"]["sse"]), []).append(h)
    chosen, rest = [], []
    for c in sorted(classes):
        v = sorted(classes[c], key=lambda h: hval(ctx.seed, key(h)))
        chosen += v[:per_class]
        rest += v[per_class:]
    rest.sort(key=lambda h: hval(ctx.seed + 7919, key(h)))
    chosen += rest[:max(0, total - len(chosen))]
    return chosen, len(classes)


def run_go(ctx, test, inp, what, env=None, timeout=600):
    e = {"VERIF_IN": inp}
    e.update(env or {})
    g = ctx.gotest("proxy", FILES, "^%s$" % test, env=e, race=False, timeout=timeout)
    if not ctx.need_go_ok(g, what):
        return None
    return g


def probe(ctx):
    g = run_go(ctx, "TestVerifX06Probe", os.devnull, "X06 probe", timeout=200)
    if g is None:
        return None
    p = g.of_kind("probe")
    if not p:
        ctx.inconclusive("probe produced no record")
        return None
    return p[-1]


def gen(ctx, partial, sink):
    cfg = "SPECIFICATION GenSpec\n" + consts("MCFull", small=False, lock=True, partial=partial) + "VIEW GenView\nINVARIANT GenConsistent\n"
    r = ctx.tlc("Streaming_Gen", cfg_text=cfg, workers=8, json_sink=sink, timeout=600)
    return r


def load_histories(path):
    seen, hs = set(), []
    with open(path) as fh:
        for line in fh:
            h = json.loads(line)
            k = key(h)
            if k in seen:
                continue
            seen.add(k)
            hs.append(h)
    return hs


def trace_cfg(partial):
    return ("SPECIFICATION TSpec\n" + consts("MCSmall", small=False, partial=partial).replace("Scenarios <- MCSmall", "Scenarios = {}")
            + "CONSTRAINT HW\nINVARIANT TSafe\nPOSTCONDITION Accepted\n")


def validate(ctx, path, partial, what, timeout=600):
    r = ctx.tlc("Streaming_Trace", cfg_text=trace_cfg(partial), workers=1, env={"VERIF_TRACE": path}, timeout=timeout)
    return r


def stuck(r):
    m = re.search(r'<<"stuck at", (\d+), (.*?)>>\s*$', r.out, re.M | re.S)
    return (int(m.group(1)), m.group(2)[:300]) if m else (0, "")


def split_traces(path):
    traces, cur = [], None
    with open(path) as fh:
        for line in fh:
            e = json.loads(line)
            if e["ev"] == "Reset":
                cur = []
                traces.append(cur)
            cur.append(e)
    return traces


def run(ctx):
    ctx.level = "model_checking"
    ctx.assumptions += [
        "universe: proxy.flushinterval x proxy.globalflushinterval in {0, 10ms, -1}^2; Accept: text/event-stream or */*; upstream framing Content-Length / chunked / close-delimited; upstream Content-Type text/event-stream or application/octet-stream; 0..3 chunks of 1 B / 4 KiB / 64 KiB+1; upstream: refuses, closes / resets before the header, closes in the middle of the header, stays silent beyond proxy.responseheadertimeout (250 ms), ends cleanly, closes / resets after the header and after each chunk, never ends; client: goes away before the header, after the header and after each chunk; another request to the same target while the stream is open; fronts: HTTP/1.1 plain, HTTP/1.1 over TLS, HTTP/2 over TLS; GET requests without body; gzip off",
        "flush rule read from docs/content/ref/proxy.flushinterval.md, proxy.globalflushinterval.md, feature/sse.md and fabio.properties: SSE = the Accept header IS text/event-stream; a negative interval is read as net/http/httputil documents it (flush after every write)",
        "with flushing in force the client is owed everything the upstream has written (header included) before the upstream writes more; without (interval 0) it is owed all but less than one buffer, where 'the response buffer' is assumed to hold at most 64 KiB - the documentation gives no size; delivering earlier than owed never fails",
        "an owed observation must arrive within 2 s (200 x the 10 ms interval; a 504 within 4 s = 16 x the header timeout); a history that misses one is repeated and only a fault that persists (same clause twice, process not frozen meanwhile) is reported",
        "a close of a close-delimited body is a clean end (it cannot be told from one); a reset may destroy what is in flight, so after a reset the client is owed an aborted response (or a 502 if not even the header had arrived) and nothing more",
        "a client departure that races with the forwarding of the request is not modelled (the client leaves only after the upstream has the request); back-pressure (a client that stops reading), request bodies, trailers, 1xx, websocket upgrades (C09) and gzip (C17) are out of scope",
        "PartialHdrStatus (status when the upstream closes in the middle of its header) is a named deviation: it is probed on the tree, the histories and traces are generated / validated for the probed value, a value other than 502 is printed as a LEAD",
    ]
    thorough = ctx.thorough

    # ---- 0. which named deviations does this tree show?
    pr = probe(ctx)
    if pr is None:
        return
    partial = pr.get("partial_hdr_status", 0)
    if partial not in (500, 502):
        ctx.violation({"sub": "probe", "clause": "failure-status", "status": partial},
                      "an upstream that closes in the middle of its response header is answered with status %s (%s); the specification knows 502 (documented) and 500 (named deviation)" % (partial, pr.get("seen")),
                      replay={"sub": "probe", "case": None})
        return
    if partial != 502:
        ctx.log("LEAD: an upstream that closes the connection in the middle of its response header is answered 500, not 502: the transport reports 'net/http: HTTP/1.x transport connection broken: unexpected EOF' (a wrapped io.ErrUnexpectedEOF), and httpProxyErrorHandler maps every error that is neither a net.Error nor identical to io.EOF (also e.g. a malformed status line) to 500 Internal Server Error although the fault is the upstream's (502 Bad Gateway by the handler's own comment)")

    # ---- 1. generator + model checking in parallel
    sink = os.path.join(ctx.tmp, "x06.hist")
    bg_gen = Bg(gen, ctx, partial, sink)
    time.sleep(0.3)
    univ = "MCSmall" if thorough else "MCTiny"
    bg_safe = Bg(ctx.tlc, "Streaming_MC", cfg_text="SPECIFICATION Spec\n" + consts(univ, partial=502) + SAFETY + "INVARIANTS Mapping CalmIsCalmS\n",
                 workers=6, timeout=800, coverage=thorough)
    time.sleep(0.3)
    bg_live = Bg(ctx.tlc, "Streaming_MC", cfg_text="SPECIFICATION Spec\n" + consts("MCLive", lock=True, partial=502) + "INVARIANT TypeOK\n" + LIVE,
                 workers=4, timeout=800)

    time.sleep(0.3)
    bgs_wrong = start_wrong(ctx, thorough)
    r = bg_gen.get()
    if not clean(ctx, r, "Streaming_Gen"):
        bg_safe.get(); bg_live.get()
        for w in bgs_wrong:
            w[2].get()
        return
    hs = load_histories(sink)
    ctx.log("Gen: %d lock-step histories (%d printed, %d transitions, %.0fs)" % (len(hs), sum(1 for _ in open(sink)), r.generated, r.wall))
    ctx.cover("gen", transitions=r.generated)
    if len(hs) < 1000:
        ctx.inconclusive("generator produced only %d histories" % len(hs))
        return

    # ---- 2. S->C: lock-step replay
    if thorough:
        chosen, ncls = hs, len({(sig(h), eff(h), h["sc"]["fr"], h["sc"]["sse"]) for h in hs})
    else:
        chosen, ncls = select(ctx, hs, 5000, 2)
    inp = os.path.join(ctx.tmp, "x06.in")
    vf.write_ndjson(inp, chosen)
    bg_rep = Bg(run_go, ctx, "TestVerifX06Replay", inp, "X06 replay", timeout=ctx.pick(300, 800))
    time.sleep(0.3)
    bg_rep2 = None

    # ---- 3. C->S: free-running exchanges, recorded
    free, _ = select(ctx, [h for h in hs if len(h["steps"]) >= 3], ctx.pick(700, 4000), 1)
    finp = os.path.join(ctx.tmp, "x06.free")
    vf.write_ndjson(finp, free)
    tpath = os.path.join(ctx.tmp, "x06.trace")
    bg_free = Bg(run_go, ctx, "TestVerifX06Free", finp, "X06 free-running exchanges", env={"VERIF_TRACE_OUT": tpath, "VERIF_WORKERS": 6},
                 timeout=ctx.pick(300, 600))

    # model checking results while the Go runs are busy
    ok_models = models(ctx, bg_safe, bg_live, bgs_wrong, thorough)

    gf = bg_free.get()
    bg_val = Bg(validate, ctx, tpath, partial, "traces") if gf is not None and gf.summary and gf.summary.get("traces") else None
    g = bg_rep.get()
    if thorough and g is not None:
        # second pass: every history once more over another front / the other kind of upstream
        bg_rep2 = Bg(run_go, ctx, "TestVerifX06Replay", inp, "X06 replay (second pass)", env={"VERIF_X06_ROT": 1}, timeout=800)
    if g is None or gf is None or not ok_models:
        if bg_val:
            bg_val.get()
        if bg_rep2:
            bg_rep2.get()
        return
    s = g.summary
    ctx.log("replay: %d histories of %d classes (%d steps; fronts plain %d / tls %d / h2 %d; %d over a TLS upstream; %.1f MB of body through the proxy), %d repeated, %d skipped, %d failed, %.0fs"
            % (s["ran"], ncls, s["steps"], s["plain"], s["tls"], s["h2"], s.get("up_tls", 0), s["body_bytes"] / 1e6, s["retried"], s["skipped"], s["fails"], g.wall))
    if s["ran"] == 0 or s["plain"] == 0 or s["tls"] == 0 or s["h2"] == 0 or s.get("up_tls", 0) == 0:
        ctx.inconclusive("replay is vacuous: %s" % json.dumps(s)[:300])
    ctx.cover("replay", traces_validated_against_impl=s["ran"], evaluations=s["steps"], distinct_nontrivial=s["ran"],
              samples=s.get("samples") or [], exhaustive=thorough,
              rule="one history per distinct terminal state of Streaming_Gen (environment steps in lock step; after each step: status / bytes owed and allowed, end of the response, upstream release, handler return); quick: >= 2 per class (step signature x interval in force x framing x SSE) + a seeded share, thorough: all")
    ctx.take_failures(g, "replay")
    if s.get("plumbing"):
        ctx.inconclusive("replay: harness plumbing trouble (%d): %s" % (s["plumbing"], (g.of_kind("oracle") or [{}])[0].get("msg", "")[:500]))
    if s.get("log_none"):
        ctx.log("LEAD: %d of %d exchanges left NO access log line and no request metric (classes %s): ReverseProxy aborts a broken stream with panic(http.ErrAbortHandler), which unwinds HTTPProxy.ServeHTTP past the timer and logger calls; exchanges abandoned before the header are logged as 499 (%d), completed ones normally (%d)"
                % (s["log_none"], s["ran"], sorted(s.get("log_none_classes") or []), s.get("log_499", 0), s.get("log_other", 0)))

    if bg_rep2 is not None:
        g2 = bg_rep2.get()
        if g2 is not None:
            s2 = g2.summary
            ctx.log("replay, second pass (fronts rotated): %d histories (plain %d / tls %d / h2 %d; %d over a TLS upstream), %d repeated, %d failed, %.0fs"
                    % (s2["ran"], s2["plain"], s2["tls"], s2["h2"], s2.get("up_tls", 0), s2["retried"], s2["fails"], g2.wall))
            ctx.cover("replay-2", traces_validated_against_impl=s2["ran"], evaluations=s2["steps"])
            ctx.take_failures(g2, "replay")
            if s2.get("plumbing"):
                ctx.inconclusive("replay (second pass): harness plumbing trouble (%d): %s" % (s2["plumbing"], (g2.of_kind("oracle") or [{}])[0].get("msg", "")[:500]))
    fs = gf.summary
    if fs.get("plumbing"):
        ctx.inconclusive("free-running exchanges: harness plumbing trouble: %s" % (gf.of_kind("oracle") or [{}])[0].get("msg", "")[:500])
    if fs["traces"] == 0 or bg_val is None:
        ctx.inconclusive("no free-running exchange could be recorded: %s" % json.dumps(fs)[:300])
        return
    if fs.get("unsettled"):
        ctx.log("free-running: %d exchange(s) did not come to rest within the safety net and were not recorded: %s"
                % (fs["unsettled"], (gf.of_kind("unsettled") or [{}])[0].get("msg", "")[:300]))
        if fs["unsettled"] > fs["histories"] // 20:
            ctx.inconclusive("free-running: %d of %d exchanges did not come to rest" % (fs["unsettled"], fs["histories"]))
    r = bg_val.get()
    if r.timed_out or (r.error and not r.violated):
        ctx.inconclusive("Streaming_Trace: %s" % (r.error or "timed out"))
        return
    if r.violated:
        at, evt = stuck(r)
        traces = split_traces(tpath)
        n, bad = 0, None
        for t in traces:
            if n < at <= n + len(t):
                bad = t
                break
            n += len(t)
        ctx.violation({"sub": "trace", "clause": r.violated, "event": (evt.split("ev |->")[1].split(",")[0].strip(' "]') if "ev |->" in evt else "")},
                      "a recorded exchange is not a behaviour of Streaming (%s; first unexplained event #%d: %s)\n  exchange: %s"
                      % (r.violated, at - n, evt, json.dumps(bad)[:1500]), replay={"sub": "trace", "case": bad})
    else:
        ctx.log("traces: %d free-running exchanges (%d events) accepted by Streaming_Trace (%d states, %.0fs)" % (fs["traces"], fs["events"], r.distinct, r.wall))
        ctx.cover("trace", traces_validated_against_impl=fs["traces"], evaluations=fs["events"], states=r.distinct)

    selftest(ctx, hs, tpath, partial)


def start_wrong(ctx, thorough):
    # the designs that must be rejected, each by the property that names it
    wrong = [
        ("the intervals are swapped (g for SSE, f otherwise)", dict(swap=True), SAFETY, {"CalmDelivered"}),
        ("the intervals are swapped - causal form", dict(swap=True), "PROPERTIES Delivered HeaderDelivered\n", {"Delivered", "HeaderDelivered"}),
        ("an upstream failure in the body is passed on as a clean end", dict(forge=True), SAFETY, {"NeverForged"}),
        ("the header is held back until body data arrives", dict(hold=True), SAFETY, {"CalmDelivered"}),
        ("the upstream connection is kept when the client goes away", dict(keep=True), "PROPERTIES Released\n", {"Released"}),
        ("one connection per target", dict(conns=1), "PROPERTIES Isolated\n", {"Isolated"}),
        ("a header that breaks off is answered 500", dict(partial=500), "INVARIANT Mapping\n", {"Mapping"}),
        ("delivery is promised although flushing is disabled", dict(), "PROPERTIES DeliveredAlways\n", {"DeliveredAlways"}),
    ]
    if thorough:
        wrong.append(("free-running liveness", None, None, None))
    bgs = []
    for what, kw, props, want in wrong:
        if kw is None:
            bgs.append((what, want, Bg(ctx.tlc, "Streaming_MC", cfg_text="SPECIFICATION Spec\n" + consts("MCLive", lock=False) + LIVE, workers=3, timeout=600)))
        else:
            k = dict(partial=502, lock=True)
            k.update(kw)
            bgs.append((what, want, Bg(ctx.tlc, "Streaming_MC", cfg_text="SPECIFICATION Spec\n" + consts("MCLive", **k) + props, workers=2, timeout=400)))
        time.sleep(0.25)
    return bgs


def models(ctx, bg_safe, bg_live, bgs_wrong, thorough):
    ok = True
    r = bg_safe.get()
    if clean(ctx, r, "Streaming MC safety"):
        ctx.log("MC safety: %d states, %d transitions, depth %d, %.0fs" % (r.distinct, r.generated, r.depth, r.wall))
        ctx.cover("mc-safety", states=r.distinct, transitions=r.generated)
        if thorough:
            dead = [a for a in r.coverage0 if a in ENV_ACTIONS]
            if dead:
                ctx.inconclusive("Streaming MC: action(s) never taken: %s" % dead)
                ok = False
    else:
        ok = False
    r = bg_live.get()
    if clean(ctx, r, "Streaming MC liveness (lock step)"):
        ctx.log("MC liveness (no fairness on the upstream, lock step): %d states, %.0fs" % (r.distinct, r.wall))
        ctx.cover("mc-liveness", states=r.distinct, transitions=r.generated)
    else:
        ok = False
    bgs = bgs_wrong
    nwrong = sum(1 for w in bgs if w[1])
    for what, want, bg in bgs:
        r = bg.get()
        if want is None:
            if clean(ctx, r, "Streaming MC liveness (free running)"):
                ctx.cover("mc-liveness-free", states=r.distinct, transitions=r.generated)
            else:
                ok = False
            continue
        v = violated(r)
        if r.timed_out or v not in want:
            ctx.inconclusive("the design in which %s is NOT rejected by %s (violated=%s error=%s)" % (what, sorted(want), v, (r.error or "")[:300]))
            ok = False
    if ok:
        ctx.log("MC: %d wrong designs rejected, each by the property that names it" % nwrong)
    return ok


def selftest(ctx, hs, tpath, partial):
    """binding self-test: corrupted expectations must be rejected by the harness, corrupted traces by TLC"""
    def first(pred):
        for h in hs:
            if pred(h):
                return json.loads(json.dumps(h))
        return None
    a = first(lambda h: sig(h) == "Req Hdr W End" and eff(h) != "zero")
    b = first(lambda h: sig(h) == "Req Hdr W Cut" and eff(h) != "zero")
    c = first(lambda h: sig(h) == "Req Early-close")
    if not (a and b and c):
        ctx.inconclusive("no usable histories for the binding self-test")
        return
    a["steps"][2]["may"] = 0                  # claims: nothing written yet -> "invented"
    b["steps"][-1]["end"] = "complete"        # claims: a cut stream ends cleanly -> "end-complete"
    c["steps"][-1]["hdr"] = c["steps"][-1]["hmay"] = 504   # claims: 504 -> "failure-status"
    for h in (a, b, c):
        h["front"] = "plain"
    p = os.path.join(ctx.tmp, "x06.self")
    vf.write_ndjson(p, [a, b, c])
    g = run_go(ctx, "TestVerifX06Replay", p, "X06 self-test", timeout=200)
    if g is None:
        return
    got = {f.get("features", {}).get("clause") for f in g.of_kind("fail")}
    if not {"invented", "end-complete", "failure-status"} <= got:
        ctx.inconclusive("binding self-test: corrupted expectations were NOT rejected by the harness (got %s)" % sorted(x for x in got if x))
    traces = split_traces(tpath)
    t1 = next((t for t in traces if any(e["ev"] == "CliRead" for e in t) and any(e["ev"] == "UpW" for e in t)), None)
    t2 = next((t for t in traces if any(e["ev"] == "CliEnd" and e["end"] == "aborted" and e["status"] == 200 for e in t)), None)
    if not (t1 and t2):
        ctx.inconclusive("no usable traces for the binding self-test")
        return
    c1 = [e for e in t1 if e["ev"] != "UpW"]                      # bytes the upstream never wrote
    c2 = [dict(e, end="complete") if e["ev"] == "CliEnd" else e for e in t2]   # a broken response taken for complete
    bgs = []
    for i, c in enumerate((c1, c2)):
        p = os.path.join(ctx.tmp, "x06.bad%d" % i)
        vf.write_ndjson(p, c)
        bgs.append(Bg(validate, ctx, p, partial, "corrupted trace"))
        time.sleep(0.25)
    for bg in bgs:
        r = bg.get()
        if not r.violated:
            ctx.inconclusive("binding self-test: a corrupted trace was NOT rejected by Streaming_Trace (error=%s)" % (r.error or "")[:300])
            return
    ctx.log("binding self-test: 3 corrupted expectations rejected by the harness, 2 corrupted traces rejected by TLC")


def replay(ctx, rp):
    case, sub = rp["replay"]["case"], rp["replay"]["sub"]
    if case is None:
        ctx.inconclusive("nothing to replay for sub=%s; re-run the check" % sub)
        return
    pr = probe(ctx)
    partial = (pr or {}).get("partial_hdr_status", 502)
    if sub == "trace":
        p = os.path.join(ctx.tmp, "x06.trace1")
        vf.write_ndjson(p, case)
        r = validate(ctx, p, partial if partial in (500, 502) else 502, "replayed trace")
        if r.violated:
            ctx.violation({"sub": "trace", "clause": r.violated}, "the recorded exchange is (still) not a behaviour of Streaming: %s" % stuck(r)[1],
                          replay={"sub": "trace", "case": case})
        elif r.error or r.timed_out:
            ctx.inconclusive("Streaming_Trace: %s" % (r.error or "timed out"))
        ctx.cover(evaluations=len(case))
        return
    p = os.path.join(ctx.tmp, "x06.replay")
    vf.write_ndjson(p, [case])
    g = run_go(ctx, "TestVerifX06Replay", p, "X06 replay", timeout=200)
    if g is None:
        return
    ctx.cover(evaluations=1)
    ctx.take_failures(g, "replay")
