"""C20 - access logging is accurate and can never disturb a request.

spec: AccessLog.tla (format tokens, ParseFormat, Render = one line, Dec / Hex4 / UUID / unix time
      defined from \\div and %, machine Parse -> (Reject | Ready) -> Log(event) -> Written)
      + AccessLog_MC.tla (token / event universe, generator)
TLC : RejectIffInvalid, OneLine, digit sanity on the bounded universe; generator = one line per
      rejected Parse and per Log transition with the admissible output line(s)
bind: each (format, event) through real logger.New + Log under recover, compared with TLC's line
      AND the standard library's rendering (three-way); pure formatters swept against the standard
      library (uint16base16 2^16, i32toa 2^32 in thorough, atoi seeded 64 bit, uuid.ToString);
      end to end through the real proxy.HTTPProxy with an upstream URL without port."""
import json, os
from lib import vf

CFG = """SPECIFICATION GenSpec
CONSTANTS
  Tokens <- MCTokens
  DeepTokens <- %(deep)s
  Events <- %(events)s
  MaxTokens = 4
  Exchanges <- MCNoExchanges
  XFormats <- MCNoFormats
  MaxServes = 1
INVARIANTS TypeOK RejectIffInvalid OneLine DecSane PrintEvents PrintFormatters
CHECK_DEADLOCK FALSE
"""
XCFG = """SPECIFICATION %(spec)s
CONSTANTS
  Tokens <- MCTokens
  DeepTokens <- MCDeepQuick
  Events <- MCEventsQuick
  MaxTokens = 4
  Exchanges <- %(exchanges)s
  XFormats <- MCXFormats
  MaxServes = %(serves)d
INVARIANTS TypeOK RejectIffInvalid OneLine EventFaithful LineIndependent %(extra)s
CHECK_DEADLOCK FALSE
"""


def gorun(ctx, pkg, run, cases, what, env=None, timeout=900):
    e = {"VERIF_IN": cases}
    if env:
        e.update(env)
    files = ["%s/c20_test.go" % pkg] + (["proxy/c20_exchange_test.go"] if pkg == "proxy" else [])
    r = ctx.gotest(pkg, files, run, env=e, timeout=timeout)
    for rec in r.of_kind("error"):
        ctx.inconclusive("%s: harness error: %s" % (what, rec.get("msg", "")[:1500]))
    for rec in r.of_kind("oracle")[:3]:
        ctx.inconclusive("%s: the specification and the standard-library oracle of the harness disagree (a defect of the check, not of fabio): %s"
                         % (what, rec.get("msg", "")[:1500]))
    if not ctx.need_go_ok(r, what):
        return None
    return r


def run(ctx):
    ctx.level = "exploration"
    ctx.assumptions += [
        "TLC contributes the format / event structure, the parse verdict and the expected line (digits, padding, month names, unix time, hex and UUID layouts are defined in TLA+ with 32-bit-safe arithmetic: values beyond 2^31 are base-10^4 limb sequences); the exhaustive 2^16 / 2^32 sweeps and the seeded 64-bit and random-event sweeps are differential tests driven by the harness against strconv / fmt / time / encoding/hex",
        "timestamps are UTC (statement); TLC events 1970..2262 (range of UnixNano), random events years 1..9999 without the $time_unix_* fields outside 1678..2261",
        "durations are non-negative (a completed request ends after it started); status 100..999; every logged event has a Response",
        "math.MinInt64 is excluded from the atoi samples: no log field can take it (sizes >= 0, three-digit status, time components, unix time until 2262) and it is the one value atoi renders wrongly",
        "for a bracketed IPv6 address $remote_host / $upstream_host may be rendered with or without the brackets (the statement names no standard-library function for the split); an unbracketed IPv6 address without port is not in the universe",
        "an event whose whole rendering is empty: writing nothing instead of an empty line is accepted (logger documents 'no output')",
        "format universe: concatenations that are unambiguous in the documented grammar (text after a field starts with a separator, a lone '$' is followed by a separator or the end)",
    ]
    cases = os.path.join(ctx.tmp, "c20.cases")
    g = ctx.tlc("AccessLog_MC", cfg_text=CFG % dict(deep=ctx.pick("MCDeepQuick", "MCDeepSmall"), events=ctx.pick("MCEventsQuick", "MCEventsAll")),
                workers=ctx.pick(4, 8), json_sink=cases, coverage=ctx.thorough, timeout=ctx.pick(200, 1200))
    ctx.log("AccessLog: %d states, %d distinct, %.0fs" % (g.generated, g.distinct, g.wall))
    if not ctx.need_tlc_ok(g, "AccessLog MC/Gen"):
        return
    if ctx.thorough and g.coverage0:
        ctx.inconclusive("AccessLog: actions never taken: %s" % g.coverage0)
        return
    ctx.cover("mc", states=g.distinct, transitions=g.generated)

    # logger: TLC cases three-way, random events and atoi two-way
    r = gorun(ctx, "logger", "^TestVerifC20Logger$", cases, "C20 logger",
              env={"VERIF_C20_RANDOM": ctx.pick(200000, 3000000), "VERIF_C20_ATOI": ctx.pick(1000000, 12000000)})
    if r is None:
        return
    s = r.summary
    ctx.log("logger: %d TLC cases (%d accepted formats x events, %d events), %d random events, %d atoi values, %d failed, %.0fs"
            % (s["ran"], s["accepted"], s["events"], s["random"], s["atoi"], s["fails"], r.wall))
    if s["ran"] < 1000 or s["events"] < 5 or s["dec_cases"] < 10:
        ctx.inconclusive("logger harness saw too few generated cases (%s)" % json.dumps({k: s[k] for k in ("ran", "events", "dec_cases")}))
    ctx.cover("logger", traces_validated_against_impl=s["ran"], evaluations=s["ran"] + s["random"] + s["atoi"],
              distinct_nontrivial=s["distinct_nontrivial"], samples=s.get("samples") or [],
              rule="one replay per rejected Parse and per Log transition of the model; non-trivial = distinct (format of >= 2 tokens, event) accepted and rendered; evaluations add the seeded random events and formatter values compared with the standard library")
    ctx.take_failures(r, "logger")

    # proxy: hex / i32toa sweeps and the end-to-end run
    rp = gorun(ctx, "proxy", "^TestVerifC20Proxy$", cases, "C20 proxy", env={"VERIF_C20_I32": 1000000}, timeout=1500)
    if rp is None:
        return
    sp = rp.summary
    ctx.log("proxy: uint16base16 %d values (%d defined by the spec), i32toa %d values, %d end-to-end requests, %d failed, %.0fs"
            % (sp["hex"], sp["hex_spec"], sp["i32toa"], sp["e2e"], sp["fails"], rp.wall))
    if sp["hex"] != 65536 or sp["hex_spec"] < 10 or sp["e2e"] < 12 or (ctx.thorough and sp["i32toa"] < 2 ** 32):
        ctx.inconclusive("proxy harness incomplete: %s" % json.dumps({k: sp[k] for k in ("hex", "hex_spec", "i32toa", "e2e")}))
    ctx.cover("proxy", evaluations=sp["hex"] + sp["i32toa"] + sp["e2e"], exhaustive=False)
    ctx.take_failures(rp, "proxy")

    # event construction: exchanges over real sockets (client -> HTTPProxy -> scripted upstreams)
    xcases = os.path.join(ctx.tmp, "c20.xcases")
    gx = ctx.tlc("AccessLog_MC", cfg_text=XCFG % dict(spec="XGenSpec", exchanges=ctx.pick("MCExchangesQuickH", "MCExchangesH"),
                                      serves=1, extra="PrintExchanges"), workers=4,
                 json_sink=xcases, coverage=ctx.thorough, timeout=ctx.pick(200, 900))
    ctx.log("AccessLog exchanges: %d states, %.0fs" % (gx.distinct, gx.wall))
    if not ctx.need_tlc_ok(gx, "AccessLog exchange Gen"):
        return
    if ctx.thorough and gx.coverage0:
        ctx.inconclusive("AccessLog exchanges: actions never taken: %s" % gx.coverage0)
        return
    ctx.cover("xgen", states=gx.distinct, transitions=gx.generated)
    xhist = os.path.join(ctx.tmp, "c20.xhist")
    gxh = ctx.tlc("AccessLog_MC", cfg_text=XCFG % dict(spec="XHistSpec", exchanges="MCHistExchanges", serves=ctx.pick(2, 3), extra=""),
                  workers=4, json_sink=xhist, coverage=ctx.thorough, timeout=300)
    if not ctx.need_tlc_ok(gxh, "AccessLog exchange histories"):
        return
    if ctx.thorough and gxh.coverage0:
        ctx.inconclusive("AccessLog exchange histories: actions never taken: %s" % gxh.coverage0)
        return
    nxh = sum(1 for _ in open(xhist))
    ctx.log("AccessLog exchange histories: %d histories of %d exchanges through one proxy, %.0fs" % (nxh, ctx.pick(2, 3), gxh.wall))
    if nxh < 40:
        ctx.inconclusive("only %d exchange histories generated" % nxh)
        return
    ctx.cover("xhist", states=gxh.distinct, transitions=gxh.generated)
    rx = gorun(ctx, "proxy", "^TestVerifC20Exchange$", xcases, "C20 exchanges", env={"VERIF_C20_XHIST": xhist}, timeout=1200)
    if rx is None:
        return
    sx = rx.summary
    ctx.log("exchange histories: %d replayed through one proxy + logger (%d exchanges); %d unprescribed line parts compared with a proxy that served nothing before"
            % (sx.get("histories", 0), sx.get("history_exchanges", 0), sx.get("independent_parts", 0)))
    if sx.get("histories", 0) < 40 or sx.get("independent_parts", 0) < 20:
        ctx.inconclusive("exchange history part incomplete: %s" % json.dumps({k: sx.get(k) for k in ("histories", "independent_parts")}))
    ctx.log("exchanges: %d played over loopback (%s; %d skipped: no IPv6 loopback), %d line parts compared, %d control runs, %d oracle disagreements, %d failed, %.0fs"
            % (sx["ran"], json.dumps(sx["kinds"], sort_keys=True), sx["skipped_no_ipv6"], sx["parts_compared"], sx["controls"],
               sx["oracle_disagreements"], sx["fails"], rx.wall))
    for n in rx.of_kind("note")[:3]:
        ctx.log("note:", n.get("msg"))
    if sx["ran"] < 50 or sx["parts_compared"] < 5 * sx["ran"] or len(sx["kinds"]) < 5:
        ctx.inconclusive("exchange harness incomplete: %s" % json.dumps({k: sx[k] for k in ("ran", "parts_compared", "kinds")}))
    if not sx["ipv6"]:
        ctx.assumptions.append("no IPv6 loopback in this environment: exchanges from [::1] were skipped")
    ctx.cover("exchange", traces_validated_against_impl=sx["ran"], evaluations=sx["parts_compared"], samples=sx.get("samples") or [])
    ctx.take_failures(rx, "exchange")

    # binding self-test of the exchange part: a corrupted prescribed status must be rejected
    xs, xcs = None, []
    with open(xcases) as fh:
        for line in fh:
            c = json.loads(line)
            if "exchanges" in c:
                xs = c["exchanges"]
            elif c.get("x"):
                xcs.append(c)
    pick = next((c for c in xcs if len(c["fmt"]) == 1 and c["fmt"][0]["v"] == "$response_status" and c["lines"] == ["200\n"]), None)
    if xs is None or pick is None:
        ctx.inconclusive("no usable case for the exchange self-test")
        return
    mine = [dict(c) for c in xcs if c["x"] == pick["x"]]
    for c in mine:
        if c["fmt"] == pick["fmt"]:
            c["lines"] = ["201\n"]
    xone = os.path.join(ctx.tmp, "c20.xselftest")
    vf.write_ndjson(xone, [{"exchanges": [x for x in xs if x["id"] == pick["x"]]}] + mine)
    rs = ctx.gotest("proxy", ["proxy/c20_test.go", "proxy/c20_exchange_test.go"], "^TestVerifC20Exchange$", env={"VERIF_IN": xone}, timeout=600)
    if not ctx.need_go_ok(rs, "C20 exchange self-test"):
        return
    if not any(r.get("features", {}).get("clause") == "event-status" for r in rs.of_kind("fail")):
        ctx.inconclusive("binding self-test: a corrupted prescribed status of an exchange was NOT rejected by the harness")

    # concurrent calls of the formatters: the design (a buffer per call) satisfies Correct, and the
    # model is not vacuous: with one shared buffer TLC finds the schedule that mixes two calls
    ucfg = "SPECIFICATION Spec\nCONSTANTS\n Calls <- MCCalls\n Arg <- MCArg\n Shared = %s\nINVARIANT Correct\nCHECK_DEADLOCK FALSE\n"
    uc = ctx.tlc("UuidConc_MC", cfg_text=ucfg % "FALSE", workers=2, timeout=120)
    if not ctx.need_tlc_ok(uc, "UuidConc"):
        return
    ucs = ctx.tlc("UuidConc_MC", cfg_text=ucfg % "TRUE", workers=2, timeout=120)
    if ucs.violated != "Correct":
        ctx.inconclusive("UuidConc: the shared-buffer variant of the model does not violate Correct (vacuous model): %s %s" % (ucs.violated, ucs.error))
        return
    ctx.cover("conc", states=uc.distinct, transitions=uc.generated)
    ru = gorun(ctx, "uuid", "^TestVerifC20UUID$", cases, "C20 uuid",
               env={"VERIF_C20_UUID": ctx.pick(100000, 3000000), "VERIF_C20_UUID_CONC": ctx.pick(400000, 4000000)})
    if ru is None:
        return
    su = ru.summary
    if ctx.thorough:
        rr = ctx.gotest("uuid", ["uuid/c20_test.go"], "^TestVerifC20UUID$", race=True, timeout=900,
                        env={"VERIF_IN": cases, "VERIF_C20_UUID": 20000, "VERIF_C20_UUID_CONC": 200000})
        if ctx.need_go_ok(rr, "C20 uuid -race"):
            ctx.take_failures(rr, "uuid")
            if "WARNING: DATA RACE" in rr.out and not rr.of_kind("fail"):
                ctx.inconclusive("C20 uuid: the race detector reports a data race in concurrent uuid.ToString calls although every call returned its own rendering:\n%s" % rr.out[-1500:])
    ctx.log("uuid: %d values (%d defined by the spec, %d from 16 concurrent callers), %d failed, %.0fs" % (su["ran"], su["spec_cases"], su.get("concurrent", 0), su["fails"], ru.wall))
    if su.get("concurrent", 0) < 100000:
        ctx.inconclusive("uuid harness made only %s concurrent calls" % su.get("concurrent"))
    if su["spec_cases"] < 4:
        ctx.inconclusive("uuid harness saw no specification cases")
    ctx.cover("uuid", evaluations=su["ran"])
    ctx.take_failures(ru, "uuid")

    # binding self-test: corrupt one expected line (one digit) - the harness must notice that the
    # specification and the code/standard library no longer agree
    st = None
    with open(cases) as fh:
        for line in fh:
            c = json.loads(line)
            if c.get("accept") and len(c.get("fmt", [])) >= 2 and any(t["v"] == "$response_time_us" for t in c["fmt"]) and len(c["lines"]) == 1:
                st = c
                break
        fh.seek(0)
        evline = next((l for l in fh if l.startswith('{"events"')), None)
    if st is None or evline is None:
        ctx.inconclusive("no usable case for the binding self-test")
        return
    digits = [i for i, ch in enumerate(st["lines"][0]) if ch.isdigit()]
    i = digits[len(digits) // 2]
    ln = st["lines"][0]
    st["lines"] = [ln[:i] + ("7" if ln[i] != "7" else "3") + ln[i + 1:]]
    one = os.path.join(ctx.tmp, "c20.selftest")
    with open(one, "w") as fh:
        fh.write(evline)
        fh.write(json.dumps(st) + "\n")
    r2 = ctx.gotest("logger", ["logger/c20_test.go"], "^TestVerifC20Logger$", env={"VERIF_IN": one}, timeout=600)
    if not ctx.need_go_ok(r2, "C20 self-test"):
        return
    if not r2.of_kind("oracle") and not r2.of_kind("fail"):
        ctx.inconclusive("binding self-test: a corrupted expected line was NOT rejected by the harness")


def replay(ctx, rp):
    sub = rp["replay"]["sub"]
    one = os.path.join(ctx.tmp, "c20.replay")
    vf.write_ndjson(one, [rp["replay"]["case"]])
    pkg, run_ = {"logger": ("logger", "^TestVerifC20Logger$"), "proxy": ("proxy", "^TestVerifC20Proxy$"),
                 "exchange": ("proxy", "^TestVerifC20Exchange$"), "uuid": ("uuid", "^TestVerifC20UUID$")}[sub]
    r = gorun(ctx, pkg, run_, one, "C20 replay")
    if r is None:
        return
    ctx.cover(evaluations=1)
    ctx.take_failures(r, sub)
