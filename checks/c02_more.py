"""C02, parts in package route: hostile configuration texts and table swap atomicity."""
import json, os
from lib import vf

FILES = ["route/common_test.go", "route/c02_test.go"]


def hostile(ctx):
    cases = os.path.join(ctx.tmp, "c02.hostile")
    g = ctx.tlc("RouteHostile_MC", cfg_text="SPECIFICATION Spec\nCONSTANT MaxExtra = %d\nCHECK_DEADLOCK FALSE\n" % ctx.pick(1, 2),
                json_sink=cases, workers=4, timeout=900)
    if not ctx.need_tlc_ok(g, "RouteHostile Gen"):
        return False
    ctx.cover("hostile-gen", states=g.distinct, transitions=g.generated)
    # the same texts under the metrics back ends fabio can be configured with: every target of every table
    # registers with the provider, name-based ones render a name per target (a code path of its own)
    backends = ["", "statsd_raw", "prometheus"] + (["graphite", "label,flat"] if ctx.thorough else [])
    for mb in backends:
        r = ctx.gotest("route", FILES, "^TestVerifC02Hostile$", env={"VERIF_IN": cases, "VERIF_METRICS": mb}, timeout=900)
        if r.summary is None and ("panic:" in r.out or "fatal error:" in r.out):
            ctx.violation({"sub": "hostile", "crash": True, "metrics": mb}, "the process crashed on a configuration text (metrics.target=%s):\n" % (mb or "default") + r.out[-3000:],
                          replay={"sub": "hostile-crash", "case": None})
            return True
        if not ctx.need_go_ok(r, "C02 hostile (metrics=%s)" % mb):
            return False
        s = r.summary
        ctx.log("hostile texts (metrics.target=%s): %d scripts x 2 paths (%d accepted, %d rejected), %d panics, %.0fs" % (mb or "default", s["scripts"], s["accepted"], s["rejected"], s["fails"], r.wall))
        ctx.cover("hostile", traces_validated_against_impl=s["scripts"], evaluations=2 * s["scripts"], distinct_nontrivial=s["scripts"] if not mb else 0, samples=(s.get("samples") or []) if not mb else [])
        for f in r.of_kind("fail"):
            f.setdefault("features", {})["metrics"] = mb
        ctx.take_failures(r, "hostile")
        if s["accepted"] == 0 or s["rejected"] == 0:
            ctx.inconclusive("hostile texts: vacuous (accepted=%d rejected=%d)" % (s["accepted"], s["rejected"]))
    return True


def validate(ctx, trace):
    r = ctx.tlc("TableSwap_Trace", cfg="TableSwap_Trace", workers=1, env={"VERIF_TRACE": trace}, timeout=600)
    if r.timed_out or r.error:
        ctx.inconclusive("swap trace validation did not complete: %s" % (r.error or "timeout"))
        return None
    return r


def swap(ctx):
    mc = ctx.tlc("TableSwap", cfg="TableSwap_MC", workers=4, timeout=300)
    if not ctx.need_tlc_ok(mc, "TableSwap MC"):
        return False
    ctx.cover("swap-mc", states=mc.distinct, transitions=mc.generated)
    runs = ctx.pick(2, 10)
    for k in range(runs):
        r = ctx.gotest("route", FILES, "^TestVerifC02Swap$", race=True, timeout=600,
                       env={"GOMAXPROCS": [16, 4, 2][k % 3], "VERIF_WRITES": ctx.pick(20, 40), "VERIF_READS": ctx.pick(20, 30), "VERIF_BUILDS": ctx.pick(20, 40)})
        if "WARNING: DATA RACE" in r.out:
            ctx.violation({"sub": "swap", "race": True}, "data race between table installation and lookups:\n" + r.out[:3000],
                          replay={"sub": "swap-race", "case": None})
            return True
        if not ctx.need_go_ok(r, "C02 swap"):
            return False
        s = r.summary
        ctx.take_failures(r, "swap")
        v = validate(ctx, s["trace"])
        if v is None:
            return False
        if v.ok:
            ctx.cover("swap", traces_validated_against_impl=1, states=v.distinct, transitions=v.generated, evaluations=s["lookups"])
        else:
            ctx.violation({"sub": "swap", "why": v.violated}, "a recorded run of concurrent lookups and table swaps is not linearizable as an atomic register of complete tables (%s)" % v.violated,
                          replay={"sub": "swap-trace", "case": None})
            return True
        if k == 0:
            # binding self-test: corrupt one probe answer
            lines = open(s["trace"]).read().splitlines()
            idx = [i for i, ln in enumerate(lines) if '"ev":"RRet"' in ln]
            ev = json.loads(lines[idx[len(idx) // 2]])
            ev["res"][0] = "A" if ev["res"][0] != "A" else "B"
            lines[idx[len(idx) // 2]] = json.dumps(ev)
            bad = os.path.join(ctx.tmp, "c02.swap.bad")
            open(bad, "w").write("\n".join(lines) + "\n")
            v2 = validate(ctx, bad)
            if v2 is not None and v2.ok:
                ctx.inconclusive("binding self-test (swap): a trace with a mixed answer was accepted")
    ctx.log("swap: %d recorded runs (8 readers x %d lookups x 5 probes, %d installs, 3 builders x %d concurrent table builds, -race) accepted by TableSwap_Trace" % (runs, ctx.pick(20, 30), ctx.pick(21, 41), ctx.pick(20, 40)))
    return True


def biginstall(ctx):
    """a published table is complete (sorted included) when it is installed"""
    r = ctx.gotest("route", FILES, "^TestVerifC02BigInstall$", race=True, timeout=600, env={"VERIF_WRITES": ctx.pick(30, 200)})
    if r.summary is None and ("panic:" in r.out or "fatal error:" in r.out):
        ctx.violation({"sub": "swap", "crash": True, "where": "big-install"}, "the process crashed while large tables were built and installed:\n" + r.out[-3000:],
                      replay={"sub": "swap-crash", "case": None})
        return True
    if "WARNING: DATA RACE" in r.out and "fabio/route." in r.out:
        ctx.violation({"sub": "swap", "race": True, "where": "big-install"}, "data race between building/installing large tables and lookups:\n" + r.out[r.out.index("WARNING: DATA RACE"):][:3000],
                      replay={"sub": "swap-race", "case": None})
        return True
    if not ctx.need_go_ok(r, "C02 big install"):
        return False
    ctx.log("big install: %d installs of 215-route tables, %d lookups on freshly loaded tables" % (r.summary["installs"], r.summary["lookups"]))
    ctx.cover("biginstall", traces_validated_against_impl=1, evaluations=r.summary["lookups"])
    ctx.take_failures(r, "swap")
    return True


def tcpswap(ctx):
    """table replacement vs connections on the tcp paths (the lookup of a connection comes from one table)"""
    r = ctx.gotest("proxy/tcp", ["proxy/tcp/c02_test.go", "proxy/tcp/c02_wire_test.go"], "^TestVerifC02TCPSwap$", race=True, timeout=600,
                   env={"VERIF_CONNS": ctx.pick(800, 8000)})
    if "WARNING: DATA RACE" in r.out and "fabio/proxy/tcp." in r.out and "zz_verif" not in r.out.split("WARNING: DATA RACE")[1][:1500]:
        ctx.violation({"sub": "tcpswap", "race": True}, "data race between table installation and tcp connections:\n" + r.out[:3000],
                      replay={"sub": "tcpswap-race", "case": None})
        return True
    if not ctx.need_go_ok(r, "C02 tcp swap"):
        return False
    s = r.summary
    ctx.log("tcp swap: %d connections on tcp and tcp-dynamic listeners while two tables alternate, %d answered from a mixture" % (s["connections"], s["mixed"]))
    ctx.cover("tcpswap", traces_validated_against_impl=2, evaluations=s["connections"])
    ctx.take_failures(r, "tcpswap")
    return True


def run(ctx):
    if not hostile(ctx):
        return
    if not swap(ctx):
        return
    if not biginstall(ctx):
        return
    tcpswap(ctx)


def replay(ctx, rp):
    sub = rp["replay"]["sub"]
    if sub == "hostile" and rp["replay"].get("case"):
        one = os.path.join(ctx.tmp, "c02.replay")
        vf.write_ndjson(one, [rp["replay"]["case"]])
        for mb in ["", "statsd_raw", "prometheus"]:
            r = ctx.gotest("route", FILES, "^TestVerifC02Hostile$", env={"VERIF_IN": one, "VERIF_METRICS": mb}, timeout=300)
            if ctx.need_go_ok(r, "C02 replay"):
                ctx.cover(evaluations=1)
                ctx.take_failures(r, "hostile")
        return
    ctx.inconclusive("replay of %s: re-run the check (the schedule depends on goroutine timing)" % sub)
