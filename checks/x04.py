"""X04 (specification growth) - inbound PROXY protocol and listener dispatch: the life of one accepted
connection on a fabio listener.

spec: Ingress.tla (one connection: listener configuration proto/pxyproto/pxytimeout/rt, the client's
      stream token by token - both valid PROXY v1 header forms byte by byte - the PROXY layer, the SNI
      dispatch of https+tcp+sni, TLS termination, the TCP / SNI / HTTP handlers, header timer, read
      timer, table changes; named deviation constants for where the code leaves the documentation),
      Ingress_MC.tla (universe: every listener kind x pxyproto x 13 header kinds x payloads x server
      names, every segmentation), Ingress_Gen.tla (histories with the settled observable state after
      every move of the environment), Ingress_Trace.tla (validation of recorded connections)
TLC : documented design: EffSound, HeaderRespected, UnknownAccepted, OffIsPayload, NoByteLost, Verbatim,
      MarkerDecided, MalformedNeverTrusted, DispatchRight, RtAlwaysArmed, AnswersUseEff and the liveness
      properties WaitBounded, Delivered, RtHonoured; every named deviation must violate its property on
      the model; the design with the MEASURED deviations of the tree must satisfy the others
bind: S->C - every generated history is one real connection over loopback to listeners configured by
      config.Load and started by main.startServers; after every move the instrumented upstream, the
      answers, the access log and the outgoing PROXY header must show the prescribed state.
      C->S - connections whose sends race the header timer are recorded and validated by Ingress_Trace."""
import json, os, random
from lib import vf

FILES = ["main/x04_test.go"]
DEVS = ["SniffBeforeHeader", "RejectUnknown", "EofInPrefixDrops", "LaxPort", "LaxLF", "RtLostOnFirstRead"]
VIOLATES = {"SniffBeforeHeader": "HeaderRespected", "RejectUnknown": "UnknownAccepted", "EofInPrefixDrops": "NoByteLost",
            "LaxPort": "EffSound", "LaxLF": "EffSound", "RtLostOnFirstRead": "RtAlwaysArmed"}
ALL_INV = ["TypeOK", "EffSound", "HeaderRespected", "UnknownAccepted", "OffIsPayload", "NoByteLost", "Verbatim", "MarkerDecided",
           "MalformedNeverTrusted", "DispatchRight", "RtAlwaysArmed", "AnswersUseEff"]
# invariants a deviation breaks on the model (measured once, deviation by deviation and invariant by invariant); the others must survive it
BREAKS = {"SniffBeforeHeader": {"HeaderRespected", "UnknownAccepted", "DispatchRight"},
          "RejectUnknown": {"UnknownAccepted"},
          "EofInPrefixDrops": {"NoByteLost", "MalformedNeverTrusted"},
          "LaxPort": {"EffSound", "NoByteLost", "MalformedNeverTrusted", "DispatchRight"},
          "LaxLF": {"EffSound", "NoByteLost", "MalformedNeverTrusted", "DispatchRight"},
          "RtLostOnFirstRead": {"RtAlwaysArmed"}}


def tf(b):
    return "TRUE" if b else "FALSE"


def consts(devs, heads="{}", protos="{}", slim=False):
    s = "CONSTANTS\n  Universe <- MCUniverse\n  Tables <- MCTables\n  HeadSel = %s\n  ProtoSel = %s\n  Slim = %s\n" % (heads, protos, tf(slim))
    for d in DEVS:
        s += "  %s = %s\n" % (d, tf(devs.get(d, False)))
    return s


def mc_cfg(devs, spec="USpec", inv=ALL_INV, props=(), heads="{}", protos="{}", slim=False):
    s = "SPECIFICATION %s\n" % spec + consts(devs, heads, protos, slim)
    if inv:
        s += "INVARIANTS " + " ".join(inv) + "\n"
    if props:
        s += "PROPERTIES " + " ".join(props) + "\n"
    return s + "CHECK_DEADLOCK FALSE\n"


def surviving(measured):
    broken = set()
    for d, on in measured.items():
        if on:
            broken |= BREAKS[d]
    return [i for i in ALL_INV if i not in broken]


def gen_cfg(devs, maxseg, cutmod, cutrem, early=True, heads="{}", protos="{}"):
    # every generated state also satisfies the invariants that survive the measured deviations
    return ("INIT GInit\nNEXT GNext\n" + consts(devs, heads, protos) +
            "  MaxSeg = %d\n  CutMod = %d\n  CutRem = %d\n  EarlyFin = %s\nINVARIANTS GenTypeOK %s\nCHECK_DEADLOCK FALSE\n"
            % (maxseg, cutmod, cutrem, tf(early), " ".join(surviving(devs))))


def mc_documented(ctx, holder):
    doc = {}
    r = ctx.tlc("Ingress_MC", cfg_text=mc_cfg(doc), workers=8, timeout=600, coverage=ctx.thorough)
    ctx.log("MC documented design, whole universe (internal steps first): %d generated, %d distinct, depth %d, %.0fs"
            % (r.generated, r.distinct, r.depth, r.wall))
    if not ctx.need_tlc_ok(r, "Ingress MC (documented design)"):
        return False
    ctx.cover("mc-documented", states=r.distinct, transitions=r.generated)
    if ctx.thorough and r.coverage0:
        ctx.inconclusive("actions never taken in the documented design: %s" % sorted(set(r.coverage0)))
        return False
    # the design with the deviations measured on this tree keeps everything those deviations do not break
    holder["ready"].wait()
    measured = holder.get("measured")
    if measured and any(measured.values()) and ctx.thorough:
        inv = surviving(measured)
        r = ctx.tlc("Ingress_MC", cfg_text=mc_cfg(measured, inv=inv), workers=8, timeout=600)
        ctx.log("MC design with the measured deviations %s: %d distinct, %.0fs; holds: %s"
                % (sorted(d for d in measured if measured[d]), r.distinct, r.wall, " ".join(inv)))
        if not ctx.need_tlc_ok(r, "Ingress MC (measured design)"):
            return False
        ctx.cover("mc-measured", states=r.distinct, transitions=r.generated)
    return True


WHERE = {"SniffBeforeHeader": ('{"v1"}', '{"https+tcp+sni"}'), "RejectUnknown": ('{"unk"}', '{"tcp"}'), "EofInPrefixDrops": ('{"none"}', '{"tcp"}'),
         "LaxPort": ('{"range"}', '{"tcp"}'), "LaxLF": ('{"lf"}', '{"tcp"}'), "RtLostOnFirstRead": ('{"none"}', '{"tcp"}')}


def mc_rest(ctx):
    doc = {}
    # all interleavings (a timer may fire while unread bytes wait) on a reduced universe
    heads = ctx.pick('{"v1"}', '{"none", "v1", "unk", "xfam", "v2"}')
    protos = ctx.pick('{"tcp"}', '{"tcp", "http"}')
    r = ctx.tlc("Ingress_MC", cfg_text=mc_cfg(doc, spec="Spec", heads=heads, protos=protos, slim=not ctx.thorough), workers=4, timeout=900)
    ctx.log("MC documented design, every interleaving, %s %s: %d generated, %d distinct, %.0fs" % (protos, heads, r.generated, r.distinct, r.wall))
    if not ctx.need_tlc_ok(r, "Ingress MC (all interleavings)"):
        return False
    ctx.cover("mc-lagging", states=r.distinct, transitions=r.generated)
    r = ctx.tlc("Ingress_MC", cfg_text=mc_cfg(doc, inv=["TypeOK"], props=["WaitBounded", "Delivered", "RtHonoured"],
                                              heads=ctx.pick('{"v1"}', '{"none", "v1", "xfam"}'), protos=ctx.pick('{"tcp"}', '{"tcp", "tcps"}'), slim=not ctx.thorough),
                workers=4, timeout=900)
    ctx.log("MC liveness (WaitBounded, Delivered, RtHonoured): %d distinct, %.0fs" % (r.distinct, r.wall))
    if not ctx.need_tlc_ok(r, "Ingress MC (liveness)"):
        return False
    ctx.cover("mc-liveness", states=r.distinct, transitions=r.generated)
    # every named deviation is visible on the model
    for d in DEVS:
        r = ctx.tlc("Ingress_MC", cfg_text=mc_cfg({d: True}, inv=[VIOLATES[d]], heads=WHERE[d][0], protos=WHERE[d][1]), workers=2, timeout=300)
        if r.timed_out or r.error or r.violated != VIOLATES[d]:
            ctx.inconclusive("deviation %s was expected to violate %s on the model, got %s" % (d, VIOLATES[d], r.violated or r.error or "nothing"))
            return False
    r = ctx.tlc("Ingress_MC", cfg_text=mc_cfg({"RtLostOnFirstRead": True}, inv=["TypeOK"], props=["RtHonoured"], heads='{"none"}', protos='{"tcp"}'),
                workers=4, timeout=300)
    if "RtHonoured" not in r.out and "Temporal properties were violated" not in r.out:
        ctx.inconclusive("RtLostOnFirstRead was expected to violate RtHonoured on the model")
        return False
    ctx.log("MC: each of the %d named deviations violates the documented property it is named for" % len(DEVS))
    return True


def generate(ctx, measured):
    """histories of the design with the measured deviations"""
    path = os.path.join(ctx.tmp, "x04-hist.ndjson")
    if ctx.thorough:
        runs = [(2, 1, 0, "{}"), (3, 11, ctx.seed % 11, '{"v1", "none"}')]
    else:
        runs = [(2, 8, ctx.seed % 8, "{}")]
    n0 = 0
    for maxseg, mod, rem, heads in runs:
        r = ctx.tlc("Ingress_Gen", cfg_text=gen_cfg(measured, maxseg, mod, rem, heads=heads), workers=8, timeout=900, json_sink=path)
        n = sum(1 for _ in open(path))
        ctx.log("Gen MaxSeg=%d cuts %%%d=%d heads=%s: %d histories, %d states, %.0fs" % (maxseg, mod, rem, heads, n - n0, r.distinct, r.wall))
        n0 = n
        if not ctx.need_tlc_ok(r, "Ingress_Gen"):
            return None
        ctx.cover("gen", states=r.distinct, transitions=r.generated)
    lines = sorted(set(open(path).read().splitlines()))
    return [json.loads(x) for x in lines]


def corrupt(h, rng):
    """binding self-test: a history whose expectation is wrong in one place must be rejected"""
    orig = json.dumps(h["h"])
    h = json.loads(json.dumps(h))
    raw = h["c"]["proto"] in ("tcp", "tcps", "tcp+sni")
    cands = []
    for i, s in enumerate(h["h"]):
        if any(t.startswith("M:") for t in s["up"]):
            cands.append(("marker", i))
        if raw and len([t for t in s["up"] if not t.startswith("M:")]) >= 2:
            cands.append(("drop", i))
        if s["resps"] and s["resps"][-1] != "400" and len(s["resps"]) > (len(h["h"][i - 1]["resps"]) if i else 0):
            cands.append(("resp", i))
    if not cands:
        return None
    what, i = rng.choice(cands)
    for s in h["h"][i:]:
        if what == "marker":
            s["up"] = [("M:peer" if t == "M:decl" else "M:decl") if t.startswith("M:") else t for t in s["up"]]
        elif what == "drop":
            k = [j for j, t in enumerate(s["up"]) if not t.startswith("M:")][0]
            s["up"] = s["up"][:k] + s["up"][k + 1:]
        elif what == "resp":
            k = len(h["h"][i]["resps"]) - 1
            st, kind, eff = s["resps"][k].split(":")
            s["resps"] = s["resps"][:k] + ["%s:%s:%s" % (st, kind, "peer" if eff == "decl" else "decl")] + s["resps"][k + 1:]
    if json.dumps(h["h"]) == orig:
        return None
    h["selftest"] = what
    return h


def replay_histories(ctx, hs, label, copies=None, par=None):
    inp = os.path.join(ctx.tmp, "x04-%s.ndjson" % label)
    vf.write_ndjson(inp, hs)
    env = {"VERIF_IN": inp, "X04_COPIES": copies or ctx.pick(6, 8), "X04_PAR": par or ctx.pick(128, 160)}
    g = ctx.gotest(".", FILES, "^TestVerifX04$", env=env, timeout=ctx.pick(300, 840))
    if "panic:" in g.out and "panic: test timed out" not in g.out and ("go-proxyproto" in g.out or "fabio/proxy" in g.out) and g.summary is None:
        ctx.violation({"sub": "replay", "clause": "crash"}, "the process died while the histories were replayed:\n" + g.out[-3000:],
                      replay={"sub": "replay", "case": None})
        return None
    if not ctx.need_go_ok(g, "X04 replay (%s)" % label):
        return None
    return g


class Par:
    """runs jobs in threads; starts are staggered because the scratch directories of ctx are numbered"""
    def __init__(self):
        self.ts = []

    def go(self, fn, *a):
        import threading, time
        box = {}

        def w():
            try:
                box["r"] = fn(*a)
            except Exception:
                import traceback
                box["err"] = traceback.format_exc()
        t = threading.Thread(target=w)
        t.start()
        time.sleep(0.6)
        self.ts.append((t, box))
        return (t, box)

    @staticmethod
    def wait(h):
        h[0].join()
        if "err" in h[1]:
            raise vf.Inconclusive("driver error in a parallel part:\n" + h[1]["err"])
        return h[1].get("r")


def sample(ctx, hs, rng):
    """quick: a seeded sample that touches every (listener kind, header kind) class with plain, timed and rt histories;
    thorough: every untimed history, the timed ones up to a budget"""
    def cls(h):
        return (h["c"]["proto"], h["c"]["pxy"], h["c"]["ropt"], h["c"]["rt"], h["s"]["head"], h["s"]["fam"], h["s"]["sni"])
    by = {}
    for h in hs:
        evs = {s["ev"] for s in h["h"]}
        kind = "rt" if "rt" in evs else "timeout" if "timeout" in evs else "plain"
        by.setdefault((cls(h), kind), []).append(h)
    quota = {"plain": ctx.pick(2, 10 ** 9), "timeout": ctx.pick(3, 30), "rt": ctx.pick(1, 5)}
    out = []
    for k in sorted(by, key=str):
        rng.shuffle(by[k])
        q = quota[k[1]]
        if k[0][0] == "https+tcp+sni" and k[0][4] == "none" and k[0][6] == "sw":
            q = ctx.pick(24, 10 ** 9)       # the dispatch must follow the table of the moment: both tables, changes, every cut
        out += by[k][:q]
    return out


def race(ctx, measured):
    """C->S: connections whose sends race the header timer, recorded and validated by Ingress_Trace"""
    tr = os.path.join(ctx.tmp, "x04-race.ndjson")
    n = ctx.pick(120, 900)
    g = ctx.gotest(".", FILES, "^TestVerifX04Race$", env={"X04_TRACE": tr, "X04_RACES": n, "X04_COPIES": ctx.pick(3, 6), "X04_PORT_BASE": 15000}, timeout=300)
    if not ctx.need_go_ok(g, "X04 race recording"):
        return
    cfg = "SPECIFICATION TSpec\n" + consts(measured) + "VIEW TView\nCONSTRAINT HW\nINVARIANTS TraceInv\nPOSTCONDITION Accepted\nCHECK_DEADLOCK FALSE\n"
    r = ctx.tlc("Ingress_Trace", cfg_text=cfg, workers=1, env={"VERIF_TRACE": tr}, timeout=600)
    lines = open(tr).read().splitlines()
    outcomes = {}
    cur = None
    for x in lines:
        e = json.loads(x)
        if e["ev"] == "conn":
            cur = e
        if e["ev"] == "end":
            outcomes[(cur["proto"], cur["ropt"], cur["pxy"], cur["head"], e["marker"], e["off"], tuple(e["resps"]))] = 1
    ctx.log("race: %d connections recorded (%d events, %d distinct outcomes), Ingress_Trace: %d states, %.0fs, %s"
            % (g.summary["recorded"], len(lines), len(outcomes), r.distinct, r.wall, "accepted" if r.ok else (r.violated or r.error)))
    if r.violated == "postcondition":
        import re
        m = re.search(r'X04-TRACE-STUCK",\s*(\d+)', r.out)
        at = int(m.group(1)) if m else 0
        i = at - 1
        while i > 0 and '"conn"' not in lines[i]:
            i -= 1
        conn = [json.loads(x) for x in lines[i:at]]
        ctx.violation({"sub": "race", "clause": "trace-rejected", "proto": conn[0].get("proto"), "head": conn[0].get("head")},
                      "a recorded connection is not a behaviour of Ingress (no order of the unlogged steps explains it): %s" % json.dumps(conn),
                      replay={"sub": "race", "case": conn})
        return
    if not ctx.need_tlc_ok(r, "Ingress_Trace"):
        return
    # binding self-test: one falsified final observation must be rejected
    bad = list(lines)
    idx = [i for i, x in enumerate(bad) if '"ev":"end"' in x and '"upeof":"y"' in x]
    if not idx:
        ctx.inconclusive("race: no connection reached its upstream")
        return
    i = idx[ctx.seed % len(idx)]
    e = json.loads(bad[i])
    e["n"] = e["n"] + 1
    bad[i] = json.dumps(e, separators=(",", ":"))
    trb = tr + ".bad"
    open(trb, "w").write("\n".join(bad) + "\n")
    rb = ctx.tlc("Ingress_Trace", cfg_text=cfg, workers=1, env={"VERIF_TRACE": trb}, timeout=600)
    if rb.violated != "postcondition":
        ctx.inconclusive("binding self-test: a falsified observation (one byte-token more at the upstream) was accepted by Ingress_Trace")
        return
    ctx.cover("race", traces_validated_against_impl=g.summary["recorded"], states=r.distinct, transitions=r.generated,
              distinct_nontrivial=len(outcomes))


def run(ctx):
    ctx.level = "model_checking"
    ctx.assumptions += [
        "one connection at a time is specified; independence of connections is exercised by replaying ~100 connections concurrently on shared listeners",
        "timer moves are established by the observable change they cause; where the specification says nothing observable changes the harness waits 4x the configured time-out (the behaviour is a time bound), a failing history is repeated and only counts when it fails three times without a process stall",
        "PROXY protocol version 2 is outside the documentation (v1 only): a v2 header is specified as payload",
    ]
    import threading
    lock = threading.RLock()

    def locked(fn):
        def w(*a, **k):
            with lock:
                return fn(*a, **k)
        return w
    # several parts report from their own threads
    ctx.cover, ctx.violation, ctx.inconclusive = locked(ctx.cover), locked(ctx.violation), locked(ctx.inconclusive)
    par = Par()
    holder = {"ready": threading.Event()}
    doc = par.go(mc_documented, ctx, holder)
    rest = par.go(mc_rest, ctx)
    measured = probe(ctx)
    holder["measured"] = measured
    holder["ready"].set()
    if measured is None:
        Par.wait(doc), Par.wait(rest)
        return
    racing = par.go(race, ctx, measured)
    hs = generate(ctx, measured)
    if hs is None:
        Par.wait(doc), Par.wait(rest), Par.wait(racing)
        return
    rng = random.Random(ctx.seed)
    for i, h in enumerate(hs):
        h["id"] = i
    total = len(hs)
    hs = sample(ctx, hs, rng)
    self = []
    pool = list(hs)
    rng.shuffle(pool)
    for h in pool:
        c = corrupt(h, rng)
        if c is not None:
            self.append(c)
        if len(self) >= 24:
            break
    ctx.log("replaying %d of %d histories (+%d corrupted ones that must be rejected)" % (len(hs), total, len(self)))
    g = replay_histories(ctx, hs + self, "replay")
    if g is not None:
        s = g.summary
        ctx.log("replay: %s" % {k: s[k] for k in ("histories", "skipped", "voids", "retries", "selftest_rejected", "selftest_missed", "classes", "lanes", "replay_ms")})
        if s["skipped"]:
            ctx.log("replay stopped early: %d histories had failed in every attempt, %d were not played" % (len(g.of_kind("fail")), s["skipped"]))
        for m in g.of_kind("selftest-miss"):
            ctx.log("self-test miss (%s): %s" % (m.get("what"), json.dumps(m.get("case"))[:1500]))
        if not s["skipped"] and (s["selftest_missed"] or s["selftest_rejected"] < len(self)):
            ctx.inconclusive("binding self-test: %d of %d corrupted histories were not rejected" % (len(self) - s["selftest_rejected"], len(self)))
        nvoid = len(g.of_kind("void"))
        if nvoid > max(20, len(hs) // 20):
            ctx.inconclusive("%d of %d histories could not be judged (stalls / slow moves)" % (nvoid, len(hs)))
        ctx.take_failures(g, "replay")
        ctx.cover("replay", traces_validated_against_impl=s["histories"] - len(self) - nvoid, evaluations=s["histories"],
                  distinct_nontrivial=s["classes"], samples=[json.dumps(h)[:600] for h in hs[:3]],
                  rule="every move of every history: upstream bytes, effective address (XFF, Forwarded, X-Real-Ip, allow=ip:, $remote_addr, outgoing PROXY header), answers, close",
                  exhaustive=ctx.thorough)
    Par.wait(racing)
    ok1 = Par.wait(doc)
    ok2 = Par.wait(rest)
    if ok1 and ok2:
        ctx.log("model checking: all parts done")


def probe(ctx):
    """which of the named deviations does this tree have?"""
    for attempt in range(3):
        g = ctx.gotest(".", FILES, "^TestVerifX04Probe$", timeout=240)
        if not ctx.need_go_ok(g, "X04 probe"):
            return None
        p = [r for r in g.records if r.get("kind") == "probe"]
        if not p:
            ctx.inconclusive("X04 probe produced no result")
            return None
        res = p[-1]
        if not res.get("void"):
            break
        ctx.log("probe attempt %d void (%s)" % (attempt + 1, res["void"]))
    if res.get("void"):
        ctx.inconclusive("X04 probe could not measure: %s" % res["void"])
        return None
    measured = {d: bool(res["dev"].get(d)) for d in DEVS}
    for d in DEVS:
        if measured[d]:
            ctx.log("LEAD %s: %s" % (d, res["why"].get(d, "")))
    for k, v in sorted(res.get("notes", {}).items()):
        ctx.log("NOTE %s: %s" % (k, v))
    ctx.cover("probe", evaluations=len(DEVS), samples=[json.dumps(res["dev"], sort_keys=True)])
    for f in g.of_kind("fail"):
        ctx.violation(f.get("features", {}), "probe: %s" % f.get("msg", ""), replay={"sub": "probe", "case": f.get("case")})
    return measured


def replay(ctx, rp):
    r = rp.get("replay") or {}
    if r.get("sub") == "replay" and r.get("case"):
        g = replay_histories(ctx, [r["case"]], "one", copies=1, par=1)
        if g is not None:
            ctx.take_failures(g, "replay")
    elif r.get("sub") == "race" and r.get("case"):
        measured = probe(ctx)
        if measured is None:
            return
        tr = os.path.join(ctx.tmp, "x04-one.ndjson")
        vf.write_ndjson(tr, r["case"])
        cfg = "SPECIFICATION TSpec\n" + consts(measured) + "VIEW TView\nCONSTRAINT HW\nINVARIANTS TraceInv\nPOSTCONDITION Accepted\nCHECK_DEADLOCK FALSE\n"
        t = ctx.tlc("Ingress_Trace", cfg_text=cfg, workers=1, env={"VERIF_TRACE": tr}, timeout=300)
        if t.violated == "postcondition":
            ctx.violation({"sub": "race", "clause": "trace-rejected"}, "the recorded connection is rejected by Ingress_Trace: %s" % json.dumps(r["case"]),
                          replay=r)
    else:
        run(ctx)
