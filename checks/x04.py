"""X04 (specification growth) - inbound PROXY protocol and listener dispatch: the life of one accepted
connection on a fabio listener.

spec: Ingress.tla (one connection: listener configuration proto/pxyproto/pxytimeout/rt, the client's
      stream token by token - both valid PROXY v1 header forms byte by byte - the PROXY layer, the SNI
      dispatch of https+tcp+sni, TLS termination, the TCP / SNI / HTTP handlers, header timer, read
      timer, table changes; named deviation constants for where the code leaves the documentation),
      Ingress_MC.tla (universe: every listener kind x pxyproto x 13 header kinds x payloads x server
      names, every segmentation), Ingress_Gen.tla (histories with the settled observable state after
      every move of the environment), Ingress_Trace.tla (validation of recorded connections)
TLC : documented design: EffSound, HeaderRespected, UnknownAccepted, OffIsPayload, NoByteLost, Verbatim,
      MarkerDecided, MalformedNeverTrusted, DispatchRight, RtAlwaysArmed, AnswersUseEff and the liveness
      properties WaitBounded, Delivered, RtHonoured; every named deviation must violate its property on
      the model; the design with the MEASURED deviations of the tree must satisfy the others
bind: S->C - every generated history is one real connection over loopback to listeners configured by
      config.Load and started by main.startServers; after every move the instrumented upstream, the
      answers, the access log and the outgoing PROXY header must show the prescribed state.
      C->S - connections whose sends race the header timer are recorded and validated by Ingress_Trace."""
import json, os, random
from lib import vf

FILES = ["main/x04_test.go"]
DEVS = ["SniffBeforeHeader", "RejectUnknown", "EofInPrefixDrops", "LaxPort", "LaxLF", "RtLostOnFirstRead"]
VIOLATES = {"SniffBeforeHeader": "HeaderRespected", "RejectUnknown": "UnknownAccepted", "EofInPrefixDrops": "NoByteLost",
            "LaxPort": "EffSound", "LaxLF": "EffSound", "RtLostOnFirstRead": "RtAlwaysArmed"}
ALL_INV = ["TypeOK", "EffSound", "HeaderRespected", "UnknownAccepted", "OffIsPayload", "NoByteLost", "Verbatim", "MarkerDecided",
           "MalformedNeverTrusted", "DispatchRight", "RtAlwaysArmed", "AnswersUseEff"]
# invariants a deviation is expected to break (the others must survive it)
BREAKS = {"SniffBeforeHeader": {"HeaderRespected", "UnknownAccepted", "DispatchRight"},
          "RejectUnknown": {"UnknownAccepted"},
          "EofInPrefixDrops": {"NoByteLost"},
          "LaxPort": {"EffSound", "NoByteLost", "MalformedNeverTrusted"},
          "LaxLF": {"EffSound", "NoByteLost", "MalformedNeverTrusted"},
          "RtLostOnFirstRead": {"RtAlwaysArmed"}}


def tf(b):
    return "TRUE" if b else "FALSE"


def consts(devs, heads="{}", protos="{}"):
    s = "CONSTANTS\n  Universe <- MCUniverse\n  Tables <- MCTables\n  HeadSel = %s\n  ProtoSel = %s\n" % (heads, protos)
    for d in DEVS:
        s += "  %s = %s\n" % (d, tf(devs.get(d, False)))
    return s


def mc_cfg(devs, spec="USpec", inv=ALL_INV, props=(), heads="{}", protos="{}"):
    s = "SPECIFICATION %s\n" % spec + consts(devs, heads, protos)
    if inv:
        s += "INVARIANTS " + " ".join(inv) + "\n"
    if props:
        s += "PROPERTIES " + " ".join(props) + "\n"
    return s + "CHECK_DEADLOCK FALSE\n"


def gen_cfg(devs, maxseg, cutmod, cutrem, early=True, heads="{}", protos="{}"):
    return ("INIT GInit\nNEXT GNext\n" + consts(devs, heads, protos) +
            "  MaxSeg = %d\n  CutMod = %d\n  CutRem = %d\n  EarlyFin = %s\nINVARIANTS GenTypeOK\nCHECK_DEADLOCK FALSE\n"
            % (maxseg, cutmod, cutrem, tf(early)))


def model_check(ctx, measured):
    doc = {}
    r = ctx.tlc("Ingress_MC", cfg_text=mc_cfg(doc), workers=8, timeout=600, coverage=ctx.thorough)
    ctx.log("MC documented design, whole universe (internal steps first): %d generated, %d distinct, depth %d, %.0fs"
            % (r.generated, r.distinct, r.depth, r.wall))
    if not ctx.need_tlc_ok(r, "Ingress MC (documented design)"):
        return False
    ctx.cover("mc-documented", states=r.distinct, transitions=r.generated)
    if ctx.thorough and r.coverage0:
        ctx.inconclusive("actions never taken in the documented design: %s" % sorted(set(r.coverage0)))
        return False
    # all interleavings (a timer may fire while unread bytes wait) on a reduced universe, with liveness
    heads = ctx.pick('{"none", "v1"}', '{"none", "v1", "unk", "xfam", "v2"}')
    r = ctx.tlc("Ingress_MC", cfg_text=mc_cfg(doc, spec="Spec", heads=heads, protos='{"tcp", "http"}'), workers=8, timeout=900)
    ctx.log("MC documented design, every interleaving, tcp+http: %d generated, %d distinct, %.0fs" % (r.generated, r.distinct, r.wall))
    if not ctx.need_tlc_ok(r, "Ingress MC (all interleavings)"):
        return False
    ctx.cover("mc-lagging", states=r.distinct, transitions=r.generated)
    r = ctx.tlc("Ingress_MC", cfg_text=mc_cfg(doc, inv=["TypeOK"], props=["WaitBounded", "Delivered", "RtHonoured"],
                                              heads='{"none", "v1", "xfam"}', protos=ctx.pick('{"tcp"}', '{"tcp", "tcps"}')),
                workers=4, timeout=900)
    ctx.log("MC liveness (WaitBounded, Delivered, RtHonoured): %d distinct, %.0fs" % (r.distinct, r.wall))
    if not ctx.need_tlc_ok(r, "Ingress MC (liveness)"):
        return False
    ctx.cover("mc-liveness", states=r.distinct, transitions=r.generated)
    # every named deviation is visible on the model
    for d in DEVS:
        r = ctx.tlc("Ingress_MC", cfg_text=mc_cfg({d: True}, inv=[VIOLATES[d]]), workers=4, timeout=300)
        if r.timed_out or r.error or r.violated != VIOLATES[d]:
            ctx.inconclusive("deviation %s was expected to violate %s on the model, got %s" % (d, VIOLATES[d], r.violated or r.error or "nothing"))
            return False
    r = ctx.tlc("Ingress_MC", cfg_text=mc_cfg({"RtLostOnFirstRead": True}, inv=["TypeOK"], props=["RtHonoured"], heads='{"none"}', protos='{"tcp"}'),
                workers=4, timeout=300)
    if "RtHonoured" not in r.out and "Temporal properties were violated" not in r.out:
        ctx.inconclusive("RtLostOnFirstRead was expected to violate RtHonoured on the model")
        return False
    ctx.log("MC: each of the %d named deviations violates the documented property it is named for" % len(DEVS))
    # the design with the deviations measured on this tree keeps everything those deviations do not break
    if any(measured.values()):
        broken = set()
        for d, on in measured.items():
            if on:
                broken |= BREAKS[d]
        inv = [i for i in ALL_INV if i not in broken]
        r = ctx.tlc("Ingress_MC", cfg_text=mc_cfg(measured, inv=inv), workers=8, timeout=600)
        ctx.log("MC design with the measured deviations %s: %d distinct, %.0fs; holds: %s"
                % (sorted(d for d in measured if measured[d]), r.distinct, r.wall, " ".join(inv)))
        if not ctx.need_tlc_ok(r, "Ingress MC (measured design)"):
            return False
        ctx.cover("mc-measured", states=r.distinct, transitions=r.generated)
    return True


def generate(ctx, measured):
    """histories of the design with the measured deviations"""
    path = os.path.join(ctx.tmp, "x04-hist.ndjson")
    if ctx.thorough:
        runs = [(2, 1, 0, "{}"), (3, 11, ctx.seed % 11, '{"v1", "none"}')]
    else:
        runs = [(2, 6, ctx.seed % 6, "{}")]
    n0 = 0
    for maxseg, mod, rem, heads in runs:
        r = ctx.tlc("Ingress_Gen", cfg_text=gen_cfg(measured, maxseg, mod, rem, heads=heads), workers=8, timeout=900, json_sink=path)
        n = sum(1 for _ in open(path))
        ctx.log("Gen MaxSeg=%d cuts %%%d=%d heads=%s: %d histories, %d states, %.0fs" % (maxseg, mod, rem, heads, n - n0, r.distinct, r.wall))
        n0 = n
        if not ctx.need_tlc_ok(r, "Ingress_Gen"):
            return None
        ctx.cover("gen", states=r.distinct, transitions=r.generated)
    lines = sorted(set(open(path).read().splitlines()))
    return [json.loads(x) for x in lines]


def corrupt(h, rng):
    """binding self-test: a history whose expectation is wrong in one place must be rejected"""
    h = json.loads(json.dumps(h))
    cands = []
    for i, s in enumerate(h["h"]):
        if any(t.startswith("M:") for t in s["up"]):
            cands.append(("marker", i))
        if len([t for t in s["up"] if not t.startswith("M:") and ":" not in t]) >= 2 and h["c"]["proto"] in ("tcp", "tcps", "tcp+sni"):
            cands.append(("drop", i))
        if s["resps"] and s["resps"][-1] != "400":
            cands.append(("resp", i))
    if not cands:
        return None
    what, i = rng.choice(cands)
    for s in h["h"][i:]:
        if what == "marker":
            s["up"] = [("M:peer" if t == "M:decl" else "M:decl") if t.startswith("M:") else t for t in s["up"]]
        elif what == "drop":
            k = max(j for j, t in enumerate(s["up"]) if not t.startswith("M:")) if any(not t.startswith("M:") for t in s["up"]) else None
            if k is not None and len(s["up"]) > k:
                s["up"] = s["up"][:k - 1] + s["up"][k:] if k >= 1 and not s["up"][k - 1].startswith("M:") else s["up"]
        elif what == "resp":
            st, kind, eff = s["resps"][-1].split(":")
            other = "peer" if eff == "decl" else "decl"
            s["resps"] = s["resps"][:-1] + ["%s:%s:%s" % (st, kind, other)]
    h["selftest"] = what
    return h


def replay_histories(ctx, hs, label, copies=None, par=None):
    inp = os.path.join(ctx.tmp, "x04-%s.ndjson" % label)
    vf.write_ndjson(inp, hs)
    env = {"VERIF_IN": inp, "X04_COPIES": copies or ctx.pick(4, 8), "X04_PAR": par or ctx.pick(96, 160)}
    g = ctx.gotest(".", FILES, "^TestVerifX04$", env=env, timeout=ctx.pick(300, 840))
    if "panic:" in g.out and ("go-proxyproto" in g.out or "fabio/proxy" in g.out) and g.summary is None:
        ctx.violation({"sub": "replay", "clause": "crash"}, "the process died while the histories were replayed:\n" + g.out[-3000:],
                      replay={"sub": "replay", "case": None})
        return None
    if not ctx.need_go_ok(g, "X04 replay (%s)" % label):
        return None
    return g


def run(ctx):
    ctx.level = "model_checking"
    ctx.assumptions += [
        "one connection at a time is specified; independence of connections is exercised by replaying ~100 connections concurrently on shared listeners",
        "timer moves are established by the observable change they cause; where the specification says nothing observable changes the harness waits 4x the configured time-out (the behaviour is a time bound), a failing history is repeated and only counts when it fails three times without a process stall",
        "PROXY protocol version 2 is outside the documentation (v1 only): a v2 header is specified as payload",
    ]
    measured = probe(ctx)
    if measured is None:
        return
    if not model_check(ctx, measured):
        return
    hs = generate(ctx, measured)
    if hs is None:
        return
    rng = random.Random(ctx.seed)
    for i, h in enumerate(hs):
        h["id"] = i
    total = len(hs)
    if not ctx.thorough:
        # a seeded sample that touches every (listener kind, header kind) class
        by = {}
        for h in hs:
            by.setdefault((h["c"]["proto"], h["c"]["pxy"], h["c"]["ropt"], h["c"]["rt"], h["s"]["head"]), []).append(h)
        pick = []
        for k in sorted(by, key=str):
            rng.shuffle(by[k])
            pick += by[k][:8]
        hs = pick
    else:
        timed = [h for h in hs if any(s["ev"] in ("timeout", "rt") for s in h["h"])]
        untimed = [h for h in hs if not any(s["ev"] in ("timeout", "rt") for s in h["h"])]
        rng.shuffle(timed)
        hs = untimed + timed[:12000]
    self = []
    pool = list(hs)
    rng.shuffle(pool)
    for h in pool:
        c = corrupt(h, rng)
        if c is not None and c != h:
            self.append(c)
        if len(self) >= 24:
            break
    ctx.log("replaying %d of %d histories (+%d corrupted ones that must be rejected)" % (len(hs), total, len(self)))
    g = replay_histories(ctx, hs + self, "replay")
    if g is None:
        return
    s = g.summary
    ctx.log("replay: %s" % {k: s[k] for k in ("histories", "voids", "retries", "selftest_rejected", "selftest_missed", "classes", "lanes")})
    if s["selftest_missed"] or s["selftest_rejected"] < len(self):
        ctx.inconclusive("binding self-test: %d of %d corrupted histories were not rejected" % (len(self) - s["selftest_rejected"], len(self)))
    nvoid = len(g.of_kind("void"))
    if nvoid > max(20, len(hs) // 20):
        ctx.inconclusive("%d of %d histories could not be judged (stalls / slow moves)" % (nvoid, len(hs)))
    ctx.take_failures(g, "replay")
    ctx.cover("replay", traces_validated_against_impl=s["histories"] - len(self) - nvoid, evaluations=s["histories"],
              distinct_nontrivial=s["classes"], samples=[json.dumps(h)[:600] for h in hs[:3]],
              rule="every move of every history: upstream bytes, effective address (XFF, Forwarded, X-Real-Ip, allow=ip:, $remote_addr, outgoing PROXY header), answers, close",
              exhaustive=ctx.thorough)


def probe(ctx):
    """which of the named deviations does this tree have?"""
    g = ctx.gotest(".", FILES, "^TestVerifX04Probe$", timeout=240)
    if not ctx.need_go_ok(g, "X04 probe"):
        return None
    p = [r for r in g.records if r.get("kind") == "probe"]
    if not p:
        ctx.inconclusive("X04 probe produced no result")
        return None
    res = p[-1]
    if res.get("void"):
        ctx.inconclusive("X04 probe could not measure: %s" % res["void"])
        return None
    measured = {d: bool(res["dev"].get(d)) for d in DEVS}
    for d in DEVS:
        if measured[d]:
            ctx.log("LEAD %s: %s" % (d, res["why"].get(d, "")))
    for k, v in sorted(res.get("notes", {}).items()):
        ctx.log("NOTE %s: %s" % (k, v))
    ctx.cover("probe", evaluations=len(DEVS), samples=[json.dumps(res["dev"], sort_keys=True)])
    for f in g.of_kind("fail"):
        ctx.violation(f.get("features", {}), "probe: %s" % f.get("msg", ""), replay={"sub": "probe", "case": f.get("case")})
    return measured


def replay(ctx, rp):
    r = rp.get("replay") or {}
    if r.get("sub") == "replay" and r.get("case"):
        measured = probe(ctx)
        g = replay_histories(ctx, [r["case"]], "one", copies=1, par=1)
        if g is not None:
            ctx.take_failures(g, "replay")
    else:
        run(ctx)
