"""C01 - the routing table holds exactly the healthy, tagged instances (+ manual overrides).

spec: ControlPlane.tla (registry, both consul watchers, update loop, published table),
      ControlPlane_Gen.tla (registry histories + prescribed quiescent tables),
      ControlPlane_Trace.tla (validation of recorded executions), Health.tla (check multisets)
TLC : invariants QuiescentCorrect/LastGood/Isolation + action properties on every interleaving,
      liveness EventuallyCorrect on the small universe
bind: S->C histories replayed against a fake Consul serving the REAL consul backend and the REAL
      main.watchBackend; C->S the recorded event trace (fake Consul events + SetTable hook)
      validated by TLC; every generated check multiset through real passingServices."""
import json, os, random
from lib import vf

CFG = """SPECIFICATION %(spec)s
CONSTANTS
  Inst <- %(inst)s
  Node = %(nodes)s
  Services = {"A", "B"}
  NodeOf <- %(nodeof)s
  SvcOf <- %(svcof)s
  Manual <- %(manual)s
  MaxChanges = %(n)d
  MaxFaults = %(faults)d
  PoisonTables = %(poison)s
%(rest)s
CHECK_DEADLOCK FALSE
"""
U3 = dict(inst="MCInst3", nodes='{"n1", "n2"}', nodeof="MCNodeOf3", svcof="MCSvcOf3", manual="MCManual")
U2 = dict(inst="MCInst2", nodes='{"n1"}', nodeof="MCNodeOf2", svcof="MCSvcOf2", manual="MCManualSmall")


def cfg(spec, u, n, rest, poison="FALSE", faults=0):
    d = dict(u)
    d.update(spec=spec, n=n, rest=rest, poison=poison, faults=faults)
    return CFG % d


MAIN_FILES = ["main/cp_common_test.go", "main/c01_test.go"]


def model_check(ctx):
    mc = ctx.tlc("ControlPlane_MC", cfg_text=cfg("Spec", U3, ctx.pick(3, 4),
                 "INVARIANTS TypeOK QuiescentCorrect LastGood Isolation RoutedWerePassing\nPROPERTIES MonotoneSnapshot InvalidKeeps NextValidApplied", faults=1),
                 workers=ctx.pick(8, 12), timeout=ctx.pick(300, 1800), coverage=ctx.thorough)
    ctx.log("MC: %d generated, %d distinct, depth %d, %.0fs" % (mc.generated, mc.distinct, mc.depth, mc.wall))
    if not ctx.need_tlc_ok(mc, "ControlPlane MC"):
        return False
    if ctx.thorough and mc.coverage0:
        ctx.inconclusive("actions never taken in MC: %s" % mc.coverage0)
    ctx.cover("mc", states=mc.distinct, transitions=mc.generated)
    lv = ctx.tlc("ControlPlane_MC", cfg_text=cfg("Spec", U2, ctx.pick(2, 3), "PROPERTIES EventuallyCorrect"), workers=8, timeout=600)
    ctx.log("liveness: %d distinct, %.0fs" % (lv.distinct, lv.wall))
    if not ctx.need_tlc_ok(lv, "ControlPlane liveness"):
        return False
    ctx.cover("liveness", states=lv.distinct, transitions=lv.generated)
    return True


def gen_histories(ctx, path):
    """exhaustive histories of <=k changes + seeded random longer ones"""
    k = ctx.pick(2, 3)
    tmp = path + ".all"
    g = ctx.tlc("ControlPlane_Gen", cfg_text=cfg("GenSpec", U3, k, "INVARIANTS GenConsistent"), json_sink=tmp, workers=4, timeout=900)
    if not ctx.need_tlc_ok(g, "ControlPlane Gen"):
        return None
    ctx.cover("gen", states=g.distinct, transitions=g.generated)
    n_ex = sum(1 for _ in open(tmp))
    depth = ctx.pick(8, 12)
    s = ctx.tlc("ControlPlane_Gen", cfg_text=cfg("GenSpec", U3, depth, "INVARIANTS GenConsistent"), json_sink=tmp,
                simulate=ctx.pick(300, 3000), depth=depth + 1, seed=ctx.seed, timeout=600)
    if s.error or s.violated:
        ctx.need_tlc_ok(s, "ControlPlane Gen simulation")
        return None
    lines = open(tmp).read().splitlines()
    rnd = random.Random(ctx.seed)
    ex, sim = lines[:n_ex], lines[n_ex:]
    cap = ctx.pick(400, 8000)
    if len(ex) > cap:
        ex = rnd.sample(ex, cap)
    with open(path, "w") as fh:
        for ln in ex + sim:
            fh.write(ln + "\n")
    ctx.log("histories: %d exhaustive (<=%d changes), %d random (%d changes)" % (len(ex), k, len(sim), depth))
    return len(ex) + len(sim)


def validate_trace(ctx, trace, what, expect_reject=False, split=False):
    if split:
        # a2 registered under a third service name (VERIF_NAMING=split)
        txt = open(os.path.join(vf.VERIF, "spec", "ControlPlane_Trace.cfg")).read()
        txt = txt.replace('Services = {"A", "B"}', 'Services = {"A", "B", "C"}').replace("SvcOf <- MCSvcOf3", "SvcOf <- MCSvcOf3Split")
        r = ctx.tlc("ControlPlane_Trace", cfg_text=txt, workers=1, env={"VERIF_TRACE": trace}, timeout=900)
    else:
        r = ctx.tlc("ControlPlane_Trace", cfg="ControlPlane_Trace", workers=1, env={"VERIF_TRACE": trace}, timeout=900)
    if r.timed_out or r.error:
        ctx.inconclusive("%s: trace validation did not complete: %s" % (what, r.error or "timeout"))
        return None
    return r


def pipeline(ctx, hist, status="passing", required="one", failstatus="critical", naming="plain"):
    g = ctx.gotest(".", MAIN_FILES, "^TestVerifC01$", env={"VERIF_IN": hist, "VERIF_STATUS": status,
                   "VERIF_CHECKS_REQUIRED": required, "VERIF_FAIL_STATUS": failstatus, "VERIF_NAMING": naming}, timeout=900)
    if g.summary is None and "panic:" in g.out and "watchBackend" in g.out:
        ctx.violation({"sub": "pipeline", "crash": True}, "the update loop crashed the process:\n" + g.out[-3000:],
                      replay={"sub": "pipeline-crash", "case": None})
        return None
    if not ctx.need_go_ok(g, "C01 pipeline"):
        return None
    return g


def health(ctx):
    """every check multiset x 56 configurations through the real passingServices"""
    cases = os.path.join(ctx.tmp, "c01.health")
    k = ctx.pick(3, 4)
    g = ctx.tlc("Health_MC", cfg_text="SPECIFICATION Spec\nCONSTANT MaxChecks = %d\nINVARIANT Monotone\nCHECK_DEADLOCK FALSE\n" % k,
                json_sink=cases, workers=8, timeout=1200)
    if not ctx.need_tlc_ok(g, "Health Gen"):
        return False
    ctx.cover("health-gen", states=g.distinct, transitions=g.generated)
    r = ctx.gotest("registry/consul", ["registry/consul/c01_health_test.go"], "^TestVerifC01Health$", env={"VERIF_IN": cases}, timeout=900)
    if not ctx.need_go_ok(r, "C01 health"):
        return False
    s = r.summary
    ctx.log("health rule: %d multisets (<=%d checks) x 56 configurations x permutations = %d evaluations, %d failed, %.0fs"
            % (s["cases"], k, s["evaluations"], s["fails"], r.wall))
    ctx.cover("health", traces_validated_against_impl=s["cases"], evaluations=s["evaluations"],
              distinct_nontrivial=s["distinct_nontrivial"], samples=s.get("samples") or [], exhaustive=True)
    ctx.take_failures(r, "health")
    # self-test: flip one expected mask
    first = json.loads(open(cases).readline())
    first["masks"][0] ^= 1
    one = os.path.join(ctx.tmp, "c01.health.self")
    vf.write_ndjson(one, [first])
    r2 = ctx.gotest("registry/consul", ["registry/consul/c01_health_test.go"], "^TestVerifC01Health$", env={"VERIF_IN": one}, timeout=300)
    if ctx.need_go_ok(r2, "C01 health self-test") and not r2.of_kind("fail"):
        ctx.inconclusive("binding self-test (health): a corrupted expectation was not rejected")
    return True


def e2e(ctx):
    """top-level composition: the real fabio binary against the fake Consul, validated against Fabio_Trace"""
    import subprocess
    mc = ctx.tlc("Fabio_MC", cfg="Fabio_MC", workers=8, timeout=900)
    if not ctx.need_tlc_ok(mc, "Fabio MC"):
        return False
    ctx.cover("fabio-mc", states=mc.distinct, transitions=mc.generated)
    gobin, genv = vf.go_tool()
    binp = os.path.join(ctx.tmp, "fabio")
    b = subprocess.run([gobin, "build", "-o", binp, "."], cwd=vf.REPO, env=genv, capture_output=True, text=True)
    if b.returncode != 0:
        ctx.inconclusive("fabio does not build:\n" + (b.stdout + b.stderr)[-2000:])
        return False
    runs = ctx.pick(1, 4)
    for k in range(runs):
        g = ctx.gotest(".", ["main/fabio_e2e_test.go"], "^TestVerifFabioE2E$", timeout=600,
                       env={"VERIF_FABIO_BIN": binp, "VERIF_E2E_STEPS": ctx.pick(200, 600), "VERIF_SEED": ctx.seed * 100 + k})
        if not ctx.need_go_ok(g, "Fabio end-to-end"):
            return False
        s = g.summary
        ctx.take_failures(g, "e2e")
        r = ctx.tlc("Fabio_Trace", cfg="Fabio_Trace", workers=1, env={"VERIF_TRACE": s["trace"]}, timeout=900)
        if r.timed_out or r.error:
            ctx.inconclusive("Fabio trace validation did not complete: %s" % (r.error or "timeout"))
            return False
        ctx.log("fabio binary end to end: %d registry changes, %d concurrent requests, %d quiescent comparisons, %d events, %d states: %s"
                % (s["steps"], s["requests"], s["compared"], s["events"], r.distinct, "accepted" if r.ok else "REJECTED (%s)" % r.violated))
        if r.ok:
            ctx.cover("e2e", traces_validated_against_impl=1, states=r.distinct, transitions=r.generated, evaluations=s["requests"] + s["compared"])
        else:
            ctx.violation({"sub": "e2e-trace", "why": r.violated},
                          "the execution recorded from the real fabio binary (registry changes, consul queries, client requests and answers) is not a behaviour of Fabio (%s)" % r.violated,
                          replay={"sub": "e2e-trace", "case": None})
        if k == 0:
            lines = open(s["trace"]).read().splitlines()
            idx = [i for i, ln in enumerate(lines) if '"ev":"ReqRet"' in ln and ('"res":"a1"' in ln or '"res":"b1"' in ln or '"res":"a2"' in ln)]
            if not idx:
                ctx.inconclusive("e2e self-test: no request was served by an instance")
                return False
            j = idx[len(idx) // 2]
            lines[j] = lines[j].replace('"res":"a1"', '"res":"X"').replace('"res":"a2"', '"res":"X"').replace('"res":"b1"', '"res":"X"')
            bad = os.path.join(ctx.tmp, "fabio.bad.ndjson")
            open(bad, "w").write("\n".join(lines) + "\n")
            r2 = ctx.tlc("Fabio_Trace", cfg="Fabio_Trace", workers=1, env={"VERIF_TRACE": bad}, timeout=900)
            if r2.ok:
                ctx.inconclusive("e2e self-test: a trace with one answer attributed to another upstream was accepted")
    return True


def run(ctx):
    ctx.assumptions += [
        "universe: instances a1,a2 (service A, same service id on nodes n1,n2), b1 (service B on n1); instance states absent/pass/fail/maint/bad(inexpressible tags); node states ok/maint/serfdown; overrides none/route del/route weight/route add/syntax error",
        "'observed' = delivered to the update loop; between a watcher's HTTP response and the rendez-vous a KV update may install a table built from the previous service config (inherent in two independent watchers)",
        "the fake Consul implements the documented blocking-query contract only",
    ]
    # unbounded: RoutedWerePassing proved with TLAPS for every universe (TLC below is bounded)
    ctx.tlaps("ControlPlane_Proof2", ["ControlPlane"])
    if not model_check(ctx):
        return
    if not health(ctx):
        return
    hist = os.path.join(ctx.tmp, "c01.hist")
    n = gen_histories(ctx, hist)
    if n is None:
        return
    # (accepted statuses, checksRequired, status of a failing check): the expectations are the same
    alts = [("passing,warning", "all", "critical"), ("passing", "all", "warning"), ("passing,warning", "one", "critical")]
    cfgs = [("passing", "one", "critical")] + (alts if ctx.thorough else [alts[ctx.seed % len(alts)]])
    for k, (st, req, fs) in enumerate(cfgs):
        # every configuration after the first runs with dotted node names / service ids
        if not one_pipeline(ctx, hist, st, req, fs, selftest=(k == 0), naming=("plain" if k == 0 else "dotted,split,mon%d" % (2 + (ctx.seed + k) % 2))):
            return
    if not e2e(ctx):
        return
    ctx.cover(rule="registry histories: all of <=k changes (k=2 quick, 3 thorough; sampled above the cap) plus seeded random ones, each applied step by step (a seeded third of the health changes under snapshot/catalog skew); health rule: every multiset of <=3 (quick) / <=4 (thorough) checks x 56 configurations; non-trivial = multiset of >=2 checks routing at least one instance")


def one_pipeline(ctx, hist, st, req, fs, selftest, naming="plain"):
    g = pipeline(ctx, hist, st, req, fs, naming)
    if g is None:
        return False
    s = g.summary
    ctx.log("configuration: accepted=%s checksRequired=%s failing-check-status=%s naming=%s" % (st, req, fs, naming))
    ctx.log("pipeline: %d histories, %d steps (%d compared, %d under snapshot/catalog skew, %d with a failed catalog query), %d events, %d failed, %.0fs"
            % (s["histories"], s["steps"], s["compared"], s["skews"], s.get("catalog_faults", 0), s["events"], s["fails"], g.wall))
    ctx.cover("pipeline", traces_validated_against_impl=s["histories"], evaluations=s["compared"], samples=s.get("samples") or [])
    ctx.take_failures(g, "pipeline")
    if not selftest and not ctx.thorough:
        return True
    # C->S: the whole recorded execution must be a behaviour of ControlPlane
    trace = s["trace"]
    r = validate_trace(ctx, trace, "recorded trace", split=("split" in naming))
    if r is None:
        return False
    ctx.log("trace validation: %d events, %d states, %s, %.0fs" % (s["events"], r.distinct, "accepted" if r.ok else "REJECTED (%s)" % r.violated, r.wall))
    if r.ok:
        ctx.cover("trace", traces_validated_against_impl=1, states=r.distinct, transitions=r.generated)
    else:
        m = None
        ctx.violation({"sub": "trace", "why": r.violated},
                      "the execution recorded from the real backend + update loop is not a behaviour of ControlPlane (%s)\n%s"
                      % (r.violated, r.out[-2500:]), replay={"sub": "trace", "case": None})
    if not selftest:
        return True
    # binding self-test: drop one Install event => must be rejected
    lines = open(trace).read().splitlines()
    idx = [i for i, ln in enumerate(lines) if '"ev":"Install"' in ln and '"table":[]' not in ln]
    if not idx:
        ctx.inconclusive("self-test: no non-empty Install event recorded")
        return False
    bad = os.path.join(ctx.tmp, "c01.bad.ndjson")
    cut = idx[len(idx) // 2]
    # (a) an Install event whose table is not the one the specification computes (one instance missing)
    ev = json.loads(lines[cut])
    ev["table"] = ev["table"][1:]
    with open(bad, "w") as fh:
        fh.write("\n".join(lines[:cut] + [json.dumps(ev, separators=(",", ":"))] + lines[cut + 1:]) + "\n")
    r2 = validate_trace(ctx, bad, "self-test trace")
    if r2 is None:
        return False
    if r2.ok:
        ctx.inconclusive("binding self-test: a trace with one falsified Install event (an instance missing from the installed table) was accepted")
        return True
    # (b) Install events removed: an intermediate install of a step with several installs is unobservable at the
    # next quiescent point, so several candidates are tried and one rejection is required
    rejected = 0
    for cut in [idx[len(idx) // 2], idx[len(idx) // 3], idx[(2 * len(idx)) // 3], idx[len(idx) // 5], idx[-1]]:
        with open(bad, "w") as fh:
            fh.write("\n".join(lines[:cut] + lines[cut + 1:]) + "\n")
        r3 = validate_trace(ctx, bad, "self-test trace")
        if r3 is None:
            return False
        if not r3.ok:
            rejected += 1
            break
    if rejected == 0:
        ctx.inconclusive("binding self-test: five traces with one Install event removed each were all accepted")
    return True


def replay(ctx, rp):
    sub = rp["replay"]["sub"]
    if sub == "health":
        one = os.path.join(ctx.tmp, "c01.replay")
        vf.write_ndjson(one, [rp["replay"]["case"]])
        r = ctx.gotest("registry/consul", ["registry/consul/c01_health_test.go"], "^TestVerifC01Health$", env={"VERIF_IN": one}, timeout=300)
        if ctx.need_go_ok(r, "C01 health replay"):
            ctx.cover(evaluations=1)
            ctx.take_failures(r, "health")
        return
    if sub != "pipeline" or not rp["replay"].get("case"):
        ctx.inconclusive("replay of %s: re-run the check (the recorded schedule depends on goroutine timing)" % sub)
        return
    one = os.path.join(ctx.tmp, "c01.replay")
    vf.write_ndjson(one, [rp["replay"]["case"]])
    g = pipeline(ctx, one)
    if g is None:
        return
    ctx.cover(evaluations=1)
    ctx.take_failures(g, "pipeline")
