"""X02 (specification growth) - admin API for the manual overrides (compare-and-swap), ui.access,
the KV watcher that applies the overrides, and the no-route HTML watcher.

spec: AdminKV.tla (KV documents with ModifyIndex, table index, API clients: GET = one read,
      PUT = WriteManual's create attempt cas=0 then cas=version; direct edits; KV watcher + update
      loop; no-route key, watcher, loop, requests without route), AdminKV_MC.tla (universes),
      AdminKV_Gen.tla (driver-forceable histories with the prescribed observable state),
      AdminKV_Trace.tla (validation of recorded executions)
TLC : code design and documented design (one check-and-set) both model-checked: NoLostUpdate,
      OneWinner (documented design) / NoLostUpdateExisting (code), ConflictOnlyIfStale,
      FailedWriteChangesNothing, WriteStores, ReadCurrent, RoNeverMutates, ManualApplied,
      NoRouteHtmlCurrent, monotonicity, liveness (EventuallyApplied, EventuallyNoRouteCurrent,
      Responsive); the named deviations must violate the documented properties on the model
bind: S->C histories forced step by step into the REAL admin servers (rw + ro) / consul backend /
      update loop / no-route loop / HTTPProxy over a fake Consul KV store with a gate on
      check-and-set requests; C->S concurrent read-modify-write clients + direct edits + no-route
      traffic recorded with one logical clock and validated by AdminKV_Trace (linearizability)."""
import json, os, random
from lib import vf

FILES = ["main/x02_test.go"]

CFG = """SPECIFICATION %(spec)s
CONSTANTS
  c1 = c1
  c2 = c2
  c3 = c3
  Clients = %(clients)s
  RoClients = %(ro)s
  Paths <- %(paths)s
  PathOrder <- %(order)s
  Values = %(values)s
  NrValues = {"h1", "h2"}
  MaxOps = %(ops)d
  MaxExt = %(ext)d
  MaxNr = %(nr)d
  MaxReq = %(req)d
  WatchMan = %(wman)s
  WatchNr = %(wnr)s
  CreateIgnoresVersion = %(civ)s
  RoRefusesReads = %(rrr)s
  AbsentIsZero = %(aiz)s
%(rest)s
CHECK_DEADLOCK FALSE
"""
CODE_SAFE = ("INVARIANTS TypeOK RoNeverMutates ManualApplied NoRouteHtmlCurrent\n"
             "PROPERTIES NoLostUpdateExisting ConflictOnlyIfStale FailedWriteChangesNothing WriteStores ReadCurrent "
             "VersionsGrow ManualMonotone NoRouteMonotone")
DOC_SAFE = ("INVARIANTS TypeOK RoNeverMutates RoServesReads ManualApplied NoRouteHtmlCurrent\n"
            "PROPERTIES NoLostUpdate OneWinner NoLostUpdateExisting ConflictOnlyIfStale FailedWriteChangesNothing "
            "WriteStores ReadCurrent VersionsGrow ManualMonotone NoRouteMonotone")


def tf(b):
    return "TRUE" if b else "FALSE"


def cfg(spec="Spec", clients="{c1, c2, c3}", ro="{c3}", paths=1, values='{"addM1", "delA"}', ops=3, ext=2, nr=0, req=0,
        wman=False, wnr=False, civ=True, rrr=True, aiz=False, rest="", sym=True):
    d = dict(spec=spec, clients=clients, ro=ro, paths="MCPaths%d" % paths, order="MCOrder%d" % paths, values=values, ops=ops,
             ext=ext, nr=nr, req=req, wman=tf(wman), wnr=tf(wnr), civ=tf(civ), rrr=tf(rrr), aiz=tf(aiz),
             rest=rest + ("\nSYMMETRY MCSym" if sym else ""))
    return CFG % d


def model_check(ctx):
    """both designs, the parts separately (the product is too large), liveness on the smallest universes"""
    runs = [
        # (name, cfg, must hold?)
        ("code design: 2 rw clients + 1 ro client, 1 document", cfg(ops=ctx.pick(3, 4), ext=2, rest=CODE_SAFE), True),
        ("documented design (one check-and-set, ro serves reads)", cfg(ops=ctx.pick(3, 4), ext=2, civ=False, rrr=False, aiz=True, rest=DOC_SAFE), True),
        ("code design: 3 rw clients", cfg(ro="{}", ops=3, ext=ctx.pick(1, 2), rest=CODE_SAFE), True),
        ("code design: 2 documents", cfg(clients="{c1, c2}", ro="{}", paths=2, values='{"addM1", "delM1"}', ops=ctx.pick(2, 3), ext=ctx.pick(1, 2), rest=CODE_SAFE), True),
        ("overrides applied: KV watcher + update loop, 2 documents", cfg(clients="{c1}", ro="{}", paths=2, values='{"addM1", "delM1"}',
                                                                       ops=ctx.pick(1, 2), ext=2, wman=True, rest=CODE_SAFE), True),
        ("no-route page: key, watcher, loop, requests", cfg(clients="{}", ro="{}", ops=0, ext=0, nr=ctx.pick(3, 4), req=2, wnr=True, rest=CODE_SAFE), True),
        ("both pipelines next to one writer", cfg(clients="{c1}", ro="{}", values='{"addM1"}', ops=1, ext=ctx.pick(0, 1), nr=1, req=1, wman=True, wnr=True, rest=CODE_SAFE), True),
    ]
    never = None
    for name, text, _ in runs:
        r = ctx.tlc("AdminKV_MC", cfg_text=text, workers=8, timeout=ctx.pick(240, 1500), coverage=ctx.thorough)
        ctx.log("MC %s: %d generated, %d distinct, depth %d, %.0fs" % (name, r.generated, r.distinct, r.depth, r.wall))
        if not ctx.need_tlc_ok(r, "AdminKV MC (%s)" % name):
            return False
        ctx.cover("mc", states=r.distinct, transitions=r.generated)
        if ctx.thorough:
            z = set(r.coverage0)
            never = z if never is None else (never & z)
    if ctx.thorough and never:
        ctx.inconclusive("actions never taken in any MC configuration: %s" % sorted(never))
        return False
    live = [
        ("liveness: overrides eventually applied, every request answered",
         cfg(clients="{c1}", ro="{}", values='{"addM1"}', ops=ctx.pick(1, 2), ext=ctx.pick(1, 2), wman=True, sym=False,
             rest="PROPERTIES EventuallyApplied Responsive")),
        ("liveness: no-route page eventually current",
         cfg(clients="{}", ro="{}", ops=0, ext=0, nr=ctx.pick(2, 3), req=1, wnr=True, sym=False, rest="PROPERTIES EventuallyNoRouteCurrent")),
    ]
    for name, text in live:
        r = ctx.tlc("AdminKV_MC", cfg_text=text, workers=4, timeout=600)
        ctx.log("MC %s: %d distinct, %.0fs" % (name, r.distinct, r.wall))
        if not ctx.need_tlc_ok(r, "AdminKV %s" % name):
            return False
        ctx.cover("liveness", states=r.distinct, transitions=r.generated)
    # the named deviations are visible on the model: the documented properties fail for the code design
    for prop, kind, c in [("NoLostUpdate", "PROPERTIES", cfg(ops=3, ext=2, rest="PROPERTIES NoLostUpdate")),
                          ("OneWinner", "PROPERTIES", cfg(ops=3, ext=2, rest="PROPERTIES OneWinner")),
                          ("RoServesReads", "INVARIANTS", cfg(ops=1, ext=0, rest="INVARIANTS RoServesReads"))]:
        r = ctx.tlc("AdminKV_MC", cfg_text=c, workers=4, timeout=300)
        if r.timed_out or r.error or r.violated != prop:
            ctx.inconclusive("the code design (CreateIgnoresVersion / RoRefusesReads) was expected to violate %s on the model, got %s"
                             % (prop, r.violated or r.error or "no violation"))
            return False
    ctx.log("MC: the code design violates NoLostUpdate, OneWinner (create-first step) and RoServesReads (ro refuses reads), as named")
    return True


def probe(ctx):
    g = ctx.gotest(".", FILES, "^TestVerifX02Probe$", timeout=300)
    if not ctx.need_go_ok(g, "X02 probe"):
        return None
    s = g.summary
    ctx.take_failures(g, "probe")
    ctx.log("probe of the tree: CreateIgnoresVersion=%s RoRefusesReads=%s AbsentIsZero=%s; static backend: PUT -> %s, GET -> %s"
            % (s["create_ignores_version"], s["ro_refuses_reads"], s["absent_is_zero"], s["static_put"], s["static_get"]))
    leads = []
    if s["create_ignores_version"]:
        leads.append("lead: PUT /api/manual with the version of a document that was deleted meanwhile answers 200 and re-creates it "
                     "(WriteManual tries cas=0 first); registry/backend.go promises a write only 'if the version of the stored document still matches'")
    if s["ro_refuses_reads"]:
        leads.append("lead: ui.access=ro answers 403 to GET /api/manual and /api/paths as well ('read-only access')")
    for n in s.get("notes") or []:
        leads.append("lead: " + n)
    if s["static_put"] == 409:
        leads.append("lead: with the static/file backend every PUT /api/manual answers 409 'version mismatch' (there is no store)")
    for ld in leads:
        ctx.log(ld)
    ctx.cover("probe", evaluations=4, leads=leads)
    return s


def gen_histories(ctx, path, civ, rrr, aiz):
    tmp = path + ".all"
    rnd = random.Random(ctx.seed)
    parts = []
    plans = [
        ("1 document, 2 rw + 1 ro client", dict(clients='{"c1", "c2", "ro"}', ro='{"ro"}', paths=1, values='{"addM1", "delA"}'), ctx.pick(3, 4), ctx.pick(1200, 30000)),
        ("2 documents, order of the keys", dict(clients='{"c1", "c2"}', ro='{}', paths=2, values='{"addM1", "delM1"}'), ctx.pick(2, 3), ctx.pick(500, 12000)),
        ("no-route page next to one writer", dict(clients='{"c1"}', ro='{}', paths=1, values='{"addM2"}'), ctx.pick(3, 4), ctx.pick(300, 4000)),
    ]
    for name, u, k, cap in plans:
        if os.path.exists(tmp):
            os.remove(tmp)
        text = cfg(spec="GenSpec", ops=1000, ext=1000, nr=(1000 if "no-route" in name else 0), civ=civ, rrr=rrr, aiz=aiz, sym=False,
                   rest="  MaxSteps = %d\nINVARIANTS GenConsistent" % k, **u)
        g = ctx.tlc("AdminKV_Gen", cfg_text=text, json_sink=tmp, workers=4, timeout=900)
        if not ctx.need_tlc_ok(g, "AdminKV Gen (%s)" % name):
            return None
        ctx.cover("gen", states=g.distinct, transitions=g.generated)
        lines = sorted(open(tmp).read().splitlines())
        n_all = len(lines)
        if len(lines) > cap:
            lines = rnd.sample(lines, cap)
        parts += lines
        ctx.log("histories (%s): %d of all %d with %d steps" % (name, len(lines), n_all, k))
    # seeded random long histories
    if os.path.exists(tmp):
        os.remove(tmp)
    k = ctx.pick(8, 12)
    text = cfg(spec="GenSpec", clients='{"c1", "c2", "ro"}', ro='{"ro"}', paths=2, values='{"addM1", "addM2", "delA", "delM1"}',
               ops=1000, ext=1000, nr=1000, civ=civ, rrr=rrr, aiz=aiz, sym=False, rest="  MaxSteps = %d\nINVARIANTS GenConsistent" % k)
    s = ctx.tlc("AdminKV_Gen", cfg_text=text, json_sink=tmp, simulate=ctx.pick(150, 1500), depth=4 * k + 4, seed=ctx.seed, timeout=600)
    if s.error or s.violated or s.timed_out:
        ctx.need_tlc_ok(s, "AdminKV Gen simulation")
        return None
    sim = open(tmp).read().splitlines() if os.path.exists(tmp) else []
    ctx.log("histories (random, 2 documents, 4 texts, no-route page): %d with %d steps" % (len(sim), k))
    with open(path, "w") as fh:
        for ln in parts + sim:
            fh.write(ln + "\n")
    return len(parts) + len(sim)


def replay_run(ctx, hist, civ, what="X02 replay", timeout=900):
    g = ctx.gotest(".", FILES, "^TestVerifX02Replay$", env={"VERIF_IN": hist, "VERIF_X02_TWOSTEP": "1" if civ else "0"}, timeout=timeout)
    if not ctx.need_go_ok(g, what):
        return None
    return g


def trace_cfg(civ, rrr, aiz):
    text = open(os.path.join(vf.SPEC, "AdminKV_Trace.cfg")).read()
    return text.replace("CreateIgnoresVersion = TRUE", "CreateIgnoresVersion = " + tf(civ)).replace("RoRefusesReads = TRUE", "RoRefusesReads = " + tf(rrr)).replace("AbsentIsZero = FALSE", "AbsentIsZero = " + tf(aiz))


def validate(ctx, trace, civ, rrr, aiz):
    r = ctx.tlc("AdminKV_Trace", cfg_text=trace_cfg(civ, rrr, aiz), workers=1, env={"VERIF_TRACE": trace}, timeout=900)
    if r.timed_out or r.error:
        ctx.inconclusive("trace validation did not complete: %s" % (r.error or "timeout"))
        return None
    return r


def concurrent(ctx, civ, rrr, aiz):
    runs = ctx.pick(1, 5)
    for k in range(runs):
        g = ctx.gotest(".", FILES, "^TestVerifX02Concurrent$", race=True, timeout=900,
                       env={"VERIF_SEED": ctx.seed * 100 + k, "VERIF_X02_CLIENTS": 8, "VERIF_X02_ITERS": ctx.pick(25, 60)})
        if "WARNING: DATA RACE" in g.out:
            ctx.inconclusive("race detector report during the concurrent admin API run:\n" + g.out[g.out.find("WARNING: DATA RACE"):][:3000])
            return False
        if not ctx.need_go_ok(g, "X02 concurrent"):
            return False
        s = g.summary
        ctx.take_failures(g, "concurrent")
        r = validate(ctx, s["trace"], civ, rrr, aiz)
        if r is None:
            return False
        ctx.log("concurrent run %d: %d clients, %d reads, %d writes ok, %d conflicts, %d ro requests, %d no-route requests, %d events, %d states: %s (%.0fs + %.0fs)"
                % (k, s["clients"], s["gets"], s["puts_ok"], s["puts_conflict"], s["ro_requests"], s["noroute_requests"], s["events"],
                   r.distinct, "accepted" if r.ok else "REJECTED (%s)" % r.violated, g.wall, r.wall))
        if r.ok:
            ctx.cover("trace", traces_validated_against_impl=1, states=r.distinct, transitions=r.generated,
                      evaluations=s["gets"] + s["puts_ok"] + s["puts_conflict"] + s["ro_requests"] + s["noroute_requests"])
        else:
            ctx.violation({"sub": "trace", "why": r.violated},
                          "the execution recorded from the real admin servers, consul backend and watcher loops is not a behaviour of AdminKV (%s)\n%s"
                          % (r.violated, r.out[-2500:]), replay={"sub": "trace", "case": None})
            continue
        if k == 0:
            # binding self-test: one successful write reported to its caller as a conflict must be rejected
            lines = open(s["trace"]).read().splitlines()
            idx = [i for i, ln in enumerate(lines) if '"ev":"PutRet"' in ln and '"status":200' in ln]
            if not idx:
                ctx.inconclusive("self-test: no successful write was recorded")
                return False
            j = idx[len(idx) // 2]
            lines[j] = lines[j].replace('"status":200', '"status":409')
            bad = os.path.join(ctx.tmp, "x02.bad.ndjson")
            open(bad, "w").write("\n".join(lines) + "\n")
            r2 = validate(ctx, bad, civ, rrr, aiz)
            if r2 is None:
                return False
            if r2.ok:
                ctx.inconclusive("binding self-test: a trace in which a successful write is answered 409 was accepted")
                return False
    return True


def run(ctx):
    ctx.assumptions += [
        "the fake KV store implements Consul's documented semantics only: cas=0 creates, cas=N needs ModifyIndex N, a missing key is answered with the table index (never 0), the index of a prefix is the largest ModifyIndex / graveyard index below it, blocking queries return when that index exceeds ?index",
        "universe: documents kvpath and kvpath/b; texts route add man1|man2, route del svc-a|man1 on top of one passing instance of svc-a; versions sent: 0, the current one, the one last read (generated histories), any of 0..index (model)",
        "'applied' is compared after a causality barrier (the watcher's blocking query is parked again after an index move without content change); the service side of the update loop is ControlPlane's (C01)",
        "a fixed tree (one check-and-set, ro serving reads) is detected by a probe and then checked against the documented design",
    ]
    if not model_check(ctx):
        return
    p = probe(ctx)
    if p is None:
        return
    civ, rrr, aiz = bool(p["create_ignores_version"]), bool(p["ro_refuses_reads"]), bool(p["absent_is_zero"])
    hist = os.path.join(ctx.tmp, "x02.hist")
    n = gen_histories(ctx, hist, civ, rrr, aiz)
    if n is None:
        return
    g = replay_run(ctx, hist, civ)
    if g is None:
        return
    s = g.summary
    ctx.log("replay: %d histories, %d steps, %d quiescent comparisons, %d failed, %.0fs" % (s["histories"], s["steps"], s["compared"], s["fails"], g.wall))
    ctx.cover("replay", traces_validated_against_impl=s["histories"], evaluations=s["steps"] + s["compared"], samples=s.get("samples") or [])
    ctx.take_failures(g, "replay")
    # binding self-test: corrupt one expectation
    lines = open(hist).read().splitlines()
    h = json.loads(lines[len(lines) // 3])
    st = h["steps"][-1]
    st["obs"]["routes"] = sorted(set(st["obs"]["routes"]) ^ {"man2"})
    one = os.path.join(ctx.tmp, "x02.self")
    vf.write_ndjson(one, [h])
    g2 = replay_run(ctx, one, civ, "X02 replay self-test", timeout=300)
    if g2 is None:
        return
    if not g2.of_kind("fail"):
        ctx.inconclusive("binding self-test (replay): a corrupted expectation was not rejected")
        return
    if not concurrent(ctx, civ, rrr, aiz):
        return
    ctx.cover(rule="histories: every driver-forceable interleaving of <=3 (quick) / 4 (thorough) steps for one document (2 rw + 1 ro client, external edits/deletes), <=2/3 steps for two documents, <=3/4 steps with the no-route key (sampled above a cap), plus seeded random ones of 8-12 steps; concurrent: 8 read-modify-write clients + ro client + editors + no-route prober, 1 (quick) / 5 (thorough) recorded runs under -race",
              exhaustive=False)


def replay(ctx, rp):
    sub = rp["replay"]["sub"]
    if sub != "replay" or not rp["replay"].get("case"):
        ctx.inconclusive("replay of %s: re-run the check (the recorded schedule depends on goroutine timing)" % sub)
        return
    p = probe(ctx)
    if p is None:
        return
    one = os.path.join(ctx.tmp, "x02.replay")
    vf.write_ndjson(one, [rp["replay"]["case"]])
    g = replay_run(ctx, one, bool(p["create_ignores_version"]), timeout=300)
    if g is None:
        return
    ctx.cover(evaluations=1)
    ctx.take_failures(g, "replay")
