"""C11 - TLS listeners present the best matching current certificate.

spec: CertStore.tla (Select + register/handshake/watcher state machine), CertStore_MC.tla
      (universes, "as stated" invariants, generators), CertStore_Trace.tla (trace validation)
TLC : (a) state machine: NoMixture, TakesEffect, BadKeepsGood, RegIsLastGood, NoSpin for 2
          concurrent handshakes x watcher histories of <=4/5 loads; the two named deviations
          (SplitStore, SpinOnUnusable) must violate NoMixture / NoSpin (non-vacuity);
      (b) Select total / as stated / spelling-blind on every well-formed sequence of <=3
          certificates over {a.com, *.com, *.a.com, b.a.com} in CN and SAN positions x 16
          server names x strict; one JSON case per set;
      (c) every complete watcher history of 4 (quick) / 5 (thorough) loads.
bind: harness/cert/c11_test.go (built with -race):
      S->C  (b) through real TLSConfig(scripted Source) + tls.Config.GetCertificate,
            (c) through the real `watch` with a scripted loadFn, refresh 1 s;
      C->S  real TLS handshakes concurrent with set replacement, validated by CertStore_Trace.
"""
import json, os, random
from lib import vf

FILES = ["cert/c11_test.go", "cert/c11_sources_test.go"]

BASE = """SPECIFICATION %(spec)s
CONSTANTS
  Fold <- MCFold
  Good = %(good)s
  Unusable = %(unusable)s
  Failing = %(failing)s
  Clients = %(clients)s
  Reqs <- MCReqs
  MaxLoads = %(loads)d
  MaxHs = %(hs)d
  Refresh = %(refresh)d
  SplitStore = %(split)s
  SpinOnUnusable = %(spin)s
%(view)s
INVARIANTS %(inv)s
CHECK_DEADLOCK FALSE
"""

# Ar = the material of A under permuted file names (CertStore!Renamed, LoadRenamed): the other certificate is the default
GOOD_R = '{"A", "Ar", "B"}'
MC_INV = "TypeOK NoMixture TakesEffect BadKeepsGood RegIsLastGood NoSpin RenameTakesEffect"


def cfg(spec, loads=0, hs=0, clients="{}", unusable='{"U1"}', refresh=1, split=False, spin=False, view=False, inv="TypeOK",
        good='{"A", "B"}', failing='{"E"}'):
    return BASE % dict(spec=spec, loads=loads, hs=hs, clients=clients, unusable=unusable, refresh=refresh, good=good, failing=failing,
                       split="TRUE" if split else "FALSE", spin="TRUE" if spin else "FALSE",
                       view="VIEW MCView" if view else "", inv=inv)


def model(ctx):
    """(a): the state machine, and that its properties can fail."""
    loads, hs = ctx.pick((4, 2), (5, 2))
    clients = ctx.pick('{"c1", "c2"}', '{"c1", "c2", "c3"}')
    # thorough: the deep run has two contents, A and its renamed twin (as many states as {A, B}: every change of the
    # source is then a rename, the first load a LoadGood); all three contents together at the quick bounds
    mc = ctx.tlc("CertStore_MC", cfg_text=cfg("MCSpec", loads, hs, clients, refresh=3, view=True, inv=MC_INV,
                                              good=ctx.pick(GOOD_R, '{"A", "Ar"}')),
                 workers=8, timeout=ctx.pick(300, 1800), coverage=ctx.thorough)
    ctx.log("MC: %d generated, %d distinct, depth %d, %.0fs" % (mc.generated, mc.distinct, mc.depth, mc.wall))
    if not ctx.need_tlc_ok(mc, "CertStore MC"):
        return False
    if ctx.thorough:
        m3 = ctx.tlc("CertStore_MC", cfg_text=cfg("MCSpec", 4, 2, '{"c1", "c2"}', refresh=3, view=True, inv=MC_INV, good=GOOD_R),
                     workers=8, timeout=600)
        ctx.log("MC, three contents: %d generated, %d distinct, depth %d, %.0fs" % (m3.generated, m3.distinct, m3.depth, m3.wall))
        if not ctx.need_tlc_ok(m3, "CertStore MC (three contents)"):
            return False
        ctx.cover("mc3", states=m3.distinct, transitions=m3.generated)
    if ctx.thorough:
        never = [a for a in mc.coverage0 if a != "APublish2"]   # Publish2 exists only under the SplitStore deviation
        if never:
            ctx.inconclusive("CertStore MC: actions never taken: %s" % never)
            return False
    ctx.cover("mc", states=mc.distinct, transitions=mc.generated)
    for name, kw, want in (("SplitStore", dict(split=True), "NoMixture"), ("SpinOnUnusable", dict(spin=True), "NoSpin")):
        r = ctx.tlc("CertStore_MC", cfg_text=cfg("MCSpec", 3, 1, '{"c1", "c2"}', refresh=3, view=True, inv=MC_INV, **kw),
                    workers=4, timeout=300)
        if r.violated != want:
            ctx.inconclusive("non-vacuity: the deviation %s should violate %s on the model but TLC reports %r %s"
                             % (name, want, r.violated, (r.error or "")[:300]))
            return False
    return True


def generate(ctx):
    sel = os.path.join(ctx.tmp, "c11.select")
    g = ctx.tlc("CertStore_MC", cfg_text=cfg("SelSpec", inv="SelectAsStated SpellingBlind"), workers=8,
                json_sink=sel, timeout=600)
    ctx.log("Select: %d certificate sets, %.0fs" % (g.distinct - 1, g.wall))
    if not ctx.need_tlc_ok(g, "CertStore Select"):
        return None
    ctx.cover("select", states=g.distinct, transitions=g.generated)
    watch = os.path.join(ctx.tmp, "c11.watch")
    unusable = ctx.pick('{"U1", "U2"}', '{"U1", "U2", "U3"}')
    w = ctx.tlc("CertStore_MC", cfg_text=cfg("GenWSpec", ctx.pick(4, 5), unusable=unusable,
                                              inv=HIST_INV, good=GOOD_R),
                workers=8, json_sink=watch, timeout=600)
    ctx.log("watcher histories: %d states, %.0fs" % (w.distinct, w.wall))
    if not ctx.need_tlc_ok(w, "CertStore watcher histories"):
        return None
    ctx.cover("watch", states=w.distinct, transitions=w.generated)
    return sel, watch


HIST_INV = "TypeOK BadKeepsGood BadNeverPublishes RegIsLastGood NoSpin NoSpinHist RenameTakesEffect"

# the universes of the real-source histories (see CertStore_MC!GenSSpec and harness/cert/c11_sources_test.go)
SOURCES = (
    # Ar (path-unreadable, http) is A with the file names of two certificates exchanged: same files, same PEM blocks, other default
    # path source, every content has the same file names: files that are listed but cannot be read abort the load
    ("path", "path-unreadable", '{"A", "Ar", "B"}', '{"pem", "unread-c", "unread-p", "foreign"}', "{}"),
    # path source, a certificate deleted on purpose (As) is a legitimate smaller set; a missing key half is not
    ("path", "path-shrink", '{"A", "As", "B"}', '{"pem", "nokey", "foreign"}', "{}"),
    # http source: broken files, files the server does not have / fails on, and an unavailable listing
    ("http", "http", '{"A", "As", "Ar", "B"}', '{"pem", "nokey", "file404", "file500"}', '{"list404", "list500", "listgarbage", "down"}'),
    # consul source (real ConsulSource against a fake of the KV list endpoint with blocking queries): "same" is a
    # re-upload of identical files (the index moves), As a certificate whose keys were deleted, kv500 a store without leader
    ("consul", "consul", '{"A", "As", "B"}', '{"pem", "nokey", "foreign"}', '{"kv500"}'),
)


def generate_sources(ctx):
    """complete histories for the real sources: all of `loads` loads, sampled by seed down to `cap` per universe"""
    loads, cap = ctx.pick((3, 90), (3, 100000))
    rnd = random.Random(ctx.seed)
    out = {k: os.path.join(ctx.tmp, "c11.src." + k) for k in ("path", "http", "consul")}
    counts = {}
    for source, name, good, unusable, failing in SOURCES:
        runs = [(loads, cap)]
        if ctx.thorough:
            runs.append((4, 250))
        for n, c in runs:
            tmp = os.path.join(ctx.tmp, "c11.src.%s.%d" % (name, n))
            g = ctx.tlc("CertStore_MC", cfg_text=cfg("GenSSpec", n, unusable=unusable, good=good, failing=failing, inv=HIST_INV),
                        workers=8, json_sink=tmp, timeout=600)
            if not ctx.need_tlc_ok(g, "CertStore source histories (%s)" % name):
                return None
            ctx.cover("sources-" + name, states=g.distinct, transitions=g.generated)
            # Only histories that begin with a good load: the damage leaves the other certificates
            # intact, and while NOTHING is published yet the statement does not forbid serving them.
            lines = [l for l in open(tmp).read().splitlines() if json.loads(l)["hist"][0]["kind"] == "good"]
            total = len(lines)
            if len(lines) > c and source != "consul":     # the consul source has no poll interval: all of them
                # every kind of change stays represented: a third of the sample are histories with a rename
                ren = [l for l in lines if any(st["kind"] == "rename" for st in json.loads(l)["hist"])]
                oth = [l for l in lines if l not in set(ren)]
                k = min(len(ren), c // 3)
                lines = rnd.sample(ren, k) + rnd.sample(oth, min(len(oth), c - k))
            with open(out[source], "a") as fh:
                for l in lines:
                    fh.write(l + "\n")
            counts["%s/%d" % (name, n)] = "%d of %d" % (len(lines), total)
    ctx.log("real-source histories: %s" % counts)
    return out


WIRE_CFG = """SPECIFICATION WireSpec
CONSTANTS
  Fold <- MCFold
  Good = {"A", "B"}
  Unusable = {}
  Failing = {}
  Clients = {}
  Reqs <- MCReqs
  MaxLoads = 0
  MaxHs = 0
  Refresh = 1
  SplitStore = FALSE
  SpinOnUnusable = FALSE
%s
INVARIANTS WireAsStated
CHECK_DEADLOCK FALSE
"""


def wiring(ctx):
    """main's wiring: listeners x certificate sources x strictness through config.Load + main.makeTLSConfig"""
    cases = os.path.join(ctx.tmp, "c11.wire")
    g = ctx.tlc("CertStore_MC", cfg_text=WIRE_CFG % "", workers=2, json_sink=cases, timeout=300)
    if not ctx.need_tlc_ok(g, "CertStore listeners"):
        return False
    dev = ctx.tlc("CertStore_MC", cfg_text=WIRE_CFG % "CONSTANT Effective <- SharedStrict", workers=1, timeout=300)
    if dev.violated != "WireAsStated":
        ctx.inconclusive("non-vacuity: the deviation SharedStrict should violate WireAsStated on the model but TLC reports %r %s"
                         % (dev.violated, (dev.error or "")[:300]))
        return False
    r = ctx.gotest(".", ["main/c11_test.go"], "^TestVerifC11Wiring$", env={"VERIF_IN": cases}, timeout=600)
    if not ctx.need_go_ok(r, "C11 wiring"):
        return False
    errs = r.of_kind("error")
    if errs:
        ctx.inconclusive("C11 wiring: harness error: %s" % errs[0].get("msg"))
        return False
    s = r.summary
    ctx.log("wiring: %d listener configurations through config.Load + main.makeTLSConfig, %d real handshakes; %d failed, %.0fs"
            % (s["cases"], s["handshakes"], s["fails"], r.wall))
    ctx.take_failures(r, "wiring")
    ctx.cover("wiring", traces_validated_against_impl=s["cases"], evaluations=s["handshakes"], distinct_nontrivial=s["distinct_nontrivial"],
              samples=(s.get("samples") or [])[:1])
    # binding self-test: listener 2 of a two-listener case is expected to present something else
    c = first_line(cases, lambda c: len(c["listeners"]) == 2)
    q = c["listeners"][1]["q"][1]
    q["want"] = 0 if q["want"] else 1
    one = os.path.join(ctx.tmp, "c11.wire.self")
    vf.write_ndjson(one, [c])
    t = ctx.gotest(".", ["main/c11_test.go"], "^TestVerifC11Wiring$", env={"VERIF_IN": one}, timeout=600)
    if not ctx.need_go_ok(t, "C11 wiring self-test"):
        return False
    if not t.of_kind("fail"):
        ctx.inconclusive("binding self-test: a corrupted listener expectation was NOT rejected by the wiring harness")
    return True


def first_line(path, pred):
    with open(path) as fh:
        for line in fh:
            c = json.loads(line)
            if pred(c):
                return c
    return None


def harness(ctx, env, what, timeout=600):
    r = ctx.gotest("cert", FILES, "^TestVerifC11$", env=env, race=True, timeout=timeout)
    if not ctx.need_go_ok(r, what):
        return None
    if "WARNING: DATA RACE" in r.out:
        # A race between a handshake reading the published set and its replacement IS the property
        # ("a handshake never sees a mixture of two sets"): when fabio's own code is on both sides or
        # on one side of the report it is a verdict; a race inside the harness alone is not.
        code, where = race_in_code(r.out)
        if not code:
            ctx.inconclusive("%s: the race detector reported a data race inside the harness\n%s" % (what, r.out[:3000]))
            return None
        ctx.violation({"sub": "race", "clause": "data-race", "where": where[0] if where else "?"},
                      "race: the race detector reports unsynchronised access to certificate state while handshakes run "
                      "concurrently with a set replacement (frames in fabio: %s):\n%s" % (", ".join(where[:6]), first_race(r.out)),
                      replay={"sub": "race", "case": {"frames": where[:12]}})
    errs = r.of_kind("error")
    if errs:
        ctx.inconclusive("%s: harness error: %s" % (what, errs[0].get("msg")))
        return None
    return r


def race_blocks(out):
    blocks, cur = [], None
    for line in out.splitlines():
        if line.startswith("WARNING: DATA RACE"):
            cur = [line]
        elif cur is not None:
            cur.append(line)
            if line.startswith("=================="):
                blocks.append(cur)
                cur = None
    if cur:
        blocks.append(cur)
    return blocks


def race_in_code(out):
    """(True, [file:line of fabio frames]) when a report has a frame in fabio's cert package itself (not a harness file)"""
    import re
    where = []
    for b in race_blocks(out):
        for line in b:
            m = re.match(r"\s+(/\S+?/(cert|main)?/?([\w.-]+\.go)):(\d+)", line)
            if not m:
                continue
            path, base = m.group(1), m.group(3)
            if base.startswith("zz_verif_") or "/internal/verifx/" in path or not path.startswith(vf.REPO.rstrip("/") + "/"):
                continue
            w = "%s:%s" % (os.path.relpath(path, vf.REPO), m.group(4))
            if w not in where:
                where.append(w)
    return bool(where), where


def first_race(out):
    b = race_blocks(out)
    return "\n".join(b[0][:40]) if b else ""


def validate(ctx, trace, what, eager=False):
    return ctx.tlc("CertStore_Trace", cfg="CertStore_TraceEager" if eager else "CertStore_Trace", workers=1,
                   env={"VERIF_TRACE": trace}, timeout=ctx.pick(300, 1200))


def handshake_part(src, dst):
    """the segments recorded with real TLS handshakes (mode of the enclosing Reset event)"""
    keep, out = False, []
    for line in open(src):
        e = json.loads(line)
        if e.get("ev") == "Reset":
            keep = e.get("mode") == "handshake"
        if keep:
            out.append(e)
    vf.write_ndjson(dst, out)
    return len(out)


def stuck(v, lines):
    """describe the event at which no behaviour of the specification could follow the trace"""
    ks = [j["stuck"] for j in v.json if isinstance(j, dict) and "stuck" in j]
    if not ks or not (1 <= ks[-1] <= len(lines)):
        return "some handshake was presented a certificate that is not Select of one set current during the handshake"
    k = ks[-1] - 1
    e = lines[k]
    seg = max(i for i in range(k + 1) if lines[i].get("ev") == "Reset")
    if e.get("ev") != "Ret":
        return "event %d %s cannot follow" % (k + 1, json.dumps(e))
    inv = max(i for i in range(k) if lines[i].get("ev") == "Inv" and lines[i].get("g") == e.get("g"))
    writes = [lines[i]["ev"] + ":" + lines[i]["set"] for i in range(seg, k) if lines[i].get("ev") in ("WInv", "WRet")]
    return ("a client asking for %r on a %s listener was presented certificate %s of set %r, which is not Select of any set current "
            "between its invocation (event %d) and response (event %d); writes before/inside: ...%s; sets: %s"
            % (".".join(lines[inv]["sni"]), "strict" if lines[seg].get("strict") else "non-strict", e.get("idx"), e.get("set"),
               inv + 1, k + 1, " ".join(writes[-4:]), json.dumps(lines[seg].get("sets"))))


def corrupt_trace(src, dst):
    """binding self-test: one recorded leaf is replaced by the same position of another set."""
    lines = [json.loads(l) for l in open(src)]
    k = None
    for i, e in enumerate(lines):
        if e.get("ev") == "Ret" and e.get("idx", 0) >= 1 and i > len(lines) // 2:
            k = i
            break
    if k is None:
        for i, e in enumerate(lines):
            if e.get("ev") == "Ret" and e.get("idx", 0) >= 1:
                k = i
                break
    if k is None:
        return False
    lines[k]["set"] = "Z"
    vf.write_ndjson(dst, lines)
    return True


def run(ctx):
    ctx.level = "model_checking"
    ctx.assumptions += [
        "certificate names are lower case; the requested name varies in case, trailing dots, absence; no two certificates of a set carry the same name (the statement does not rank them)",
        "universe: sequences of <=3 certificates, CN and <=2 SANs over {a.com, *.com, *.a.com, b.a.com}; 16 requested names; strict on/off",
        "watcher: good contents A/B (incl. combined cert+key files, alphabetical default), unusable = nothing usable at all (broken PEM, key missing, foreign key), failing source; partially usable material is not judged (the statement is silent)",
        "time: refresh 1 s; a reload less than refresh/3 after a load that published nothing is a spin; slower never fails",
        "trace validation: write bracket = harness tickets around handing the set to the TLSConfig goroutine (second rendez-vous on the unbuffered channel = stored)",
    ]
    if not model(ctx):
        return
    gen = generate(ctx)
    if gen is None:
        return
    sel, watch = gen

    # self-test inputs: one corrupted expectation each
    c = first_line(sel, lambda c: len(c["set"]) >= 2)
    self_sel = self_watch = None
    if c:
        q = c["q"][1]
        q["lax"] = 2 if q["lax"] != 2 else 1
        self_sel = os.path.join(ctx.tmp, "c11.select.self")
        vf.write_ndjson(self_sel, [c])
    h = first_line(watch, lambda c: c["hist"][0]["kind"] == "good" and c["hist"][1]["kind"] == "unusable")
    if h:
        h["hist"][1]["pub"] = "B"
        self_watch = os.path.join(ctx.tmp, "c11.watch.self")
        vf.write_ndjson(self_watch, [h])
    if not (self_sel and self_watch):
        ctx.inconclusive("no usable case for the binding self-test")
        return

    # the real sources: histories, the static single-certificate cases, one corrupted history
    srcs = generate_sources(ctx)
    if srcs is None:
        return
    files = os.path.join(ctx.tmp, "c11.file")
    singles = []
    with open(sel) as fh:
        for line in fh:
            c = json.loads(line)
            if len(c["set"]) == 1:
                singles.append(c)
    vf.write_ndjson(files, singles)
    hs = first_line(srcs["path"], lambda c: c["hist"][0]["kind"] == "good" and c["hist"][1]["kind"] == "unusable")
    if not hs:
        ctx.inconclusive("no usable real-source history for the binding self-test")
        return
    hs["hist"][1]["pub"] = "B" if hs["hist"][0]["content"] != "B" else "A"
    self_src = os.path.join(ctx.tmp, "c11.src.self")
    vf.write_ndjson(self_src, [hs])

    trace = os.path.join(ctx.tmp, "c11.trace")
    segs, per, writes, direct, dwrites = ctx.pick((2, 25, 8, 3, 200), (10, 60, 16, 12, 400))
    env = {"VERIF_IN": sel, "VERIF_IN_WATCH": watch, "VERIF_IN_SELECT_SELF": self_sel, "VERIF_IN_WATCH_SELF": self_watch,
           "VERIF_TRACE_OUT": trace, "VERIF_TRACE_SEGMENTS": segs, "VERIF_TRACE_PER_CLIENT": per, "VERIF_TRACE_WRITES": writes,
           "VERIF_TRACE_DIRECT": direct, "VERIF_TRACE_DIRECT_WRITES": dwrites,
           "VERIF_IN_SRC_PATH": srcs["path"], "VERIF_IN_SRC_HTTP": srcs["http"], "VERIF_IN_SRC_CONSUL": srcs["consul"], "VERIF_IN_FILE": files, "VERIF_IN_SRC_SELF": self_src}
    r = harness(ctx, env, "C11 harness", timeout=ctx.pick(600, 1500))
    if r is None:
        return
    s = r.summary
    ctx.log("select: %d sets, %d GetCertificate calls; watch: %d histories, %d loads; trace: %d handshakes (%d refused), "
            "%d direct GetCertificate calls (%d recorded), %d writes; %d failed, %.0fs"
            % (s["select_cases"], s["select_evals"], s["watch_cases"], s["watch_loads"], s["trace_handshakes"],
               s["trace_refused"], s["trace_direct_calls"], s["trace_direct_kept"], s["trace_writes"], s["fails"], r.wall))
    ctx.log("real sources: path %d histories (%d loads, %d given up), http %d histories (%d loads), consul %d histories (%d loads), "
            "file %d cases; %d GetCertificate calls"
            % (s["path_cases"], s["path_loads"], s["path_skipped"], s["http_cases"], s["http_loads"], s["consul_cases"], s["consul_loads"],
               s["file_cases"], s["path_evals"] + s["http_evals"] + s["consul_evals"] + s["file_evals"]))
    if s.get("source_reruns"):
        ctx.log("real sources: %d histories disagreed once and were run again: %s"
                % (s["source_reruns"], [n.get("msg", "")[:300] for n in r.of_kind("note")][:3]))
    ctx.take_failures(r, "c11")
    if s["path_skipped"] > s["path_cases"] // 10:
        ctx.inconclusive("real path source: %d of %d histories could not be stepped without letting the loader see a "
                         "directory state that never existed" % (s["path_skipped"], s["path_cases"]))
    if not s.get("source_selftest_rejected"):
        ctx.inconclusive("binding self-test: a corrupted real-source history was NOT rejected by the harness")
    if s.get("trace_infra"):
        ctx.inconclusive("trace recording: infrastructure errors: %s" % s["trace_infra"][:3])
        return
    if not s.get("select_selftest_rejected"):
        ctx.inconclusive("binding self-test: a corrupted Select expectation was NOT rejected by the harness")
    if not s.get("watch_selftest_rejected"):
        ctx.inconclusive("binding self-test: a corrupted watcher history was NOT rejected by the harness")

    if not wiring(ctx):
        return

    # C->S: the recorded concurrent execution must be a behaviour of the specification
    v = validate(ctx, trace, "trace")
    nev = sum(1 for _ in open(trace))
    ctx.log("trace validation: %d events, %d states, %s, %.0fs" % (nev, v.distinct, v.violated or "accepted", v.wall))
    accepted = 0
    if v.violated == "postcondition":
        lines = [json.loads(l) for l in open(trace)]
        ctx.violation({"sub": "trace", "clause": "not-a-behaviour"},
                      "trace: the recorded execution (%d events) is not a behaviour of CertStore: %s" % (nev, stuck(v, lines)),
                      replay={"sub": "trace", "case": lines})
    elif not ctx.need_tlc_ok(v, "trace validation"):
        return
    else:
        accepted = segs + direct
        if ctx.thorough:
            # cross-check of the reduction in CertStore_Trace!TRet: explicit silent HsLoad steps
            hp = os.path.join(ctx.tmp, "c11.trace.hs")
            n = handshake_part(trace, hp)
            ve = validate(ctx, hp, "eager", eager=True)
            ctx.log("eager validation of the handshake segments: %d events, %d states, %s, %.0fs"
                    % (n, ve.distinct, ve.violated or "accepted", ve.wall))
            if not ve.ok:
                ctx.inconclusive("CertStore_Trace: TSpec accepted the trace but TSpecEager did not (%r %s)"
                                 % (ve.violated, (ve.error or "")[:300]))
    bad = os.path.join(ctx.tmp, "c11.trace.bad")
    if not corrupt_trace(trace, bad):
        ctx.inconclusive("binding self-test: the recorded trace has no successful handshake to corrupt")
    else:
        vb = validate(ctx, bad, "corrupted trace")
        if vb.violated != "postcondition":
            ctx.inconclusive("binding self-test: a trace with one corrupted leaf was NOT rejected by TLC (%r %s)"
                             % (vb.violated, (vb.error or "")[:300]))

    ctx.cover("trace", states=v.distinct, transitions=v.generated)
    ctx.cover(traces_validated_against_impl=s["select_cases"] + s["watch_cases"] + accepted + s["path_cases"] - s["path_skipped"]
              + s["http_cases"] + s["consul_cases"] + s["file_cases"],
              evaluations=s["select_evals"] + s["watch_loads"] + s["trace_handshakes"] + s["trace_direct_calls"]
              + s["path_evals"] + s["http_evals"] + s["consul_evals"] + s["file_evals"],
              distinct_nontrivial=s["select_nontrivial"] + s["watch_nontrivial"] + s["path_nontrivial"] + s["http_nontrivial"] + s["consul_nontrivial"],
              samples=(s.get("select_samples") or [])[:2] + (s.get("watch_samples") or [])[:2],
              rule="one case per certificate set TLC enumerated (x 16 names x strict), one per complete watcher history, "
                   "plus recorded concurrent handshake traces accepted by CertStore_Trace; non-trivial = sets of >=2 "
                   "certificates, histories with >=2 kinds of load")


def replay(ctx, rp):
    sub = (rp.get("replay") or {}).get("sub")
    case = (rp.get("replay") or {}).get("case")
    feats = rp.get("features") or {}
    if feats.get("sub") == "trace" or sub == "trace":
        p = os.path.join(ctx.tmp, "c11.trace")
        vf.write_ndjson(p, case)
        v = validate(ctx, p, "trace")
        if v.violated == "postcondition":
            ctx.violation(feats, rp.get("message", "trace rejected"), replay=rp.get("replay"))
        else:
            ctx.need_tlc_ok(v, "trace validation")
        ctx.cover(evaluations=1)
        return
    one = os.path.join(ctx.tmp, "c11.replay")
    vf.write_ndjson(one, [case])
    if feats.get("sub") == "wiring":
        one = os.path.join(ctx.tmp, "c11.replay")
        vf.write_ndjson(one, [case])
        r = ctx.gotest(".", ["main/c11_test.go"], "^TestVerifC11Wiring$", env={"VERIF_IN": one}, timeout=600)
        if ctx.need_go_ok(r, "C11 replay"):
            ctx.cover(evaluations=1)
            ctx.take_failures(r, "wiring")
        return
    if feats.get("sub") == "race":
        ctx.inconclusive("a race report is replayed by running the check again (bin/check C11)")
        return
    if feats.get("sub") == "source" and feats.get("source") == "file":
        env = {"VERIF_IN_FILE": one}
    elif feats.get("sub") == "source":
        env = {"VERIF_IN_SRC_PATH": one}    # the recorded case names its source (path / http)
    elif feats.get("sub") == "watch":
        env = {"VERIF_IN_WATCH": one}
    else:
        env = {"VERIF_IN": one}
    r = harness(ctx, env, "C11 replay")
    if r is None:
        return
    ctx.cover(evaluations=1)
    ctx.take_failures(r, "c11")
