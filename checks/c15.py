"""C15 - configuration means the same from every source, with fixed precedence.

spec: ConfigSources.tla (Load as a small state machine over one option: ParseCmdline, ReadFile,
      ApplyEnv, ApplyFile, Validate) + ConfigSources_MC.tla (universe, generator)
TLC : invariants "result value = Effective", "cfg or error", single-source equivalence, pairwise
      precedence, termination; generator = one line per completed Load
bind: every generated Load concretised for EVERY option found (go/ast) in the current
      config/load.go and run through real config.Load (harness/config/c15_test.go, worker
      processes); accepted boundary configurations are built and used (c15_run_test.go)"""
import json, os
from lib import vf

CFG = """SPECIFICATION %(spec)s
CONSTANTS
  Vals <- MCVals
  Bad <- MCBad
  Spellings <- MCSpellings
  JunkClasses <- MCJunk
  NbrSays <- %(nbr)s
  Runnable <- MCRunnable
  MaxLoads = %(loads)d
  HistGivens <- %(givens)s
%(inv)s
CHECK_DEADLOCK FALSE
"""
INV = ("INVARIANTS TypeOK TwoOutcomes ResultIsEffective ErrorIsJustified BadIsRejected SingleSource PairPrecedence HistoryIndependent NeighbourIndependent AcceptedIsRunnable NeverPartial\n"
       "PROPERTY Terminates")
HINV = "INVARIANTS TypeOK TwoOutcomes ResultIsEffective ErrorIsJustified BadIsRejected HistoryIndependent"
FILES = ["config/c15_test.go", "config/c15_history_test.go", "config/c15_run_test.go"]


def harness(ctx, cases, what, env=None, run="^TestVerifC15$", timeout=1500):
    e = {"VERIF_IN": cases, "VERIF_C15_PROCS": 8}
    if env:
        e.update(env)
    r = ctx.gotest("config", FILES, run, env=e, timeout=timeout)
    for rec in r.of_kind("error"):
        ctx.inconclusive("%s: harness error: %s" % (what, rec.get("msg", "")[:1500]))
    if not ctx.need_go_ok(r, what):
        return None
    return r


def run(ctx):
    ctx.level = "model_checking"
    ctx.assumptions += [
        "one option at a time: values {v1, v2, candidate-bad} concretised per option type / validation table; Bad of the model = values the tree refuses when given alone on the command line",
        "environment names spelled UPPER, as documented (FABIO_name_with_underscores) and aLtErNaTiNg; two entries for the same variable differing only in case or value are out of scope (statement silent)",
        "ill-formed COMMAND-LINE values are excluded (flag.ExitOnError exits the process: neither a panic nor part of the statement); ill-typed environment/file values only have to not panic",
        "a junk properties file may be refused (error) or read as saying nothing about the option; both are accepted",
        "runnability = build glob cache / picker / matcher from the accepted configuration and look routes up; listeners, registry and metrics back ends are not started",
    ]
    # 1. the model: exhaustive over the full product in thorough, over the generator's universe in quick
    spec = ctx.pick("SmallSpec", "Spec")
    mc = ctx.tlc("ConfigSources_MC", cfg_text=CFG % dict(spec=spec, inv=INV, loads=1, givens="MCNoGivens", nbr="MCNbrSays"), workers=ctx.pick(4, 8),
                 coverage=ctx.thorough, timeout=ctx.pick(120, 900))
    ctx.log("MC(%s): %d generated, %d distinct, %.0fs" % (spec, mc.generated, mc.distinct, mc.wall))
    if not ctx.need_tlc_ok(mc, "ConfigSources MC"):
        return
    if ctx.thorough and mc.coverage0:
        ctx.inconclusive("ConfigSources MC: actions never taken: %s" % mc.coverage0)
        return
    ctx.cover("mc", states=mc.distinct, transitions=mc.generated)

    # 2. the generator: one case per completed Load
    cases = os.path.join(ctx.tmp, "c15.cases")
    g = ctx.tlc("ConfigSources_MC", cfg_text=CFG % dict(spec="GenSpec", inv="INVARIANTS " + ctx.pick("PrintDegenerate2", "PrintDegenerate3"), loads=1, givens="MCNoGivens", nbr="MCNbrSays"), workers=4, json_sink=cases, timeout=300)
    if not ctx.need_tlc_ok(g, "ConfigSources Gen"):
        return
    ncases = sum(1 for _ in open(cases))
    ctx.log("Gen: %d completed Loads, %.0fs" % (ncases, g.wall))
    if ncases < 1000:
        ctx.inconclusive("generator produced only %d cases" % ncases)
        return
    ctx.cover("gen", states=g.distinct, transitions=g.generated)

    # 2b. histories: several Loads in one process
    hcases = os.path.join(ctx.tmp, "c15.hist")
    gh = ctx.tlc("ConfigSources_MC", cfg_text=CFG % dict(spec="HistGenSpec", inv=HINV, loads=3, givens="MCHistGivens", nbr="MCNoNbr"), workers=4,
                 json_sink=hcases, coverage=ctx.thorough, timeout=300)
    if not ctx.need_tlc_ok(gh, "ConfigSources Hist"):
        return
    if ctx.thorough and gh.coverage0:
        ctx.inconclusive("ConfigSources Hist: actions never taken: %s" % gh.coverage0)
        return
    nh = sum(1 for _ in open(hcases))
    ctx.log("Hist: %d histories of 3 Loads (%d states), %.0fs" % (nh, gh.distinct, gh.wall))
    if nh < 100:
        ctx.inconclusive("history generator produced only %d histories" % nh)
        return
    ctx.cover("hist", states=gh.distinct, transitions=gh.generated)

    # 3. replay into config.Load for every registered option
    r = harness(ctx, cases, "C15 replay",
                env={"VERIF_C15_EXTRA_EVERY": ctx.pick(8, 1), "VERIF_C15_DEEP_EVERY": ctx.pick(4, 1), "VERIF_C15_HIST": hcases,
                     "VERIF_C15_HIST_EVERY": ctx.pick(12, 1), "VERIF_C15_DEG_FEW": ctx.pick(3, 12), "VERIF_C15_NBR_EVERY": ctx.pick(3, 1),
                     "VERIF_C15_ROBUST": ctx.pick(4000, 60000)})
    if r is None:
        return
    s = r.summary
    ctx.log("options %d (of %d registered), %d case x option replays, %d Loads in %d processes, %d robustness Loads, %d failed, %.0fs"
            % (s["options"], s["all_options"], s["ran"], s["loads"], s["procs"], s["robust"], s["failed"], r.wall))
    ctx.log("degenerate values: %d replays; histories: %d options x %d histories = %d Loads in one process (%d references from fresh processes)"
            % (s.get("degenerate_replays", 0), s.get("hist_options", 0), nh, s.get("hist_steps", 0), s.get("fresh_refs", 0)))
    ctx.log("file fetched from a URL (complete / truncated / reset / 404 / 500): %d replays" % s.get("fetch_replays", 0))
    if s.get("fetch_replays", 0) < 500:
        ctx.inconclusive("only %s replays with the file fetched from a URL" % s.get("fetch_replays"))
    ctx.log("two options at a time: %d replays with a well-/ill-formed neighbour value before or after the option" % s.get("neighbour_replays", 0))
    if s.get("degenerate_replays", 0) < 1000 or s.get("hist_steps", 0) < 1000 or s.get("neighbour_replays", 0) < 1000:
        ctx.inconclusive("degenerate / history part incomplete: %s" % json.dumps({k: s.get(k) for k in ("degenerate_replays", "hist_steps")}))
    if s.get("flaky"):
        ctx.log("%d Loads disagreed once and agreed when repeated (transient interface-query errors of the OS); not judged" % s["flaky"])
    unobs = s.get("unobservable") or []
    if unobs:
        ctx.log("options whose value does not show in Config (equivalence vacuous): %s" % ", ".join(map(str, unobs)))
    if s.get("bad_accepted"):
        ctx.log("candidate-bad values accepted by this tree (treated as a third value): %s" % ", ".join(map(str, s["bad_accepted"])))
    for n in r.of_kind("note"):
        ctx.log("note:", n.get("msg"))
    if s["options"] != s["all_options"] or s["all_options"] < 100:
        ctx.inconclusive("only %d of %d registered options were replayed" % (s["options"], s["all_options"]))
    if len(unobs) * 10 > s["all_options"]:
        ctx.inconclusive("%d of %d options are not observable in Config: the comparison would be vacuous" % (len(unobs), s["all_options"]))
    ctx.cover("history", traces_validated_against_impl=s.get("hist_steps", 0), samples=s.get("hist_samples") or [])
    ctx.cover("replay", traces_validated_against_impl=s["ran"] + s.get("degenerate_replays", 0), evaluations=s["loads"], distinct_nontrivial=s["distinct_nontrivial"],
              samples=s.get("samples") or [],
              rule="one replay per (completed Load of the model) x (registered option); non-trivial = at least two sources set for an option whose two values give different configurations, configuration equal to the winner's")
    for rec in r.of_kind("fail")[:2000]:
        sub = "history" if rec.get("features", {}).get("sub") == "history" else "sources"
        ctx.violation(rec.get("features", {}), "%s: %s" % (sub, rec.get("msg", "")), replay={"sub": sub, "case": rec.get("case")})

    # 4. accepted configurations can be run
    rr = harness(ctx, "", "C15 runnability", run="^TestVerifC15Run$")
    if rr is None:
        return
    s2 = rr.summary
    ctx.log("runnability: %d boundary assignments, %d accepted and used, %d rejected, %d failed, %.0fs"
            % (s2["ran"], s2["accepted"], s2["rejected"], s2["fails"], rr.wall))
    if s2["accepted"] < 20:
        ctx.inconclusive("runnability: only %d boundary configurations were accepted" % s2["accepted"])
    ctx.cover("run", evaluations=s2["ran"], samples=s2.get("samples") or [])
    ctx.take_failures(rr, "run")

    # 5. binding self-test: a corrupted expectation (the loser declared winner) must be rejected
    st = None
    with open(cases) as fh:
        for line in fh:
            c = json.loads(line)
            if "cmd" not in c:
                continue
            if c.get("nsrc", "-") != "-" or c.get("fetch", "path") != "path":
                continue
            if c["cmd"] == "v1" and c["fenv"] == "v2" and c["result"] == "cfg" and not c["junk"] and c["fstate"] == "absent" and c["env"] == "-":
                st = c
                break
    if st is None:
        ctx.inconclusive("no usable case for the binding self-test")
        return
    st["winner"], st["value"] = "fenv", "v2"
    one = os.path.join(ctx.tmp, "c15.selftest")
    vf.write_ndjson(one, [st])
    r2 = harness(ctx, one, "C15 self-test", env={"VERIF_C15_PROCS": 2, "VERIF_C15_ONLY": "proxy.maxconn,proxy.addr,insecure,proxy.shutdownwait"})
    if r2 is None:
        return
    if len(r2.of_kind("fail")) < 3:
        ctx.inconclusive("binding self-test: a corrupted expected winner was NOT rejected by the harness")
    # ... and of the history part: the second Load of a history is said to return the first one's value
    hs = None
    with open(hcases) as fh:
        for line in fh:
            h = json.loads(line)["hist"]
            if h[0]["value"] == "v1" and h[1]["value"] == "default" and h[2]["value"] == "v2":
                hs = h
                break
    if hs is None:
        ctx.inconclusive("no usable history for the binding self-test")
        return
    hs[1]["value"], hs[1]["winner"] = "v1", "cmd"
    hone = os.path.join(ctx.tmp, "c15.hselftest")
    vf.write_ndjson(hone, [{"hist": hs, "opt": "registry.consul.service.status"}, {"hist": hs, "opt": "proxy.maxconn"}])
    empty = os.path.join(ctx.tmp, "c15.empty")
    open(empty, "w").close()
    r3 = harness(ctx, empty, "C15 history self-test", env={"VERIF_C15_PROCS": 1, "VERIF_C15_HIST": hone})
    if r3 is None:
        return
    if sum(1 for f in r3.of_kind("fail") if f.get("features", {}).get("clause") == "history-dependent-result") < 2:
        ctx.inconclusive("binding self-test: a corrupted history expectation was NOT rejected by the harness")


def replay(ctx, rp):
    sub = rp["replay"]["sub"]
    one = os.path.join(ctx.tmp, "c15.replay")
    vf.write_ndjson(one, [rp["replay"]["case"]])
    if sub == "run":
        r = harness(ctx, one, "C15 replay", run="^TestVerifC15Run$")
    elif sub == "history":
        empty = os.path.join(ctx.tmp, "c15.empty")
        open(empty, "w").close()
        r = harness(ctx, empty, "C15 replay", env={"VERIF_C15_PROCS": 1, "VERIF_C15_HIST": one})
    else:
        r = harness(ctx, one, "C15 replay", env={"VERIF_C15_PROCS": 1})
    if r is None:
        return
    ctx.cover(evaluations=1)
    ctx.take_failures(r, sub)
