"""C09 - tcp, tcp+sni, tcp-dynamic and websocket tunnels are transparent byte streams.

spec: Tunnel.tla (+ Tunnel_MC.tla: bounded scenario universe, generator)
TLC : the property configuration (both deviations of the pinned code off) must satisfy
      PrefixInv, FirstFinisherDelivered, HalfCloseGetsReply, Transparent and never get stuck,
      over every scenario and every interleaving; each deviation, switched on alone, must be
      caught by TLC (otherwise the model could not tell the designs apart -> inconclusive);
      every terminal state prints the scenario and the streams the specification delivered
bind: each scenario is played over loopback against the real tcp.Server + Proxy / SNIProxy /
      DynamicProxy (harness/proxy/tcp/c09_test.go) and the real HTTPProxy websocket path
      (harness/proxy/c09ws_test.go) by scripted endpoints ordered by causality only"""
import json, os, random, subprocess, threading, time
from concurrent.futures import ThreadPoolExecutor
from lib import vf

CFG = """SPECIFICATION Spec
CONSTANTS
  Scenarios <- MCValid
  EndOnFirstEOF = %(eof)s
  CopyFromRawConn = %(raw)s
  DropDataWithEOF = %(drop)s
  AbortOnError = %(abort)s
  ResetOnError = %(reset)s
  ReadTimeoutArmsWrite = %(rtw)s
  WriteTimeoutArmsRead = %(wtr)s
  StaleTargetOptions = %(stale)s
  DialDeadlineStays = %(dds)s
  RefreshClosesTunnels = %(rct)s
  PeekN = 1
  MaxC = %(maxc)d
  MaxU = %(maxu)d
  Kinds = %(kinds)s
INVARIANTS %(inv)s
%(dl)s
"""
PROPS = "PrefixInv FirstFinisherDelivered HalfCloseGetsReply Transparent"
ALL_KINDS = '{"tcp", "sni", "ws"}'
ACTIONS = ["CWrite", "CFin", "CRead", "CCloseAfterEOF", "CAbort", "UWrite", "UFin", "URead", "UCloseAfterEOF", "Peek",
           "ReadHello", "Dial", "DialRefused", "ProxyHdr", "ReplayHello", "Ws101", "CURead", "CUWrite", "CUEof", "CUTimeout", "UCRead",
           "UCWrite", "UCEof", "Finish"]
SPLITS = [0, 1, 5, 8, 9, 10, 11, 43, 100, -1, -2]


COPIER_CFG = """SPECIFICATION Spec
CONSTANTS
  Scripts <- MCScripts
  DropDataWithEOF = %s
  MaxReads = %d
INVARIANTS InOrder AllDelivered %s
"""


def cfg(eof=False, raw=False, drop=False, abort=False, reset=False, rtw=False, wtr=False, stale=False, dds=False, rct=False, maxc=2, maxu=2, kinds=ALL_KINDS, gen=False, deadlock=True):
    tf = lambda b: "TRUE" if b else "FALSE"
    return CFG % dict(eof=tf(eof), raw=tf(raw), drop=tf(drop), abort=tf(abort), reset=tf(reset), rtw=tf(rtw), wtr=tf(wtr), stale=tf(stale), dds=tf(dds), rct=tf(rct), maxc=maxc, maxu=maxu,
                      kinds=kinds, inv=PROPS + (" GenOut" if gen else ""),
                      dl="" if deadlock else "CHECK_DEADLOCK FALSE")


SESS_CFG = """SPECIFICATION Spec
CONSTANTS
  N = 3
  Shapes <- %s
  PoolStaleLen = %s
  PoolDoublePut = %s
  Quiesce = %s
%s
INVARIANTS RoutedByOwnName OwnStream %s Delivered %s
%s
"""


def go_sessions(ctx, cases, what, timeout=600):
    # built with the race detector: connections through one proxy instance must not share state; a report whose
    # frames lie in fabio's own files (not the harness) is a cross-connection effect and a verdict
    r = ctx.gotest("proxy/tcp", ["proxy/tcp/c09_test.go", "proxy/tcp/c09sess_test.go"], "^TestVerifC09Sessions$", env={"VERIF_IN": cases}, timeout=timeout, race=True)
    if "WARNING: DATA RACE" in r.out:
        rep = r.out.split("WARNING: DATA RACE", 1)[1][:4000]
        own = [ln.strip() for ln in rep.splitlines() if ".go:" in ln and "/proxy/tcp/" in ln and "zz_verif" not in ln and "/internal/verifx/" not in ln]
        if own:
            ctx.violation({"sub": "sessions", "clause": "data-race", "where": own[0].split()[0]},
                          "connections served by one tcp proxy instance share state without synchronisation (race detector):\n" + rep[:2500],
                          replay={"sub": "sessions-race", "case": None})
    return r if ctx.need_go_ok(r, what) else None


def sessions_start(ctx, prop):
    """Starts the TLC runs of Sessions.tla in the background (they overlap with the other model checking)."""
    ex = ThreadPoolExecutor(max_workers=2)
    sink = os.path.join(ctx.tmp, "%s.sessions.gen" % prop)
    return {
        "mc": tlc_bg(ctx, ex, "Sessions_MC", cfg_text=SESS_CFG % (ctx.pick("MCShapesQuick", "MCShapes"), "FALSE", "FALSE", "FALSE", "VIEW View", "RoutedWhenComplete", "", ""), workers=3, timeout=600),
        "gen": tlc_bg(ctx, ex, "Sessions_MC", cfg_text=SESS_CFG % (ctx.pick("MCShapesQuick", "MCShapes"), "FALSE", "FALSE", "TRUE", "", "", "GenOut", ""), workers=3, json_sink=sink, timeout=600),
        "PoolStaleLen": tlc_bg(ctx, ex, "Sessions_MC", cfg_text=SESS_CFG % (ctx.pick("MCShapesQuick", "MCShapes"), "TRUE", "FALSE", "FALSE", "VIEW View", "RoutedWhenComplete", "", "CHECK_DEADLOCK FALSE"), workers=2, timeout=300),
        "PoolDoublePut": tlc_bg(ctx, ex, "Sessions_MC", cfg_text=SESS_CFG % (ctx.pick("MCShapesQuick", "MCShapes"), "FALSE", "TRUE", "FALSE", "VIEW View", "RoutedWhenComplete", "", "CHECK_DEADLOCK FALSE"), workers=2, timeout=300),
        "sink": sink,
    }


def sessions(ctx, prop, futs=None):
    """Histories of several connections through one tcp+sni proxy instance (Sessions.tla): TLC checks every
    interleaving of up to three connections, generates the client schedules, a seeded sample is played.
    Shared by C09 (streams) and C10 (routing name)."""
    futs = futs or sessions_start(ctx, prop)
    mc = futs["mc"].result()
    if not ctx.need_tlc_ok(mc, "Sessions"):
        return False
    ctx.cover("sessions_mc", states=mc.distinct, transitions=mc.generated)
    for name in ("PoolStaleLen", "PoolDoublePut"):
        d = futs[name].result()
        if d.timed_out or d.error or d.violated not in ("RoutedByOwnName", "OwnStream", "RoutedWhenComplete", "Delivered"):
            ctx.inconclusive("Sessions: %s = TRUE is not caught by TLC (got %r / %r)" % (name, d.violated, d.error))
            return False
    sink = futs["sink"]
    g = futs["gen"].result()
    if not ctx.need_tlc_ok(g, "Sessions generator"):
        return False
    seen = {}
    with open(sink) as fh:
        for line in fh:
            o = json.loads(line)
            seen[json.dumps([o["shape"], o["sched"]])] = o
    keys = sorted(seen)
    rng = random.Random(ctx.seed * 104729 + 7)
    pick = rng.sample(keys, min(len(keys), ctx.pick(90, 700)))
    cases = [dict(shape=seen[k]["shape"], sched=seen[k]["sched"], id=i) for i, k in enumerate(pick)]
    f = os.path.join(ctx.tmp, "%s.sessions" % prop)
    vf.write_ndjson(f, cases)
    r = go_sessions(ctx, f, "%s sessions" % prop)
    if r is None:
        return False
    sm = r.summary
    ctx.log("sessions: %d interleaving states checked, %d client schedules generated, %d played through one SNIProxy (%d connections; hellos of %d and %d bytes), %d failed, %d without verdict, %.0fs"
            % (mc.distinct, len(keys), sm["ran"], sm["connections"], sm["hello_sizes"]["S"], sm["hello_sizes"]["L"], sm["fails"], sm["hangs"], r.wall))
    ctx.cover("sessions", traces_validated_against_impl=sm["ran"], evaluations=sm["connections"], samples=sm.get("samples") or [])
    ctx.take_failures(r, "sessions")
    for h in r.of_kind("hang")[:3]:
        ctx.inconclusive("sessions: a session did not finish once but did when played again: %s" % h.get("msg"))
    return True


_start = threading.Lock()
_slots = threading.Semaphore(3)
_pool = ThreadPoolExecutor(max_workers=16)


def tlc_bg(ctx, ex, *a, prio=False, **kw):
    """ctx.tlc in a background thread.  At most three background runs at a time (prio: does not wait for a slot);
    the calls enter ctx.tlc one after the other so that each gets its own scratch directory."""
    def job():
        if not prio:
            _slots.acquire()
        try:
            box = {}
            with _start:
                d = os.path.join(ctx.tmp, "tlc%d" % (ctx._tlc_n + 1))
                th = threading.Thread(target=lambda: box.update(r=ctx.tlc(*a, **kw)))
                th.start()
                t0 = time.time()
                while not os.path.isdir(d) and th.is_alive() and time.time() - t0 < 20:
                    time.sleep(0.01)
            th.join()
            return box.get("r")
        finally:
            if not prio:
                _slots.release()
    return _pool.submit(job)


def tlc_now(ctx, *a, **kw):
    """ctx.tlc while background runs may be active"""
    return tlc_bg(ctx, None, *a, prio=True, **kw).result()


def go_copy(ctx, cases, what, timeout=300):
    r = ctx.gotest("proxy/tcp", ["proxy/tcp/c09copy_test.go"], "^TestVerifC09Copy$", env={"VERIF_IN": cases}, timeout=timeout)
    return r if ctx.need_go_ok(r, what) else None


_fabio = {}


def build_fabio(ctx):
    """the real binary, for the tcp-dynamic listener scenarios (built once per run, in the background)"""
    def job():
        gobin, genv = vf.go_tool()
        binp = os.path.join(ctx.tmp, "fabio")
        b = subprocess.run([gobin, "build", "-o", binp, "."], cwd=vf.REPO, env=genv, capture_output=True, text=True)
        return binp if b.returncode == 0 else "!" + (b.stdout + b.stderr)[-1500:]
    _fabio[id(ctx)] = _pool.submit(job)


def go_tcp(ctx, cases, what, lanes=12, timeout=840):
    env = {"VERIF_IN": cases, "VERIF_LANES": lanes}
    f = _fabio.get(id(ctx))
    if f is not None:
        binp = f.result()
        if binp.startswith("!"):
            ctx.inconclusive("fabio does not build:\n" + binp[1:])
        else:
            env["VERIF_FABIO_BIN"] = binp
    r = ctx.gotest("proxy/tcp", ["proxy/tcp/c09_test.go"], "^TestVerifC09$",
                   env=env, timeout=timeout)
    return r if ctx.need_go_ok(r, what) else None


def go_ws(ctx, cases, what, lanes=8, timeout=840):
    r = ctx.gotest("proxy", ["proxy/c09ws_test.go"], "^TestVerifC09WS$",
                   env={"VERIF_IN": cases, "VERIF_LANES": lanes}, timeout=timeout)
    return r if ctx.need_go_ok(r, what) else None


def build_cases(ctx, sink):
    """One case per (scenario, path, spelling); the expected streams are TLC's terminal states."""
    by = {}
    with open(sink) as fh:
        for line in fh:
            o = json.loads(line)
            if o["sc"]["dead"] == 1 and not o["uconn"]:
                continue        # refused dial, connection given up: nothing tunnelled; expected streams are those of the retry
            k = json.dumps(o["sc"], sort_keys=True)
            by.setdefault(k, {})[json.dumps([o["crecv"], o["urecv"]])] = o
    ambiguous = [k for k, v in by.items() if len(v) != 1]
    if ambiguous:
        ctx.inconclusive("Tunnel: %d scenario(s) end in more than one delivered-stream outcome in the property configuration, e.g. %s"
                         % (len(ambiguous), ambiguous[0]))
        return None, None, 0
    rng = random.Random(ctx.seed * 7919 + 17)
    tcp, ws, rtc, idle, dynb = [], [], [], [], []
    pause = {"tcp": [], "tls": [], "dyn": [], "sni": []}
    n = 0
    for k in sorted(by):
        o = list(by[k].values())[0]
        sc = o["sc"]
        err = sc["uslow"] == 1
        if sc["dead"] == 1:
            # two instances with different options, the first dial refused
            for path in {"tcp": ["tcp"], "sni": ["sni"]}[sc["kind"]]:
                n += 1
                c = dict(o)
                c.update(path=path, spell=rng.choice(["tiny", "line", "mix"]), hello=rng.choice(["tls13", "tls12"]), split=rng.choice(SPLITS), id=n)
                if path == "tls":
                    c.update(tlsver=rng.choice([12, 13]), cork=True)
                tcp.append(c)
            continue
        if sc["dt"] == 1:
            # proxies with a short dial timeout (proxy.dialtimeout) and a tunnel that outlives it
            for path in {"tcp": ["tcp", "tls"] + (["dyn"] if sc["proxy"] == 0 else []), "sni": ["sni"]}[sc["kind"]]:
                n += 1
                c = dict(o)
                c.update(path=path, spell=rng.choice(["tiny", "line", "mix"]), hello=rng.choice(["tls13", "tls12"]), split=rng.choice(SPLITS), id=n, conf="dt")
                if path == "tls":
                    c.update(tlsver=rng.choice([12, 13]), cork=True)
                idle.append(c)
            continue
        if sc["refresh"] == 1:
            # the real fabio binary with a tcp-dynamic listener (refresh 100 ms): the tunnel lives across several refreshes
            n += 1
            c = dict(o)
            c.update(path="dynbin", spell=rng.choice(["tiny", "line", "mix"]), hello="tls12", split=0, id=n)
            dynb.append(c)
            continue
        if sc["wt"] == 1:
            # listener with a write timeout of 200 ms (alone, or next to a read timeout of 5 s): the client pauses for 500 ms in mid-stream
            for path in {"tcp": ["tcp", "tls"] + (["dyn"] if sc["proxy"] == 0 else []), "sni": ["sni"]}[sc["kind"]]:
                n += 1
                c = dict(o)
                c.update(path=path, spell=rng.choice(["tiny", "line", "line"]), hello=rng.choice(["tls13", "tls12"]), split=rng.choice(SPLITS), id=n,
                         conf=rng.choice(["wts", "wts", "wtsrt"]))
                if path == "tls":
                    c.update(tlsver=rng.choice([12, 13]), cork=True)
                pause[path].append(c)
            continue
        if sc["rt"] == 1:
            # listener with a read timeout; every such case waits for the timeout to pass: a seeded sample is played
            for path in {"tcp": ["tcp", "tls"] + (["dyn"] if sc["proxy"] == 0 else []), "sni": ["sni"]}[sc["kind"]]:
                n += 1
                c = dict(o)
                c.update(path=path, spell=rng.choice(["tiny", "line", "line"]), hello=rng.choice(["tls13", "tls12"]), split=rng.choice(SPLITS), id=n,
                         conf=rng.choice(["rt", "rt", "both"]))
                if path == "tls":
                    c.update(tlsver=rng.choice([12, 13]), cork=True)
                rtc.append(c)
            continue
        paths = {"tcp": ["tcp"] + (["dyn"] if sc["proxy"] == 0 else []) + ([] if err else ["tls"]), "sni": ["sni"], "ws": ["ws"]}[sc["kind"]]
        for path in paths:
            if err:
                # failing direction: the finished side's data must be larger than the socket buffers of the slow reader
                spells = ["huge", "huge", rng.choice(["line", "mix"])]
            else:
                spells = [rng.choice(["tiny", "line"]), rng.choice(["mix", "big", "mix"])]
            for sp in spells:
                n += 1
                c = dict(o)
                c.update(path=path, spell=sp, hello=rng.choice(["tls13", "tls12", "alpn5k", "alpn12k"]), split=rng.choice(SPLITS), id=n)
                if path == "sni" and c["hello"].startswith("alpn") and not err:
                    c["spell"] = sp = "big"      # more data behind a long hello than the hello is long
                if sp in ("tiny", "line") and not err and path != "ws" and rng.random() < 0.3:
                    c["conf"] = "wt"          # a write timeout on the listener changes nothing (small replies: a write never waits)
                if path == "tls":
                    # the terminating listener: TLS 1.2 reports close_notify as its own record (data + EOF in one Read)
                    c.update(tlsver=rng.choice([12, 12, 13]), cork=rng.random() < 0.8)
                (ws if path == "ws" else tcp).append(c)
    tcp += rng.sample(rtc, min(len(rtc), 40 if not ctx.thorough else 480))
    tcp += rng.sample(idle, min(len(idle), 40 if not ctx.thorough else 480))
    for path, (q, t) in (("tls", (16, 200)), ("tcp", (8, 120)), ("dyn", (6, 60)), ("sni", (10, 160))):
        tcp += rng.sample(pause[path], min(len(pause[path]), t if ctx.thorough else q))
    tcp += rng.sample(dynb, min(len(dynb), 6 if not ctx.thorough else 40))
    return tcp, ws, len(by)


def confirm(ctx, r, sub, runner):
    """Every alarm is reproduced once more before it is reported (DESIGN 4.2): the failing cases are played again;
    a case that does not fail again with the same clause is dropped from the failures and makes the run inconclusive.
    A scenario that did not finish is played again twice: the specification says every scenario of the universe
    terminates, so a scenario that hangs three times out of three does not terminate in the code under test
    (clause no-termination); one that finishes when played again stays a hang (inconclusive)."""
    if runner is None:
        return
    fails = r.of_kind("fail")
    if fails:
        again = os.path.join(ctx.tmp, "c09.%s.again" % sub)
        for i, f in enumerate(fails):
            f["case"]["id"] = i
        vf.write_ndjson(again, [f["case"] for f in fails])
        r2 = runner(ctx, again, "C09 %s reproduction" % sub, lanes=2, timeout=600)
        if r2 is None:
            return
        seen = {(f["case"].get("id"), f.get("features", {}).get("clause")) for f in r2.of_kind("fail")}
        lost = [f for f in fails if (f["case"]["id"], f.get("features", {}).get("clause")) not in seen]
        if lost:
            ctx.inconclusive("%s: %d of %d alarm(s) did not reproduce when the case was played again (not reported); first: %s / %s"
                             % (sub, len(lost), len(fails), lost[0].get("msg", "")[:300], json.dumps(lost[0]["case"].get("sc"))))
            r.records = [x for x in r.records if x not in lost]
    hangs = [h for h in r.of_kind("hang") if h.get("case")][:6]
    if hangs:
        still = hangs
        for attempt in (1, 2):
            again = os.path.join(ctx.tmp, "c09.%s.hang%d" % (sub, attempt))
            for i, h in enumerate(still):
                h["case"]["id"] = i
            vf.write_ndjson(again, [h["case"] for h in still])
            rh = runner(ctx, again, "C09 %s hang reproduction %d" % (sub, attempt), lanes=len(still), timeout=600)
            if rh is None:
                return
            ids = {h["case"].get("id") for h in rh.of_kind("hang")}
            still = [h for h in still if h["case"]["id"] in ids]
            if not still:
                break
        for h in still:
            r.records.remove(h)
            r.records.append({"kind": "fail", "case": h["case"], "features": {"path": h["case"].get("path"), "clause": "no-termination"},
                              "msg": "the scenario did not finish within the deadline three times out of three although the specification terminates on it: " + h.get("msg", "")})


def take(ctx, r, sub):
    """fail records -> violations, hang records -> inconclusive"""
    ctx.take_failures(r, sub)
    hangs = r.of_kind("hang")
    if hangs:
        ctx.inconclusive("%s: %d scenario(s) did not finish within the deadline (a hang is never a verdict); first: %s / %s"
                         % (sub, len(hangs), hangs[0].get("msg"), json.dumps(hangs[0].get("case", {}).get("sc"))))
    if r.summary.get("aborted"):
        ctx.inconclusive("%s: %d scenario(s) not played after too many hangs" % (sub, r.summary["aborted"]))
    for e in r.of_kind("error"):
        ctx.inconclusive("%s: harness error: %s" % (sub, e.get("msg")))
    s = r.summary
    if "ran" not in s:
        return
    if s.get("skipped", 0) > max(3, s.get("ran", 0) // 20):
        ctx.inconclusive("%s: %d of %d connections never became a tunnel (first: %s)"
                         % (sub, s["skipped"], s["ran"], (r.of_kind("skip") or [{}])[0].get("msg")))


def run(ctx):
    ctx.level = "model_checking"
    maxc, maxu = ctx.pick(2, 3), ctx.pick(2, 3)
    ctx.assumptions += [
        "universe: client payload <= %d byte tokens (behind a 2-token ClientHello on tcp+sni), reply <= %d tokens, every segmentation of both streams, "
        "every well-posed close order (client: half-close / close / wait; upstream: reply after n bytes or after EOF, then close / half-close / wait), PROXY option on and off; "
        "tokens are spelled as 1-byte, ~25-byte and 1 B..150 KB byte strings, the ClientHello is a real crypto/tls one split at a seeded offset" % (maxc, maxu),
        "well-posed = a direct tcp connection would carry the scenario to the end without a reset (nobody closes completely while data may still be on its way to it); "
        "a reset legitimately discards data and the statement does not demand more than tcp gives",
        "tcp-dynamic is played without the PROXY option (the statement does not say the option applies there); websocket: the client speaks after it has read the 101 response; "
        "bytes pipelined behind the upgrade request and a 101 response split into pieces shorter than its status line are outside the statement ('once a connection is tunnelled')",
        "listener configurations: tcp.Server without timeouts, with a write timeout (5 s, never reached: small replies to a reading client), and - on scenarios about it - "
        "with a read timeout of 200 ms (alone and with the write timeout) where the upstream answers 500 ms after its trigger, i.e. after the client has been silent for longer than the timeout; "
        "there only the reply is judged (a read timeout may end the silent client's own direction), and a seeded sample of these scenarios is played because each waits for the timeout to pass",
        "listeners with a write timeout of 200 ms (alone, and next to a read timeout of 5 s), also on the proto=tcp listener that terminates TLS: sessions with a pause - the upstream replies in mid-stream, "
        "the client waits for the complete reply, is silent for 500 ms and then sends the rest (small messages: no write ever waits); everything is judged, a write timeout has no say about a silent client; a seeded sample is played",
        "proxy.dialtimeout: fabio's default (30 s) on all proxies, and 200 ms on scenarios in which the upstream speaks when the tunnel is 500 ms old; "
        "tcp-dynamic: a real fabio process (static routes: a tcp route on its own port and an http route whose host carries a port, refresh=100ms) carries a few tunnels that live across several refreshes",
        "ClientHellos on the sni path: real ones of ~200 B, ~1.5 KB, ~5 KB and ~12 KB (long ALPN lists), the long ones followed by more data than they are long",
        "sessions: up to three connections through one SNIProxy instance, ClientHellos of two sizes (~260 B, ~5 KB), opened in order and at most two at a time; "
        "TLC checks every interleaving, the harness plays a seeded sample of the schedules in which the client acts when the proxy has come to rest (it waits for the observable effect of each action)",
        "a scenario or session that does not finish within 10 s is played again twice; three hangs out of three are a violation (no-termination: the specification terminates on everything in the universe), fewer are inconclusive",
        "interleaving of the real run is the scheduler's; only causal order is enforced (never sleeping); a scenario exceeding 10 s is inconclusive",
    ]
    # 2 (started first, collected below). each named deviation, alone, must be caught by TLC
    devs = (("CopyFromRawConn", dict(raw=True, kinds='{"sni"}', deadlock=False, maxc=1, maxu=1)),
            ("EndOnFirstEOF", dict(eof=True, maxc=1, maxu=1)),
            ("DropDataWithEOF", dict(drop=True, kinds='{"tcp"}', deadlock=False, maxc=1, maxu=1)),
            ("AbortOnError", dict(abort=True, kinds='{"tcp"}', deadlock=False, maxc=1, maxu=2)),
            ("ResetOnError", dict(reset=True, kinds='{"tcp"}', deadlock=False, maxc=1, maxu=2)),
            ("ReadTimeoutArmsWrite", dict(rtw=True, kinds='{"tcp"}', deadlock=False, maxc=1, maxu=1)),
            ("WriteTimeoutArmsRead", dict(wtr=True, kinds='{"tcp"}', deadlock=False, maxc=2, maxu=1)),
            ("StaleTargetOptions", dict(stale=True, kinds='{"tcp"}', deadlock=False, maxc=1, maxu=1)),
            ("DialDeadlineStays", dict(dds=True, kinds='{"tcp"}', deadlock=False, maxc=1, maxu=1)),
            ("RefreshClosesTunnels", dict(rct=True, kinds='{"tcp"}', deadlock=False, maxc=1, maxu=1)))
    build_fabio(ctx)
    sfuts = sessions_start(ctx, "c09")
    ex = ThreadPoolExecutor(max_workers=2)
    futs = [(name, tlc_bg(ctx, ex, "Tunnel_MC", cfg_text=cfg(**kw), workers=2, timeout=300)) for name, kw in devs]

    # 1. the design satisfies the property on every scenario and interleaving; terminal states = expected streams
    sink = os.path.join(ctx.tmp, "c09.gen")
    mc = tlc_bg(ctx, None, "Tunnel_MC", prio=True, cfg_text=cfg(maxc=maxc, maxu=maxu, gen=True), workers=6, json_sink=sink,
                timeout=ctx.pick(240, 1500), heap=ctx.pick(None, "6g")).result()
    ctx.log("Tunnel property configuration: %d generated, %d distinct, depth %d, %.0fs" % (mc.generated, mc.distinct, mc.depth, mc.wall))
    if not ctx.need_tlc_ok(mc, "Tunnel (property configuration)"):
        return
    ctx.cover("mc", states=mc.distinct, transitions=mc.generated, exhaustive=True)
    if ctx.thorough:
        # vacuity: every action of the specification is taken (measured on the quick universe, where -coverage is cheap)
        cv = tlc_now(ctx, "Tunnel_MC", cfg_text=cfg(maxc=2, maxu=2), workers=8, timeout=600, coverage=True)
        if not ctx.need_tlc_ok(cv, "Tunnel (coverage run)"):
            return
        seen = set(__import__("re").findall(r"<(\w+) line[^>]*>: \d+:\d+", cv.out))
        never = [a for a in ACTIONS if a in cv.coverage0 or a not in seen]
        if never:
            ctx.inconclusive("Tunnel: action(s) never taken in the property configuration: %s" % ", ".join(never))
            return
        ctx.log("coverage: all %d actions taken" % len(ACTIONS))
    # 2. each named deviation (the two of the pinned code, three defect classes), alone, is caught by TLC
    anyprop = tuple(PROPS.split())
    results = [(name, f.result()) for name, f in futs]
    for name, d in results:
        if d.timed_out or d.error:
            ctx.need_tlc_ok(d, "Tunnel (%s)" % name)
            return
        if d.violated not in anyprop:
            ctx.inconclusive("Tunnel: the configuration with %s = TRUE does not violate the property (got %r): the model cannot tell the designs apart"
                             % (name, d.violated))
            return
        ctx.log("deviation %s = TRUE violates %s after %d states, as documented" % (name, d.violated, d.generated))
        ctx.cover("deviation_" + name, states_until_violation=d.distinct, violated=d.violated)

    # 2b. one copy direction against the io.Reader / io.Writer contracts (Copier.tla), bound to the real copyBuffer
    csink = os.path.join(ctx.tmp, "c09.copier")
    cm = tlc_now(ctx, "Copier_MC", cfg_text=COPIER_CFG % ("FALSE", ctx.pick(3, 4), "GenOut"), workers=4, json_sink=csink, timeout=300)
    if not ctx.need_tlc_ok(cm, "Copier"):
        return
    cd = tlc_now(ctx, "Copier_MC", cfg_text=COPIER_CFG % ("TRUE", 2, ""), workers=2, timeout=120)
    if cd.timed_out or cd.error or cd.violated != "AllDelivered":
        ctx.inconclusive("Copier: DropDataWithEOF = TRUE does not violate AllDelivered (got %r / %r)" % (cd.violated, cd.error))
        return
    ctx.cover("copier_mc", states=cm.distinct, transitions=cm.generated)
    rc = go_copy(ctx, csink, "C09 copier replay")
    if rc is None:
        return
    ctx.log("copier: %d reader/writer scripts (%d states) played on copyBuffer, %d evaluations, %d failed"
            % (rc.summary["cases"], cm.distinct, rc.summary["evaluations"], rc.summary["fails"]))
    ctx.cover("copier", traces_validated_against_impl=rc.summary["cases"], evaluations=rc.summary["evaluations"],
              distinct_nontrivial=rc.summary["distinct_nontrivial"], samples=rc.summary.get("samples") or [])
    take(ctx, rc, "copier")

    # 3. scenarios -> cases -> real proxies
    tcp, ws, nsc = build_cases(ctx, sink)
    if tcp is None:
        return
    ctx.log("%d scenarios -> %d cases for proxy/tcp, %d for the websocket path" % (nsc, len(tcp), len(ws)))
    ftcp, fws = os.path.join(ctx.tmp, "c09.tcp"), os.path.join(ctx.tmp, "c09.ws")
    vf.write_ndjson(ftcp, tcp)
    vf.write_ndjson(fws, ws)
    total = 0
    for sub, fn, path in (("tcp", go_tcp, ftcp), ("ws", go_ws, fws)):
        r = fn(ctx, path, "C09 %s replay" % sub)
        if r is None:
            return
        s = r.summary
        ctx.log("%s: played %d cases (%s), %d failed, %d hung, %d not tunnelled, %.0fs"
                % (sub, s["ran"], ", ".join("%s=%s" % (k, s[k]) for k in ("tcp", "sni", "dyn", "tls", "ws", "failing_direction", "read_timeout", "write_timeout_pause", "dynbin") if k in s), s["fails"], s["hangs"], s["skipped"], r.wall))
        for nrec in r.of_kind("note")[:3]:
            ctx.log("note:", nrec.get("msg"))
        if s.get("unsupported"):
            ctx.assumptions.append("%s: %d failing-direction scenarios not played: this kernel does not keep received data across a reset" % (sub, s["unsupported"]))
        total += s["ran"]
        ctx.cover(sub, traces_validated_against_impl=s["ran"] - s["hangs"] - s["skipped"], evaluations=s["evaluations"],
                  distinct_nontrivial=s["distinct_nontrivial"], samples=s.get("samples") or [])
        confirm(ctx, r, sub, fn)
        take(ctx, r, sub)
    ctx.cover(rule="one case per (scenario of the TLC universe, path, byte spelling); the expected streams are the terminal states TLC reached for that scenario; "
                   "evaluations = endpoint streams compared; non-trivial = distinct case with data in both directions")

    # 3b. histories of several connections through one proxy instance
    if not sessions(ctx, "c09", sfuts):
        return

    # 4. binding self-test: a corrupted expectation must be rejected by the harness
    bad = []
    for c in tcp:
        if c["sc"]["kind"] == "sni" and len(c["urecv"]) >= 4 and c["creads"] and c["crecv"] and c["spell"] in ("tiny", "line"):
            a = json.loads(json.dumps(c))
            a["urecv"][-1], a["urecv"][-2] = a["urecv"][-2], a["urecv"][-1]      # two payload tokens swapped
            b = json.loads(json.dumps(c))
            b["crecv"] = b["crecv"] + [25]                                        # a byte the upstream never sent
            bad = [a, b]
            break
    if len(bad) != 2:
        ctx.inconclusive("no usable case for the binding self-test")
        return
    one = os.path.join(ctx.tmp, "c09.selftest")
    vf.write_ndjson(one, bad)
    r2 = go_tcp(ctx, one, "C09 self-test", lanes=1, timeout=300)
    if r2 is None:
        return
    clauses = sorted(f.get("features", {}).get("clause", "") for f in r2.of_kind("fail"))
    if len(clauses) != 2:
        ctx.inconclusive("binding self-test: corrupted expected streams were NOT both rejected by the harness (got %r)" % clauses)


def replay(ctx, rp):
    c = rp["replay"]["case"]
    one = os.path.join(ctx.tmp, "c09.replay")
    vf.write_ndjson(one, [c])
    if "sched" in c:
        r = go_sessions(ctx, one, "C09 replay")
        if r is not None:
            ctx.cover(evaluations=r.summary.get("connections", 0), traces_validated_against_impl=1)
            ctx.take_failures(r, "sessions")
        return
    if "reads" in c:
        r = go_copy(ctx, one, "C09 replay")
        if r is not None:
            ctx.cover(evaluations=r.summary.get("evaluations", 0), traces_validated_against_impl=1)
            take(ctx, r, "copier")
        return
    if c.get("path") == "ws":
        r = go_ws(ctx, one, "C09 replay", lanes=1, timeout=300)
    else:
        r = go_tcp(ctx, one, "C09 replay", lanes=1, timeout=300)
    if r is None:
        return
    ctx.cover(evaluations=r.summary.get("evaluations", 0), traces_validated_against_impl=r.summary.get("ran", 0))
    take(ctx, r, rp["replay"].get("sub") or "c09")
