"""C08 - forwarding headers tell the upstream the truth about the client.

spec: HttpProxy.tla, action AddHeaders = the operators ExpClientIP, ExpXFF, ExpRealIP, ExpTLSHdr,
      ExpXFProto, ExpForwarded, ExpXFPort, ExpXFHost, ExpSTS (one per clause of the statement)
TLC : all 2^8 subsets of forged managed headers x {sent once, twice, with an oddly-cased name}
      x {plain, TLS} x {http, Upgrade: websocket, Upgrade: Websocket} x 4 configurations
      x route host option {none, dst, name} x requested Host {name, name:8080}, with the
      expectation for every managed header (quick: seed-selected slice, thorough: everything)
bind: replayed over real sockets (plain and TLS front, hand-written websocket handshakes, a
      minimal websocket upstream answering 101) - harness/proxy/c08_test.go"""
from checks import c07 as base


def _pred(c):
    r = c["c"]["routes"]
    return (c["out"]["kind"] == "upstream" and c["c"]["kind"] == "http" and r and r[0]["hostopt"] == ""
            and c["c"]["forged"]["xrealip"] == "absent")


def _corrupt(c):
    c["up"]["managed"]["xrealip"] = {"mode": "eq", "vals": ["x1"]}


def run(ctx):
    ctx.level = "model_checking"
    ctx.assumptions += base.COMMON_ASSUMPTIONS + [
        "never sliced (in every quick run): peers 127.0.0.1 and ::1 x X-Forwarded-For {absent, once, twice, last element = peer's text with something in front, = peer's text with something behind, = the peer itself} x other managed headers {absent, all forged} x {plain, TLS} x {http, websocket, Websocket} x configured names {canonical, X-TLS / X-Client-IP}; an address is accepted in any textual form of the same IP (a bracketed literal is not an address), Forwarded for= also in RFC 7239 quoting; when the client's list already ends with the peer, listing it once more is not judged",
        "forged styles now include a header sent twice where one copy says the truth and the other is forged, in both orders, for every managed header (sliced universe and the never-sliced peer universe): judged by the header's own clause - configured client-IP header exactly [peer], TLS header exactly the configured value on TLS / absent on plain, X-Forwarded-For = client's elements + peer, the others passed through as sent (Forwarded: first value, possibly extended)",
        "never sliced: 128 connection histories - 2 or 3 requests sent one after the other over ONE keep-alive connection to one of fabio's own listeners (proxy.ListenAndServeHTTP, plain and TLS), asking for hosts a./b. with and without a port in every position: X-Forwarded-Port and X-Forwarded-Host must follow from each request alone (invariant ConnectionIndependent); the proxy is put together as in main with every metrics handler set",
        "never sliced (round 4): client X-Forwarded-For lines with empty / blank values (one, several, mixed with an address): the peer is still the last element (empty elements are not judged); upstream failures - connection refused, hang-up before any answer, no answer within proxy.responseheadertimeout (300 ms) - x 4 configurations x {plain, TLS}: fabio's own error answer carries Strict-Transport-Security on TLS when configured and never on plain; second binding through package main: plain listeners brought up by main.startServers itself",
        "configuration: client-IP header X-Client-Ip, TLS header X-Tls: true, HSTS max-age with includeSubdomains, each on or off (4 combinations)",
        "scope: when the client supplies exactly one of X-Forwarded-Proto / Forwarded only its pass-through is judged (fabio trusts the proxy in front; the statement is silent); a supplied Forwarded may be extended (by=, httpproto=) and, if sent twice, only the first value is judged; X-Forwarded-Port = port of the requested Host, else the default of the actual connection; Forwarded proto ws/wss counts as http/https; HSTS on the 101 answer of a TLS websocket handshake is not judged; a client-IP header named X-Forwarded-For or X-Real-Ip is not configured",
    ]
    base.run_prop(ctx, "C08", ctx.pick(8, 1),
                  "one case per finished pipeline run TLC enumerated (quick: the slice selected by the seed; thorough: the full product); non-trivial = at least one forged managed header, a host option or a websocket request",
                  _pred, _corrupt, "xrealip", after=_main)


def _main(ctx, cases):
    """Second binding: the never-sliced peer and connection cases through package main's own start-up code - plain
    listeners are brought up by main.startServers (listener configuration, metrics handlers, main.newHTTPProxy,
    proxy.ListenAndServeHTTP), TLS listeners get main.newHTTPProxy behind proxy.ListenAndServeHTTP."""
    import os
    sub = os.path.join(ctx.tmp, "c08.main.cases")
    n = base.filter_cases(cases, sub, lambda c: c["c"]["sub"] in ("peer", "conn") and c["c"]["peer"] == "v4")
    if n == 0:
        ctx.inconclusive("no cases for the package main wiring")
        return
    r = base.run_main_harness(ctx, sub, "C08 replay through package main", prop="C08")
    if r is None:
        return
    s = r.summary
    ctx.log("package main wiring (main.startServers, main.newHTTPProxy): %d cases replayed, %d failed, %.0fs" % (s["cases"], s["fails"], r.wall))
    ctx.cover("main-wiring", traces_validated_against_impl=s["ran"], evaluations=s["ran"])
    ctx.take_failures(r, "c08-main")


def replay(ctx, rp):
    if rp.get("replay", {}).get("sub") == "c08-main" and rp["replay"].get("case") is not None:
        import os
        from lib import vf
        one = os.path.join(ctx.tmp, "c08.replay")
        vf.write_ndjson(one, [rp["replay"]["case"]])
        r = base.run_main_harness(ctx, one, "C08 replay (package main wiring)", timeout=300, prop="C08")
        if r is not None:
            ctx.cover(evaluations=1)
            ctx.take_failures(r, "c08-main")
        return
    base.replay_prop(ctx, "C08", rp)
