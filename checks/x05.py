"""X05 (specification growth) - metrics accounting of the proxy front.

spec: Metrics.tla (metrics store, routing table, requests in flight; one atomic increment per metric a
      request touches; websocket gauge with the code's add-then-set as a named deviation; table
      replacement), Metrics_MC.tla (universes), Metrics_Gen.tla (driver-forceable histories with the
      complete store after every event), Metrics_Trace.tla (validation of recorded concurrent runs),
      MetricsNames.tla / MetricsNames_MC.tla (the metrics.names template: clean, fields, default).
TLC : the documented design satisfies Accounted, Bounds, RequestsExact, StatusExact, TimerExact,
      NoRouteExact, GrpcExact, OneStatusEach, OneTimerEach, TcpPartition, ConnsExact, GaugeExact,
      GaugeZero, NamesDistinct, NameTimerExact, Monotone and the liveness properties; each named
      deviation must violate its documented property on the model (lead).
bind: S->C every generated history driven through main.startServers' real HTTPProxy / tcp proxy / grpc
      server behind metrics.Initialize("stdout,prometheus,statsd_raw"); after EVERY event the flat
      provider (stdout lines), the prometheus provider (scraped through its handler) and the statsd
      provider (its own flush) are compared with the store the spec prescribes.  C->S 16 clients + table
      swapper + snapshotter under -race, validated by Metrics_Trace.  Names: TLC-enumerated
      (route, template, name) cases through parseNames/TargetName."""
import json, os, random, threading
from lib import vf

MAIN = ["main/x05_metrics_test.go", "main/x05_replay_test.go", "main/x05_conc_test.go"]

CFG = """SPECIFICATION %(spec)s
CONSTANTS
  s1 = s1
  s2 = s2
  s3 = s3
  s4 = s4
  Targets <- %(u)sTargets
  Kind <- %(u)sKind
  Name <- %(name)s
  Tables <- %(u)sTables
  InitTable <- %(init)s
  Statuses = %(statuses)s
  GrpcCodes = {"OK", "Unavailable"}
  Slots = %(slots)s
  MaxReq = %(maxreq)d
  MaxSwaps = %(maxswaps)d
  LocalCounted = %(lc)s
  GaugeAtomic = %(ga)s
  NotfoundCountsTcp = %(nt)s
  ConnAtAccept = %(ca)s
%(rest)s
CHECK_DEADLOCK FALSE
"""
SAFE_ALWAYS = "TypeOK Accounted Bounds TimerExact GrpcExact OneStatusEach OneTimerEach TcpPartition ConnsExact"
DOC = SAFE_ALWAYS + " RequestsExact StatusExact NoRouteExact GaugeExact GaugeZero NamesDistinct NameTimerExact"


def tf(b):
    return "TRUE" if b else "FALSE"


def cfg(u="H", name=None, slots=2, maxreq=3, maxswaps=2, lc=True, ga=True, nt=False, ca=True, inv=DOC, props="Monotone",
        spec="Spec", statuses='{"200", "404"}', extra=""):
    sl = "{" + ", ".join("s%d" % i for i in range(1, slots + 1)) + "}" if isinstance(slots, int) else slots
    rest = extra
    if isinstance(slots, int) and slots in (2, 3):
        rest += "\nSYMMETRY MCSym%d" % slots
    if inv:
        rest += "\nINVARIANTS " + inv
    if props:
        rest += "\nPROPERTIES " + props
    init = {"H": "HT0", "W": "WT0", "O": "OT0", "MC": "TAll"}[u]
    return CFG % dict(spec=spec, u=u, name=name or (u + "Name"), init=init, statuses=statuses, slots=sl, maxreq=maxreq,
                      maxswaps=maxswaps, lc=tf(lc), ga=tf(ga), nt=tf(nt), ca=tf(ca), rest=rest)


def code_inv(dev):
    inv = SAFE_ALWAYS + " NamesDistinct NameTimerExact"
    if dev["lc"]:
        inv += " RequestsExact StatusExact"
    if not dev["nt"]:
        inv += " NoRouteExact"
    if dev["ga"]:
        inv += " GaugeExact GaugeZero"
    return inv


def model_check(ctx, dev):
    big = ctx.thorough
    runs = [
        ("documented design, http part (routed/held/failed/denied/redirected/no route, 2 tables)",
         cfg("H", slots=3 if big else 2, maxreq=3, maxswaps=2)),
        ("documented design, websocket gauge + two timers", cfg("W", name="WNameInj", slots=3 if big else 2, maxreq=4 if big else 3, maxswaps=2 if big else 1, statuses='{"200"}')),
        ("documented design, tcp + grpc next to http", cfg("O", slots=2, maxreq=4 if big else 3, maxswaps=2 if big else 1, statuses='{"200"}')),
        ("design with the deviations of this tree, http part", cfg("H", slots=2, maxreq=3, maxswaps=2 if big else 1, lc=dev["lc"], ga=dev["ga"], nt=dev["nt"], ca=dev["ca"], inv=code_inv(dev))),
        ("design with the deviations of this tree, tcp + grpc", cfg("O", slots=2, maxreq=3, maxswaps=2 if big else 1, statuses='{"200"}', lc=dev["lc"], ga=dev["ga"], nt=dev["nt"], ca=dev["ca"], inv=code_inv(dev))),
    ]
    never = None
    for name, text in runs:
        r = ctx.tlc("Metrics_MC", cfg_text=text, workers=ctx.pick(4, 8), timeout=ctx.pick(200, 1500), coverage=ctx.thorough, extra=["-nowarning"])
        ctx.log("MC %s: %d generated, %d distinct, depth %d, %.0fs" % (name, r.generated, r.distinct, r.depth, r.wall))
        if not ctx.need_tlc_ok(r, "Metrics MC (%s)" % name):
            return False
        ctx.cover("mc", states=r.distinct, transitions=r.generated)
        if ctx.thorough:
            z = set(r.coverage0)
            never = z if never is None else (never & z)
    if ctx.thorough and never:
        ctx.inconclusive("actions never taken in any MC configuration: %s" % sorted(never))
        return False
    return True


def model_check_deviations(ctx, dev):
    r = ctx.tlc("Metrics_MC", cfg_text=cfg("W", name="WNameInj", slots="{s1, s2}", maxreq=2, maxswaps=1, statuses='{"200"}', ga=False, inv="TypeOK",
                                           props="AccountingEnds GaugeSettles"), workers=4, timeout=600, extra=["-nowarning"])
    ctx.log("MC liveness (accounting ends, gauge settles; two-step gauge): %d distinct, %.0fs" % (r.distinct, r.wall))
    if not ctx.need_tlc_ok(r, "Metrics liveness"):
        return False
    ctx.cover("liveness", states=r.distinct, transitions=r.generated)
    # every named deviation is visible on the model: the documented property fails with it
    must = [
        ("RequestsExact", "LocalCounted=FALSE", cfg("H", slots=2, maxreq=2, maxswaps=0, lc=False, inv="RequestsExact", props="")),
        ("StatusExact", "LocalCounted=FALSE", cfg("H", slots=2, maxreq=2, maxswaps=0, lc=False, inv="StatusExact", props="")),
        ("GaugeExact", "GaugeAtomic=FALSE", cfg("W", name="WNameInj", slots=2, maxreq=2, maxswaps=0, statuses='{"200"}', ga=False, inv="GaugeExact", props="")),
        ("GaugeZero", "GaugeAtomic=FALSE", cfg("W", name="WNameInj", slots=2, maxreq=2, maxswaps=0, statuses='{"200"}', ga=False, inv="GaugeZero", props="")),
        ("NoRouteExact", "NotfoundCountsTcp=TRUE", cfg("O", slots=2, maxreq=2, maxswaps=1, statuses='{"200"}', nt=True, inv="NoRouteExact", props="")),
        ("NameTimerExact", "two targets rendering one name", cfg("W", name="WName", slots=2, maxreq=2, maxswaps=0, statuses='{"200"}', inv="NameTimerExact", props="")),
    ]
    for prop, what, text in must:
        r = ctx.tlc("Metrics_MC", cfg_text=text, workers=4, timeout=300, extra=["-nowarning"])
        if r.timed_out or r.error or r.violated != prop:
            ctx.inconclusive("%s was expected to violate %s on the model, got %s" % (what, prop, r.violated or r.error or "no violation"))
            return False
    ctx.log("MC: each named deviation violates its documented property (RequestsExact/StatusExact, GaugeExact/GaugeZero, NoRouteExact, NameTimerExact)")
    return True


def probe(ctx):
    g = ctx.gotest(".", MAIN, "^TestVerifX05Probe$", timeout=300)
    if not ctx.need_go_ok(g, "X05 probe"):
        return None
    s = g.summary
    ctx.take_failures(g, "probe")
    if not (s["barrier_sees_http"] and s["barrier_sees_grpc"]):
        ctx.inconclusive("the causality barrier does not see a held request / call in the goroutine stacks (frames renamed?)")
        return None
    stale = s["gauge_stale_points"]
    dev = dict(lc=bool(s["local_counted"]), nt=bool(s["notfound_counts_tcp"]), ca=bool(s["conn_at_accept"]), ga=(stale == 0),
               names_applied=bool(s["names_applied"]), clean_empty=bool(s["clean_empty_underscore"]))
    ctx.log("probe of the tree: LocalCounted=%s NotfoundCountsTcp=%s ConnAtAccept=%s; ws gauge wrong at %d of %d rest points; metrics.names applied=%s; clean(\"\")=\"_\": %s"
            % (dev["lc"], dev["nt"], dev["ca"], stale, 2 * s["gauge_rounds"], dev["names_applied"], dev["clean_empty"]))
    leads = []
    if not dev["lc"]:
        leads.append("lead: requests fabio answers itself (no route 404, access denied 403, redirect) are neither in `requests` nor in `http.status.code.N`, documented as timers over ALL HTTP(S) requests")
    if dev["nt"]:
        leads.append("lead: a TCP connection without route increments `notfound` (documented: failed HTTP route lookups) next to `tcp.noroute`")
    if stale:
        leads.append("lead: ws.conn is wrong while nothing moves at %d of %d rest points after 8 concurrent opens/closes (ws_handler.go adds to a hidden count and then Sets the gauge: the Sets of concurrent handlers are reordered; the gauge does not return to 0)" % (stale, 2 * s["gauge_rounds"]))
    if not dev["names_applied"]:
        leads.append("lead: the configured metrics.names template is never installed (metrics.Initialize ignores cfg.Names; TargetName(%s) under 'X05-{{clean .Service}}' = %r)" % ("Svc.A", s["names_probe"]))
    for n in s.get("leads") or []:
        leads.append("lead: " + n)
    ctx.cover("probe", evaluations=6 + 2 * s["gauge_rounds"], leads=leads)
    return dev, leads


def gen_histories(ctx, path, dev):
    rnd = random.Random(ctx.seed)
    tmp = path + ".all"
    base = dict(u="MC", name="MCName", slots="{1, 2, 3}", maxreq=1000, maxswaps=1000, lc=dev["lc"], ga=True, nt=dev["nt"], ca=dev["ca"],
                spec="GenSpec", statuses='{"200", "500"}', inv="GenConsistent", props="")
    parts = []
    for k, cap in ((2, ctx.pick(150, 1500)), (3, ctx.pick(350, 9000))):
        if os.path.exists(tmp):
            os.remove(tmp)
        g = ctx.tlc("Metrics_Gen", cfg_text=cfg(extra="  MaxSteps = %d" % k, **base), json_sink=tmp, workers=4, timeout=600, extra=["-nowarning"])
        if not ctx.need_tlc_ok(g, "Metrics Gen (%d steps)" % k):
            return None
        ctx.cover("gen", states=g.distinct, transitions=g.generated)
        lines = sorted(set(open(tmp).read().splitlines()))
        n_all = len(lines)
        if len(lines) > cap:
            lines = rnd.sample(lines, cap)
        parts += lines
        ctx.log("histories: %d of all %d with %d events" % (len(lines), n_all, k))
    if os.path.exists(tmp):
        os.remove(tmp)
    k = ctx.pick(12, 24)
    s = ctx.tlc("Metrics_Gen", cfg_text=cfg(extra="  MaxSteps = %d" % k, **base), json_sink=tmp, simulate=ctx.pick(8, 150), depth=k + 2, seed=ctx.seed, timeout=600,
                extra=["-nowarning"])
    if s.error or s.violated or s.timed_out:
        ctx.need_tlc_ok(s, "Metrics Gen simulation")
        return None
    sim = open(tmp).read().splitlines() if os.path.exists(tmp) else []
    ctx.log("histories (seeded random): %d with %d events" % (len(sim), k))
    with open(path, "w") as fh:
        for ln in parts + sim:
            fh.write(ln + "\n")
    return len(parts) + len(sim)


def replay_run(ctx, hist, what="X05 replay", timeout=900, env=None):
    e = {"VERIF_IN": hist}
    e.update(env or {})
    g = ctx.gotest(".", MAIN, "^TestVerifX05Replay$", env=e, timeout=timeout)
    if not ctx.need_go_ok(g, what):
        return None
    return g


def do_replay(ctx, dev):
    hist = os.path.join(ctx.tmp, "x05.hist")
    n = gen_histories(ctx, hist, dev)
    if n is None:
        return
    g = replay_run(ctx, hist)
    if g is None:
        return
    s = g.summary
    ctx.log("replay: %d histories, %d events, %d provider comparisons, %d failed, %.0fs" % (s["histories"], s["steps"], s["compared"], s["fails"], g.wall))
    lines = open(hist).read().splitlines()
    ctx.cover("replay", traces_validated_against_impl=s["histories"], evaluations=s["compared"],
              samples=[json.loads(lines[i]) for i in (0, len(lines) // 2)])
    ctx.take_failures(g, "replay")
    for ld in s.get("leads") or []:
        ctx.log("lead: " + ld)
    # binding self-test: one expected counter off by one must be rejected, for each provider
    h = json.loads(lines[len(lines) // 3])
    h["steps"][-1]["cnt"]["requests"] += 1
    one = os.path.join(ctx.tmp, "x05.self")
    vf.write_ndjson(one, [h])
    for prov in ("prometheus", "stdout", "statsd"):
        g2 = replay_run(ctx, one, "X05 replay self-test", timeout=300, env={"VERIF_X05_ONLY": prov})
        if g2 is None:
            return
        if not g2.of_kind("fail"):
            ctx.inconclusive("binding self-test (replay, %s): a corrupted expectation was not rejected" % prov)
            return


def trace_cfg(dev, ga, lossy=False):
    text = open(os.path.join(vf.SPEC, "Metrics_Trace.cfg")).read().replace("FlushLossy = FALSE", "FlushLossy = " + tf(lossy))
    text = text.replace("LocalCounted = FALSE", "LocalCounted = " + tf(dev["lc"])).replace("NotfoundCountsTcp = TRUE", "NotfoundCountsTcp = " + tf(dev["nt"]))
    text = text.replace("ConnAtAccept = TRUE", "ConnAtAccept = " + tf(dev["ca"])).replace("GaugeAtomic = FALSE", "GaugeAtomic = " + tf(ga))
    extra = ""
    if dev["lc"]:
        extra += " TRequestsExact TStatusExact"
    if not dev["nt"]:
        extra += " TNoRouteExact"
    return text.replace("TOneStatusEach", "TOneStatusEach" + extra)


def validate(ctx, trace, dev, ga, lossy=False):
    r = ctx.tlc("Metrics_Trace", cfg_text=trace_cfg(dev, ga, lossy), workers=1, env={"VERIF_TRACE": trace}, timeout=900, extra=["-nowarning"])
    if r.timed_out or r.error:
        ctx.inconclusive("trace validation did not complete: %s" % (r.error or "timeout"))
        return None
    return r


def do_concurrent(ctx, dev):
    runs = ctx.pick(1, 6)
    for k in range(runs):
        g = ctx.gotest(".", MAIN, "^TestVerifX05Concurrent$", race=True, timeout=900,
                       env={"VERIF_SEED": ctx.seed * 100 + k, "VERIF_X05_CLIENTS": 16, "VERIF_X05_OPS": ctx.pick(60, 150), "VERIF_X05_PHASES": ctx.pick(4, 6)})
        if "WARNING: DATA RACE" in g.out:
            rep = g.out[g.out.find("WARNING: DATA RACE"):][:3000]
            if "github.com/fabiolb/fabio/metrics." in rep:
                # "concurrent requests lose no increments": an unsynchronised metric object IS this property (C06-type)
                ctx.violation({"sub": "race", "where": "metrics"}, "data race inside a metrics provider while concurrent requests are accounted:\n" + rep,
                              replay={"sub": "race", "case": None})
            else:
                ctx.inconclusive("race detector report during the concurrent metrics run:\n" + rep)
            return
        if not ctx.need_go_ok(g, "X05 concurrent"):
            return
        s = g.summary
        ctx.take_failures(g, "concurrent")
        # strictest design first; a named deviation is admitted only when the run refutes the documented behaviour
        r, atomic, lossy = None, True, False
        for ga, ls in ((True, False), (False, False), (True, True), (False, True)):
            r = validate(ctx, s["trace"], dev, ga, ls)
            if r is None:
                return
            atomic, lossy = ga, ls
            if r.ok:
                break
        if r.ok and not atomic:
            ctx.log("lead: concurrent run %d is not a behaviour of the documented (atomic) ws.conn gauge, it is one of the add-then-set gauge" % k)
        if r.ok and lossy:
            ctx.log("lead: concurrent run %d: the statsd provider shows FEWER events than were accounted (prometheus and stdout are exact): a flush that runs while "
                    "requests are accounted loses observations (go-kit lv.Space.Observe appends outside the lock Reset takes); statsd_raw, graphite and dogstatsd share it" % k)
        ctx.log("concurrent run %d: %d clients, %d exchanges, %d swaps, %d provider reads, %d events, %d states: %s%s (%.0fs + %.0fs)"
                % (k, s["clients"], s["ops"], s["swaps"], s["snapshots"], s["events"], r.distinct,
                   "accepted" if r.ok else "REJECTED (%s)" % r.violated,
                   ("" if atomic or not r.ok else " [GaugeAtomic=FALSE]") + (" [FlushLossy=TRUE]" if lossy and r.ok else ""), g.wall, r.wall))
        if r.ok:
            ctx.cover("trace", traces_validated_against_impl=1, states=r.distinct, transitions=r.generated, evaluations=s["ops"] + s["snapshots"])
        else:
            ctx.violation({"sub": "trace", "why": r.violated},
                          "the execution recorded from the real proxy front and metrics providers is not a behaviour of Metrics (%s)\n%s"
                          % (r.violated, r.out[-2500:]), replay={"sub": "trace", "case": None})
            continue
        if k == 0:
            # binding self-test: one increment lost in a read at rest / one counter ahead of what was started
            lines = open(s["trace"]).read().splitlines()
            idx = [i for i, ln in enumerate(lines) if '"ev":"Exact"' in ln and '"src":"prom"' in ln]
            e = json.loads(lines[idx[-1]])
            e["vals"]["requests"] -= 1
            bad = lines[:idx[-1]] + [json.dumps(e, separators=(",", ":"))] + lines[idx[-1] + 1:]
            idx2 = [i for i, ln in enumerate(lines) if '"ev":"SnapE"' in ln]
            bad2 = None
            if idx2:
                e2 = json.loads(lines[idx2[len(idx2) // 2]])
                e2["vals"]["requests" if "requests" in e2["vals"] else sorted(e2["vals"])[0]] += 100000
                j = idx2[len(idx2) // 2]
                bad2 = lines[:j] + [json.dumps(e2, separators=(",", ":"))] + lines[j + 1:]
            for name, b in (("a lost increment at rest", bad), ("a counter ahead of the started requests", bad2)):
                if b is None:
                    continue
                p = os.path.join(ctx.tmp, "x05.bad.ndjson")
                open(p, "w").write("\n".join(b) + "\n")
                r2 = validate(ctx, p, dev, False, True)
                if r2 is None:
                    return
                if r2.ok:
                    ctx.inconclusive("binding self-test: a trace with %s was accepted" % name)
                    return


def do_names(ctx, dev):
    g = ctx.gotest("metrics", ["metrics/x05_names_test.go"], "^TestVerifX05FlushProbe$", timeout=300)
    if not ctx.need_go_ok(g, "X05 flush probe"):
        return
    fp = g.summary
    if fp["lost"] > 0:
        ctx.log("lead: the statsd provider loses increments that race with a flush: %d of %d Add(1) calls of 8 goroutines were never reported by the flushes "
                "(go-kit lv.Space.Observe appends to the series outside the lock Reset takes; statsd_raw and dogstatsd flush every metrics.interval)" % (fp["lost"], fp["added"]))
    ctx.cover("flush-probe", evaluations=fp["added"], lost=fp["lost"])
    cases = os.path.join(ctx.tmp, "x05.names")
    text = "INIT Init\nNEXT Next\nCONSTANTS CleanEmptyUnderscore = %s\nINVARIANTS Gen DocExample%s\nCHECK_DEADLOCK FALSE\n" % (
        tf(dev["clean_empty"]), "" if dev["clean_empty"] else " InjectiveOnClean")
    g = ctx.tlc("MetricsNames_MC", cfg_text=text, json_sink=cases, workers=2, timeout=600, extra=["-nowarning"])
    if not ctx.need_tlc_ok(g, "MetricsNames generator"):
        return
    ctx.cover("names-mc", states=g.distinct, transitions=g.generated)
    if dev["clean_empty"]:
        r = ctx.tlc("MetricsNames_MC", cfg_text="INIT Init\nNEXT Next\nCONSTANTS CleanEmptyUnderscore = FALSE\nINVARIANTS DocExample InjectiveOnClean\nCHECK_DEADLOCK FALSE\n",
                    workers=2, timeout=600, extra=["-nowarning"])
        if not ctx.need_tlc_ok(r, "MetricsNames (documented clean)"):
            return
    r = ctx.tlc("MetricsNames_MC", cfg_text="INIT Init\nNEXT Next\nCONSTANTS CleanEmptyUnderscore = FALSE\nINVARIANTS Injective\nCHECK_DEADLOCK FALSE\n",
                workers=2, timeout=600, extra=["-nowarning"])
    if r.violated != "Injective":
        ctx.inconclusive("the default template was expected to violate Injective on the model (clean is not injective), got %s" % (r.violated or r.error))
        return
    ctx.log("lead: the default metrics.names template is not injective ('each metric has a unique name'): routes differing only in letter case / '.' vs ':' vs '_' "
            "(e.g. prefixes a.com/a and a.com/A) or only in the target's path share one name and therefore one timer on the name-keyed providers")
    lines = open(cases).read().splitlines()
    g = ctx.gotest("metrics", ["metrics/x05_names_test.go"], "^TestVerifX05Names$", env={"VERIF_IN": cases}, timeout=600)
    if not ctx.need_go_ok(g, "X05 names"):
        return
    s = g.summary
    ctx.log("names: %d (route, template) cases through parseNames/TargetName, %d failed" % (s["cases"], s["fails"]))
    ctx.cover("names", evaluations=s["cases"], distinct_nontrivial=s["distinct"], samples=s.get("samples") or [])
    ctx.take_failures(g, "names")
    # self-test: a wrong expected name must be rejected
    c = json.loads(lines[len(lines) // 2])
    c["out"] = c["out"] + ["x"]
    one = os.path.join(ctx.tmp, "x05.names.self")
    vf.write_ndjson(one, [c])
    g2 = ctx.gotest("metrics", ["metrics/x05_names_test.go"], "^TestVerifX05Names$", env={"VERIF_IN": one}, timeout=300)
    if not ctx.need_go_ok(g2, "X05 names self-test"):
        return
    if not g2.of_kind("fail"):
        ctx.inconclusive("binding self-test (names): a corrupted expected name was not rejected")


def run(ctx):
    ctx.assumptions += [
        "a timer is observed through the number of events it counted (prometheus _count, number of stdout / statsd timing lines); durations, rx/tx byte counters, circonus, dogstatsd, graphite and the tcp+sni listener are out of scope",
        "universe: routes t1,t2 (http), t3 (http, same default name as t1), td (access denied), tr (redirect 301), tx (upstream down -> 502), tt/tu (tcp live / dead upstream), tg (grpc); tables all / less / bare; upstream statuses 200, 500; grpc codes OK, Unavailable",
        "completion of an exchange is established causally: HTTP answers end with the connection's end of stream (Connection: close), everything else by 'no goroutine is inside HTTPProxy.ServeHTTP / tcp.Proxy.ServeTCP / grpc handleStream beyond the tunnels and held requests the driver keeps open' (polled; a time-out is inconclusive)",
        "tcp.conn ('established TCP proxy connections') is accepted in both readings (counted at accept, or only when the upstream was reached); http.redirect.count is not documented and only replayed",
        "a fixed tree (local answers counted, atomic gauge, notfound for HTTP only) is detected by the probe and then checked against the documented design",
    ]
    pr = probe(ctx)
    if pr is None:
        return
    dev, leads = pr
    for ld in leads:
        ctx.log(ld)
    ok = {}
    jobs = [("mc", lambda: model_check(ctx, dev)), ("mc-deviations", lambda: model_check_deviations(ctx, dev)), ("replay", lambda: do_replay(ctx, dev)),
            ("concurrent", lambda: do_concurrent(ctx, dev)), ("names", lambda: do_names(ctx, dev))]
    errs = []

    def wrap(name, fn):
        try:
            fn()
        except Exception as e:  # a crashed part must not be mistaken for a pass
            import traceback
            errs.append("%s: %s\n%s" % (name, e, traceback.format_exc()))
    ths = [threading.Thread(target=wrap, args=j) for j in jobs]
    for t in ths:
        t.start()
    for t in ths:
        t.join()
    for e in errs:
        ctx.inconclusive("part crashed: " + e)
    ctx.cover(rule="histories: a seeded sample of ALL event sequences of 2 and 3 events (27 event kinds: request per route and status, hold/release, websocket open/close, tcp, grpc on the same/a new connection, table replacement) plus seeded random ones of 14 (quick) / 24 (thorough) events, the full store compared on three providers after every event; concurrent: 16 clients, 4-6 phases, swapper + snapshotter, 1 (quick) / 6 (thorough) recorded runs under -race; names: 23 328 (route, template) cases",
              exhaustive=False)


def replay(ctx, rp):
    sub = rp["replay"]["sub"]
    case = rp["replay"].get("case")
    if not case or sub not in ("replay", "names"):
        ctx.inconclusive("replay of %s: re-run the check (the recorded schedule depends on goroutine timing)" % sub)
        return
    one = os.path.join(ctx.tmp, "x05.replay")
    vf.write_ndjson(one, [case])
    if sub == "names":
        g = ctx.gotest("metrics", ["metrics/x05_names_test.go"], "^TestVerifX05Names$", env={"VERIF_IN": one}, timeout=300)
        if not ctx.need_go_ok(g, "X05 names replay"):
            return
    else:
        g = replay_run(ctx, one, timeout=300)
        if g is None:
            return
    ctx.cover(evaluations=1)
    ctx.take_failures(g, sub)
