"""Shared machinery for the fabio /verif checks.

Every check is a python module checks/cNN.py exposing run(ctx).  The module uses

  ctx.tlc(...)      run TLC on a module of /verif/spec (model checking, case generation,
                    simulation, trace validation) in a private scratch directory
  ctx.gotest(...)   run an in-package conformance test of /verif/harness against the
                    CURRENT working tree of the repository via `go test -overlay`
  ctx.violation()   report a case on which the real code contradicted the specification
  ctx.inconclusive  record that something could not be decided (exit 2, never a violation)
  ctx.cover(...)    add to the coverage numbers written to evidence/<id>.json

Exit protocol (bin/check): 0 held / 1 VIOLATION line(s) / 2 inconclusive.
"""
import glob
import hashlib
import json
import os
import re
import shutil
import subprocess
import sys
import tempfile
import threading
import time

VERIF = os.path.dirname(os.path.dirname(os.path.abspath(__file__)))
REPO = os.environ.get("VERIF_REPO", "/repo")
SPEC = os.path.join(VERIF, "spec")
HARNESS = os.path.join(VERIF, "harness")
TLA_CP = "/opt/veriftools/tla/tla2tools.jar:/opt/veriftools/tla/CommunityModules-deps.jar"
MODPATH = "github.com/fabiolb/fabio"
NCPU = os.cpu_count() or 4


# --------------------------------------------------------------------------- go toolchain
_go_cache = None


def go_tool():
    """Return (go binary, env).  The repository needs go >= 1.24 while the default `go` is
    older and switches toolchains; the switch breaks under GOSUMDB=off / GOTOOLCHAIN=local,
    so the real binary is resolved once and then used directly with GOTOOLCHAIN=local."""
    global _go_cache
    if _go_cache:
        return _go_cache
    env = dict(os.environ)
    for k in ("GOSUMDB", "GOTOOLCHAIN", "GONOSUMDB", "GONOSUMCHECK", "GOFLAGS"):
        env.pop(k, None)
    env["GOPROXY"] = "off"
    env["GOFLAGS"] = "-mod=mod"
    gobin = None
    cands = sorted(glob.glob("/root/go/pkg/mod/golang.org/toolchain@v0.0.1-go1.24*.linux-amd64/bin/go"))
    try:
        out = subprocess.run(["go", "env", "GOROOT"], cwd=REPO, env=env, capture_output=True,
                             text=True, timeout=120)
        root = out.stdout.strip()
        if out.returncode == 0 and root and os.path.exists(os.path.join(root, "bin", "go")):
            gobin = os.path.join(root, "bin", "go")
    except Exception:
        pass
    if gobin is None and cands:
        gobin = cands[0]
    if gobin is None:
        gobin = "go"
    env["GOTOOLCHAIN"] = "local"
    env["GOSUMDB"] = "off"
    env["PATH"] = os.path.dirname(gobin) + os.pathsep + env.get("PATH", "")
    _go_cache = (gobin, env)
    return _go_cache


# --------------------------------------------------------------------------- results
class TLCResult:
    def __init__(self):
        self.rc = None
        self.timed_out = False
        self.out = ""
        self.generated = 0      # states generated (= transitions examined + initial)
        self.distinct = 0
        self.depth = 0
        self.json = []          # decoded PrintT(ToJson(..)) lines
        self.violated = None    # name of violated invariant/property, or "postcondition", ...
        self.error = None       # TLC evaluation error text (spec bug), if any
        self.coverage0 = []     # action names reported with 0 hits (only with coverage=True)
        self.wall = 0.0

    @property
    def ok(self):
        return self.rc == 0 and not self.violated and not self.error and not self.timed_out


class GoResult:
    def __init__(self):
        self.rc = None
        self.timed_out = False
        self.out = ""
        self.records = []       # decoded NDJSON written by the harness to $VERIF_OUT
        self.build_failed = False
        self.wall = 0.0

    def of_kind(self, kind):
        return [r for r in self.records if r.get("kind") == kind]

    @property
    def summary(self):
        s = self.of_kind("summary")
        return s[-1] if s else None


class Inconclusive(Exception):
    pass


# --------------------------------------------------------------------------- known findings
def load_findings(prop):
    """Parse KNOWN_FINDINGS.txt; return list of dict(key, match, text) for `known:` lines of prop."""
    res = []
    path = os.path.join(VERIF, "KNOWN_FINDINGS.txt")
    if not os.path.exists(path):
        return res
    for line in open(path):
        line = line.strip()
        if not line.startswith("known:"):
            continue
        m = re.match(r"known:\s+property=(\S+)\s+key=(\S+)\s+match=(\{.*?\})\s+(.*)$", line)
        if not m:
            continue
        if m.group(1) != prop:
            continue
        try:
            match = json.loads(m.group(3))
        except Exception:
            continue
        res.append({"key": m.group(2), "match": match, "text": m.group(4)})
    return res


def finding_matches(f, features):
    if not isinstance(features, dict):
        return False
    for k, v in f["match"].items():
        if features.get(k) != v:
            return False
    return True


# --------------------------------------------------------------------------- context
class Ctx:
    def __init__(self, prop, tier, seed, replay=None):
        self.prop = prop
        self.tier = tier
        self.seed = seed
        self.replay = replay
        self.t0 = time.time()
        self.tmp = tempfile.mkdtemp(prefix="verif-%s-" % prop)
        self.level = "model_checking"
        self.cov = {"states": 0, "transitions": 0, "traces_validated_against_impl": 0,
                    "evaluations": 0, "distinct_nontrivial": 0, "samples": [],
                    "rule": "", "exhaustive": False, "parts": {}}
        self.assumptions = []
        self.violations = []        # (features, message, replay_path)
        self.known_hits = {}        # key -> (text, count)
        self.inconclusives = []
        self.findings = load_findings(prop)
        self.thorough = tier == "thorough"
        self._nrep = 0
        self.vclasses = {}
        self._tlc_n = 0
        self._lock = threading.Lock()   # checks may run several tlc()/gotest() calls from threads

    # ------------------------------------------------------------------ helpers
    def log(self, *a):
        print("[%s %6.1fs]" % (self.prop, time.time() - self.t0), *a, flush=True)

    def pick(self, quick, thorough):
        return thorough if self.thorough else quick

    def inconclusive(self, why):
        self.log("INCONCLUSIVE:", why)
        self.inconclusives.append(why)

    def cover(self, part=None, **kw):
        """Accumulate coverage counters; lists are extended (samples capped), ints added."""
        for k, v in kw.items():
            if k == "samples":
                room = 12 - len(self.cov["samples"])
                if room > 0:
                    self.cov["samples"].extend(v[:min(room, 4)])
            elif isinstance(v, bool) or isinstance(v, str):
                self.cov[k] = v
            elif isinstance(v, (int, float)):
                self.cov[k] = self.cov.get(k, 0) + v
            else:
                self.cov[k] = v
        if part:
            p = self.cov["parts"].setdefault(part, {})
            for k, v in kw.items():
                if k == "samples":
                    continue
                if isinstance(v, (int, float)) and not isinstance(v, bool):
                    p[k] = p.get(k, 0) + v
                else:
                    p[k] = v

    # ------------------------------------------------------------------ violations
    def violation(self, features, message, replay=None):
        """Report that the real code contradicted the spec on a case.

        features: small dict describing the case class (matched against KNOWN_FINDINGS.txt).
        replay:   dict written to evidence/replay/<id>-<k>.json ({"sub":..., "case":...})."""
        for f in self.findings:
            if finding_matches(f, features):
                t, n = self.known_hits.get(f["key"], (f["text"], 0))
                self.known_hits[f["key"]] = (t, n + 1)
                return False
        cls = stable_hash(features)
        self.vclasses[cls] = self.vclasses.get(cls, 0) + 1
        if self.vclasses[cls] > 1 or len(self.vclasses) > 40:
            self.violations.append((features, message, None))
            return True
        self._nrep += 1
        rdir = os.path.join(VERIF, "evidence", "replay")
        os.makedirs(rdir, exist_ok=True)
        # a --replay run must not overwrite the replay files of the last full run
        path = os.path.join(rdir, "%s-%s%d.json" % (self.prop, "re" if self.replay else "", self._nrep))
        with open(path, "w") as fh:
            json.dump({"property": self.prop, "message": message, "features": features,
                       "replay": replay}, fh, indent=1, sort_keys=True, default=str)
        self.violations.append((features, message, path))
        self.log("violation:", message[:1500], "\n    features=" + json.dumps(features, sort_keys=True, default=str))
        return True

    # ------------------------------------------------------------------ TLC
    def tlc(self, module, cfg=None, workers=None, simulate=None, depth=None, seed=None,
            env=None, timeout=600, coverage=False, deadlock=None, extra=None,
            constants=None, cfg_text=None, heap=None, dfs=False, keep_out=True,
            json_sink=None):
        """Run TLC on spec/<module>.tla with spec/<cfg>.cfg (default <module>.cfg) in a scratch
        copy of the spec directory.  cfg_text overrides the cfg file's content.  `constants`
        (dict) appends/overrides CONSTANT lines `k = v`.  json_sink: path of a file to which
        decoded JSON lines are appended instead of being held in memory."""
        with self._lock:
            self._tlc_n += 1
            n = self._tlc_n
        work = os.path.join(self.tmp, "tlc%d" % n)
        os.makedirs(work)
        for f in os.listdir(SPEC):
            if f.endswith(".tla") or f.endswith(".cfg"):
                shutil.copy(os.path.join(SPEC, f), work)
        cfgname = (cfg or module) + ".cfg"
        if cfg_text is not None:
            cfgname = "_gen_%s.cfg" % module
            with open(os.path.join(work, cfgname), "w") as fh:
                fh.write(cfg_text)
        if constants:
            txt = open(os.path.join(work, cfgname)).read()
            for k, v in constants.items():
                txt2, n = re.subn(r"(?m)^(\s*)%s\s*(=|<-)\s*.*$" % re.escape(k), r"\g<1>%s = %s" % (k, v), txt)
                if n == 0:
                    txt2 = txt + "\nCONSTANT %s = %s\n" % (k, v)
                txt = txt2
            cfgname = "_c_" + cfgname
            with open(os.path.join(work, cfgname), "w") as fh:
                fh.write(txt)
        jtmp = os.path.join(work, "jtmp")
        os.makedirs(jtmp)
        java = ["java", "-XX:+UseParallelGC", "-Xss256m", "-Djava.io.tmpdir=" + jtmp]
        if heap:
            java.append("-Xmx" + heap)
        if dfs:
            java.append("-Dtlc2.tool.queue.IStateQueue=StateDeque")
        cmd = java + ["-cp", TLA_CP, "tlc2.TLC", "-noGenerateSpecTE", "-metadir",
                      os.path.join(work, "meta"), "-config", cfgname]
        if workers is None:
            workers = "auto" if not simulate else 1
        cmd += ["-workers", str(workers)]
        if simulate:
            cmd += ["-simulate", "num=%d" % simulate]
        if depth:
            cmd += ["-depth", str(depth)]
        if seed is not None:
            cmd += ["-seed", str(seed)]
        if coverage:
            cmd += ["-coverage", "1"]
        if deadlock is False:
            cmd += ["-deadlock"]  # -deadlock disables deadlock checking
        if extra:
            cmd += list(extra)
        cmd += [module + ".tla"]
        e = dict(os.environ)
        e.pop("JAVA_TOOL_OPTIONS", None)
        if env:
            e.update({k: str(v) for k, v in env.items()})
        res = TLCResult()
        t0 = time.time()
        outpath = os.path.join(work, "tlc.out")
        with open(outpath, "w") as fh:
            try:
                p = subprocess.run(cmd, cwd=work, env=e, stdout=fh, stderr=subprocess.STDOUT,
                                   timeout=timeout)
                res.rc = p.returncode
            except subprocess.TimeoutExpired:
                res.timed_out = True
                res.rc = -1
                subprocess.run(["pkill", "-f", "metadir %s" % os.path.join(work, "meta")])
        res.wall = time.time() - t0
        sink = open(json_sink, "a") if json_sink else None
        tail = []
        with open(outpath, errors="replace") as fh:
            for line in fh:
                if line.startswith('"{') or line.startswith('"['):
                    try:
                        s = json.loads(line)
                        if sink:
                            sink.write(s + "\n")
                        else:
                            res.json.append(json.loads(s))
                    except Exception:
                        res.error = res.error or ("undecodable generator line: " + line[:200])
                    continue
                tail.append(line)
                if len(tail) > 4000:
                    del tail[:2000]
        if sink:
            sink.close()
        res.out = "".join(tail)
        m = re.findall(r"(\d+) states generated, (\d+) distinct states found", res.out)
        if m:
            res.generated, res.distinct = int(m[-1][0]), int(m[-1][1])
        m = re.search(r"depth of the complete state graph search is (\d+)", res.out)
        if m:
            res.depth = int(m.group(1))
        m = re.search(r"Error: Invariant (\S+) is violated", res.out)
        if m:
            res.violated = m.group(1)
        m = re.search(r"Error: Action property (\S+) is violated", res.out) or \
            re.search(r"Error: Temporal properties were violated", res.out)
        if m and not res.violated:
            res.violated = m.group(1) if m.groups() else "temporal"
        if "Error: Deadlock reached" in res.out and not res.violated:
            res.violated = "deadlock"
        if re.search(r"Error: The postcondition|postcondition .* (is|was) (false|violated)|Postcondition .* violated", res.out, re.I) and not res.violated:
            res.violated = "postcondition"
        if not res.violated and res.rc not in (0, None) and not res.timed_out:
            m = re.search(r"Error: (.*(?:\n.*){0,6})", res.out)
            res.error = (m.group(1) if m else "tlc exit %s" % res.rc)[:1500]
        if coverage:
            res.coverage0 = re.findall(r"<(\w+) line[^>]*>: 0:0", res.out)
        if not keep_out:
            res.out = res.out[-4000:]
        shutil.rmtree(os.path.join(work, "meta"), ignore_errors=True)
        return res

    def need_tlc_ok(self, res, what):
        """Model-level result must be clean; a model-level failure is a lead, not a verdict."""
        if res.timed_out:
            self.inconclusive("%s: TLC timed out" % what)
            return False
        if res.error:
            self.inconclusive("%s: TLC error: %s" % (what, res.error))
            return False
        if res.violated:
            self.inconclusive("%s: model violates %s (a lead on the specification, not a verdict on the code)\n%s"
                              % (what, res.violated, res.out[-3000:]))
            return False
        return True

    # ------------------------------------------------------------------ TLAPS
    def tlaps(self, module, needs, timeout=600):
        """Check spec/<module>.tla (a TLAPS proof module; `needs` = modules it extends) with tlapm, without
        fingerprints.  A failed or timed-out proof is inconclusive, never a verdict on the code."""
        work = os.path.join(self.tmp, "tlaps-" + module)
        os.makedirs(work, exist_ok=True)
        for f in list(needs) + [module]:
            shutil.copy(os.path.join(SPEC, f + ".tla"), work)
        try:
            p = subprocess.run(["tlapm", "--nofp", "--threads", "8", module + ".tla"], cwd=work,
                               capture_output=True, text=True, timeout=timeout)
        except (subprocess.TimeoutExpired, FileNotFoundError) as e:
            self.inconclusive("tlapm %s: %s" % (module, e))
            return 0
        out = (p.stdout or "") + (p.stderr or "")
        m = re.search(r"All (\d+) obligations? proved", out)
        if not m:
            self.inconclusive("tlapm %s: proof not accepted:\n%s" % (module, out[-1500:]))
            return 0
        n = int(m.group(1))
        self.log("TLAPS %s: all %d obligations proved" % (module, n))
        self.cover("proof-" + module, obligations=n, discharged=n)
        return n

    # ------------------------------------------------------------------ go test
    def gotest(self, pkg, files, run, env=None, race=False, timeout=600, extra_files=None,
               tags="verif", count=1, args=None):
        """go test ./<pkg> in the repository with harness files overlaid.

        files: list of paths relative to /verif/harness that become zz_verif_<name> in <pkg>.
        The shared package /verif/harness/x is always mounted as <module>/internal/verifx."""
        gobin, genv = go_tool()
        overlay = {}
        pkgdir = os.path.normpath(os.path.join(REPO, pkg))
        for f in files:
            src = os.path.join(HARNESS, f)
            overlay[os.path.join(pkgdir, "zz_verif_" + os.path.basename(f))] = src
        for f in os.listdir(os.path.join(HARNESS, "x")):
            if f.endswith(".go"):
                overlay[os.path.join(REPO, "internal", "verifx", f)] = os.path.join(HARNESS, "x", f)
        for dst, src in (extra_files or {}).items():
            overlay[os.path.join(REPO, dst)] = os.path.join(HARNESS, src)
        with self._lock:
            self._tlc_n += 1
            n = self._tlc_n
        work = os.path.join(self.tmp, "go%d" % n)
        os.makedirs(work)
        ov = os.path.join(work, "overlay.json")
        with open(ov, "w") as fh:
            json.dump({"Replace": overlay}, fh)
        outp = os.path.join(work, "out.ndjson")
        e = dict(genv)
        e["VERIF_OUT"] = outp
        e["VERIF_SEED"] = str(self.seed)
        e["VERIF_TIER"] = self.tier
        e["VERIF_TMP"] = work
        if env:
            e.update({k: str(v) for k, v in env.items()})
        cmd = [gobin, "test", "-tags", tags, "-overlay", ov, "-vet=off", "-count=%d" % count,
               "-run", run, "-timeout", "%ds" % timeout]
        if race:
            cmd.append("-race")
        cmd.append("./" + pkg)
        if args:
            cmd += ["-args"] + list(args)
        res = GoResult()
        t0 = time.time()
        try:
            p = subprocess.run(cmd, cwd=REPO, env=e, capture_output=True, text=True,
                               errors="replace", timeout=timeout + 120)
            res.rc = p.returncode
            res.out = (p.stdout or "") + (p.stderr or "")
        except subprocess.TimeoutExpired as ex:
            res.timed_out = True
            res.rc = -1
            res.out = ((ex.stdout or b"").decode(errors="replace") if isinstance(ex.stdout, bytes) else (ex.stdout or ""))
        res.wall = time.time() - t0
        if "[build failed]" in res.out or "[setup failed]" in res.out:
            res.build_failed = True
        if os.path.exists(outp):
            with open(outp, errors="replace") as fh:
                for line in fh:
                    line = line.strip()
                    if not line:
                        continue
                    try:
                        res.records.append(json.loads(line))
                    except Exception:
                        pass
        return res

    def need_go_ok(self, res, what, need_summary=True):
        """The harness itself must have run to completion; otherwise inconclusive."""
        if res.build_failed:
            self.inconclusive("%s: harness does not build against this tree:\n%s" % (what, res.out[-3000:]))
            return False
        if res.timed_out:
            self.inconclusive("%s: go test timed out\n%s" % (what, res.out[-2000:]))
            return False
        if need_summary and res.summary is None:
            self.inconclusive("%s: harness produced no summary (rc=%s)\n%s" % (what, res.rc, res.out[-3000:]))
            return False
        return True

    def take_failures(self, res, sub, limit=2000):
        """Turn harness `fail` records into violations (after KNOWN_FINDINGS filtering)."""
        n = 0
        for r in res.of_kind("fail"):
            n += 1
            if n > limit:
                break
            self.violation(r.get("features", {}), "%s: %s" % (sub, r.get("msg", "")),
                           replay={"sub": sub, "case": r.get("case")})
        return n

    # ------------------------------------------------------------------ finish
    def finish(self):
        wall = time.time() - self.t0
        cov = dict(self.cov)
        if not cov["samples"]:
            cov["samples"] = ["(no case was explored)"]
        cov["known_findings_hit"] = {k: v[1] for k, v in self.known_hits.items()}
        if self.inconclusives:
            cov["inconclusive"] = self.inconclusives[:5]
        ev = {
            "property_id": self.prop, "tier": self.tier, "seed": self.seed, "level": self.level,
            "coverage": cov, "assumptions": self.assumptions, "wall_s": round(wall, 2),
            "violations": len(self.violations),
        }
        if not self.replay:
            # evidence/<id>.json describes runs against /repo itself; a run pointed at another checkout
            # (VERIF_REPO: scratch worktrees with seeded changes or candidate fixes) is kept apart
            edir = os.path.join(VERIF, "evidence") if os.path.realpath(REPO) == "/repo" else os.path.join(VERIF, "evidence", "scratch")
            os.makedirs(edir, exist_ok=True)
            with open(os.path.join(edir, self.prop + ".json"), "w") as fh:
                json.dump(ev, fh, indent=1, sort_keys=True, default=str)
        shutil.rmtree(self.tmp, ignore_errors=True)
        for key, (text, n) in sorted(self.known_hits.items()):
            print("KNOWN-FINDING: property=%s %s [key=%s, %d case(s) this run]" % (self.prop, text, key, n))
        if self.violations:
            seen = set()
            for feat, msg, path in self.violations:
                if path and path not in seen:
                    seen.add(path)
                    print("VIOLATION property=%s replay=%s" % (self.prop, path))
            print("%s: %d violating case(s); first: %s" % (self.prop, len(self.violations), self.violations[0][1]))
            return 1
        if self.inconclusives:
            print("%s: INCONCLUSIVE (%d reason(s)); first: %s" % (self.prop, len(self.inconclusives), self.inconclusives[0][:500]))
            return 2
        print("%s: held on everything explored (tier=%s seed=%d, %.1fs; states=%d transitions=%d impl-traces=%d evaluations=%d)"
              % (self.prop, self.tier, self.seed, wall, cov.get("states", 0), cov.get("transitions", 0),
                 cov.get("traces_validated_against_impl", 0), cov.get("evaluations", 0)))
        return 0


def write_ndjson(path, items):
    with open(path, "w") as fh:
        for it in items:
            fh.write(json.dumps(it, separators=(",", ":")) + "\n")


def stable_hash(obj):
    return hashlib.sha1(json.dumps(obj, sort_keys=True, default=str).encode()).hexdigest()[:12]
