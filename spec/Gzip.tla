-------------------------------- MODULE Gzip --------------------------------
(***************************************************************************)
(* Response compression of fabio (property C17), transcribed from the      *)
(* property statement and the documentation of proxy.gzip.contenttype:     *)
(*                                                                         *)
(*   a response is compressed iff the client accepts gzip, the response's  *)
(*   content type matches the configured expression and the response is    *)
(*   not already encoded; a compressed response is labelled                *)
(*   Content-Encoding: gzip, carries no stale Content-Length and           *)
(*   decompresses to exactly the bytes the inner handler wrote; otherwise  *)
(*   body and headers pass unchanged; the status code is preserved.        *)
(*                                                                         *)
(* Shape of the implementation: per request a mode in {undecided, gzip,    *)
(* plain} that is decided once, at the first FINAL WriteHeader (status >=   *)
(* 200) or Write; informational WriteHeader(1xx) calls (net/http allows    *)
(* several before the final header) announce nothing about the response    *)
(* and decide nothing, and the status of the response is the first final   *)
(* one; gzip                                                               *)
(* writers come from a pool shared by all handlers (Get + Reset at the     *)
(* decision, flush + Put when the handler finishes).  A writer buffers:    *)
(* what is written through it reaches the response when it is flushed.     *)
(*                                                                         *)
(* Where statement and documentation are silent the specification leaves   *)
(* the mode free: no explicit Content-Type (the type is sniffed), clients  *)
(* asking for text/event-stream, responses on which nothing was written.   *)
(* A client that lists gzip with q=0 REFUSES gzip ("only if the client     *)
(* accepts gzip").                                                          *)
(***************************************************************************)
EXTENDS Integers, Sequences, FiniteSets

CONSTANTS
    Handlers,       \* handler ids (concurrent requests), positive integers
    MaxOps,         \* ops per handler
    Codes,          \* status codes usable in WriteHeader
    Chunks,         \* chunk kinds (strings) usable in Write
    Reqs,           \* request/response parameter records:
                    \*   ae  : "yes" | "no" | "refused" | "refusedwild" | "wild"
                    \*         Accept-Encoding lists gzip with q>0 / does not list it (and no "*") / lists it with q=0 /
                    \*         lists it with q=0 next to a "*" (RFC 7231 5.3.4: the explicit entry wins: refused) /
                    \*         makes gzip acceptable only through "*" or an unusual spelling (compressing is permitted,
                    \*         not required: the documentation speaks of 'Accept-Encoding: gzip')
                    \*   ct  : "match" | "nomatch" | "absent"   Content-Type of the response vs the expression
                    \*   enc : ""  or an existing Content-Encoding of the response
                    \*   cl  : the inner handler sets Content-Length
                    \*   acc : "other" | "sse"             Accept: text/event-stream
                    \*   method : "GET" | "HEAD"
                    \*   vary : "" | "own": the inner handler adds a Vary value of its own (as the reverse proxy copies
                    \*          an upstream's header: appended to what the compressing handler put there).  It must
                    \*          arrive, and - the handler instance being shared by all responses - it must not leak
                    \*          into any other response
                    \*   buf  : "fresh" | "reused": the inner handler writes every chunk from ONE buffer which it overwrites as
                    \*          soon as Write has returned (io.Copy, fmt.Fprintf do that; io.Writer forbids the callee to
                    \*          keep the slice).  A written chunk is the VALUE at the time of the call
                    \*   via  : "default" | "insecure" | "target": which transport of the proxy serves the route (route
                    \*          options tlsskipverify=true / proto=https host=<name> select another one than the default);
                    \*          it has no say in what is delivered
                    \*   late : the inner handler sets its response headers only after its informational
                    \*          WriteHeader calls, just before the first final op (how Early Hints are used);
                    \*          the response is the same, so the specification does not look at it
    MaxWriters,     \* bound on writers ever created (>= Cardinality(Handlers))
    FlushSupported, \* whether a Flush of the inner handler (http.Flusher) gets through the compressing writer:
                    \* TRUE  = it commits the header (status 200 unless set) and pushes what was written so far
                    \*         - the compress decision is then due at the Flush, BEFORE the header is committed;
                    \* FALSE = the writer offers no Flush and the call is a no-op.  Both are permitted.
    WithFlush,      \* whether handler scripts contain Flush calls at all
    WithHijack,     \* whether handler scripts contain an attempt to take the connection over (http.Hijacker) that
                    \* FAILS because the writer below cannot be hijacked; the handler then answers normally.  A failed
                    \* operation leaves nothing behind: the response is judged as if it had not been tried.
    WithAbort,      \* whether handler scripts may end in an abort: the inner handler gives up with a panic
                    \* (http.ErrAbortHandler - how the reverse proxy reacts when the upstream or the client goes
                    \* away while the body is copied).  Nothing is required of the aborted response itself, but
                    \* everything of the responses served AFTER it by the same instance: the pool must stay sane.
    AbortPutsBlind, \* FALSE = the design; TRUE = an abort hands "its writer" back to the pool even when the aborted
                    \* response had none (must break PoolSane)
    PutBeforeFlush  \* FALSE = the design; TRUE = a writer goes back to the pool before it is flushed (must break the invariants)

VARIABLES
    hs,       \* per handler: pc, req, mode, writer, status, ce, cl, inner, body, ops
    pool,     \* free writers
    made,     \* writers created so far
    wbuf,     \* per writer: chunks written through it and not yet flushed
    wtarget,  \* per writer: the handler whose response it was last Reset to (0 = none)
    hist      \* the interleaving so far (generator only; not part of the VIEW)
vars == <<hs, pool, made, wbuf, wtarget, hist>>

Writers == 1..MaxWriters
NoReq == [ae |-> "", ct |-> "", enc |-> "", cl |-> FALSE, acc |-> "", method |-> "", late |-> FALSE, vary |-> "", buf |-> "", via |-> ""]
Idle == [pc |-> "idle", req |-> NoReq, mode |-> "undecided", writer |-> 0, status |-> 0,
         ce |-> "", cl |-> FALSE, inner |-> <<>>, body |-> <<>>, ops |-> <<>>]

-----------------------------------------------------------------------------
\* the decision rule
MayCompress(q)  == q.ae \in {"yes", "wild"} /\ q.ct \in {"match", "absent"} /\ q.enc = ""
MustCompress(q) == q.ae = "yes" /\ q.ct = "match" /\ q.enc = "" /\ q.acc # "sse"
\* informational (1xx) WriteHeader calls are not part of the response proper
Informational(c) == c >= 100 /\ c < 200
\* under the reading `honour` of Flush: is the op one that commits the header?
FinalUnder(op, honour) == op.ev = "w" \/ (op.ev = "wh" /\ ~Informational(op.code)) \/ (op.ev = "fl" /\ honour)
IsFinalOp(op) == FinalUnder(op, FlushSupported)
\* the status net/http delivers for a script: that of the first committing op (200 unless it is a WriteHeader)
StatusUnder(ops, honour) ==
    LET fin == {i \in DOMAIN ops : FinalUnder(ops[i], honour)} IN
    IF fin = {} THEN 200
    ELSE LET i == CHOOSE j \in fin : \A k \in fin : j <= k IN
         IF ops[i].ev = "wh" THEN ops[i].code ELSE 200
NFinal(ops) == Cardinality({i \in DOMAIN ops : IsFinalOp(ops[i])})
\* modes a response on which `n` final ops were performed may end in
AllowedModes(q, n) == (IF MayCompress(q) THEN {"gzip"} ELSE {})
                      \cup (IF ~MustCompress(q) \/ n = 0 THEN {"plain"} ELSE {})
\* header rules per mode: Content-Encoding and whether the inner handler's Content-Length survives
ExpCE(q, m) == IF m = "gzip" THEN "gzip" ELSE q.enc
ExpCL(q, m) == IF m = "gzip" THEN FALSE ELSE q.cl
ExpStatus(h) == IF hs[h].status = 0 THEN 200 ELSE hs[h].status
BodyAllowed(code, method) == method # "HEAD" /\ code \notin {204, 304} /\ code >= 200

-----------------------------------------------------------------------------
Init == /\ hs = [h \in Handlers |-> Idle]
        /\ pool = {} /\ made = 0
        /\ wbuf = [w \in Writers |-> <<>>]
        /\ wtarget = [w \in Writers |-> 0]
        /\ hist = <<>>

Ev(h, e, code, chunk) == [h |-> h, ev |-> e, code |-> code, chunk |-> chunk]

Begin(h, q) ==
    /\ hs[h].pc = "idle"
    /\ hs' = [hs EXCEPT ![h] = [Idle EXCEPT !.pc = "serving", !.req = q, !.ce = q.enc, !.cl = q.cl]]
    /\ hist' = Append(hist, Ev(h, "begin", 0, ""))
    /\ UNCHANGED <<pool, made, wbuf, wtarget>>

\* the decision, taken inside the first WriteHeader / Write: a mode, and for gzip a writer taken
\* from the pool (or created) and Reset to this response
Deciding(h) == hs[h].mode = "undecided"
CanTake(w) == w \in pool \/ (w = made + 1 /\ made < MaxWriters)
Choices(h) ==   \* set of <<mode, writer>> this step may settle on
    IF Deciding(h)
    THEN (IF "gzip" \in AllowedModes(hs[h].req, 1) THEN {<<"gzip", w>> : w \in {x \in Writers : CanTake(x)}} ELSE {})
         \cup (IF "plain" \in AllowedModes(hs[h].req, 1) THEN {<<"plain", 0>>} ELSE {})
    ELSE {<<hs[h].mode, 0>>}
Takes(h, d) == Deciding(h) /\ d[1] = "gzip"
Take(h, d) ==
    IF Takes(h, d)
    THEN /\ pool' = pool \ {d[2]}
         /\ made' = IF d[2] \in pool THEN made ELSE made + 1
         /\ wtarget' = [wtarget EXCEPT ![d[2]] = h]
    ELSE UNCHANGED <<pool, made, wtarget>>
Fresh(h, d) == IF Takes(h, d) THEN [wbuf EXCEPT ![d[2]] = <<>>] ELSE wbuf      \* Reset drops what the writer held
After(h, d) ==
    IF ~Deciding(h) THEN hs[h]
    ELSE IF d[1] = "gzip"
         THEN [hs[h] EXCEPT !.mode = "gzip", !.writer = d[2], !.ce = "gzip", !.cl = FALSE]
         ELSE [hs[h] EXCEPT !.mode = "plain"]

WriteHeader(h, c) ==
    /\ hs[h].pc = "serving" /\ Len(hs[h].ops) < MaxOps
    /\ IF Informational(c)
       THEN \* sent (or, after the final header, ignored) without touching mode, status or headers
            /\ hs' = [hs EXCEPT ![h].ops = Append(@, Ev(h, "wh", c, ""))]
            /\ UNCHANGED <<pool, made, wbuf, wtarget>>
       ELSE \E d \in Choices(h) :
              /\ Take(h, d)
              /\ wbuf' = Fresh(h, d)
              /\ hs' = [hs EXCEPT ![h] = [After(h, d) EXCEPT !.status = IF @ = 0 THEN c ELSE @,   \* a second final WriteHeader is superfluous
                                                             !.ops = Append(@, Ev(h, "wh", c, ""))]]
    /\ hist' = Append(hist, Ev(h, "wh", c, ""))

\* a written chunk goes through the writer (buffered) or straight to the response; nothing is
\* delivered on a response that cannot have a body
Write(h, k) ==
    /\ hs[h].pc = "serving" /\ Len(hs[h].ops) < MaxOps
    /\ \E d \in Choices(h) :
         LET st1 == [After(h, d) EXCEPT !.status = IF @ = 0 THEN 200 ELSE @, !.ops = Append(@, Ev(h, "w", 0, k))]
             ok  == BodyAllowed(st1.status, st1.req.method)
             st2 == IF ok THEN [st1 EXCEPT !.inner = Append(@, <<h, k>>)] ELSE st1 IN
         /\ Take(h, d)
         /\ IF st2.mode = "gzip"
            THEN /\ hs' = [hs EXCEPT ![h] = st2]
                 /\ wbuf' = IF ok THEN [Fresh(h, d) EXCEPT ![st2.writer] = Append(@, <<h, k>>)] ELSE Fresh(h, d)
            ELSE /\ hs' = [hs EXCEPT ![h] = IF ok THEN [st2 EXCEPT !.body = Append(@, <<h, k>>)] ELSE st2]
                 /\ wbuf' = Fresh(h, d)
    /\ hist' = Append(hist, Ev(h, "w", 0, k))

\* Flush of the inner handler (between chunks of a streamed response, or before the first one to push
\* the header out)
FlushOp(h) ==
    /\ hs[h].pc = "serving" /\ Len(hs[h].ops) < MaxOps
    /\ IF FlushSupported
       THEN \E d \in Choices(h) :
              LET st1 == [After(h, d) EXCEPT !.status = IF @ = 0 THEN 200 ELSE @, !.ops = Append(@, Ev(h, "fl", 0, ""))] IN
              /\ Take(h, d)
              /\ IF st1.mode = "gzip"
                 THEN /\ hs' = [hs EXCEPT ![h] = [st1 EXCEPT !.body = @ \o Fresh(h, d)[st1.writer]]]
                      /\ wbuf' = [Fresh(h, d) EXCEPT ![st1.writer] = <<>>]
                 ELSE /\ hs' = [hs EXCEPT ![h] = st1]
                      /\ wbuf' = Fresh(h, d)
       ELSE /\ hs' = [hs EXCEPT ![h].ops = Append(@, Ev(h, "fl", 0, ""))]
            /\ UNCHANGED <<pool, made, wbuf, wtarget>>
    /\ hist' = Append(hist, Ev(h, "fl", 0, ""))

\* the handler returns: the writer is flushed into the response it is bound to, then returned
Flush(h) ==
    LET w == hs[h].writer IN
    IF hs[h].mode = "gzip"
    THEN /\ wtarget[w] # 0
         /\ hs' = [hs EXCEPT ![wtarget[w]].body = @ \o wbuf[w], ![h].pc = IF PutBeforeFlush THEN "done" ELSE "flushed"]
         /\ wbuf' = [wbuf EXCEPT ![w] = <<>>]
    ELSE /\ hs' = [hs EXCEPT ![h].pc = IF PutBeforeFlush THEN "done" ELSE "flushed"]
         /\ UNCHANGED wbuf
Put(h) ==
    /\ pool' = IF hs[h].mode = "gzip" THEN pool \cup {hs[h].writer} ELSE pool
    /\ hs' = [hs EXCEPT ![h].pc = IF PutBeforeFlush THEN "put" ELSE "done"]

\* the inner handler tries to hijack the connection and is refused
HijackFails(h) ==
    /\ hs[h].pc = "serving" /\ Len(hs[h].ops) < MaxOps
    /\ hs' = [hs EXCEPT ![h].ops = Append(@, Ev(h, "hj", 0, ""))]
    /\ hist' = Append(hist, Ev(h, "hj", 0, ""))
    /\ UNCHANGED <<pool, made, wbuf, wtarget>>

\* the inner handler gives up: the response is cut; a writer it held goes back to the pool (whatever it
\* buffered is dropped by the Reset of the next user) or is discarded
Abort(h) ==
    /\ hs[h].pc = "serving" /\ Len(hs[h].ops) < MaxOps
    /\ hs' = [hs EXCEPT ![h].pc = "aborted", ![h].ops = Append(@, Ev(h, "ab", 0, ""))]
    /\ pool' = IF AbortPutsBlind THEN pool \cup {hs[h].writer}
               ELSE IF hs[h].mode = "gzip" THEN pool \cup {hs[h].writer} ELSE pool
    /\ hist' = Append(hist, Ev(h, "ab", 0, ""))
    /\ UNCHANGED <<made, wbuf, wtarget>>

FinishFlush(h) == /\ hs[h].pc = IF PutBeforeFlush THEN "put" ELSE "serving"
                  /\ Flush(h)
                  /\ hist' = IF PutBeforeFlush THEN hist ELSE Append(hist, Ev(h, "finish", 0, ""))
                  /\ UNCHANGED <<pool, made, wtarget>>
FinishPut(h) == /\ hs[h].pc = IF PutBeforeFlush THEN "serving" ELSE "flushed"
                /\ Put(h)
                /\ hist' = IF PutBeforeFlush THEN Append(hist, Ev(h, "finish", 0, "")) ELSE hist
                /\ UNCHANGED <<made, wbuf, wtarget>>

Next == \E h \in Handlers :
          \/ \E q \in Reqs : Begin(h, q)
          \/ \E c \in Codes : WriteHeader(h, c)
          \/ \E k \in Chunks : Write(h, k)
          \/ (WithFlush /\ FlushOp(h))
          \/ (WithAbort /\ Abort(h))
          \/ (WithHijack /\ HijackFails(h))
          \/ FinishFlush(h)
          \/ FinishPut(h)
Spec == Init /\ [][Next]_vars

-----------------------------------------------------------------------------
\* properties
Live(h) == hs[h].pc \in {"serving", "flushed", "put"} /\ hs[h].mode = "gzip"
TypeOK == /\ pool \subseteq 1..made
          /\ made \in 0..MaxWriters
          /\ \A h \in Handlers : hs[h].mode \in {"undecided", "gzip", "plain"}

\* the pool holds writers, nothing else (a "no writer" put into it would be handed to a later response)
PoolSane == pool \subseteq Writers
\* a pooled writer is never shared by two live handlers, nor free while in use
NoSharedWriter == /\ \A h1, h2 \in Handlers : (h1 # h2 /\ Live(h1) /\ Live(h2)) => hs[h1].writer # hs[h2].writer
                  /\ \A h \in Handlers : (hs[h].pc \in {"serving", "flushed"} /\ hs[h].mode = "gzip") =>
                        (hs[h].writer \notin pool /\ wtarget[hs[h].writer] = h)
\* nothing of one response ever shows up in another
NoCrossTalk == \A h \in Handlers : \A i \in DOMAIN hs[h].body : hs[h].body[i][1] = h
\* the content: what arrived (after decompression in gzip mode) is what the inner handler wrote
ContentIntact == \A h \in Handlers : hs[h].pc = "done" => hs[h].body = hs[h].inner
\* decision and header rules
DecisionRule == \A h \in Handlers : hs[h].pc # "idle" =>
                   /\ hs[h].mode # "undecided" => hs[h].mode \in AllowedModes(hs[h].req, NFinal(hs[h].ops))
                   /\ (hs[h].mode = "undecided") = (NFinal(hs[h].ops) = 0)
                   /\ hs[h].mode = "gzip" => (hs[h].req.ae \in {"yes", "wild"} /\ hs[h].req.enc = "" /\ hs[h].req.ct # "nomatch")
HeaderRule == \A h \in Handlers : hs[h].pc # "idle" =>
                 LET m == IF hs[h].mode = "undecided" THEN "plain" ELSE hs[h].mode IN
                 /\ hs[h].ce = ExpCE(hs[h].req, m)
                 /\ hs[h].cl = ExpCL(hs[h].req, m)
StatusRule == \A h \in Handlers :
                 IF NFinal(hs[h].ops) = 0 THEN hs[h].status = 0
                 ELSE hs[h].status = StatusUnder(hs[h].ops, FlushSupported)
=============================================================================
