------------------------------- MODULE Tunnel -------------------------------
(***************************************************************************)
(* A tunnelled connection through fabio (tcp, tcp+sni, tcp-dynamic, and a  *)
(* websocket after the 101 handshake), transcribed from the statement of   *)
(* property C09: "once a connection is tunnelled every byte one side sends *)
(* is delivered to the other side exactly once, in order and unmodified,   *)
(* however the bytes are split into segments: the upstream sees the        *)
(* optional PROXY line, then the client's stream from its very first byte  *)
(* (including the TLS ClientHello on SNI listeners and anything sent       *)
(* together with it).  Whichever side finishes first has had all of its    *)
(* data delivered, and a client that half-closes after sending still       *)
(* receives the reply."                                                    *)
(*                                                                         *)
(* Two endpoints (client, upstream) each own a list of segments (one       *)
(* write each), a closing behaviour, and - for the upstream - a trigger    *)
(* that says when it starts to reply.  Four FIFO kernel buffers connect    *)
(* them to the proxy; a FIN is the marker EOFm queued behind the data.     *)
(* The proxy is the main routine (SNI: Peek, ReadHello; Dial; optional     *)
(* ProxyHdr; ReplayHello; websocket: relay of the 101 response) followed   *)
(* by two copier processes with pcs read -> write -> ... -> eof -> done.   *)
(*                                                                         *)
(* The DESIGN is the specification with both deviation constants FALSE:    *)
(* an EOF in one direction is propagated as a half-close to the other      *)
(* side, the tunnel ends when both directions are done, and after the      *)
(* ClientHello the copier continues from wherever the unread bytes are     *)
(* (the buffered reader first).  The two deviations of the pinned code are *)
(* NAMED constants so that the same module documents what the code does:   *)
(*   EndOnFirstEOF   - the first finished copy direction tears down both   *)
(*   CopyFromRawConn - after the hello the copier reads the raw socket,    *)
(*                     bytes left in the buffered reader are dropped       *)
(*                                                                         *)
(* Three further NAMED deviations describe classes of defects the pinned   *)
(* code does not have but a change could introduce (each must be caught):  *)
(*   DropDataWithEOF - a Read that returns data TOGETHER with EOF (a TLS   *)
(*                     record followed by close_notify; io.Reader allows   *)
(*                     it for every reader) loses that data                *)
(*   AbortOnError    - a copy direction that FAILS ends the tunnel at once *)
(*                     although the other direction is still delivering    *)
(*   ResetOnError    - after a failure the connections are reset: bytes    *)
(*                     already queued for the healthy direction are gone   *)
(*   ReadTimeoutArmsWrite - on a listener with a read timeout (rt=) the    *)
(*                     deadline of the last read also ends later WRITES    *)
(*                     of the reply to the client                          *)
(*   StaleTargetOptions - a service has several instances whose options    *)
(*                     differ (pxyproto); the dial to the first is refused *)
(*                     and the next instance gets (or misses) the PROXY    *)
(*                     line according to the options of the failed one     *)
(*   DialDeadlineStays - proxy.dialtimeout bounds the dial (and whatever   *)
(*                     else is done while the connection is set up); a     *)
(*                     tunnel that is older than that is not affected      *)
(*   RefreshClosesTunnels - a tcp-dynamic listener looks at the routing    *)
(*                     table every `refresh`; while the route of a tunnel  *)
(*                     exists a refresh does nothing to it                 *)
(*   WriteTimeoutArmsRead - on a listener with a write timeout (wt=) the   *)
(*                     deadline of a write to the client also ends a later *)
(*                     READ from a client that stays silent for longer     *)
(*                     (wt= limits writes; only rt= has a say about reads) *)
(* The design: a failed direction only ends itself; what the other side    *)
(* sent before it finished cleanly still reaches its peer.                 *)
(*                                                                         *)
(* Scenarios are restricted to those a DIRECT tcp connection would carry   *)
(* without a reset (a side closes completely only when nothing can still   *)
(* be on its way to it); see WellPosed in Tunnel_MC.  For these a          *)
(* transparent tunnel delivers everything.                                 *)
(***************************************************************************)
EXTENDS Integers, Sequences, FiniteSets

CONSTANTS
    Scenarios,         \* set of scenario records, see Tunnel_MC
    EndOnFirstEOF,     \* deviation (pinned code): TRUE
    CopyFromRawConn,   \* deviation (pinned code): TRUE
    DropDataWithEOF,   \* deviation (defect class): data returned together with EOF is dropped
    AbortOnError,      \* deviation (defect class): first failed direction ends the tunnel
    ResetOnError,      \* deviation (defect class): connections are reset when the tunnel ended with an error
    StaleTargetOptions,   \* deviation (defect class): after a refused dial the next instance is dialled with the failed one's options
    DialDeadlineStays,    \* deviation (defect class): a deadline armed while the connection was set up (proxy.dialtimeout) stays on the upstream connection
    RefreshClosesTunnels, \* deviation (defect class): a refresh of the tcp-dynamic listeners ends tunnels whose route still exists
    WriteTimeoutArmsRead, \* deviation (defect class): the listener's write timeout also expires reads from a silent client
    ReadTimeoutArmsWrite, \* deviation (defect class): the listener's read timeout also expires writes to the client
    PeekN              \* bytes the SNI path peeks before it knows the hello length

EOFm  == 0             \* FIN marker inside the byte FIFOs (data bytes are >= 1)
HDR   == 90            \* the PROXY protocol line, one token
WS101 == 98            \* the upstream's "HTTP/1.1 101" response, one token
RSTm  == 99            \* a reset: whatever was queued in front of it is gone (always alone in its FIFO)

VARIABLES
    sc,                              \* the scenario (never changes)
    cIdx, cState, cRecv, cGotEOF,    \* client: segments written, socket state, delivered bytes
    uIdx, uState, uRecv, uGotEOF, uConn,
    c2p, p2u, u2p, p2c,              \* kernel buffers
    ppc,                             \* proxy main routine
    bio, hbuf,                       \* buffered reader over the client conn, captured hello
    cpCU, cpUC,                      \* copiers client->upstream, upstream->client
    inW, outW,                       \* proxy has shut the write side of in / out
    firstFin                         \* which endpoint sent its FIN first

cli  == <<cIdx, cState, cRecv, cGotEOF>>
ups  == <<uIdx, uState, uRecv, uGotEOF, uConn>>
bufs == <<c2p, p2u, u2p, p2c>>
prx  == <<ppc, bio, hbuf, cpCU, cpUC, inW, outW>>
vars == <<sc, cli, ups, bufs, prx, firstFin>>

-----------------------------------------------------------------------------
\* helpers
RECURSIVE Flatten(_)
Flatten(ss) == IF ss = <<>> THEN <<>> ELSE Head(ss) \o Flatten(Tail(ss))
IsPrefix(a, b) == Len(a) <= Len(b) /\ SubSeq(b, 1, Len(a)) = a
Min(a, b) == IF a < b THEN a ELSE b
\* number of data bytes in front of the first FIN marker
LeadLen(q) == CHOOSE n \in 0..Len(q) : /\ \A j \in 1..n : q[j] # EOFm
                                       /\ (n = Len(q) \/ q[n+1] = EOFm)
Idle == [pc |-> "read", buf |-> <<>>, eof |-> FALSE]
Cp(pc, buf, eof) == [pc |-> pc, buf |-> buf, eof |-> eof]

\* what the scenario prescribes
CSegs == sc.cseg
\* websocket: the upstream first answers the upgrade request with the 101 response; when it
\* replies at once (trigger 0) response and first reply segment are ONE write
WsMerged == sc.kind = "ws" /\ sc.trig = 0 /\ sc.useg # <<>>
USegs == IF sc.kind # "ws" THEN sc.useg
         ELSE IF WsMerged THEN <<(<<WS101>> \o sc.useg[1])>> \o Tail(sc.useg)
         ELSE <<(<<WS101>>)>> \o sc.useg
\* segments sent without waiting for the trigger: the 101 response, and with trigger -2 ("when the
\* client has gone") the first message, which the client sees before it leaves
UFree == (IF sc.kind = "ws" /\ ~WsMerged THEN 1 ELSE 0) + (IF sc.trig = -2 THEN 1 ELSE 0)
RECURSIVE FlatN(_, _)
FlatN(ss, n) == IF n = 0 \/ ss = <<>> THEN <<>> ELSE Head(ss) \o FlatN(Tail(ss), n - 1)
Hdr == IF sc.proxy = 1 THEN <<HDR>> ELSE <<>>
ExpU == Hdr \o Flatten(CSegs)        \* what the upstream must have seen when everything is over
ExpC == Flatten(USegs)               \* what the client must have seen

UPayload == Len(uRecv) - Len(Hdr)
CAlive == cState \notin {"closed", "reset"}
UTriggered == IF sc.trig = -1 THEN uGotEOF ELSE IF sc.trig = -2 THEN ~CAlive ELSE UPayload >= sc.trig
\* a websocket client speaks only after it has the handshake response
\* sc.wt = 1: a session with a pause.  The client sends up to the point at which the upstream replies,
\* waits until it has the complete reply, stays silent for longer than the listener's write timeout,
\* and only then goes on (more data and / or its FIN).
CSent == Len(FlatN(CSegs, cIdx))
CPauseOver == (sc.wt = 1 /\ CSent >= sc.trig) => cRecv = ExpC
CGate == (sc.kind = "ws" => cRecv # <<>>) /\ CPauseOver

-----------------------------------------------------------------------------
Init == /\ sc \in Scenarios
        /\ cIdx = 0 /\ cState = "open" /\ cRecv = <<>> /\ cGotEOF = FALSE
        /\ uIdx = 0 /\ uState = "open" /\ uRecv = <<>> /\ uGotEOF = FALSE /\ uConn = FALSE
        /\ c2p = <<>> /\ p2u = <<>> /\ u2p = <<>> /\ p2c = <<>>
        /\ ppc = IF sc.kind = "sni" THEN "peek" ELSE "dial"
        /\ bio = <<>> /\ hbuf = <<>>
        /\ cpCU = Idle /\ cpUC = Idle
        /\ inW = FALSE /\ outW = FALSE
        /\ firstFin = "none"

-----------------------------------------------------------------------------
\* client
CWrite == /\ cState = "open" /\ cIdx < Len(CSegs) /\ CGate
          /\ c2p' = IF ppc # "done" THEN c2p \o CSegs[cIdx + 1] ELSE c2p
          /\ cIdx' = cIdx + 1
          /\ UNCHANGED <<sc, cState, cRecv, cGotEOF, ups, p2u, u2p, p2c, prx, firstFin>>

\* after its last segment: half-close (keeps reading) or close completely
CFin == /\ cState = "open" /\ cIdx = Len(CSegs) /\ CGate /\ sc.cmode \in {"half", "close", "abort"}
        /\ c2p' = IF ppc # "done" THEN Append(c2p, EOFm) ELSE c2p
        /\ cState' = IF sc.cmode = "close" THEN "closed" ELSE "halfclosed"
        /\ p2c' = IF sc.cmode = "close" THEN <<>> ELSE p2c
        /\ firstFin' = IF firstFin = "none" THEN "c" ELSE firstFin
        /\ UNCHANGED <<sc, cIdx, cRecv, cGotEOF, ups, p2u, u2p, prx>>

CRead == /\ CAlive /\ ~cGotEOF /\ p2c # <<>>
         /\ IF p2c[1] \in {EOFm, RSTm}
            THEN cGotEOF' = TRUE /\ cRecv' = cRecv /\ p2c' = Tail(p2c)
            ELSE LET n == LeadLen(p2c) IN
                 /\ cRecv' = cRecv \o SubSeq(p2c, 1, n)
                 /\ p2c' = SubSeq(p2c, n + 1, Len(p2c))
                 /\ cGotEOF' = cGotEOF
         /\ UNCHANGED <<sc, cIdx, cState, ups, c2p, p2u, u2p, prx, firstFin>>

\* the peer (or the proxy) has finished: the client closes once it has written everything
CCloseAfterEOF == /\ cGotEOF /\ CAlive /\ cIdx = Len(CSegs)
                  /\ c2p' = IF cState = "open" /\ ppc # "done" THEN Append(c2p, EOFm) ELSE c2p
                  /\ cState' = "closed"
                  /\ p2c' = <<>>
                  /\ firstFin' = IF firstFin = "none" THEN "c" ELSE firstFin
                  /\ UNCHANGED <<sc, cIdx, cRecv, cGotEOF, ups, p2u, u2p, prx>>

\* cmode "abort": the client has sent everything and half-closed (all of it has been taken over by
\* the proxy's side of the connection: c2p), has seen the upstream's first message, and now goes
\* away without reading on: its connection is reset.  Nothing it sent is affected; what is sent TO
\* it from now on fails.
CAbort == /\ sc.cmode = "abort" /\ cState = "halfclosed"
          /\ Len(cRecv) >= Len(FlatN(USegs, UFree))
          /\ cState' = "reset"
          /\ p2c' = <<>>
          /\ UNCHANGED <<sc, cIdx, cRecv, cGotEOF, ups, c2p, p2u, u2p, prx, firstFin>>

-----------------------------------------------------------------------------
\* upstream (exists for the proxy only after Dial)
UWrite == /\ uConn /\ uState = "open" /\ uIdx < Len(USegs)
          /\ (uIdx < UFree \/ UTriggered)
          /\ u2p' = IF ppc # "done" THEN u2p \o USegs[uIdx + 1] ELSE u2p
          /\ uIdx' = uIdx + 1
          /\ UNCHANGED <<sc, cli, uState, uRecv, uGotEOF, uConn, c2p, p2u, p2c, prx, firstFin>>

UFin == /\ uConn /\ uState = "open" /\ uIdx = Len(USegs) /\ UTriggered
        /\ sc.umode \in {"half", "close"}
        /\ u2p' = IF ppc # "done" THEN Append(u2p, EOFm) ELSE u2p
        /\ uState' = IF sc.umode = "half" THEN "halfclosed" ELSE "closed"
        /\ p2u' = IF sc.umode = "close" THEN <<>> ELSE p2u
        /\ firstFin' = IF firstFin = "none" THEN "u" ELSE firstFin
        /\ UNCHANGED <<sc, cli, uIdx, uRecv, uGotEOF, uConn, c2p, p2c, prx>>

\* a slow upstream (uslow) reads only when it has written everything it has to write
URead == /\ uConn /\ uState # "closed" /\ ~uGotEOF /\ p2u # <<>>
         /\ (sc.uslow = 1 => uIdx = Len(USegs))
         /\ IF p2u[1] \in {EOFm, RSTm}
            THEN uGotEOF' = TRUE /\ uRecv' = uRecv /\ p2u' = Tail(p2u)
            ELSE LET n == LeadLen(p2u) IN
                 /\ uRecv' = uRecv \o SubSeq(p2u, 1, n)
                 /\ p2u' = SubSeq(p2u, n + 1, Len(p2u))
                 /\ uGotEOF' = uGotEOF
         /\ UNCHANGED <<sc, cli, uIdx, uState, uConn, c2p, u2p, p2c, prx, firstFin>>

\* EOF seen: close once the reply (if it was triggered at all) is out
UCloseAfterEOF == /\ uConn /\ uGotEOF /\ uState # "closed"
                  /\ (UTriggered => uIdx = Len(USegs))
                  /\ u2p' = IF uState = "open" /\ ppc # "done" THEN Append(u2p, EOFm) ELSE u2p
                  /\ uState' = "closed"
                  /\ p2u' = <<>>
                  /\ firstFin' = IF firstFin = "none" THEN "u" ELSE firstFin
                  /\ UNCHANGED <<sc, cli, uIdx, uRecv, uGotEOF, uConn, c2p, p2c, prx>>

-----------------------------------------------------------------------------
\* proxy, main routine
CanFill == c2p # <<>> /\ c2p[1] # EOFm
\* one read of the buffered reader from the socket: whatever has arrived, possibly more than asked for
Fill == \E k \in 1..LeadLen(c2p) : /\ bio' = bio \o SubSeq(c2p, 1, k)
                                   /\ c2p' = SubSeq(c2p, k + 1, Len(c2p))

Peek == /\ ppc = "peek"
        /\ IF Len(bio) >= PeekN
           THEN ppc' = "hello" /\ UNCHANGED <<bio, c2p>>
           ELSE CanFill /\ Fill /\ ppc' = ppc
        /\ UNCHANGED <<sc, cli, ups, p2u, u2p, p2c, hbuf, cpCU, cpUC, inW, outW, firstFin>>

\* ReadFull of exactly sc.hl bytes through the buffered reader
ReadHello == /\ ppc = "hello"
             /\ IF Len(hbuf) = sc.hl
                THEN ppc' = "dial" /\ UNCHANGED <<bio, hbuf, c2p>>
                ELSE IF bio # <<>>
                     THEN LET m == Min(Len(bio), sc.hl - Len(hbuf)) IN
                          /\ hbuf' = hbuf \o SubSeq(bio, 1, m)
                          /\ bio' = SubSeq(bio, m + 1, Len(bio))
                          /\ UNCHANGED <<ppc, c2p>>
                     ELSE CanFill /\ Fill /\ UNCHANGED <<ppc, hbuf>>
             /\ UNCHANGED <<sc, cli, ups, p2u, u2p, p2c, cpCU, cpUC, inW, outW, firstFin>>

\* A service may have several instances (targets), each with its own options.  sc.dead = 1: the dial to
\* the instance picked first is refused; its pxyproto option is sc.deadpp, that of the instance which
\* is alive is sc.proxy.  The statement does not say whether the proxy tries another instance: it may
\* give the connection up (nothing was tunnelled) or dial the next one - whose OWN options then apply.
HdrOn == IF StaleTargetOptions /\ sc.dead = 1 THEN sc.deadpp ELSE sc.proxy
AfterDial == IF HdrOn = 1 THEN "hdr" ELSE IF sc.kind = "sni" THEN "replay"
             ELSE IF sc.kind = "ws" THEN "ws101" ELSE "copy"
DialRefused == /\ ppc = "dial" /\ sc.dead = 1
               /\ \/ /\ ppc' = "dial2"                       \* try the next instance
                     /\ UNCHANGED <<p2c, c2p, inW, outW>>
                  \/ /\ ppc' = "done"                        \* give up: the client's connection is closed
                     /\ p2c' = IF CAlive THEN Append(p2c, EOFm) ELSE p2c
                     /\ c2p' = <<>>
                     /\ inW' = TRUE /\ outW' = TRUE
               /\ UNCHANGED <<sc, cli, ups, p2u, u2p, bio, hbuf, cpCU, cpUC, firstFin>>
Dial == /\ (ppc = "dial" /\ sc.dead = 0) \/ ppc = "dial2"
        /\ uConn' = TRUE
        /\ ppc' = AfterDial
        /\ UNCHANGED <<sc, cli, uIdx, uState, uRecv, uGotEOF, bufs, bio, hbuf, cpCU, cpUC, inW, outW, firstFin>>

ProxyHdr == /\ ppc = "hdr"
            /\ p2u' = IF uState # "closed" THEN p2u \o <<HDR>> ELSE p2u
            /\ ppc' = IF sc.kind = "sni" THEN "replay" ELSE "copy"
            /\ UNCHANGED <<sc, cli, ups, c2p, u2p, p2c, bio, hbuf, cpCU, cpUC, inW, outW, firstFin>>

ReplayHello == /\ ppc = "replay"
               /\ p2u' = IF uState # "closed" THEN p2u \o hbuf ELSE p2u
               /\ ppc' = "copy"
               /\ UNCHANGED <<sc, cli, ups, c2p, u2p, p2c, bio, hbuf, cpCU, cpUC, inW, outW, firstFin>>

\* websocket: one read of the upstream's handshake answer (whatever arrived with it) is relayed
Ws101 == /\ ppc = "ws101" /\ u2p # <<>> /\ u2p[1] # EOFm
         /\ \E k \in 1..LeadLen(u2p) :
               /\ p2c' = IF CAlive THEN p2c \o SubSeq(u2p, 1, k) ELSE p2c
               /\ u2p' = SubSeq(u2p, k + 1, Len(u2p))
         /\ ppc' = "copy"
         /\ UNCHANGED <<sc, cli, ups, c2p, p2u, bio, hbuf, cpCU, cpUC, inW, outW, firstFin>>

-----------------------------------------------------------------------------
\* Listener configuration (proxy.addr option rt=): a read timeout on the client connection.  All the
\* documentation says is that it limits reads from the client: when the client has been silent for
\* that long the client -> upstream direction ends (and, like every ended direction, is passed on
\* as a half-close).  It has no say about the other direction.  Modelled for a client that has
\* sent everything it has (a client cut off in mid-stream is the timeout doing its job).
CUTimeout == /\ ppc = "copy" /\ sc.rt = 1 /\ cpCU.pc = "read"
             /\ c2p = <<>> /\ bio = <<>> /\ cIdx = Len(CSegs)
             /\ cpCU' = Cp("failed", <<>>, FALSE)
             /\ p2u' = IF ~outW /\ uState # "closed" THEN Append(p2u, EOFm) ELSE p2u
             /\ outW' = TRUE
             /\ UNCHANGED <<sc, cli, ups, c2p, u2p, p2c, ppc, bio, hbuf, cpUC, inW, firstFin>>

\* Listener configuration (proxy.addr option wt=): a write timeout on the client connection.  It limits
\* how long a write TO the client may take.  The design: it has no say about reads - a client that is
\* silent for longer than wt (after the proxy has written to it) is still listened to.
CUWtExpired == /\ ppc = "copy" /\ WriteTimeoutArmsRead /\ sc.wt = 1 /\ cpCU.pc = "read"
               /\ c2p = <<>> /\ bio = <<>> /\ (cRecv # <<>> \/ p2c # <<>>)
               /\ cpCU' = Cp("failed", <<>>, FALSE)
               /\ p2u' = IF ~outW /\ uState # "closed" THEN Append(p2u, EOFm) ELSE p2u
               /\ outW' = TRUE
               /\ UNCHANGED <<sc, cli, ups, c2p, u2p, p2c, ppc, bio, hbuf, cpUC, inW, firstFin>>

\* a Read may return the last data together with the EOF that follows it (a TLS record and the
\* close_notify behind it; any io.Reader may): e = TRUE
WithEOF(q, k) == IF k = LeadLen(q) /\ k < Len(q) /\ q[k + 1] = EOFm THEN {FALSE, TRUE} ELSE {FALSE}
\* copier client -> upstream
UseBio == sc.kind = "sni" /\ ~CopyFromRawConn /\ bio # <<>>
CURead == /\ ppc = "copy" /\ cpCU.pc = "read"
          /\ IF UseBio
             THEN /\ \E k \in 1..Len(bio) : /\ cpCU' = Cp("write", SubSeq(bio, 1, k), FALSE)
                                            /\ bio' = SubSeq(bio, k + 1, Len(bio))
                  /\ c2p' = c2p
             ELSE /\ c2p # <<>>
                  /\ bio' = bio
                  /\ IF c2p[1] = EOFm
                     THEN cpCU' = Cp("eof", <<>>, FALSE) /\ c2p' = Tail(c2p)
                     ELSE \E k \in 1..LeadLen(c2p) : \E e \in WithEOF(c2p, k) :
                             /\ cpCU' = Cp("write", SubSeq(c2p, 1, k), e)
                             /\ c2p' = SubSeq(c2p, k + (IF e THEN 2 ELSE 1), Len(c2p))
          /\ UNCHANGED <<sc, cli, ups, p2u, u2p, p2c, ppc, hbuf, cpUC, inW, outW, firstFin>>

CUWrite == /\ ppc = "copy" /\ cpCU.pc = "write"
           /\ p2u' = IF uState # "closed" /\ ~(DropDataWithEOF /\ cpCU.eof) THEN p2u \o cpCU.buf ELSE p2u
           /\ cpCU' = IF cpCU.eof THEN Cp("eof", <<>>, FALSE) ELSE Idle
           /\ UNCHANGED <<sc, cli, ups, c2p, u2p, p2c, ppc, bio, hbuf, cpUC, inW, outW, firstFin>>

\* the client has finished: the design passes the FIN on and keeps the other direction alive
CUEof == /\ ppc = "copy" /\ cpCU.pc = "eof"
         /\ cpCU' = Cp("done", <<>>, FALSE)
         /\ IF EndOnFirstEOF
            THEN UNCHANGED <<p2u, outW>>
            ELSE /\ p2u' = IF ~outW /\ uState # "closed" THEN Append(p2u, EOFm) ELSE p2u
                 /\ outW' = TRUE
         /\ UNCHANGED <<sc, cli, ups, c2p, u2p, p2c, ppc, bio, hbuf, cpUC, inW, firstFin>>

\* copier upstream -> client
\* sc.dt = 1: the proxy has a dial timeout and the upstream speaks when the tunnel is older than that.
\* The design has nothing to say about it: the timeout is over when the connection is set up.
UCReadExpired == /\ ppc = "copy" /\ cpUC.pc = "read" /\ DialDeadlineStays /\ sc.dt = 1
                 /\ cpUC' = Cp("failed", <<>>, FALSE)
                 /\ p2c' = IF ~inW /\ CAlive THEN Append(p2c, EOFm) ELSE p2c
                 /\ inW' = TRUE
                 /\ UNCHANGED <<sc, cli, ups, c2p, p2u, u2p, ppc, bio, hbuf, cpCU, outW, firstFin>>

\* sc.refresh = 1: the listener is a tcp-dynamic one; it re-reads the routing table again and again while
\* the tunnel lives.  The table does not change, so nothing happens to the tunnel.
Refresh == /\ ppc = "copy" /\ sc.refresh = 1 /\ RefreshClosesTunnels
           /\ ppc' = "done"
           /\ p2u' = IF ~outW /\ uState # "closed" THEN Append(p2u, EOFm) ELSE p2u
           /\ p2c' = IF ~inW /\ CAlive THEN Append(p2c, EOFm) ELSE p2c
           /\ c2p' = <<>> /\ u2p' = <<>>
           /\ inW' = TRUE /\ outW' = TRUE
           /\ UNCHANGED <<sc, cli, ups, bio, hbuf, cpCU, cpUC, firstFin>>

UCRead == /\ ppc = "copy" /\ cpUC.pc = "read" /\ u2p # <<>>
          /\ IF u2p[1] = EOFm
             THEN cpUC' = Cp("eof", <<>>, FALSE) /\ u2p' = Tail(u2p)
             ELSE \E k \in 1..LeadLen(u2p) : \E e \in WithEOF(u2p, k) :
                     /\ cpUC' = Cp("write", SubSeq(u2p, 1, k), e)
                     /\ u2p' = SubSeq(u2p, k + (IF e THEN 2 ELSE 1), Len(u2p))
          /\ UNCHANGED <<sc, cli, ups, c2p, p2u, p2c, ppc, bio, hbuf, cpCU, inW, outW, firstFin>>

\* writing to a connection that has been reset fails: this direction is over (the design: only this one)
UCWrite == /\ ppc = "copy" /\ cpUC.pc = "write"
           /\ \E expired \in (IF ReadTimeoutArmsWrite /\ sc.rt = 1 THEN {FALSE, TRUE} ELSE {FALSE}) :
                 /\ p2c' = IF CAlive /\ ~expired /\ ~(DropDataWithEOF /\ cpUC.eof) THEN p2c \o cpUC.buf ELSE p2c
                 /\ cpUC' = IF cState = "reset" \/ expired THEN Cp("failed", <<>>, FALSE)
                            ELSE IF cpUC.eof THEN Cp("eof", <<>>, FALSE) ELSE Idle
           /\ UNCHANGED <<sc, cli, ups, c2p, p2u, u2p, ppc, bio, hbuf, cpCU, inW, outW, firstFin>>

UCEof == /\ ppc = "copy" /\ cpUC.pc = "eof"
         /\ cpUC' = Cp("done", <<>>, FALSE)
         /\ IF EndOnFirstEOF
            THEN UNCHANGED <<p2c, inW>>
            ELSE /\ p2c' = IF ~inW /\ CAlive THEN Append(p2c, EOFm) ELSE p2c
                 /\ inW' = TRUE
         /\ UNCHANGED <<sc, cli, ups, c2p, p2u, u2p, ppc, bio, hbuf, cpCU, outW, firstFin>>

\* the main routine returns and closes both connections; whatever a copier still holds,
\* and whatever is unread in the proxy's receive buffers, is gone
Over(cp) == cp.pc \in {"done", "failed"}
Failed == cpCU.pc = "failed" \/ cpUC.pc = "failed"
Finish == /\ ppc = "copy"
          /\ IF EndOnFirstEOF THEN Over(cpCU) \/ Over(cpUC)
                              ELSE (Over(cpCU) /\ Over(cpUC)) \/ (AbortOnError /\ Failed)
          /\ ppc' = "done"
          \* a normal close: what is queued is still delivered, then the FIN; a reset throws it away
          /\ p2u' = IF uState = "closed" THEN p2u
                     ELSE IF ResetOnError /\ Failed THEN <<RSTm>>
                     ELSE IF ~outW THEN Append(p2u, EOFm) ELSE p2u
          /\ p2c' = IF ~CAlive THEN p2c
                     ELSE IF ResetOnError /\ Failed THEN <<RSTm>>
                     ELSE IF ~inW THEN Append(p2c, EOFm) ELSE p2c
          /\ c2p' = <<>> /\ u2p' = <<>>
          /\ inW' = TRUE /\ outW' = TRUE
          /\ UNCHANGED <<sc, cli, ups, bio, hbuf, cpCU, cpUC, firstFin>>

-----------------------------------------------------------------------------
Terminated == ppc = "done" /\ ~CAlive /\ (uState = "closed" \/ ~uConn)

Next == \/ CWrite \/ CFin \/ CRead \/ CCloseAfterEOF \/ CAbort
        \/ UWrite \/ UFin \/ URead \/ UCloseAfterEOF
        \/ Peek \/ ReadHello \/ Dial \/ DialRefused \/ ProxyHdr \/ ReplayHello \/ Ws101
        \/ CURead \/ CUWrite \/ CUEof \/ CUTimeout \/ CUWtExpired \/ UCReadExpired \/ Refresh \/ UCRead \/ UCWrite \/ UCEof \/ Finish
        \/ (Terminated /\ UNCHANGED vars)          \* so that TLC's deadlock check means "stuck before the end"

Spec == Init /\ [][Next]_vars

-----------------------------------------------------------------------------
\* the property (C09), clause by clause
\* order, exactly-once, unmodified, at all times
PrefixInv == IsPrefix(uRecv, ExpU) /\ IsPrefix(cRecv, ExpC)
\* "whichever side finishes first has had all of its data delivered"
\* (a read timeout that ended the client -> upstream direction is the configuration at work, not a loss)
TimedOut == sc.rt = 1 /\ cpCU.pc = "failed"
\* (all clauses speak about a connection that was tunnelled: uConn)
FirstFinisherDelivered == (Terminated /\ uConn) => /\ (firstFin = "c" /\ ~TimedOut => uRecv = ExpU)
                                        /\ (firstFin = "u" => cRecv = ExpC)
\* "a client that half-closes after sending still receives the reply"
HalfCloseGetsReply == (sc.cmode = "half" /\ cGotEOF /\ uConn) => cRecv = ExpC
\* "every byte one side sends is delivered to the other side": on the scenarios a direct
\* connection carries completely, so does the tunnel
Transparent == (Terminated /\ uConn) => /\ (~TimedOut => uRecv = ExpU)
                             /\ (sc.cmode \notin {"close", "abort"} => cRecv = ExpC)
=============================================================================
