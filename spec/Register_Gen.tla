----------------------------- MODULE Register_Gen -----------------------------
(* Histories of macro steps with the agent's catalog the specification prescribes at        *)
(* quiescence after every step.  A macro step = one stimulus (a candidate table / a direct  *)
(* be.Register call, the agent losing a service, DeregisterAll) followed by the internal    *)
(* steps of Register up to quiescence; its outcome is fixed by QuiescentCorrect, NoForeign  *)
(* and Restored, which TLC checks on Register itself.  Every generated state is a quiescent *)
(* state of Register and must satisfy its invariants (GenConsistent).                       *)
(* Level "be": every step is a direct call (no comparison with the installed text).         *)
EXTENDS Register_MC
CONSTANTS Level, MaxSteps
VARIABLE ghist

GenInit ==
    /\ catalog = OwnSet /\ ttl = [n \in Names |-> IF n \in OwnSet THEN "pass" ELSE "none"]
    /\ age = [n \in Names |-> 0] /\ dmap = OwnSet
    /\ g = [n \in Names |-> IF n \in OwnSet THEN [pc |-> "wait", sid |-> TRUE] ELSE NoG]
    /\ timer = [n \in Names |-> 0] /\ upd = IdleUpd /\ sig = [pc |-> "idle", seen |-> {}, cur |-> "-"]
    /\ wanted = OwnSet /\ active = {} /\ exited = FALSE
    /\ lastOk = (IF Level = "loop" THEN "none" ELSE "init")     \* loop level: the empty override text is installed
    /\ nfault = 0 /\ nfail = 0 /\ ncand = 0 /\ stale = {}
    /\ ghist = <<>>

Rec(kind, id, adds, n) ==
    [kind |-> kind, id |-> id, adds |-> adds, n |-> n,
     expect |-> catalog', live |-> {x \in Names : g'[x].pc # "none"}, active |-> active']
Emit(r) == /\ ghist' = Append(ghist, r)
           /\ (Len(ghist') = MaxSteps => PrintT(ToJson([enabled |-> Enabled, level |-> Level, steps |-> ghist'])))

WaitG == [pc |-> "wait", sid |-> TRUE]

GenCand(c) ==
    /\ Len(ghist) < MaxSteps
    /\ LET same == Level = "loop" /\ c.id = lastOk
           noop == same \/ (~c.ok /\ ~InvalidDropsAliases)
           want == OwnSet \cup CodeAliases(c)
           shut == sig.pc = "done" IN
       /\ (shut /\ UnsyncShutdown /\ ~noop) => dmap \ want = {}     \* such a call never returns: not replayed
       /\ IF noop \/ (shut /\ ~UnsyncShutdown)
          THEN UNCHANGED <<catalog, ttl, dmap, g, wanted>>
          ELSE IF ~shut
          THEN /\ catalog' = want /\ dmap' = want /\ wanted' = want
               /\ g' = [n \in Names |-> IF n \in want THEN WaitG ELSE NoG]
               /\ ttl' = [n \in Names |-> IF n \in want THEN "pass" ELSE "none"]
          ELSE /\ catalog' = catalog \cup (want \ dmap) /\ dmap' = dmap \cup want /\ wanted' = want
               /\ g' = [n \in Names |-> IF n \in want \ dmap THEN WaitG ELSE g[n]]
               /\ ttl' = [n \in Names |-> IF n \in want \ dmap THEN "pass" ELSE ttl[n]]
       /\ IF c.ok /\ ~same /\ Level = "loop" THEN active' = DocAliases(c) /\ lastOk' = c.id
          ELSE IF c.ok /\ Level = "be" THEN active' = DocAliases(c) /\ UNCHANGED lastOk
          ELSE UNCHANGED <<active, lastOk>>
    /\ UNCHANGED <<age, timer, upd, sig, exited, nfault, nfail, ncand, stale>>
    /\ Emit(Rec("cand", c.id, c.adds, "-"))

GenLose(n) ==
    /\ Len(ghist) < MaxSteps /\ n \in catalog /\ nfault < MaxFaults /\ nfault' = nfault + 1
    /\ IF Live(n) THEN UNCHANGED <<catalog, ttl>>                       \* restored by its goroutine
       ELSE catalog' = catalog \ {n} /\ ttl' = [ttl EXCEPT ![n] = "none"]
    /\ UNCHANGED <<age, dmap, g, timer, upd, sig, wanted, active, lastOk, exited, nfail, ncand, stale>>
    /\ Emit(Rec("lose", "-", {}, n))

GenShutdown ==
    /\ Len(ghist) < MaxSteps /\ sig.pc = "idle"
    /\ sig' = [pc |-> "done", seen |-> dmap, cur |-> "-"]
    /\ catalog' = catalog \ LiveSet /\ ttl' = [n \in Names |-> IF Live(n) THEN "none" ELSE ttl[n]]
    /\ g' = [n \in Names |-> NoG]
    /\ dmap' = IF UnsyncShutdown THEN dmap ELSE {}
    /\ UNCHANGED <<age, timer, upd, wanted, active, lastOk, exited, nfault, nfail, ncand, stale>>
    /\ Emit(Rec("shutdown", "-", {}, "-"))

GenNext == \/ \E c \in Cands : GenCand(c)
           \/ \E n \in Names : GenLose(n)
           \/ GenShutdown
GenSpec == GenInit /\ [][GenNext]_<<vars, ghist>>

GenConsistent == /\ TypeOK /\ Quiescent /\ QuiescentCorrect /\ NoForeign /\ NoOrphan /\ LiveInMap /\ OwnWanted
=============================================================================
