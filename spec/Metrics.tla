------------------------------- MODULE Metrics -------------------------------
(* X05 - metrics accounting of the proxy front.                                              *)
(*                                                                                            *)
(* Source of the properties: docs/content/feature/metrics.md (table of metrics: `requests`,   *)
(* `http.status.code.{code}`, `notfound`, `{route}`, `ws.conn`, `tcp.conn`, `tcp.connfail`,   *)
(* `tcp.noroute`, `grpc.requests`, `grpc.noroute`, `grpc.conn`, `grpc.status.{code}`; legend:  *)
(* a timer COUNTS events, a counter is monotonically increasing, a gauge is a current value),  *)
(* docs/content/ref/metrics.names.md, metrics.prefix.md and the fabio.properties comments.     *)
(*                                                                                            *)
(* State: the metrics store (one number per metric key: for a timer the number of events it    *)
(* has counted), the websocket gauge, the routing table, and the requests in flight.  A        *)
(* request is accounted for by SEPARATE atomic increments (one per metric it touches), taken   *)
(* in any order after its outcome is known and before it ends: this is the grain at which      *)
(* concurrent requests and table replacements interleave.                                      *)
(*                                                                                            *)
(* Where the code deviates from the documentation the deviation is a named constant:          *)
(*   LocalCounted       TRUE (documented): `requests` and `http.status.code.N` count ALL HTTP  *)
(*                      requests.  FALSE (code): answers fabio produces itself (no route,      *)
(*                      access denied, redirect) are in neither.                               *)
(*   GaugeAtomic        TRUE (documented: "number of actively open websocket connections").    *)
(*                      FALSE (code): the handler adds to a hidden atomic count and THEN sets  *)
(*                      the gauge to the value it got; the two steps of concurrent handlers    *)
(*                      interleave and the gauge keeps a stale value.                          *)
(*   NotfoundCountsTcp  FALSE (documented: `notfound` = failed HTTP route lookups).  TRUE      *)
(*                      (code): a TCP connection without route increments it as well.          *)
(*   ConnAtAccept       how `tcp.conn` ("established TCP proxy connections") is counted; the   *)
(*                      documentation allows both readings, the code counts at accept (TRUE).  *)
EXTENDS Integers, Sequences, FiniteSets, FiniteSetsExt, TLC

CONSTANTS
    Targets,            \* target ids (a target = service + route prefix + upstream URL: its label identity)
    Kind,               \* [Targets -> {"http","dead","deny","redirect","tcp","tcpdead","grpc"}]
    Name,               \* [Targets -> STRING]: the route metric name the metrics.names template renders
    Tables,             \* the routing tables that may be installed (each a subset of Targets)
    InitTable,
    Statuses,           \* status codes an upstream answers with (strings)
    GrpcCodes,          \* status codes a gRPC upstream answers with
    Slots,              \* concurrency: request slots
    MaxReq, MaxSwaps,   \* bounds for model checking
    LocalCounted, GaugeAtomic, NotfoundCountsTcp, ConnAtAccept

None == "-"
RouteKey(t)   == "route." \o t
StatusKey(s)  == "status." \o s
GStatusKey(c) == "grpc.status." \o c

AllStatuses == Statuses \cup {"301", "403", "404", "502"}
AllCodes    == GrpcCodes \cup {"NotFound"}
TimerKeys   == {"requests", "grpc.requests"} \cup {StatusKey(s) : s \in AllStatuses}
               \cup {RouteKey(t) : t \in Targets} \cup {GStatusKey(c) : c \in AllCodes}
CounterKeys == {"notfound", "redirect.301", "tcp.conn", "tcp.connfail", "tcp.noroute", "grpc.noroute", "grpc.conn"}
Keys        == TimerKeys \cup CounterKeys

OfKind(ks) == {t \in Targets : Kind[t] \in ks}
HttpAsk    == OfKind({"http", "dead", "deny", "redirect"}) \cup {None}   \* the prefix a client asks for
Classes    == {"fwd", "ws", "local", "noroute", "tcpok", "tcpfail", "tcpnoroute", "grpc", "grpcnoroute", "gconn"}

(* The metrics an ended request (class, target, status) has touched, each exactly once.       *)
(* lc / ca / nt are the deviation switches; Doc* below fixes them to the documented values.   *)
TouchOf(cls, t, s, lc, ca, nt) ==
    CASE cls = "fwd"         -> {"requests", RouteKey(t), StatusKey(s)}  \* forwarded; 502 = the upstream failed
      [] cls = "ws"          -> {"requests", RouteKey(t)}               \* a tunnel that ended (no status: hijacked)
      [] cls = "local"       -> (IF lc THEN {"requests", StatusKey(s)} ELSE {})
                                \cup (IF s = "301" THEN {"redirect.301"} ELSE {})
      [] cls = "noroute"     -> {"notfound"} \cup (IF lc THEN {"requests", StatusKey("404")} ELSE {})
      [] cls = "tcpok"       -> {"tcp.conn"}
      [] cls = "tcpfail"     -> {"tcp.connfail"} \cup (IF ca THEN {"tcp.conn"} ELSE {})
      [] cls = "tcpnoroute"  -> {"tcp.noroute"} \cup (IF ca THEN {"tcp.conn"} ELSE {})
                                \cup (IF nt THEN {"notfound"} ELSE {})
      [] cls = "grpc"        -> {"grpc.requests", GStatusKey(s), RouteKey(t)}
      [] cls = "grpcnoroute" -> {"grpc.requests", GStatusKey("NotFound"), "grpc.noroute"}
      [] cls = "gconn"       -> {"grpc.conn"}
CodeTouch(cls, t, s) == TouchOf(cls, t, s, LocalCounted, ConnAtAccept, NotfoundCountsTcp)
DocTouch(cls, t, s)  == TouchOf(cls, t, s, TRUE, ConnAtAccept, FALSE)
DocKeys == Keys \ {"redirect.301"}       \* `http.redirect.count` is not in the documentation: silent

VARIABLES
    table, nswaps,      \* the active routing table, number of replacements so far
    req,                \* [Slots -> request record]
    nreq,               \* requests started so far
    cnt,                \* the metrics store: [Keys -> Nat]
    conns, gauge,       \* hidden count of websocket handlers, the ws.conn gauge
    gcode, gdoc,        \* ghost: what ended requests account for, by the code's / the documented rule
    hist                \* ghost: ended requests per class
vars == <<table, nswaps, req, nreq, cnt, conns, gauge, gcode, gdoc, hist>>

Idle == [pc |-> "idle", k |-> None, t |-> None, s |-> None, cls |-> None, todo |-> {}, gv |-> 0]
Zero(S) == [c \in S |-> 0]

Init ==
    /\ table = InitTable /\ nswaps = 0
    /\ req = [r \in Slots |-> Idle] /\ nreq = 0
    /\ cnt = Zero(Keys) /\ conns = 0 /\ gauge = 0
    /\ gcode = Zero(Keys) /\ gdoc = Zero(Keys) /\ hist = Zero(Classes)

\* ------------------------------------------------------------------ the proxy front
Outcome(r, k, t, s, cls) ==      \* the outcome is known: what is left is the accounting
    req' = [req EXCEPT ![r] = [pc |-> "acct", k |-> k, t |-> t, s |-> s, cls |-> cls,
                               todo |-> CodeTouch(cls, t, s), gv |-> 0]]
Wait(r, k, t, pc) == req' = [req EXCEPT ![r] = [Idle EXCEPT !.pc = pc, !.k = k, !.t = t]]

Fresh(r) == req[r].pc = "idle" /\ nreq < MaxReq /\ nreq' = nreq + 1

(* An HTTP request for the prefix of target w (None: a prefix no route has): ONE atomic load   *)
(* of the table decides where it goes.                                                         *)
HttpLookup(r, w) ==
    /\ Fresh(r) /\ w \in HttpAsk
    /\ IF w \in table
       THEN CASE Kind[w] = "http"     -> Wait(r, "http", w, "up")
              [] Kind[w] = "dead"     -> Outcome(r, "http", w, "502", "fwd")
              [] Kind[w] = "deny"     -> Outcome(r, "http", w, "403", "local")
              [] Kind[w] = "redirect" -> Outcome(r, "http", w, "301", "local")
       ELSE Outcome(r, "http", None, "404", "noroute")
    /\ UNCHANGED <<table, nswaps, cnt, conns, gauge, gcode, gdoc, hist>>
UpAnswer(r, s) ==                \* the upstream answered with status s
    /\ req[r].pc = "up" /\ s \in Statuses
    /\ Outcome(r, "http", req[r].t, s, "fwd")
    /\ UNCHANGED <<table, nswaps, nreq, cnt, conns, gauge, gcode, gdoc, hist>>

(* A websocket upgrade for the prefix of target w. *)
WsLookup(r, w) ==
    /\ Fresh(r) /\ w \in OfKind({"http"}) \cup {None}
    /\ IF w \in table THEN Wait(r, "ws", w, "enter") ELSE Outcome(r, "ws", None, "404", "noroute")
    /\ UNCHANGED <<table, nswaps, cnt, conns, gauge, gcode, gdoc, hist>>
GaugeStep(r, d, pcSet, pcNext) ==   \* hidden count +d; the gauge follows at once (atomic) or in a second step
    /\ conns' = conns + d
    /\ IF GaugeAtomic
       THEN gauge' = conns' /\ req' = [req EXCEPT ![r].pc = pcNext]
       ELSE gauge' = gauge  /\ req' = [req EXCEPT ![r].pc = pcSet, ![r].gv = conns']
WsEnter(r) == /\ req[r].pc = "enter" /\ GaugeStep(r, 1, "set1", "tunnel")
              /\ UNCHANGED <<table, nswaps, nreq, cnt, gcode, gdoc, hist>>
WsSet1(r)  == /\ req[r].pc = "set1" /\ gauge' = req[r].gv /\ req' = [req EXCEPT ![r].pc = "tunnel"]
              /\ UNCHANGED <<table, nswaps, nreq, cnt, conns, gcode, gdoc, hist>>
WsLeave(r) == /\ req[r].pc = "tunnel" /\ GaugeStep(r, -1, "set2", "left")
              /\ UNCHANGED <<table, nswaps, nreq, cnt, gcode, gdoc, hist>>
WsSet2(r)  == /\ req[r].pc = "set2" /\ gauge' = req[r].gv /\ req' = [req EXCEPT ![r].pc = "left"]
              /\ UNCHANGED <<table, nswaps, nreq, cnt, conns, gcode, gdoc, hist>>
WsEnded(r) == /\ req[r].pc = "left" /\ Outcome(r, "ws", req[r].t, None, "ws")
              /\ UNCHANGED <<table, nswaps, nreq, cnt, conns, gauge, gcode, gdoc, hist>>

(* A TCP connection on the listener: the route of its port is looked up in the table. *)
TcpRoutes == {t \in table : Kind[t] \in {"tcp", "tcpdead"}}
TcpAccept(r) ==
    /\ Fresh(r)
    /\ IF TcpRoutes = {} THEN Outcome(r, "tcp", None, None, "tcpnoroute")
       ELSE \E t \in TcpRoutes : Outcome(r, "tcp", t, None, IF Kind[t] = "tcp" THEN "tcpok" ELSE "tcpfail")
    /\ UNCHANGED <<table, nswaps, cnt, conns, gauge, gcode, gdoc, hist>>

(* A gRPC call; a new client connection to the gRPC listener. *)
GrpcRoutes == {t \in table : Kind[t] = "grpc"}
GrpcLookup(r) ==
    /\ Fresh(r)
    /\ IF GrpcRoutes = {} THEN Outcome(r, "grpc", None, "NotFound", "grpcnoroute")
       ELSE \E t \in GrpcRoutes : Wait(r, "grpc", t, "gup")
    /\ UNCHANGED <<table, nswaps, cnt, conns, gauge, gcode, gdoc, hist>>
GrpcAnswer(r, c) ==
    /\ req[r].pc = "gup" /\ c \in GrpcCodes
    /\ Outcome(r, "grpc", req[r].t, c, "grpc")
    /\ UNCHANGED <<table, nswaps, nreq, cnt, conns, gauge, gcode, gdoc, hist>>
GrpcConnect(r) ==
    /\ Fresh(r) /\ Outcome(r, "gconn", None, None, "gconn")
    /\ UNCHANGED <<table, nswaps, cnt, conns, gauge, gcode, gdoc, hist>>

(* The accounting: one atomic increment per metric, in any order; then the request ends. *)
Inc(r, c) ==
    /\ req[r].pc = "acct" /\ c \in req[r].todo
    /\ cnt' = [cnt EXCEPT ![c] = @ + 1]
    /\ req' = [req EXCEPT ![r].todo = @ \ {c}]
    /\ UNCHANGED <<table, nswaps, nreq, conns, gauge, gcode, gdoc, hist>>
Bump(g, S) == [c \in Keys |-> IF c \in S THEN g[c] + 1 ELSE g[c]]
End(r) ==
    /\ req[r].pc = "acct" /\ req[r].todo = {}
    /\ gcode' = Bump(gcode, CodeTouch(req[r].cls, req[r].t, req[r].s))
    /\ gdoc'  = Bump(gdoc, DocTouch(req[r].cls, req[r].t, req[r].s))
    /\ hist' = [hist EXCEPT ![req[r].cls] = @ + 1]
    /\ req' = [req EXCEPT ![r] = Idle]
    /\ UNCHANGED <<table, nswaps, nreq, cnt, conns, gauge>>

(* The routing table is replaced as a whole.  A target that leaves keeps its timer (the store  *)
(* is keyed by the target's identity, not by the table); one that comes back continues it.     *)
Swap(T) ==
    /\ nswaps < MaxSwaps /\ T \in Tables /\ T # table
    /\ table' = T /\ nswaps' = nswaps + 1
    /\ UNCHANGED <<req, nreq, cnt, conns, gauge, gcode, gdoc, hist>>

HttpLookupAny == \E r \in Slots, w \in HttpAsk : HttpLookup(r, w)
UpAnswerAny   == \E r \in Slots : req[r].pc = "up" /\ \E s \in Statuses : UpAnswer(r, s)
WsLookupAny   == \E r \in Slots, w \in OfKind({"http"}) \cup {None} : WsLookup(r, w)
WsEnterAny    == \E r \in Slots : WsEnter(r)
WsSet1Any     == \E r \in Slots : WsSet1(r)
WsLeaveAny    == \E r \in Slots : WsLeave(r)
WsSet2Any     == \E r \in Slots : WsSet2(r)
WsEndedAny    == \E r \in Slots : WsEnded(r)
TcpAcceptAny  == \E r \in Slots : TcpAccept(r)
GrpcLookupAny == \E r \in Slots : GrpcLookup(r)
GrpcAnswerAny == \E r \in Slots : req[r].pc = "gup" /\ \E c \in GrpcCodes : GrpcAnswer(r, c)
GrpcConnectAny == \E r \in Slots : GrpcConnect(r)
IncAny        == \E r \in Slots : req[r].pc = "acct" /\ \E c \in req[r].todo : Inc(r, c)
EndAny        == \E r \in Slots : End(r)
SwapAny       == \E T \in Tables : Swap(T)

Next == \/ HttpLookupAny \/ UpAnswerAny \/ WsLookupAny \/ WsEnterAny \/ WsSet1Any \/ WsLeaveAny \/ WsSet2Any
        \/ WsEndedAny \/ TcpAcceptAny \/ GrpcLookupAny \/ GrpcAnswerAny \/ GrpcConnectAny \/ IncAny \/ EndAny \/ SwapAny
Internal == WsEnterAny \/ WsSet1Any \/ WsSet2Any \/ WsEndedAny \/ IncAny \/ EndAny
Spec == Init /\ [][Next]_vars /\ WF_vars(Internal) /\ WF_vars(UpAnswerAny) /\ WF_vars(GrpcAnswerAny)

\* ------------------------------------------------------------------ properties
InFlight  == {r \in Slots : req[r].pc # "idle"}
Open      == {r \in Slots : req[r].pc \in {"set1", "tunnel"}}      \* websocket handlers counted in conns
Settling  == {r \in Slots : req[r].pc \in {"set1", "set2"}}
Quiescent == \A r \in Slots : req[r].pc \in {"idle", "tunnel"}      \* nothing is being accounted
Done(c, r) == req[r].pc = "acct" /\ c \in CodeTouch(req[r].cls, req[r].t, req[r].s) \ req[r].todo

TypeOK ==
    /\ table \in Tables /\ nswaps \in 0..MaxSwaps /\ nreq \in 0..MaxReq
    /\ cnt \in [Keys -> Nat] /\ gcode \in [Keys -> Nat] /\ gdoc \in [Keys -> Nat] /\ hist \in [Classes -> Nat]
    /\ conns \in Nat /\ gauge \in Int
    /\ \A r \in Slots : req[r].todo \subseteq Keys

(* No increment is lost and none is made twice, whatever the interleaving of concurrent        *)
(* requests and table replacements (the counters are linearizable).                            *)
Accounted == \A c \in Keys : cnt[c] = gcode[c] + Cardinality({r \in Slots : Done(c, r)})

(* At every moment each metric lies between what the ended requests account for and that plus  *)
(* the requests in flight (what a snapshot taken during traffic may show).                     *)
Bounds == \A c \in Keys : gcode[c] <= cnt[c] /\ cnt[c] <= gcode[c] + Cardinality(InFlight)

(* The conservation laws of the documentation, at quiescence. *)
DocExact(S) == Quiescent => \A c \in S \cap DocKeys : cnt[c] = gdoc[c]
RequestsExact == DocExact({"requests"})                               \* every HTTP request: the timer once
StatusExact   == DocExact({StatusKey(s) : s \in AllStatuses})         \* ... and the timer of its status once
TimerExact    == DocExact({RouteKey(t) : t \in Targets})              \* ... its target's timer iff forwarded
NoRouteExact  == DocExact({"notfound"})                               \* failed HTTP lookups
GrpcExact     == DocExact({"grpc.requests", "grpc.noroute", "grpc.conn"} \cup {GStatusKey(c) : c \in AllCodes})
OneStatusEach == Quiescent =>
    MapThenSumSet(LAMBDA s : cnt[StatusKey(s)], AllStatuses)
        = hist["fwd"] + (IF LocalCounted THEN hist["local"] + hist["noroute"] ELSE 0)
OneTimerEach == Quiescent =>
    MapThenSumSet(LAMBDA t : cnt[RouteKey(t)], Targets) = hist["fwd"] + hist["ws"] + hist["grpc"]
(* tcp: the accepted connections are partitioned into established / upstream failure / no route *)
TcpPartition == Quiescent =>
    /\ cnt["tcp.connfail"] = hist["tcpfail"] /\ cnt["tcp.noroute"] = hist["tcpnoroute"]
    /\ hist["tcpok"] <= cnt["tcp.conn"]
    /\ cnt["tcp.conn"] <= hist["tcpok"] + hist["tcpfail"] + hist["tcpnoroute"]
    /\ cnt["tcp.conn"] \in {hist["tcpok"], hist["tcpok"] + hist["tcpfail"] + hist["tcpnoroute"]}

(* ws.conn: "number of actively open websocket connections" *)
ConnsExact == conns = Cardinality(Open)
GaugeExact == Settling = {} => gauge = Cardinality(Open)
GaugeZero  == (\A r \in Slots : req[r].k # "ws" \/ req[r].pc = "acct") => gauge = 0   \* returns to 0

(* counters and the event counts of timers never decrease; a replaced table resets nothing *)
Monotone == [][\A c \in Keys : cnt'[c] >= cnt[c]]_vars

(* the route metric name: one timer per name; distinct targets must not share one *)
NamesDistinct == nreq >= 0 /\ \A t, u \in Targets : t # u => Name[t] # Name[u]
ByName(n) == MapThenSumSet(LAMBDA t : cnt[RouteKey(t)], {t \in Targets : Name[t] = n})
NameTimerExact == Quiescent => \A t \in Targets : ByName(Name[t]) = gdoc[RouteKey(t)]

(* liveness: the accounting of a request whose outcome is known ends; a gauge being set settles *)
AccountingEnds == \A r \in Slots : (req[r].pc = "acct") ~> (req[r].pc = "idle")
GaugeSettles   == \A r \in Slots : (req[r].pc \in {"set1", "enter"}) ~> (req[r].pc = "tunnel")
=============================================================================
