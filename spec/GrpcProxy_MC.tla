---------------------------- MODULE GrpcProxy_MC ----------------------------
(* Bounded universes for GrpcProxy and the behaviour generator: one JSON line per examined *)
(* transition that completes an observable step (a finished call, a clean-up tick that     *)
(* closes something): the shortest history that reaches the source state plus that step,   *)
(* each step with what an observer of the real proxy must see.                             *)
EXTENDS GrpcProxy, Json, TLC

Svc == <<"grpc.testing.TestService">>
S1 == [host |-> "",   path |-> Svc, zero |-> FALSE]
S2 == [host |-> "h1", path |-> Svc, zero |-> FALSE]
S3 == [host |-> "",   path |-> Svc \o <<"UnaryCall">>, zero |-> FALSE]
\* a method path that collides with a service a grpc.Server may register itself: routed like any other
S4 == [host |-> "h1", path |-> <<"grpc.health.v1.Health">>, zero |-> FALSE]
\* a route whose host is a glob pattern
S5 == [host |-> "*.beta.c16.test", path |-> Svc, zero |-> FALSE]
\* a second target of the host-less service route that is in the table with weight 0
Sz == [host |-> "", path |-> Svc, zero |-> TRUE]
MCSlotsW == {S1, Sz}
\* b1 serves the route; then all traffic is moved to b2 while b1 stays in the table with weight 0
MCTablesWeight == {[s \in Slots |-> IF s.zero THEN "" ELSE "b1"], [s \in Slots |-> IF s.zero THEN "b1" ELSE "b2"]}
\* the same with a TLS upstream: backend s1 is reached through a grpcs:// target URL.  A stream to it lives across a
\* clean-up pass, with or without its traffic being moved away first.
MCBackendsTls == {"b1", "b2", "s1"}
MCSchemeOf(b) == IF b = "s1" THEN "grpcs" ELSE IF b = "" THEN "" ELSE "grpc"
MCTablesTls == {[s \in Slots |-> IF s.zero THEN "" ELSE "s1"], [s \in Slots |-> IF s.zero THEN "s1" ELSE "b2"]}
MCTablesFW == MCTablesWeight \cup {[s \in Slots |-> ""]} \cup MCTablesTls
MCSlots2 == {S1, S2}
MCSlotsH == {S1, S2, S4, S5}
MCSlots4 == {S1, S2, S3, S4, S5}
\* dsthost spellings: exact, other letter case, with the default port, matched by the glob route only, no route
MCHostOf(h) ==
    CASE h = "" -> {""}
      [] h \in {"h1", "H1", "h1:80"} -> {"h1"}
      [] h = "x.beta.c16.test" -> {"*.beta.c16.test"}
      [] OTHER -> {}
MCOddHosts == {"H1", "h1:80", "x.beta.c16.test"}
MCSlots3 == {S1, S2, S3}
MCBackends == {"b1", "b2"}

MCTablesAll == [Slots -> MCBackends \cup {""}]
\* one fixed table for the per-call universe: host-less service route -> b1, h1 -> b2, and (with three
\* slots) the more specific host-less method route -> b2
MCTablesFixed == {[s \in Slots |-> IF (s.host = "" /\ Len(s.path) = 1) \/ s = S4 THEN "b1" ELSE "b2"]}

PathOf(kind) ==
    CASE kind = "unary"   -> Svc \o <<"UnaryCall">>
      [] kind = "cstream" -> Svc \o <<"StreamingInputCall">>
      [] kind = "sstream" -> Svc \o <<"StreamingOutputCall">>
      [] kind = "bidi"    -> Svc \o <<"FullDuplexCall">>
      [] kind = "noroute" -> <<"grpc.testing.UnimplementedService", "UnimplementedCall">>
      [] kind = "hcheck"  -> <<"grpc.health.v1.Health", "Check">>
      [] kind = "hwatch"  -> <<"grpc.health.v1.Health", "Watch">>
MsgOf(code) ==
    CASE code = 0 -> "" [] code = 5 -> "nf" [] code = 13 -> "boom" [] code = 14 -> "unavail" [] code = 8 -> "quota"
      [] OTHER -> "custom"

Mk(kind, host, md, reqs, resps, gate, early, hdr, trl, code) ==
    [kind |-> kind, path |-> PathOf(kind), host |-> host, md |-> md, reqs |-> reqs, resps |-> resps,
     gate |-> gate, early |-> early, hdr |-> hdr, trl |-> trl, code |-> code, msg |-> MsgOf(code)]

Seqs(a, b) == {<<>>, <<a>>, <<a, b>>}
OneIfOK(code) == IF code = 0 THEN <<"r1">> ELSE <<>>

Unary(H, M, HD, TR, C) ==
    {Mk("unary", h, m, <<"q1">>, OneIfOK(c), "echo", FALSE, hd, tr, c) : h \in H, m \in M, hd \in HD, tr \in TR, c \in C}
NoRoute(H, M) ==
    {Mk("noroute", h, m, <<"q1">>, <<"r1">>, "echo", FALSE, "none", "none", 0) : h \in H, m \in M}
CStream(H, M, HD, TR, C) ==
    {Mk("cstream", h, m, q, OneIfOK(c), "late", e, hd, tr, c) :
        h \in H, m \in M, hd \in HD, tr \in TR, c \in C,
        q \in Seqs("q1", "q2"), e \in BOOLEAN}
SStream(H, M, HD, TR, C) ==
    {Mk("sstream", h, m, <<"q1">>, r, "echo", FALSE, hd, tr, c) :
        h \in H, m \in M, hd \in HD, tr \in TR, c \in C, r \in Seqs("r1", "r2")}
Bidi(H, M, HD, TR, C, G) ==
    {Mk("bidi", h, m, q, r, g, e, hd, tr, c) :
        h \in H, m \in M, hd \in HD, tr \in TR, c \in C,
        q \in Seqs("q1", "q2"), r \in Seqs("r1", "r2"), g \in G, e \in BOOLEAN}
\* an early backend (finishes without reading) is only distinct when there is something to read,
\* and its responses cannot wait for requests
WellFormed(c) == c.early => (Len(c.reqs) > 0 /\ c.gate \in {"eager", "late"} /\ (c.kind = "bidi" => c.gate = "eager"))

\* the health checking protocol: Check is unary, Watch streams; with the route for host h1 only, a call
\* without that host has no route
Health(H, M, HD, TR, C) ==
    {Mk("hcheck", h, m, <<q>>, OneIfOK(c), "echo", FALSE, hd, tr, c) : h \in H, m \in M, hd \in HD, tr \in TR, c \in C, q \in {"q1", "q2"}}
    \cup {Mk("hwatch", h, m, <<"q1">>, r, "echo", FALSE, hd, tr, c) :
             h \in H, m \in M, hd \in HD, tr \in TR, c \in C, r \in {<<>>, <<"r1", "r2">>}}

AllKinds(H, M, HD, TR, C, G) ==
    {c \in Unary(H, M, HD, TR, C) \cup NoRoute(H, M) \cup CStream(H, M, HD, TR, C)
           \cup SStream(H, M, HD, TR, C) \cup Bidi(H, M, HD, TR, C, G) : WellFormed(c)}

\* message size limits as a configuration dimension: proxy.grpcmaxrxmsgsize bounds what the proxy accepts,
\* proxy.grpcmaxtxmsgsize what it sends to the caller.  With rx > tx a request "qB" whose size lies between the
\* two is accepted from the caller and therefore has to reach the backend like any other.
MCCallsLimits ==
    {Mk("unary", h, "one", <<"qB">>, OneIfOK(c), "echo", FALSE, "set", "some", c) : h \in {"", "h1"}, c \in {0, 13}}
    \cup {Mk("cstream", "", "one", q, <<"r1">>, "late", FALSE, "set", "some", 0) : q \in {<<"qB">>, <<"q1", "qB">>, <<"qB", "q2">>}}
    \cup {Mk("bidi", "", "one", q, <<"r1", "r2">>, g, FALSE, "send", "some", 0) : q \in {<<"qB", "q2">>, <<"q1", "qB">>}, g \in {"echo", "late"}}
    \cup {Mk("sstream", "", "one", <<"qB">>, <<"r1", "r2">>, "echo", FALSE, "set", "some", 0)}

\* final statuses: OK; the backend's own NotFound; retryable-looking ones (Unavailable, ResourceExhausted)
\* -- which, with no response and no header, are answered "trailers-only"; Internal; a code outside the enum
Codes == {0, 5, 8, 13, 14, 42}
CodesQuick == {0, 5, 14, 42}
\* per-call universe: everything about ONE call
MCCallsFull  == AllKinds({"", "h1", "h2"}, {"none", "one", "multi"}, {"none", "set", "send"}, {"none", "some"}, Codes,
                         {"eager", "echo", "late"})
                \cup MCCallsLimits
                \cup Health({"", "h1"}, {"one"}, {"none", "set"}, {"some"}, {0, 13, 14})
                \cup Unary(MCOddHosts, {"one", "multi"}, {"set"}, {"some"}, {0, 14})
                \cup {c \in Bidi(MCOddHosts, {"one"}, {"send"}, {"some"}, {0}, {"echo"}) : ~c.early /\ Len(c.reqs) = 1 /\ Len(c.resps) = 1}
MCCallsQuick == AllKinds({"", "h1"}, {"none", "multi"}, {"none", "set"}, {"some"}, CodesQuick, {"eager", "echo", "late"})
                \cup MCCallsLimits
                \cup Unary(MCOddHosts, {"one"}, {"set"}, {"some"}, {0})
                \cup Health({"", "h1"}, {"one"}, {"none", "set"}, {"some"}, {0, 14})
\* history universe: what matters for routing and the pool (who is called, does it reach a backend)
MCCallsHist  == Unary({"", "h1", "h2"}, {"one"}, {"set"}, {"some"}, {0})
                \cup Unary({""}, {"one"}, {"set"}, {"some"}, {13})
                \cup NoRoute({""}, {"one"})
                \cup {c \in Bidi({"", "h1"}, {"multi"}, {"send"}, {"some"}, {0, 42}, {"echo"}) :
                         ~c.early /\ Len(c.reqs) = 2 /\ Len(c.resps) = 2}
MCCallsHistSmall == Unary({"", "h1"}, {"one"}, {"set"}, {"some"}, {0}) \cup NoRoute({""}, {"one"})

\* outages: who is called matters, not what is said
MCCallsOutage == Unary({"", "h1"}, {"one"}, {"set"}, {"some"}, {0})
\* bursts of overlapping first calls: a short unary call and a stream that stays open for a while
MCBurstCalls == Unary({""}, {"multi"}, {"set"}, {"some"}, {0})
                \cup {c \in Bidi({"", "h1"}, {"one"}, {"send"}, {"some"}, {0, 13}, {"echo"}) :
                         ~c.early /\ Len(c.reqs) = 1 /\ Len(c.resps) = 1}
MCBurstSizes == {2, 3}
\* flapping: a backend leaves the table, the clean-up runs, it comes back and is called while the old
\* connection is still waiting to be closed; the call is a stream that stays open across that moment
MCCallsFlap == {c \in Bidi({""}, {"one"}, {"send"}, {"some"}, {0}, {"echo"}) : ~c.early /\ Len(c.reqs) = 2 /\ Len(c.resps) = 2}
MCTablesFlap == {[s \in Slots |-> IF s.host = "" THEN b ELSE ""] : b \in {"", "b1"}}

-----------------------------------------------------------------------------
TableJson(t) == {[host |-> s.host, path |-> s.path, be |-> t[s], zero |-> s.zero, scheme |-> MCSchemeOf(t[s])] : s \in {x \in Slots : t[x] # ""}}
StepJson(s) == IF s.op = "set" THEN [op |-> "set", table |-> TableJson(s.table)]
               ELSE IF s.op = "call" THEN [s EXCEPT !.tabs = [i \in DOMAIN s.tabs |-> TableJson(s.tabs[i])]]
               ELSE s
HistJson(h) == [i \in DOMAIN h |-> StepJson(h[i])]

View == <<table, pool, stale, live, closing, open, accepted, up, cur, bst, cnt>>

Observable == /\ Len(hist') > Len(hist)
              /\ \/ hist'[Len(hist')].op \in {"call", "burst"}
                 \/ hist'[Len(hist')].op = "tick" /\ hist'[Len(hist')].closed # {}
GenNext == /\ Next
           /\ IF Observable THEN PrintT(ToJson([steps |-> HistJson(hist')])) ELSE TRUE
GenSpec == Init /\ [][GenNext]_vars
=============================================================================
