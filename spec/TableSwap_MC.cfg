SPECIFICATION Spec
CONSTANTS
  Readers = {1, 2}
  Versions = {"A", "B"}
  MaxWrites = 3
  Probes = 2
  Builders = {10, 11}
  MaxBuilds = 3
INVARIANTS TypeOK ReaderSingleVersion ReadsInstalled BuildIsolated
CHECK_DEADLOCK FALSE
