SPECIFICATION Spec
CONSTANTS
  Readers = {1, 2}
  Versions = {"A", "B"}
  MaxWrites = 3
  Probes = 2
INVARIANTS TypeOK ReaderSingleVersion ReadsInstalled
CHECK_DEADLOCK FALSE
