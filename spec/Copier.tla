------------------------------- MODULE Copier -------------------------------
(***************************************************************************)
(* One copy direction of a tunnel (the copier process of Tunnel.tla) at    *)
(* the level of the io.Reader / io.Writer contracts it is built on:        *)
(*   - a Read may return n > 0 bytes TOGETHER with an error or EOF; the    *)
(*     bytes count ("callers should always process the n > 0 bytes         *)
(*     returned before considering the error");                           *)
(*   - a Read may return (0, nil): nothing happened;                       *)
(*   - a Write that accepts fewer bytes than given, or fails, ends the     *)
(*     direction with an error.                                            *)
(* Required of the copier (C09: every byte delivered exactly once, in      *)
(* order; whoever finishes has had all of its data delivered): whatever    *)
(* the reader handed out before the direction ended has been offered to    *)
(* the writer, in order, exactly once; a clean EOF ends it without error.  *)
(* DropDataWithEOF is the named defect class "error looked at first".      *)
(***************************************************************************)
EXTENDS Integers, Sequences

CONSTANTS Scripts,          \* set of [reads |-> Seq([n, err]), wbad |-> k, wmode |-> "short" | "err"]
          DropDataWithEOF

VARIABLES sc, ri, next, chunk, cerr, nw, delivered, result
vars == <<sc, ri, next, chunk, cerr, nw, delivered, result>>

\* after its script the reader reports EOF
ReadAt(k) == IF k <= Len(sc.reads) THEN sc.reads[k] ELSE [n |-> 0, err |-> "eof"]
Bytes(a, n) == [j \in 1..n |-> a + j - 1]

Init == /\ sc \in Scripts
        /\ ri = 1 /\ next = 1 /\ chunk = <<>> /\ cerr = "nil" /\ nw = 0
        /\ delivered = <<>> /\ result = "running"

\* one Read: n bytes (numbered consecutively) and an error value
Read == /\ result = "running" /\ chunk = <<>> /\ cerr = "nil"
        /\ LET r == ReadAt(ri) IN
           /\ ri' = ri + 1
           /\ next' = next + r.n
           /\ IF r.n > 0 /\ ~(DropDataWithEOF /\ r.err = "eof")
              THEN chunk' = Bytes(next, r.n) /\ cerr' = r.err /\ result' = result
              ELSE /\ chunk' = <<>> /\ cerr' = "nil"
                   /\ result' = IF r.err = "nil" THEN result ELSE r.err
        /\ UNCHANGED <<sc, nw, delivered>>

\* the pending chunk is written; the writer misbehaves at its wbad-th call
Write == /\ result = "running" /\ chunk # <<>>
         /\ nw' = nw + 1
         /\ IF nw + 1 = sc.wbad
            THEN IF sc.wmode = "err"
                 THEN delivered' = delivered /\ result' = "werr"
                 ELSE delivered' = delivered \o SubSeq(chunk, 1, Len(chunk) - 1) /\ result' = "short"
            ELSE /\ delivered' = delivered \o chunk
                 /\ result' = IF cerr = "nil" THEN result ELSE cerr
         /\ chunk' = <<>> /\ cerr' = "nil"
         /\ UNCHANGED <<sc, ri, next>>

Done == result # "running"
Next == Read \/ Write \/ (Done /\ UNCHANGED vars)
Spec == Init /\ [][Next]_vars

\* what the reader has handed out so far
Handed == Bytes(1, next - 1)
InOrder == Len(delivered) <= Len(Handed) /\ SubSeq(Handed, 1, Len(delivered)) = delivered
\* the direction ended because of the reader (EOF or read error): nothing it handed out is missing
AllDelivered == result \in {"eof", "err"} => delivered = Handed
=============================================================================
