---------------------------- MODULE Streaming_Gen ----------------------------
(* Scenarios for the lock-step replay against the real HTTPProxy.  The steps are Streaming's  *)
(* own actions under the schedule a driver can force from outside: the environment (scripted  *)
(* upstream, scripted client) moves only when the proxy is calm - every action the proxy is   *)
(* REQUIRED to take has been taken and the client has read what was handed to it - and the    *)
(* proxy takes only required actions (it flushes no earlier than the rule in force demands).  *)
(* After every environment step the history records what the specification says the client    *)
(* is owed at that point (status, bytes, end of the response), what it may have at most, and  *)
(* what the upstream and the handler must have observed.  One JSON line per finished history. *)
EXTENDS Streaming_MC, Json
VARIABLES hist, pend

gvars == <<vars, hist, pend>>
None == [a |-> "-", k |-> 0]
GenInit == Init /\ hist = <<>> /\ pend = None

Finished == (cend # "open" \/ cgone) /\ ost # "started"
Quiet == CalmS /\ pend = None /\ ~Finished
Env(a, k) == pend' = [a |-> a, k |-> k] /\ UNCHANGED hist

\* own answers are exact; a 200 is owed when OwedHdr says so
OwedStatus == IF pst = "answered" THEN chdr ELSE IF Alive /\ OwedHdr THEN 200 ELSE 0
Entry == [a |-> pend.a, k |-> pend.k,
          hdr   |-> OwedStatus,                               \* status the client must have by now (0: none owed)
          hmay  |-> IF uhdr THEN 200 ELSE OwedStatus,         \* status it may have
          must  |-> IF Alive THEN OwedBytes ELSE 0,           \* body bytes it must have by now
          may   |-> Weight(sent),                             \* ... and may have at most
          end   |-> IF cgone THEN "gone" ELSE cend,           \* how the response has ended for the client
          uconn |-> uconn,                                    \* "byproxy": the upstream must have seen the proxy close
          ureq  |-> ureq,                                     \* requests the upstream has received
          pret  |-> pst \in {"done", "aborted", "answered", "canceled"},   \* the handler has returned
          other |-> ost = "done"]

\* ---- the environment, one step at a time
GReq    == Quiet /\ CReq /\ Env("Req", 0)
GHdr    == Quiet /\ ~sc.rht /\ UpHdr /\ Env("Hdr", 0)
GSlow   == Quiet /\ sc.rht /\ UpSlow /\ Env("Slow", 0)
GEarly  == Quiet /\ ~sc.rht /\ \E kind \in {"close", "rst", "partial"} : UpFailEarly(kind) /\ Env("Early-" \o kind, 0)
GWrite  == Quiet /\ UpWrite /\ Env("W", Chunks(sent) + 1)
GEnd    == Quiet /\ UpEnd /\ Env("End", 0)
GCut    == Quiet /\ UpCut /\ Env("Cut", 0)
GRst    == Quiet /\ UpRst /\ uwire' = Append(uwire, RstM) /\ Env("Rst", 0)
GClose  == Quiet /\ CClose /\ Env("CliClose", 0)
\* the other request is sent while the stream stands open after its last intended chunk
GOther  == Quiet /\ ust = "hdr" /\ Chunks(sent) = N /\ OStart /\ Env("Other", 0)

\* ---- the proxy and the reading client: required steps only, reads before flushes
GProxy  == /\ (PDial \/ PRead \/ PTimeout \/ PCancel \/ CRead \/ ODone \/ (~(pst \in {"wait", "copy"} /\ uwire # <<>>) /\ PFlushDue))
           /\ UNCHANGED <<hist, pend>>

\* ---- calm again: the observation of the step is recorded
Settle  == /\ CalmS /\ pend # None /\ ost # "started"
           /\ hist' = Append(hist, Entry) /\ pend' = None
           /\ UNCHANGED vars
           /\ (Finished => PrintT(ToJson([sc |-> sc, steps |-> hist'])))

GenNext == GReq \/ GHdr \/ GSlow \/ GEarly \/ GWrite \/ GEnd \/ GCut \/ GRst \/ GClose \/ GOther \/ GProxy \/ Settle
GenSpec == GenInit /\ [][GenNext]_gvars

\* every generated step is a step of the design and the design's safety properties hold on the way
GenConsistent == ScOK(sc) /\ Integrity /\ HeaderFirst /\ MappingAsBuilt /\ NeverForged /\ CalmDelivered
GenView == <<vars, pend>>
=============================================================================
