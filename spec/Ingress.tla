------------------------------- MODULE Ingress -------------------------------
(* X04 - inbound PROXY protocol and listener dispatch: the life of ONE accepted           *)
(* connection on a fabio listener.                                                        *)
(*                                                                                        *)
(* Sources (documentation, not code): docs/content/feature/proxy-protocol.md,             *)
(* tcp-proxy.md, tcp-sni-proxy.md, https-tcp-sni-proxy.md, docs/content/ref/proxy.addr.md *)
(* (options proto, pxyproto, pxytimeout, rt), the comments of fabio.properties and the    *)
(* PROXY protocol text the documentation refers to (version 1: "PROXY" SP family SP src   *)
(* SP dst SP sport SP dport CRLF, or "PROXY UNKNOWN" CRLF for which the receiver uses the  *)
(* real addresses of the connection).                                                     *)
(*                                                                                        *)
(* The stream a client sends is a sequence of TOKENS: one-character strings are bytes     *)
(* (the two valid header forms are spelled byte by byte so that every byte position is a  *)
(* possible segment boundary), "CR"/"LF" are the two line-end bytes, all other names      *)
(* are opaque chunks the harness spells out (a ClientHello in two halves "CHa" "CHb",     *)
(* the parts of HTTP requests "Qa" "Qb" "Qc" "Qd" "Qp", raw tunnel bytes "B1" "B2", a     *)
(* version-2 header "V2a" "V2b" "V2c", bodies of malformed version-1 headers "X...").     *)
(*                                                                                        *)
(* Layers of a connection, in the order the DOCUMENTATION implies:                        *)
(*   PROXY layer (only with pxyproto=true)  ->  [SNI dispatch for https+tcp+sni]          *)
(*   ->  [TLS termination]  ->  handler (HTTP proxy | TCP proxy | SNI proxy)              *)
(* Everything behind the PROXY layer sees one EFFECTIVE CLIENT ADDRESS `eff` and the      *)
(* bytes after the header.  Where the code deviates from the documentation the deviation  *)
(* is a named constant (all FALSE = the documented design).                               *)
EXTENDS Naturals, Sequences, FiniteSets

CONSTANTS
    Universe,           \* the connections explored: records [c |-> listener configuration [proto, pxy, ropt, rt],
                        \*                                    s |-> client script [head, fam, pay, sni]]
    Tables,             \* routing tables the run may switch between ("A": host sw is a tcp route, "B": it is an http route)
    \* ---- named deviations of the code from the documentation
    SniffBeforeHeader,  \* https+tcp+sni looks for the ClientHello in the RAW stream; the PROXY layer sits behind the dispatch (tunnel side only)
    RejectUnknown,      \* "PROXY UNKNOWN" CRLF is rejected instead of being accepted with the peer's address
    EofInPrefixDrops,   \* a proper prefix of "PROXY " followed by the client's EOF is dropped when the handler's first access is a read
    LaxPort,            \* a source port above 65535 is accepted
    LaxLF,              \* a header line that ends in a bare LF is accepted
    RtLostOnFirstRead   \* rt does not apply to the first read of a pxyproto connection whose handler reads before it asks for the address

Protos == {"http", "https", "tcp", "tcps", "tcp+sni", "https+tcp+sni"}

VARIABLES
    cfg, scr,       \* the listener and the client script of this connection (fixed at Init)
    tbl,            \* current routing table
    sent, fin,      \* number of tokens of the stream the client has sent; client has half-closed
    timer,          \* header timer: "off" | "armed" | "fired"
    ph,             \* PROXY layer: "na" (none) | "idle" (not started) | "prefix" | "line" | "hdr" | "pass" | "dead"
    scan,           \* tokens examined by the PROXY layer so far
    hlen,           \* tokens swallowed by the PROXY layer (the header)
    eff,            \* effective client address: "?" | "peer" | "decl"
    disp, dtbl,     \* https+tcp+sni: "?" | "tunnel" | "https"; table consulted at that moment ("" before)
    tls,            \* TLS termination: "na" | "wait" | "ok" | "fail"
    hs,             \* handler: "init" | "copy" | "end"
    hq,             \* HTTP request parser: "" | "a" | "p1" | "p2" | "p3" | "g"
    fwd,            \* tokens behind the header consumed by TLS + handler
    up,             \* what the upstream received, in order (marker "M:<eff>" of the outgoing PROXY header, tokens, "<kind>:<eff>" per forwarded request)
    upeof,          \* the upstream has seen the end of the client's stream
    resps,          \* answers the client got from the HTTP side: "<status>:<kind>:<eff>"
    closed          \* fabio closed the connection on its own initiative

vars == <<cfg, scr, tbl, sent, fin, timer, ph, scan, hlen, eff, disp, dtbl, tls, hs, hq, fwd, up, upeof, resps, closed>>

---------------------------------------------------------------------------
(* The alphabet and the universe of streams *)

Prefix == <<"P", "R", "O", "X", "Y", " ">>
Body4  == <<"T","C","P","4"," ","1","9","2",".","0",".","2",".","7"," ","1","9","8",".","5","1",".","1","0","0",".","9"," ","4","3","2","1"," ","4","4","3">>
Body6  == <<"T","C","P","6"," ","2","0","0","1",":","d","b","8",":",":","7"," ","2","0","0","1",":","d","b","8",":",":","9"," ","4","3","2","1"," ","4","4","3">>
BodyU  == <<"U","N","K","N","O","W","N">>
CRLF   == <<"CR", "LF">>
BodyOf(fam) == IF fam = 6 THEN Body6 ELSE Body4

HeadKinds == {"none", "v1", "unk", "v2", "lf", "range", "xfam", "xip", "xport", "xshort", "xlong"}
(* malformed version-1 lines: unknown family, unparsable source address, non-numeric port, *)
(* too few fields, 150 bytes of junk                                                       *)
HeadSeq(s) ==
    CASE s.head = "none"   -> <<>>
      [] s.head = "v1"     -> Prefix \o BodyOf(s.fam) \o CRLF
      [] s.head = "unk"    -> Prefix \o BodyU \o CRLF
      [] s.head = "v2"     -> <<"V2a", "V2b", "V2c">>
      [] s.head = "lf"     -> Prefix \o BodyOf(s.fam) \o <<"LF">>
      [] s.head = "range"  -> Prefix \o <<"Xrange">> \o CRLF
      [] s.head = "xfam"   -> Prefix \o <<"Xfam">> \o CRLF
      [] s.head = "xip"    -> Prefix \o <<"Xip">> \o CRLF
      [] s.head = "xport"  -> Prefix \o <<"Xport">> \o CRLF
      [] s.head = "xshort" -> Prefix \o <<"Xshort">> \o CRLF
      [] s.head = "xlong"  -> Prefix \o <<"Xlong">> \o CRLF
HeadLen(s) == Len(HeadSeq(s))

CH == <<"CHa", "CHb">>
WebPay(s) == IF s.pay = "pro" THEN <<"P", "R", "O", "Qp">> ELSE <<"Qa", "Qb", "Qc", "Qd">>
RawPay(s) == IF s.pay = "pro" THEN <<"P", "R", "O", "B2">> ELSE <<"B1", "B2">>
Body(c, s) ==
    CASE c.proto = "http"           -> WebPay(s)
      [] c.proto = "https"          -> CH \o WebPay(s)
      [] c.proto = "tcp"            -> RawPay(s)
      [] c.proto = "tcps"           -> CH \o RawPay(s)
      [] c.proto = "tcp+sni"        -> CH \o RawPay(s)
      [] c.proto = "https+tcp+sni"  -> CH \o WebPay(s)
StreamOf(c, s) == HeadSeq(s) \o Body(c, s)
stream == StreamOf(cfg, scr)

(* What the documentation (the PROXY protocol text it refers to) makes of a complete line *)
Declares(s)   == s.head = "v1"                       \* a valid line that declares a TCP source
ValidNoAddr(s) == s.head = "unk"                     \* a valid line that declares nothing
Malformed(s)  == s.head \in {"lf", "range", "xfam", "xip", "xport", "xshort", "xlong"}
(* What the listener does with a complete line *)
Accepts(s)  == Declares(s) \/ (s.head = "range" /\ LaxPort) \/ (s.head = "lf" /\ LaxLF)
AcceptsU(s) == ValidNoAddr(s) /\ ~RejectUnknown

IsTcpRoute(t, sni) == sni = "tun" \/ (sni = "sw" /\ t = "A")
HasRoute(sni)      == sni \in {"raw", "acl", "tun", "sw"}
RouteOpt(c, s)     == IF c.proto \in {"tcp", "tcps"} THEN c.ropt ELSE IF s.sni = "acl" THEN "acl" ELSE "pxy"

Hts == cfg.proto = "https+tcp+sni"
(* the handler reads from the connection before it asks for the client address *)
ReadFirst == cfg.proto = "tcp" /\ cfg.ropt = "bare"

---------------------------------------------------------------------------
Init ==
    /\ \E u \in Universe : cfg = u.c /\ scr = u.s
    /\ tbl \in (IF cfg.proto = "https+tcp+sni" THEN Tables ELSE {"A"})
    /\ sent = 0 /\ fin = FALSE
    /\ ph = IF ~cfg.pxy THEN "na" ELSE IF cfg.proto = "https+tcp+sni" /\ SniffBeforeHeader THEN "idle" ELSE "prefix"
    /\ timer = IF ph = "prefix" THEN "armed" ELSE "off"
    /\ scan = 0 /\ hlen = 0
    /\ eff = IF cfg.pxy THEN "?" ELSE "peer"
    /\ disp = "?" /\ dtbl = ""
    /\ tls = IF cfg.proto \in {"https", "tcps"} THEN "wait" ELSE "na"
    /\ hs = "init" /\ hq = "" /\ fwd = 0
    /\ up = <<>> /\ upeof = FALSE /\ resps = <<>> /\ closed = FALSE

(* Sizes: a receiver cannot tell that a stream does not start with a TLS handshake record   *)
(* before it has the 5 bytes of a record header (the SNI proxy looks at 9 bytes).  One-   *)
(* character tokens, CR, LF and V2a are one byte, every other token is longer than that.   *)
Small(t) == t \in {"P","R","O","X","Y"," ","T","C","4","6","1","2","3","5","7","8","9","0",".",":","d","b","U","N","K","W","CR","LF","V2a"}
Size(t)  == IF Small(t) THEN 1 ELSE 9
RECURSIVE SumSize(_, _)
SumSize(b, n) == IF n = 0 THEN 0 ELSE SumSize(b, n - 1) + Size(stream[b + n])
BytesAt(b) == SumSize(b, IF sent - b > 9 THEN 9 ELSE sent - b)    \* bytes (capped) that have arrived behind offset b

Decided == ph \in {"na", "hdr", "pass"}
Dead    == ph = "dead"
In(i)   == stream[hlen + i]
Have(n) == hlen + n <= sent

---------------------------------------------------------------------------
(* The client *)
Send(k) == /\ ~fin /\ k >= 1 /\ sent + k <= Len(stream)
           /\ sent' = sent + k
           /\ UNCHANGED <<cfg, scr, tbl, fin, timer, ph, scan, hlen, eff, disp, dtbl, tls, hs, hq, fwd, up, upeof, resps, closed>>
Fin == /\ ~fin /\ fin' = TRUE
       /\ UNCHANGED <<cfg, scr, tbl, sent, timer, ph, scan, hlen, eff, disp, dtbl, tls, hs, hq, fwd, up, upeof, resps, closed>>
TableChange(t) == /\ cfg.proto = "https+tcp+sni" /\ disp = "?"
                  /\ t \in Tables /\ t # tbl /\ tbl' = t
                  /\ UNCHANGED <<cfg, scr, sent, fin, timer, ph, scan, hlen, eff, disp, dtbl, tls, hs, hq, fwd, up, upeof, resps, closed>>

---------------------------------------------------------------------------
(* The PROXY layer.  It peeks at the first six bytes; a mismatch means "no header" and    *)
(* nothing is swallowed; after "PROXY " it reads to the end of the line.                  *)
Pass == /\ ph' = "pass" /\ eff' = "peer" /\ timer' = IF timer = "armed" THEN "off" ELSE timer
Kill == /\ ph' = "dead" /\ eff' = "peer" /\ closed' = TRUE /\ timer' = IF timer = "armed" THEN "off" ELSE timer

(* One step examines everything that has arrived: the six bytes are compared one by one,   *)
(* the first mismatch ends the header search; behind "PROXY " the line runs to its LF.    *)
Min(a, b) == IF a < b THEN a ELSE b
MisIdx == {i \in (scan + 1)..Min(sent, 6) : stream[i] # Prefix[i]}
LfIdx  == {j \in (IF scan < 6 THEN 7 ELSE scan + 1)..sent : stream[j] = "LF"}
First(S) == CHOOSE i \in S : \A j \in S : i <= j
Scan ==
    /\ ph \in {"prefix", "line"} /\ scan < sent
    /\ IF ph = "prefix" /\ MisIdx # {}
       THEN Pass /\ UNCHANGED <<scan, hlen, closed>>                       \* no header: nothing is swallowed
       ELSE IF sent < 6
       THEN scan' = sent /\ UNCHANGED <<ph, eff, timer, hlen, closed>>    \* still inside "PROXY "
       ELSE IF LfIdx = {}
       THEN scan' = sent /\ ph' = "line" /\ UNCHANGED <<eff, timer, hlen, closed>>
       ELSE /\ scan' = First(LfIdx)                                       \* the line is complete
            /\ IF Accepts(scr) \/ AcceptsU(scr)
               THEN /\ ph' = "hdr" /\ hlen' = scan' /\ eff' = (IF Accepts(scr) THEN "decl" ELSE "peer")
                    /\ timer' = (IF timer = "armed" THEN "off" ELSE timer) /\ closed' = closed
               ELSE Kill /\ hlen' = hlen
    /\ UNCHANGED <<cfg, scr, tbl, sent, fin, disp, dtbl, tls, hs, hq, fwd, up, upeof, resps>>
PfxEof ==  \* the stream ends inside the six bytes: it was payload
    /\ ph = "prefix" /\ scan = sent /\ fin
    /\ Pass
    /\ hlen' = IF EofInPrefixDrops /\ ReadFirst THEN scan ELSE 0
    /\ UNCHANGED <<cfg, scr, tbl, sent, fin, scan, disp, dtbl, tls, hs, hq, fwd, up, upeof, resps, closed>>
LineEof ==  \* the stream ends inside the header line
    /\ ph = "line" /\ scan = sent /\ fin
    /\ Kill
    /\ UNCHANGED <<cfg, scr, tbl, sent, fin, scan, hlen, disp, dtbl, tls, hs, hq, fwd, up, upeof, resps>>
(* pxytimeout: "Sets PROXY protocol header read timeout" (default 250ms) is all the         *)
(* documentation says.  What is required of it here: the wait for a header is bounded      *)
(* (WaitBounded), a header that did not arrive in time is never trusted (EffSound), and no *)
(* byte is lost when the connection goes on (NoByteLost).  Which of the two ends the wait   *)
(* takes is transcribed from the behaviour observed: nothing recognised so far -> the       *)
(* connection goes on without a header; "PROXY " seen but the line unfinished -> closed.    *)
Timeout ==
    /\ timer = "armed" /\ ph \in {"prefix", "line"}
    /\ timer' = "fired" /\ eff' = "peer"
    /\ IF ph = "prefix" THEN ph' = "pass" /\ closed' = closed ELSE ph' = "dead" /\ closed' = TRUE
    /\ UNCHANGED <<cfg, scr, tbl, sent, fin, scan, hlen, disp, dtbl, tls, hs, hq, fwd, up, upeof, resps>>

---------------------------------------------------------------------------
(* https+tcp+sni: dispatch on the server name of the ClientHello and the table of that    *)
(* moment.  Documented order: behind the PROXY layer.                                     *)
SniffBase == IF SniffBeforeHeader THEN 0 ELSE hlen
SniffReady == IF SniffBeforeHeader THEN TRUE ELSE Decided
HelloAt(b) == b + 2 <= sent /\ stream[b + 1] = "CHa" /\ stream[b + 2] = "CHb"
NotHelloAt(b) == (b < sent /\ stream[b + 1] # "CHa" /\ (BytesAt(b) >= 5 \/ fin)) \/ (fin /\ ~HelloAt(b) /\ (b = sent \/ b + 1 = sent))
Dispatch ==
    /\ Hts /\ disp = "?" /\ SniffReady /\ ~Dead
    /\ HelloAt(SniffBase) \/ NotHelloAt(SniffBase)
    /\ disp' = IF HelloAt(SniffBase) /\ IsTcpRoute(tbl, scr.sni) THEN "tunnel" ELSE "https"
    /\ dtbl' = tbl
    /\ tls' = IF disp' = "https" THEN "wait" ELSE "na"
    /\ IF ph = "idle"
       THEN IF disp' = "tunnel" THEN ph' = "prefix" /\ timer' = "armed" /\ eff' = eff
                                ELSE ph' = "na" /\ timer' = timer /\ eff' = "peer"
       ELSE UNCHANGED <<ph, timer, eff>>
    /\ UNCHANGED <<cfg, scr, tbl, sent, fin, scan, hlen, hs, hq, fwd, up, upeof, resps, closed>>

Kind == CASE cfg.proto \in {"http", "https"} -> "web"
          [] cfg.proto \in {"tcp", "tcps"}   -> "tcp"
          [] cfg.proto = "tcp+sni"           -> "sni"
          [] cfg.proto = "https+tcp+sni"     -> IF disp = "tunnel" THEN "sni" ELSE IF disp = "https" THEN "web" ELSE "?"

---------------------------------------------------------------------------
(* TLS termination with the listener's certificate *)
TlsOk ==
    /\ tls = "wait" /\ Decided /\ Have(2) /\ In(1) = "CHa" /\ In(2) = "CHb"
    /\ tls' = "ok" /\ fwd' = 2
    /\ UNCHANGED <<cfg, scr, tbl, sent, fin, timer, ph, scan, hlen, eff, disp, dtbl, hs, hq, up, upeof, resps, closed>>
TlsFail ==
    /\ tls = "wait" /\ Decided
    /\ (Have(1) /\ In(1) # "CHa" /\ (BytesAt(hlen) >= 5 \/ fin)) \/ (fin /\ ~Have(2))
    /\ tls' = "fail" /\ closed' = TRUE
    /\ UNCHANGED <<cfg, scr, tbl, sent, fin, timer, ph, scan, hlen, eff, disp, dtbl, hs, hq, fwd, up, upeof, resps>>

---------------------------------------------------------------------------
(* TCP and SNI handlers.  The outgoing PROXY header ("M:<eff>") and the access rule need  *)
(* the effective address, hence the header decision; a route without either lets the      *)
(* handler connect to the upstream at once.  A rejected header leaves the connection with *)
(* the peer's address for what little remains of it.                                      *)
Ropt == RouteOpt(cfg, scr)
TcpOpen ==
    /\ Kind = "tcp" /\ hs = "init"
    /\ Ropt = "bare" \/ Decided \/ Dead
    /\ IF Ropt = "acl" /\ eff # "decl"
       THEN hs' = "end" /\ closed' = TRUE /\ up' = up
       ELSE hs' = "copy" /\ closed' = closed /\ up' = IF Ropt = "bare" THEN up ELSE <<"M:" \o eff>>
    /\ UNCHANGED <<cfg, scr, tbl, sent, fin, timer, ph, scan, hlen, eff, disp, dtbl, tls, hq, fwd, upeof, resps>>
SniOpen ==
    /\ Kind = "sni" /\ hs = "init" /\ Decided
    /\ Have(2) /\ In(1) = "CHa" /\ In(2) = "CHb"
    /\ IF ~HasRoute(scr.sni) \/ (Ropt = "acl" /\ eff # "decl")
       THEN hs' = "end" /\ closed' = TRUE /\ up' = up
       ELSE hs' = "copy" /\ closed' = closed /\ up' = <<"M:" \o eff>>
    /\ UNCHANGED <<cfg, scr, tbl, sent, fin, timer, ph, scan, hlen, eff, disp, dtbl, tls, hq, fwd, upeof, resps>>
SniBad ==  \* no ClientHello: the connection is closed, no upstream is contacted
    /\ Kind = "sni" /\ hs = "init" /\ Decided
    /\ (Have(1) /\ In(1) # "CHa" /\ (BytesAt(hlen) >= 9 \/ fin)) \/ (fin /\ ~Have(2))
    /\ hs' = "end" /\ closed' = TRUE
    /\ UNCHANGED <<cfg, scr, tbl, sent, fin, timer, ph, scan, hlen, eff, disp, dtbl, tls, hq, fwd, up, upeof, resps>>
TcpFwd ==
    /\ Kind \in {"tcp", "sni"} /\ hs = "copy" /\ Decided /\ tls \in {"na", "ok"}
    /\ ~upeof                                  \* a direction that has ended (rt) stays ended
    /\ Have(fwd + 1)
    /\ up' = Append(up, In(fwd + 1)) /\ fwd' = fwd + 1
    /\ UNCHANGED <<cfg, scr, tbl, sent, fin, timer, ph, scan, hlen, eff, disp, dtbl, tls, hs, hq, upeof, resps, closed>>
Waiting == Kind \in {"tcp", "sni"} /\ hs = "copy" /\ Decided /\ tls \in {"na", "ok"} /\ hlen + fwd = sent /\ ~upeof
TcpEof ==
    /\ hs = "copy" /\ ~upeof
    /\ (Waiting /\ fin) \/ Dead \/ tls = "fail"
    /\ upeof' = TRUE
    /\ UNCHANGED <<cfg, scr, tbl, sent, fin, timer, ph, scan, hlen, eff, disp, dtbl, tls, hs, hq, fwd, up, resps, closed>>
(* rt: "Sets the read timeout": a client that stays silent for rt ends its direction *)
RtArmed == ~(RtLostOnFirstRead /\ cfg.pxy /\ ReadFirst /\ fwd = 0)
RtFire ==
    /\ cfg.rt /\ Waiting /\ ~fin /\ RtArmed
    /\ upeof' = TRUE
    /\ UNCHANGED <<cfg, scr, tbl, sent, fin, timer, ph, scan, hlen, eff, disp, dtbl, tls, hs, hq, fwd, up, resps, closed>>

---------------------------------------------------------------------------
(* HTTP handler: requests /open (no rule), /decl (allow=ip:<declared source>), /peer      *)
(* (allow=ip:<peer>).  Anything that is not a request line is answered 400 at the end of  *)
(* its first line and the connection is closed.                                           *)
LineEnders == {"LF", "V2b"}
Status(k) == IF (k = "decl" /\ eff # "decl") \/ (k = "peer" /\ eff # "peer") THEN "403" ELSE "200"
Answer(k) == /\ resps' = Append(resps, Status(k) \o ":" \o k \o ":" \o eff)
             /\ up' = IF Status(k) = "200" THEN Append(up, k \o ":" \o eff) ELSE up
             /\ hq' = "" /\ closed' = closed
Garbage(t) == IF t \in LineEnders
              THEN resps' = Append(resps, "400") /\ closed' = TRUE /\ hq' = "g" /\ up' = up
              ELSE hq' = "g" /\ UNCHANGED <<resps, closed, up>>
HttpTok ==
    /\ Kind = "web" /\ Decided /\ tls \in {"na", "ok"} /\ ~closed
    /\ Have(fwd + 1)
    /\ fwd' = fwd + 1
    /\ LET t == In(fwd + 1) IN
       CASE hq = ""   /\ t = "Qa" -> hq' = "a" /\ UNCHANGED <<resps, closed, up>>
         [] hq = ""   /\ t = "Qc" -> Answer("decl")
         [] hq = ""   /\ t = "Qd" -> Answer("peer")
         [] hq = ""   /\ t = "P"  -> hq' = "p1" /\ UNCHANGED <<resps, closed, up>>
         [] hq = "a"  /\ t = "Qb" -> Answer("open")
         [] hq = "p1" /\ t = "R"  -> hq' = "p2" /\ UNCHANGED <<resps, closed, up>>
         [] hq = "p2" /\ t = "O"  -> hq' = "p3" /\ UNCHANGED <<resps, closed, up>>
         [] hq = "p3" /\ t = "Qp" -> Answer("pfind")
         [] OTHER -> Garbage(t)
    /\ UNCHANGED <<cfg, scr, tbl, sent, fin, timer, ph, scan, hlen, eff, disp, dtbl, tls, hs, upeof>>

---------------------------------------------------------------------------
Parser   == Scan \/ PfxEof \/ LineEof
Handler  == TcpOpen \/ SniOpen \/ SniBad \/ TcpFwd \/ TcpEof \/ HttpTok
Internal == Parser \/ Dispatch \/ TlsOk \/ TlsFail \/ Handler
SendAny  == \E k \in 1..(Len(stream) - sent) : Send(k)
TableAny == \E t \in Tables : TableChange(t)
Next == Internal \/ Timeout \/ RtFire \/ SendAny \/ Fin \/ TableAny

Spec == Init /\ [][Next]_vars /\ WF_vars(Internal) /\ WF_vars(Timeout) /\ WF_vars(RtFire)

---------------------------------------------------------------------------
(* What MUST hold (documentation) *)

TypeOK ==
    /\ cfg.proto \in Protos /\ cfg.pxy \in BOOLEAN /\ cfg.rt \in BOOLEAN /\ scr.head \in HeadKinds /\ tbl \in Tables
    /\ sent \in 0..Len(stream) /\ fin \in BOOLEAN
    /\ timer \in {"off", "armed", "fired"}
    /\ ph \in {"na", "idle", "prefix", "line", "hdr", "pass", "dead"}
    /\ scan \in 0..sent /\ hlen \in 0..sent
    /\ eff \in {"?", "peer", "decl"}
    /\ disp \in {"?", "tunnel", "https"}
    /\ tls \in {"na", "wait", "ok", "fail"}
    /\ hs \in {"init", "copy", "end"}
    /\ hlen + fwd <= sent

(* the stream was cut short inside the header, or the header did not arrive in time *)
Excused == timer = "fired" \/ (fin /\ sent < HeadLen(scr))

(* 1. "the listener will respect upstream v1 PROXY protocol headers": with pxyproto on a   *)
(*    valid header that arrives in time decides the effective address; nothing else does.  *)
EffSound        == eff = "decl" => cfg.pxy /\ Declares(scr) /\ sent >= HeadLen(scr) /\ hlen = HeadLen(scr)
HeaderRespected == (cfg.pxy /\ Declares(scr) /\ ph \in {"na", "pass", "dead"}) => Excused
UnknownAccepted == (cfg.pxy /\ ValidNoAddr(scr) /\ ph \in {"na", "pass", "dead"}) => Excused
(* 2. with pxyproto off a PROXY line is ordinary payload *)
OffIsPayload    == ~cfg.pxy => hlen = 0 /\ eff = "peer" /\ ph = "na"
(* 3. no byte of payload is lost: only a complete valid header is ever swallowed *)
NoByteLost      == hlen = 0 \/ (hlen = HeadLen(scr) /\ cfg.pxy /\ (Declares(scr) \/ ValidNoAddr(scr)))
(*    ... and what the upstream got is exactly the bytes behind the header, in order *)
Marker(x) == x \in {"M:peer", "M:decl", "M:?"}
DataOf(u) == SelectSeq(u, LAMBDA x : ~Marker(x))
Verbatim  == Kind \in {"tcp", "sni"} =>
                LET skip == IF tls = "ok" THEN 2 ELSE 0
                    d    == DataOf(up)
                IN  /\ Len(d) = (IF fwd >= skip THEN fwd - skip ELSE 0)
                    /\ \A i \in 1..Len(d) : d[i] = stream[hlen + skip + i]
(*    the outgoing PROXY header never precedes the decision *)
MarkerDecided == \A i \in 1..Len(up) : up[i] # "M:?"
(* 4. malformed headers are never trusted *)
MalformedNeverTrusted == Malformed(scr) => eff # "decl" /\ hlen = 0
(* 5. https+tcp+sni: the dispatch is a function of the ClientHello's server name (behind a *)
(*    header the listener respects) and of the table at that moment                        *)
HelloBehindHeader ==
    LET b == IF cfg.pxy /\ (Declares(scr) \/ ValidNoAddr(scr)) /\ ~Excused THEN HeadLen(scr) ELSE 0
    IN  HelloAt(b)
DispatchRight == disp # "?" => disp = IF HelloBehindHeader /\ IsTcpRoute(dtbl, scr.sni) THEN "tunnel" ELSE "https"
(* 6. rt applies whenever the handler waits for the client *)
RtAlwaysArmed == (cfg.rt /\ Waiting /\ ~fin) => RtArmed
(* 7. answers are decided with the effective address *)
AnswersUseEff == \A i \in 1..Len(resps) : resps[i] = "400" \/ \E k \in {"open", "decl", "peer", "pfind"}, e \in {"peer", "decl"} :
                    /\ resps[i] = (IF (k = "decl" /\ e # "decl") \/ (k = "peer" /\ e # "peer") THEN "403" ELSE "200") \o ":" \o k \o ":" \o e
                    /\ e = eff

(* liveness: the header wait is bounded whatever the client does; a well-formed stream that *)
(* is sent completely reaches its handler completely                                        *)
WaitBounded  == <>(ph \notin {"prefix", "line"})
Complete     == sent = Len(stream) /\ fin
Admitted     == Ropt # "acl" \/ eff = "decl"
Delivered    == (Complete /\ Decided /\ Kind = "tcp" /\ Admitted /\ tls \in {"na", "ok"} /\ ~cfg.rt)
                    ~> (upeof /\ Len(DataOf(up)) = Len(stream) - hlen - (IF tls = "ok" THEN 2 ELSE 0))
RtHonoured   == (cfg.rt /\ Waiting /\ ~fin) ~> (upeof \/ fin \/ ~Waiting)
=============================================================================
