---------------------------- MODULE ControlPlane_Proof ----------------------------
(* TLAPS proof that LastGood (the published table is the denotation of the last valid candidate)  *)
(* is an inductive invariant of ControlPlane for EVERY set of instances, nodes, services, manual  *)
(* texts and every bound on changes and faults (TLC decides it for the bounded universes only).   *)
(* Checked with: tlapm --threads 8 ControlPlane_Proof.tla                                         *)
EXTENDS ControlPlane, TLAPS

ASSUME InitIsNoText == "init" \notin Manual
ASSUME NoneIsText == "none" \in Manual

TypeInv == mancfg \in Manual /\ wkVal \in Manual /\ kv \in Manual
Ind == TypeInv /\ LastGood

LEMMA InitInd == Init => Ind
  BY NoneIsText DEF Init, Ind, TypeInv, LastGood, NoCfg

LEMMA Untouched == ASSUME Ind, UNCHANGED <<mancfg, lastTable, active, wkVal, kv>> PROVE Ind'
  BY DEF Ind, TypeInv, LastGood

LEMMA StepInd == Ind /\ [Next]_vars => Ind'
<1> SUFFICES ASSUME Ind, [Next]_vars PROVE Ind'
  OBVIOUS
<1>1. CASE RegChange
  <2>1. UNCHANGED <<mancfg, lastTable, active, wkVal>>
    BY <1>1 DEF RegChange, bevars, wkvars
  <2>2. kv' \in Manual
    BY <1>1 DEF RegChange, InstChange, NodeChange, KVChange, KVTouch, HealthTouch, Ind, TypeInv
  <2> QED
    BY <2>1, <2>2 DEF Ind, TypeInv, LastGood
<1>2. CASE WsIssue
  BY <1>2, Untouched DEF WsIssue, bevars, wkvars, regvars
<1>3. CASE WsHealth
  BY <1>3, Untouched DEF WsHealth, bevars, wkvars, regvars
<1>4. CASE \E s \in Services : WsCatalog(s)
  BY <1>4, Untouched DEF WsCatalog, bevars, wkvars, regvars
<1>5. CASE \E s \in Services : WsCatalogFail(s)
  BY <1>5, Untouched DEF WsCatalogFail, bevars, wkvars
<1>6. CASE WkIssue
  BY <1>6, Untouched DEF WkIssue, bevars, wkvars, regvars
<1>7. CASE WkAnswer
  <2>1. UNCHANGED <<mancfg, lastTable, active, kv>> /\ wkVal' = kv
    BY <1>7 DEF WkAnswer, bevars, regvars
  <2> QED
    BY <2>1 DEF Ind, TypeInv, LastGood
<1>8. CASE BeRecvSvc
  BY <1>8, Untouched DEF BeRecvSvc, wkvars, regvars
<1>9. CASE BeRecvMan
  <2>1. mancfg' = wkVal /\ UNCHANGED <<lastTable, active, wkVal, kv>>
    BY <1>9 DEF BeRecvMan, regvars
  <2> QED
    BY <2>1 DEF Ind, TypeInv, LastGood
<1>10. CASE BeSame
  BY <1>10, Untouched DEF BeSame, wkvars, regvars
<1>11. CASE BeReject
  BY <1>11, Untouched DEF BeReject, wkvars, regvars
<1>12. CASE BeInstall
  <2>1. mancfg # "init"
    BY InitIsNoText DEF Ind, TypeInv
  <2>2. lastTable' = <<CfgText(svccfg), mancfg>> /\ active' = TableOf(svccfg, mancfg) /\ mancfg' = mancfg /\ UNCHANGED <<wkVal, kv>>
    BY <1>12 DEF BeInstall, Cand, wkvars, regvars
  <2>3. CfgText(svccfg).ok = svccfg.ok
    BY DEF CfgText
  <2> QED
    BY <2>1, <2>2, <2>3 DEF Ind, TypeInv, LastGood, TableOf
<1>13. CASE UNCHANGED vars
  BY <1>13, Untouched DEF vars, bevars, wkvars, regvars
<1> QED
  BY <1>1, <1>2, <1>3, <1>4, <1>5, <1>6, <1>7, <1>8, <1>9, <1>10, <1>11, <1>12, <1>13 DEF Next, Internal
=============================================================================
