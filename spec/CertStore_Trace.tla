--------------------------- MODULE CertStore_Trace ---------------------------
(* Trace validation for CertStore: a recorded concurrent execution of the real code       *)
(* (a writer replacing the certificate set through the real Source -> TLSConfig goroutine, *)
(* clients performing real TLS handshakes) is accepted iff it is a behaviour of CertStore: *)
(* every handshake presented Select(S, requested name, strict) for ONE set S that was      *)
(* current at some moment between the handshake's invocation and its response.             *)
(*                                                                                         *)
(* Events (ticket order):                                                                  *)
(*   Reset {strict, sets}   a new recording begins; sets: id |-> certificates (Part 1)     *)
(*   WInv  {set}            the writer is about to hand the set to fabio   = LoadGood      *)
(*   WRet  {set}            the writer knows that it has been stored                       *)
(*   Inv   {g, sni}         client g starts a handshake asking for sni     = HsInv         *)
(*   Ret   {g, set, idx}    it was presented certificate idx of set (idx 0: none) = HsSelect *)
(* Silent steps: Publish (between WInv and WRet) and HsLoad (between Inv and Ret).         *)
EXTENDS CertStore, Json, IOUtils, TLC

TraceLog == ndJsonDeserialize(IOEnv.VERIF_TRACE)

TFold(l) == CASE l = "A" -> "a" [] l = "B" -> "b" [] l = "C" -> "c" [] l = "X" -> "x" [] l = "Q" -> "q"
              [] l = "COM" -> "com" [] l = "Com" -> "com" [] l = "NET" -> "net" [] l = "ORG" -> "org"
              [] OTHER -> l

VARIABLES l, seg
tvars == <<vars, l, seg>>

Ev == TraceLog[l]
Strict == TraceLog[seg].strict = 1
CertsOf(s) == IF s = None THEN <<>> ELSE TraceLog[seg].sets[s]

TInit == TLCSet(1, 0) /\ Init /\ l = 1 /\ seg = 1

TReset == /\ l <= Len(TraceLog) /\ Ev.ev = "Reset"
          /\ reg' = Unit(None) /\ cur' = None
          /\ wpc' = "load" /\ pend' = None /\ last' = None
          /\ clock' = 0 /\ loadAt' = 0 /\ pubSince' = TRUE /\ nloads' = 0
          /\ hs' = [c \in Clients |-> Idle]
          /\ spin' = FALSE /\ badReg' = NoBad /\ hist' = <<>>
          /\ seg' = l /\ l' = l + 1

TWInv == /\ l <= Len(TraceLog) /\ Ev.ev = "WInv"
         /\ LoadGood(Ev.set)
         /\ l' = l + 1 /\ UNCHANGED seg
TPublish == Publish /\ UNCHANGED <<l, seg>>                    \* silent
TWRet == /\ l <= Len(TraceLog) /\ Ev.ev = "WRet"
         /\ wpc = "load" /\ last = Ev.set
         /\ l' = l + 1 /\ UNCHANGED <<vars, seg>>

TInv == /\ l <= Len(TraceLog) /\ Ev.ev = "Inv"
        /\ HsInv(Ev.g, Ev.sni)
        /\ l' = l + 1 /\ UNCHANGED seg

Explains(g, s) == LET idx == Select(CertsOf(s), hs[g].req, Strict) IN
                  /\ Ev.idx = idx
                  /\ idx # 0 => Ev.set = s

\* Response = HsLoad followed by HsSelect.  The value HsLoad read is one of the sets that
\* were in the register between invocation and response, which is exactly the ghost
\* hs[g].seen that HsInv and Publish maintain (CertStore!NoMixture, checked by TLC on the
\* module); choosing it here, at the response, accepts the same traces as placing a silent
\* HsLoad step somewhere in the interval (TSpecEager below does that, at exponential cost).
TRet == /\ l <= Len(TraceLog) /\ Ev.ev = "Ret"
        /\ hs[Ev.g].pc = "inv"
        /\ \E s \in hs[Ev.g].seen : Explains(Ev.g, s)
        /\ hs' = [hs EXCEPT ![Ev.g].pc = "done"]
        /\ UNCHANGED <<reg, wvars, cur>>
        /\ l' = l + 1 /\ UNCHANGED seg

TNext == TReset \/ TWInv \/ TPublish \/ TWRet \/ TInv \/ TRet
TSpec == TInit /\ [][TNext]_tvars

\* ---- the same with an explicit silent HsLoad (cross-check of the reduction above).
\* Without loss of behaviours the read is taken either just before the set is replaced or
\* just before the handshake's response.
THsLoad(g) == /\ \/ wpc = "publish"
                 \/ (l <= Len(TraceLog) /\ Ev.ev = "Ret" /\ Ev.g = g)
              /\ HsLoad(g) /\ UNCHANGED <<l, seg>>
TRetEager == /\ l <= Len(TraceLog) /\ Ev.ev = "Ret"
             /\ HsSelect(Ev.g)
             /\ hs[Ev.g].snap = Unit(hs[Ev.g].snap.certs)
             /\ Explains(Ev.g, hs[Ev.g].snap.certs)
             /\ l' = l + 1 /\ UNCHANGED seg
TNextEager == TReset \/ TWInv \/ TPublish \/ TWRet \/ TInv \/ (\E g \in Clients : THsLoad(g)) \/ TRetEager
TSpecEager == TInit /\ [][TNextEager]_tvars

\* what the future of a validation state depends on (a finished handshake's fields are dead)
TView == <<l, seg, reg, wpc, pend, last, cur,
           [c \in Clients |-> IF hs[c].pc \in {"inv", "loaded"} THEN <<hs[c].pc, hs[c].req, hs[c].seen, hs[c].snap>> ELSE <<>>]>>
HW == TLCSet(1, IF TLCGet(1) < l THEN l ELSE TLCGet(1))
\* on rejection the first event that no behaviour of the specification reaches is printed
Accepted == \/ TLCGet(1) = Len(TraceLog) + 1
            \/ (PrintT(ToJson([stuck |-> TLCGet(1)])) /\ FALSE)
=============================================================================
