-------------------------- MODULE DynListeners_MC --------------------------
(* Bounded universes for DynListeners (X03).                                          *)
(*   A  (listeners): 3 ports, 5 registrations: a1 ':p1' tcp, h1 ':p1' http (a mixed    *)
(*      host), b1 ':p2' tcp, b2 'ip1:p2' tcp (same port, told apart by the local       *)
(*      address), c1 ':p3' tcp                                                          *)
(*   B  (connections): 2 ports, a1 a2 ':p1', b1 ':p2', b2 'ip1:p2', all tcp            *)
(*   H  (harness): A plus a2 ':p1' tcp and the marker ports m1..m4 of the barrier      *)
EXTENDS DynListeners, TLC
MCIps   == {"ip1", "ip2"}
MCPorts == {"p1", "p2", "p3"}
MCInst  == {"a1", "h1", "b1", "b2", "c1"}
MCPortOf == [i \in MCInst |-> CASE i \in {"a1", "h1"} -> "p1" [] i \in {"b1", "b2"} -> "p2" [] OTHER -> "p3"]
MCIpOf   == [i \in MCInst |-> IF i = "b2" THEN "ip1" ELSE "any"]
MCTcp    == {"a1", "b1", "b2", "c1"}

MCPortsB == {"p1", "p2"}
MCInstB  == {"a1", "a2", "b1", "b2"}
MCPortOfB == [i \in MCInstB |-> IF i \in {"a1", "a2"} THEN "p1" ELSE "p2"]
MCIpOfB   == [i \in MCInstB |-> IF i = "b2" THEN "ip1" ELSE "any"]
MCTcpB    == MCInstB

MCMarkers == {"m1", "m2", "m3", "m4"}
MCPortsH  == MCPorts \cup MCMarkers
MCInstG   == MCInst \cup {"a2"}                 \* generator universe (no markers)
MCInstH   == MCInstG \cup MCMarkers
MCPortOfH == [i \in MCInstH |-> CASE i \in {"a1", "a2", "h1"} -> "p1" [] i \in {"b1", "b2"} -> "p2"
                                  [] i = "c1" -> "p3" [] OTHER -> i]
MCIpOfH   == [i \in MCInstH |-> IF i = "b2" THEN "ip1" ELSE "any"]
MCTcpH    == MCInstH \ {"h1"}
\* shapes of generated histories (DynListeners_Gen)
ShapeAny    == <<>>
ShapeTunnel == <<"table", "hold", "table", "check">>     \* a tunnel kept across a change of the table
ASSUME WantedIsAdvertised
=============================================================================
