-------------------------- MODULE DynListeners --------------------------
(***************************************************************************)
(* X03(a) - life cycle of fabio's TCP-DYNAMIC listeners                    *)
(* (main.startServers case "tcp-dynamic", proxy.CloseProxy,                *)
(* proxy.ListenAndServeTCP, tcp.Server, tcp.DynamicProxy).                 *)
(*                                                                         *)
(* Documentation transcribed (docs/content/feature/tcp-dynamic-proxy.md,   *)
(* docs/content/ref/proxy.addr.md, fabio.properties):                      *)
(*   D1 "the listener is started from the Consul urlprefix tag ... the     *)
(*       service needs to advertise urlprefix-[ip]:port proto=tcp ... The  *)
(*       TCP listener is started for the given TCP ports"                  *)
(*   D2 "Connections are forwarded to services based on the combination    *)
(*       of ip:port" (several services may share one port, told apart by   *)
(*       the local address the client connected to)                        *)
(*   D3 "refresh: Sets the refresh interval to check the route table for   *)
(*       updates" (the listeners follow the table, one round per interval) *)
(*                                                                         *)
(* The world: the active routing table (a set of registrations, each       *)
(* advertising [ip]:port with a scheme), foreign processes that occupy     *)
(* ports, clients that connect to ip:port.                                 *)
(*                                                                         *)
(* The code, one action per step that something else can observe:          *)
(*   TickBegin      time.Sleep(refresh) is over: ONE atomic load of the    *)
(*                  table, ports := Wanted(table)                          *)
(*   CloseL(p)      proxy.CloseProxy(p), first half: listener closed       *)
(*   KillT          ... second half (tcp.Server.closeConns): every         *)
(*                  established tunnel of that listener is closed          *)
(*   StartStep(p)   probe net.Listen(p): busy -> "in use" (retried in the  *)
(*                  next round) | free -> probe closed, a goroutine is     *)
(*                  started which binds later (ProbeThenBind) or - the     *)
(*                  repaired design - the listener is bound atomically     *)
(*   Bind(p)/BindFail(p)   the goroutine's ListenAndServeTCP: bound, or    *)
(*                  the port was taken meanwhile -> exit.Fatal             *)
(*   TickEnd        lastPorts := ports                                     *)
(*   ConnSyn/ConnServe/ConnKill ...   a client connection: kernel accept,  *)
(*                  DynamicProxy.ServeTCP's lookup (ip:port first, then    *)
(*                  :port), tear-down by a Close                           *)
(***************************************************************************)
EXTENDS Integers, FiniteSets

CONSTANTS
    Ports,              \* abstract TCP ports
    Ips,                \* local addresses a client can reach fabio through
    Inst,               \* registrations (= upstream targets; each identifies itself to a client)
    PortOf,             \* [Inst -> Ports]            port of the advertised prefix
    IpOf,               \* [Inst -> Ips \cup {"any"}] host of the advertised prefix ("any" = ':port')
    Tcp,                \* \subseteq Inst: advertised with proto=tcp (the others: http)
    Clients,
    MaxChanges,         \* bound on table changes
    MaxForeign,         \* bound on foreign bind/release steps
    ProbeThenBind,      \* TRUE = the code: "probe, close the probe, let a goroutine bind later".
                        \*   Deviation: the port can be lost in between (to a foreign process or to
                        \*   the next round's probe) and then the process exits.  FALSE = atomic try-listen.
    CloseKillsTunnels   \* TRUE = the code: closing the listener of a port that left the table also
                        \*   closes its established tunnels (the documentation is silent)

AnyIp == "any"
HostIps == Ips \cup {AnyIp}

\* ---- what a table means for the listeners (D1) and for a connection (D2)
Routes(t, ip, p) == {i \in t : PortOf[i] = p /\ IpOf[i] = ip}
\* the code: a port is wanted when some host '[ip]:port' has targets and all of them are tcp
Wanted(t)     == {p \in Ports : \E ip \in HostIps : Routes(t, ip, p) # {} /\ Routes(t, ip, p) \subseteq Tcp}
\* the documentation: bounds.  A port somebody advertises with proto=tcp on a host nobody else
\* uses with another scheme MUST get a listener; a port nobody advertises with proto=tcp MUST NOT.
MustListen(t) == Wanted(t)
MayListen(t)  == {PortOf[i] : i \in t \cap Tcp}
\* D2: the targets of 'ip:port' if that host has routes, otherwise those of ':port'
Lookup(t, ip, p) == IF Routes(t, ip, p) # {} THEN Routes(t, ip, p) ELSE Routes(t, AnyIp, p)

VARIABLES
    table, nchg,                \* active routing table (set of registrations), change counter
    foreign, nfor,              \* ports held by other processes
    lsn,                        \* ports on which fabio has a bound, accepting listener
    pc, ports, toClose, todo, lastPorts, killing,   \* the refresh loop
    spawned,                    \* [Ports -> 0..2] start goroutines that have not bound yet
    crashed,                    \* exit.Fatal was reached
    dirty,                      \* ghost: table/foreign changed since the current/last round began
    cst, cport, cip, cres,      \* per client: pc, where it connected, outcome
    orph,                       \* clients accepted by a listener that was closed before they were served
    dead,                       \* clients whose established tunnel fabio has closed
    cseen                       \* ghost: per client, registrations in some table since the connect began

envvars  == <<table, nchg, foreign, nfor>>
loopvars == <<pc, ports, toClose, todo, lastPorts, killing>>
cvars    == <<cst, cport, cip, cres>>
vars     == <<envvars, lsn, loopvars, spawned, crashed, dirty, cvars, orph, dead, cseen>>

Free(p) == p \notin lsn /\ p \notin foreign
InFlight(c) == cst[c] \in {"syn", "queued", "fq"}

Init ==
    /\ table = {} /\ nchg = 0 /\ foreign = {} /\ nfor = 0 /\ lsn = {}
    /\ pc = "sleep" /\ ports = {} /\ toClose = {} /\ todo = {} /\ lastPorts = {} /\ killing = {}
    /\ spawned = [p \in Ports |-> 0] /\ crashed = FALSE /\ dirty = FALSE
    /\ cst = [c \in Clients |-> "idle"] /\ cport = [c \in Clients |-> CHOOSE p \in Ports : TRUE]
    /\ cip = [c \in Clients |-> CHOOSE i \in Ips : TRUE] /\ cres = [c \in Clients |-> ""]
    /\ orph = {} /\ dead = {} /\ cseen = [c \in Clients |-> {}]

-----------------------------------------------------------------------------
\* ---- the world
SetTable(t) ==          \* route.SetTable: one atomic store
    /\ table' = t
    /\ cseen' = [c \in Clients |-> IF cst[c] \in {"syn", "queued"} THEN cseen[c] \cup t ELSE cseen[c]]
    /\ dirty' = TRUE
TableChange(t) ==
    /\ nchg < MaxChanges /\ t # table /\ nchg' = nchg + 1 /\ SetTable(t)
    /\ UNCHANGED <<foreign, nfor, lsn, loopvars, spawned, crashed, cvars, orph, dead>>
ForeignBindOk(p) == Free(p)     \* the kernel: one listener per port
ForeignBind(p) ==
    /\ nfor < MaxForeign /\ ForeignBindOk(p) /\ foreign' = foreign \cup {p} /\ nfor' = nfor + 1 /\ dirty' = TRUE
    /\ UNCHANGED <<table, nchg, lsn, loopvars, spawned, crashed, cvars, orph, dead, cseen>>
ForeignRelease(p) ==
    /\ nfor < MaxForeign /\ p \in foreign /\ foreign' = foreign \ {p} /\ nfor' = nfor + 1 /\ dirty' = TRUE
    /\ UNCHANGED <<table, nchg, lsn, loopvars, spawned, crashed, cvars, orph, dead, cseen>>

\* ---- the refresh loop
TickBegin ==
    /\ pc = "sleep" /\ ~crashed
    /\ ports' = Wanted(table) /\ toClose' = lastPorts \ Wanted(table)
    \* a wanted port on which fabio itself listens is "in use" and stays so during the round (only
    \* ports outside `ports` are closed): its probe is a no-op and is not modelled as a step
    /\ todo' = Wanted(table) \ lsn
    /\ pc' = "close" /\ dirty' = FALSE
    /\ UNCHANGED <<envvars, lsn, lastPorts, killing, spawned, crashed, cvars, orph, dead, cseen>>
CloseL(p) ==            \* CloseProxy(p): nothing registered under p -> nothing happens
    /\ pc = "close" /\ killing = {} /\ p \in toClose /\ ~crashed
    /\ toClose' = toClose \ {p}
    /\ IF p \in lsn
       THEN /\ lsn' = lsn \ {p} /\ killing' = {p}
            /\ orph' = orph \cup {c \in Clients : cst[c] = "queued" /\ cport[c] = p}
       ELSE UNCHANGED <<lsn, killing, orph>>
    /\ UNCHANGED <<envvars, pc, ports, todo, lastPorts, spawned, crashed, dirty, cvars, dead, cseen>>
KillT ==
    /\ pc = "close" /\ killing # {} /\ ~crashed
    /\ dead' = IF CloseKillsTunnels
               THEN dead \cup {c \in Clients : cst[c] \in {"held", "chk"} /\ cport[c] \in killing}
               ELSE dead
    /\ killing' = {}
    /\ UNCHANGED <<envvars, lsn, pc, ports, toClose, todo, lastPorts, spawned, crashed, dirty, cvars, orph, cseen>>
CloseDone ==
    /\ pc = "close" /\ toClose = {} /\ killing = {} /\ ~crashed /\ pc' = "start"
    /\ UNCHANGED <<envvars, lsn, ports, toClose, todo, lastPorts, killing, spawned, crashed, dirty, cvars, orph, dead, cseen>>
StartStep(p) ==
    /\ pc = "start" /\ p \in todo /\ ~crashed
    /\ todo' = todo \ {p}
    /\ IF ~Free(p) THEN UNCHANGED <<lsn, spawned>>                       \* "in use": retried next round
       ELSE IF ProbeThenBind THEN spawned' = [spawned EXCEPT ![p] = @ + 1] /\ UNCHANGED lsn
       ELSE lsn' = lsn \cup {p} /\ UNCHANGED spawned
    /\ UNCHANGED <<envvars, pc, ports, toClose, lastPorts, killing, crashed, dirty, cvars, orph, dead, cseen>>
Bind(p) ==              \* the start goroutine's ListenAndServeTCP
    /\ spawned[p] > 0 /\ Free(p) /\ ~crashed
    /\ spawned' = [spawned EXCEPT ![p] = @ - 1] /\ lsn' = lsn \cup {p}
    /\ UNCHANGED <<envvars, loopvars, crashed, dirty, cvars, orph, dead, cseen>>
BindFail(p) ==          \* "listen: Fail to listen ... address already in use" -> exit.Fatal
    /\ spawned[p] > 0 /\ ~Free(p) /\ ~crashed
    /\ crashed' = TRUE /\ lsn' = {}
    /\ UNCHANGED <<envvars, loopvars, spawned, dirty, cvars, orph, dead, cseen>>
TickEnd ==
    /\ pc = "start" /\ todo = {} /\ ~crashed
    /\ lastPorts' = ports /\ pc' = "sleep"
    /\ UNCHANGED <<envvars, lsn, ports, toClose, todo, killing, spawned, crashed, dirty, cvars, orph, dead, cseen>>

Loop == TickBegin \/ (\E p \in Ports : CloseL(p)) \/ KillT \/ CloseDone
        \/ (\E p \in Ports : StartStep(p) \/ Bind(p) \/ BindFail(p)) \/ TickEnd

\* ---- a client connection
CU == UNCHANGED <<envvars, lsn, loopvars, spawned, crashed, dirty>>
ConnInv(c, ip, p) ==
    /\ cst[c] = "idle"
    /\ cst' = [cst EXCEPT ![c] = "syn"] /\ cport' = [cport EXCEPT ![c] = p] /\ cip' = [cip EXCEPT ![c] = ip]
    /\ cres' = [cres EXCEPT ![c] = ""] /\ cseen' = [cseen EXCEPT ![c] = table]
    /\ CU /\ UNCHANGED <<orph, dead>>
\* the probe socket of StartStep exists for an instant: a SYN that hits it is accepted and reset
ProbeWindow(p) == pc = "start" /\ p \in todo /\ Free(p)
ConnSyn(c) ==           \* the kernel answers the SYN
    /\ cst[c] = "syn"
    /\ \/ cport[c] \in foreign /\ cst' = [cst EXCEPT ![c] = "fq"] /\ UNCHANGED cres
       \/ cport[c] \in lsn /\ cst' = [cst EXCEPT ![c] = "queued"] /\ UNCHANGED cres
       \/ Free(cport[c]) /\ cst' = [cst EXCEPT ![c] = "ret"] /\ cres' = [cres EXCEPT ![c] = "refused"]
       \/ ProbeWindow(cport[c]) /\ cst' = [cst EXCEPT ![c] = "ret"] /\ cres' = [cres EXCEPT ![c] = "closed"]
    /\ CU /\ UNCHANGED <<cport, cip, orph, dead, cseen>>
ConnForeign(c) ==       \* the foreign process answers, or it released the port with the connection queued
    /\ cst[c] = "fq"
    /\ cres' = [cres EXCEPT ![c] = IF cport[c] \in foreign THEN "foreign" ELSE "closed"]
    /\ cst' = [cst EXCEPT ![c] = "ret"]
    /\ CU /\ UNCHANGED <<cport, cip, orph, dead, cseen>>
ConnServe(c) ==         \* DynamicProxy.ServeTCP: one lookup in the table that is active now
    /\ cst[c] = "queued"
    /\ \/ \E i \in Lookup(table, cip[c], cport[c]) : cres' = [cres EXCEPT ![c] = i]
       \/ Lookup(table, cip[c], cport[c]) = {} /\ cres' = [cres EXCEPT ![c] = "closed"]
    /\ cst' = [cst EXCEPT ![c] = "ret"] /\ orph' = orph \ {c}
    /\ CU /\ UNCHANGED <<cport, cip, dead, cseen>>
ConnKill(c) ==          \* its listener was closed first: reset in the accept queue / closed by closeConns
    /\ cst[c] = "queued" /\ c \in orph
    /\ cres' = [cres EXCEPT ![c] = "closed"] /\ cst' = [cst EXCEPT ![c] = "ret"] /\ orph' = orph \ {c}
    /\ CU /\ UNCHANGED <<cport, cip, dead, cseen>>
ConnRet(c, hold) ==     \* the client has its outcome; it may keep an established tunnel
    /\ cst[c] = "ret"
    /\ cst' = [cst EXCEPT ![c] = IF hold /\ cres[c] \in Inst THEN "held" ELSE "idle"]
    /\ CU /\ UNCHANGED <<cport, cip, cres, orph, dead, cseen>>
ChkInv(c) ==            \* the client sends a ping through its tunnel
    /\ cst[c] = "held" /\ cst' = [cst EXCEPT ![c] = "chk"]
    /\ CU /\ UNCHANGED <<cport, cip, cres, orph, dead, cseen>>
ChkRet(c) ==            \* echo -> alive (stays held) | EOF/reset -> broken (gone)
    /\ cst[c] = "chk"
    /\ cres' = [cres EXCEPT ![c] = IF c \in dead THEN "broken" ELSE "alive"]
    /\ cst' = [cst EXCEPT ![c] = IF c \in dead THEN "idle" ELSE "held"]
    /\ dead' = dead \ {c}
    /\ CU /\ UNCHANGED <<cport, cip, orph, cseen>>
Drop(c) ==
    /\ cst[c] = "held" /\ cst' = [cst EXCEPT ![c] = "idle"] /\ dead' = dead \ {c}
    /\ CU /\ UNCHANGED <<cport, cip, cres, orph, cseen>>

Client == \E c \in Clients :
             \/ \E ip \in Ips, p \in Ports : ConnInv(c, ip, p)
             \/ ConnSyn(c) \/ ConnForeign(c) \/ ConnServe(c) \/ ConnKill(c)
             \/ ConnRet(c, TRUE) \/ ConnRet(c, FALSE) \/ ChkInv(c) \/ ChkRet(c) \/ Drop(c)

Env  == (\E t \in SUBSET Inst : TableChange(t)) \/ (\E p \in Ports : ForeignBind(p) \/ ForeignRelease(p))
Next == Env \/ Loop \/ Client
Spec == Init /\ [][Next]_vars /\ WF_vars(Loop)

-----------------------------------------------------------------------------
TypeOK ==
    /\ table \subseteq Inst /\ foreign \subseteq Ports /\ lsn \subseteq Ports
    /\ pc \in {"sleep", "close", "start"} /\ ports \subseteq Ports /\ toClose \subseteq Ports
    /\ todo \subseteq Ports /\ lastPorts \subseteq Ports /\ killing \subseteq Ports /\ Cardinality(killing) <= 1
    /\ spawned \in [Ports -> 0..3] /\ crashed \in BOOLEAN
    /\ cst \in [Clients -> {"idle", "syn", "queued", "fq", "ret", "held", "chk"}]
    /\ orph \subseteq Clients /\ dead \subseteq Clients

\* the kernel's rule, which the loop relies on instead of consulting its own registry
Exclusive == lsn \cap foreign = {}

\* "no listener is started twice" / "a port in use is skipped and retried later": the process survives
NoCrash == ~crashed

\* D1, upper bound: fabio listens on nothing the table of the current or of the previous round did not want
OnlyWanted == lsn \subseteq (lastPorts \cup ports)
\* ... and never on a port for which no table since the previous round advertised a tcp service
\* (checked on traces through OnlyWanted and Wanted \subseteq MayListen)
WantedIsAdvertised == \A t \in SUBSET Inst : Wanted(t) \subseteq MayListen(t)

\* D1 + D3 at quiescence: a full round after the last change of table / foreign occupation, the
\* listeners are exactly the wanted ports that nobody else holds
Settled == pc = "sleep" /\ ~dirty /\ ~crashed /\ \A p \in Ports : spawned[p] = 0
QuiescentExact == Settled => (lsn = Wanted(table) \ foreign /\ lastPorts = Wanted(table))

\* D2: a connection accepted on ip:port is tunnelled to a registration of 'ip:port' or ':port', one
\* that was in a table active between the connect and the answer - never to another port's target
RoutedRight ==
    \A c \in Clients : (cst[c] \in {"ret", "held", "chk"} /\ cres[c] \in Inst) =>
        /\ PortOf[cres[c]] = cport[c] /\ IpOf[cres[c]] \in {cip[c], AnyIp}
        /\ cres[c] \in cseen[c]

\* a refresh round tears down only tunnels of ports that the table it read no longer wants
NoCollateralTeardown ==
    [][\A c \in dead' \ dead : cport[c] \notin ports /\ cport[c] \in lastPorts]_vars
\* a round that finds the table as the previous one did changes no listener of a port it still wants
KeepsWanted == [][\A p \in lsn \ lsn' : crashed' \/ p \notin ports]_vars

\* liveness (D1 + D3): once table and foreign occupation stop changing, a wanted free port is
\* eventually listened on, an unwanted one eventually is not
EventuallyExact == <>[](crashed \/ lsn = Wanted(table) \ foreign)
=============================================================================
