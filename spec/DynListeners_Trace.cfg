SPECIFICATION TSpec
CONSTANTS
  Ports <- MCPortsH
  Ips <- MCIps
  Inst <- MCInstH
  PortOf <- MCPortOfH
  IpOf <- MCIpOfH
  Tcp <- MCTcpH
  Clients = {"k0", "k1", "k2", "k3", "k4"}
  MaxChanges = 0
  MaxForeign = 0
  ProbeThenBind = FALSE
  CloseKillsTunnels = TRUE
VIEW TView
CONSTRAINT HW
INVARIANTS TypeOK Exclusive OnlyWanted
POSTCONDITION Accepted
CHECK_DEADLOCK FALSE
