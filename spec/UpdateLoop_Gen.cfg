SPECIFICATION GSpec
CONSTANTS
  SvcMsgs <- MCSvc
  ManMsgs <- MCMan
  Bad <- MCBad
  Den <- MCDen
  MaxSteps = 4
INVARIANTS GConsistent
CHECK_DEADLOCK FALSE
